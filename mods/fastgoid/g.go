// Package fastgoid returns the address of the running goroutine's g structure (amd64 only). It is a
// real module (not an overlay package) because the assembler needs a real directory.
package fastgoid

// Getg returns the address of the current g.
func Getg() uintptr
