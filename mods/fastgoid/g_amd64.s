#include "textflag.h"

// func Getg() uintptr
TEXT ·Getg(SB),NOSPLIT,$0-8
	MOVQ (TLS), AX
	MOVQ AX, ret+0(FP)
	RET
