module verif.local/fastgoid

go 1.22
