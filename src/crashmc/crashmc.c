// crashmc — ptrace supervisor that enumerates the crash points of a process with respect to one
// directory tree.
//
//   crashmc --root DIR --snap OUT [--ack FILE] [--kill K] -- cmd args...
//
// The command (and every thread / child it creates) is traced. Every system call that can change the
// tree under DIR (creating or truncating open, write, rename, unlink, mkdir, rmdir, truncate, link,
// symlink) is a *mutating call*; they are numbered k = 1..K in the order they are allowed to proceed
// and are serialised (while one is in flight, another thread's mutating call is held at its entry).
// Before mutating call k proceeds, DIR is copied to OUT/k (and FILE to OUT/k.ack): with the tracee
// stopped at the entry of the call, the tree is exactly what a process killed at that instant leaves
// behind (os.File has no user-space buffer). OUT/trace lists the calls. With --kill K the tracees
// really are killed with SIGKILL at the entry of call K and nothing is snapshotted: used to validate
// the snapshot method itself.
#define _GNU_SOURCE
#include <errno.h>
#include <fcntl.h>
#include <limits.h>
#include <signal.h>
#include <stdio.h>
#include <stdlib.h>
#include <string.h>
#include <sys/ptrace.h>
#include <sys/stat.h>
#include <sys/syscall.h>
#include <sys/types.h>
#include <sys/uio.h>
#include <sys/user.h>
#include <sys/wait.h>
#include <unistd.h>

#define MAXT 4096

static char root[PATH_MAX], snapdir[PATH_MAX], ackfile[PATH_MAX];
static long killat = -1;
static FILE *trace;

struct tr {
  pid_t pid;
  int insys;     // between entry and exit of a syscall
  int mutating;  // the syscall in flight is a mutating one
  int pending;   // held at the entry of a mutating call, waiting for its turn
  int used;
};
static struct tr ts[MAXT];
static int ntr;
static pid_t inflight;  // pid whose mutating call is executing
static long K;

static struct tr *get(pid_t p) {
  for (int i = 0; i < ntr; i++)
    if (ts[i].used && ts[i].pid == p) return &ts[i];
  for (int i = 0; i < MAXT; i++)
    if (!ts[i].used) {
      memset(&ts[i], 0, sizeof ts[i]);
      ts[i].used = 1;
      ts[i].pid = p;
      if (i >= ntr) ntr = i + 1;
      return &ts[i];
    }
  fprintf(stderr, "crashmc: too many tracees\n");
  exit(3);
}

static int nlive(void) {
  int n = 0;
  for (int i = 0; i < ntr; i++) n += ts[i].used;
  return n;
}

static int readstr(pid_t pid, unsigned long addr, char *buf, size_t n) {
  struct iovec l = {buf, n - 1}, r = {(void *)addr, n - 1};
  // read in small pieces so that a string near the end of a mapping still works
  size_t got = 0;
  while (got < n - 1) {
    size_t chunk = 256 - ((addr + got) & 255);
    if (chunk > n - 1 - got) chunk = n - 1 - got;
    l.iov_base = buf + got;
    l.iov_len = chunk;
    r.iov_base = (void *)(addr + got);
    r.iov_len = chunk;
    ssize_t k = process_vm_readv(pid, &l, 1, &r, 1, 0);
    if (k <= 0) break;
    for (ssize_t i = 0; i < k; i++)
      if (buf[got + i] == 0) return 0;
    got += k;
  }
  buf[got] = 0;
  return got ? 0 : -1;
}

static int under(const char *p) {
  size_t n = strlen(root);
  return strncmp(p, root, n) == 0 && (p[n] == '/' || p[n] == 0);
}

// resolve (dirfd, path) of the tracee to an absolute path (no symlink resolution of the last part)
static void resolve(pid_t pid, int dirfd, const char *p, char *out) {
  if (p[0] == '/') {
    snprintf(out, PATH_MAX, "%s", p);
    return;
  }
  char lnk[64], base[PATH_MAX];
  if (dirfd == AT_FDCWD)
    snprintf(lnk, sizeof lnk, "/proc/%d/cwd", pid);
  else
    snprintf(lnk, sizeof lnk, "/proc/%d/fd/%d", pid, dirfd);
  ssize_t k = readlink(lnk, base, sizeof base - 1);
  if (k < 0) k = 0;
  base[k] = 0;
  snprintf(out, PATH_MAX, "%s/%s", base, p);
}

static int fdpath(pid_t pid, int fd, char *out) {
  char lnk[64];
  snprintf(lnk, sizeof lnk, "/proc/%d/fd/%d", pid, fd);
  ssize_t k = readlink(lnk, out, PATH_MAX - 1);
  if (k < 0) return -1;
  out[k] = 0;
  return 0;
}

// classify returns 1 if the syscall at entry is a mutating call under root; desc describes it
static int classify(pid_t pid, struct user_regs_struct *r, char *desc) {
  long nr = r->orig_rax;
  char p[PATH_MAX], q[PATH_MAX], a[PATH_MAX], b[PATH_MAX];
  switch (nr) {
    case SYS_openat:
    case SYS_open:
    case SYS_creat: {
      int dirfd = AT_FDCWD;
      unsigned long pa;
      long flags;
      if (nr == SYS_openat) {
        dirfd = (int)r->rdi;
        pa = r->rsi;
        flags = r->rdx;
      } else if (nr == SYS_open) {
        pa = r->rdi;
        flags = r->rsi;
      } else {
        pa = r->rdi;
        flags = O_CREAT | O_TRUNC | O_WRONLY;
      }
      if (!(flags & (O_CREAT | O_TRUNC))) return 0;
      if (readstr(pid, pa, p, sizeof p)) return 0;
      resolve(pid, dirfd, p, a);
      if (!under(a)) return 0;
      snprintf(desc, PATH_MAX + 64, "open%s%s %s", (flags & O_CREAT) ? "+creat" : "", (flags & O_TRUNC) ? "+trunc" : "", a);
      return 1;
    }
    case SYS_write:
    case SYS_pwrite64:
    case SYS_writev:
    case SYS_pwritev:
    case SYS_ftruncate:
    case SYS_fallocate: {
      if (fdpath(pid, (int)r->rdi, a)) return 0;
      if (!under(a)) return 0;
      snprintf(desc, PATH_MAX + 64, "%s %s", nr == SYS_ftruncate ? "ftruncate" : (nr == SYS_fallocate ? "fallocate" : "write"), a);
      return 1;
    }
    case SYS_truncate:
      if (readstr(pid, r->rdi, p, sizeof p)) return 0;
      resolve(pid, AT_FDCWD, p, a);
      if (!under(a)) return 0;
      snprintf(desc, PATH_MAX + 64, "truncate %s", a);
      return 1;
    case SYS_rename:
    case SYS_renameat:
    case SYS_renameat2:
    case SYS_link:
    case SYS_linkat:
    case SYS_symlink:
    case SYS_symlinkat: {
      int d1 = AT_FDCWD, d2 = AT_FDCWD;
      unsigned long p1, p2;
      const char *nm = "rename";
      if (nr == SYS_rename || nr == SYS_link) {
        p1 = r->rdi;
        p2 = r->rsi;
        if (nr == SYS_link) nm = "link";
      } else if (nr == SYS_symlink) {
        p1 = r->rdi;
        p2 = r->rsi;
        nm = "symlink";
      } else if (nr == SYS_symlinkat) {
        p1 = r->rdi;
        d2 = (int)r->rsi;
        p2 = r->rdx;
        nm = "symlink";
      } else {
        d1 = (int)r->rdi;
        p1 = r->rsi;
        d2 = (int)r->rdx;
        p2 = r->r10;
        if (nr == SYS_linkat) nm = "link";
      }
      if (readstr(pid, p1, p, sizeof p) || readstr(pid, p2, q, sizeof q)) return 0;
      resolve(pid, d1, p, a);
      resolve(pid, d2, q, b);
      if (!under(b) && !(under(a) && nm[0] == 'r')) return 0;
      snprintf(desc, 2 * PATH_MAX + 64, "%s %s -> %s", nm, a, b);
      return 1;
    }
    case SYS_unlink:
    case SYS_rmdir:
    case SYS_mkdir:
      if (readstr(pid, r->rdi, p, sizeof p)) return 0;
      resolve(pid, AT_FDCWD, p, a);
      if (!under(a)) return 0;
      snprintf(desc, PATH_MAX + 64, "%s %s", nr == SYS_mkdir ? "mkdir" : (nr == SYS_rmdir ? "rmdir" : "unlink"), a);
      return 1;
    case SYS_unlinkat:
    case SYS_mkdirat:
      if (readstr(pid, r->rsi, p, sizeof p)) return 0;
      resolve(pid, (int)r->rdi, p, a);
      if (!under(a)) return 0;
      snprintf(desc, PATH_MAX + 64, "%s %s", nr == SYS_mkdirat ? "mkdir" : "unlink", a);
      return 1;
  }
  return 0;
}

static void run(const char *fmt, ...) __attribute__((format(printf, 1, 2)));
static void runcp(const char *src, const char *dst) {
  pid_t c = fork();
  if (c == 0) {
    execlp("cp", "cp", "-a", src, dst, (char *)NULL);
    _exit(127);
  }
  int st;
  // the helper is not traced; wait for exactly it
  while (waitpid(c, &st, 0) < 0 && errno == EINTR) {
  }
}

static void snapshot(long k) {
  char dst[PATH_MAX + 32];
  snprintf(dst, sizeof dst, "%s/%ld", snapdir, k);
  struct stat sb;
  if (stat(root, &sb) == 0)
    runcp(root, dst);
  else
    mkdir(dst, 0777);
  if (ackfile[0] && stat(ackfile, &sb) == 0) {
    snprintf(dst, sizeof dst, "%s/%ld.ack", snapdir, k);
    runcp(ackfile, dst);
  }
}

static void killall_tracees(void) {
  for (int i = 0; i < ntr; i++)
    if (ts[i].used) kill(ts[i].pid, SIGKILL);
}

// proceed lets a tracee held at the entry of a mutating call go ahead
static void proceed(struct tr *t, const char *desc) {
  K++;
  if (trace) {
    fprintf(trace, "%ld %s\n", K, desc);
    fflush(trace);
  }
  if (killat > 0 && K == killat) {
    killall_tracees();
    return;
  }
  if (killat < 0) snapshot(K);
  inflight = t->pid;
  t->pending = 0;
  t->mutating = 1;
  ptrace(PTRACE_SYSCALL, t->pid, 0, 0);
}

static char pdesc[MAXT][2 * PATH_MAX + 64];

int main(int argc, char **argv) {
  int i = 1;
  for (; i < argc; i++) {
    if (!strcmp(argv[i], "--root") && i + 1 < argc)
      realpath(argv[++i], root) ? 0 : snprintf(root, sizeof root, "%s", argv[i]);
    else if (!strcmp(argv[i], "--snap") && i + 1 < argc)
      snprintf(snapdir, sizeof snapdir, "%s", argv[++i]);
    else if (!strcmp(argv[i], "--ack") && i + 1 < argc)
      snprintf(ackfile, sizeof ackfile, "%s", argv[++i]);
    else if (!strcmp(argv[i], "--kill") && i + 1 < argc)
      killat = atol(argv[++i]);
    else if (!strcmp(argv[i], "--")) {
      i++;
      break;
    }
  }
  if (!root[0] || !snapdir[0] || i >= argc) {
    fprintf(stderr, "usage: crashmc --root DIR --snap OUT [--ack FILE] [--kill K] -- cmd args...\n");
    return 2;
  }
  mkdir(snapdir, 0777);
  char tp[PATH_MAX + 16];
  snprintf(tp, sizeof tp, "%s/trace", snapdir);
  trace = fopen(tp, "w");
  pid_t child = fork();
  if (child == 0) {
    ptrace(PTRACE_TRACEME, 0, 0, 0);
    raise(SIGSTOP);
    execvp(argv[i], argv + i);
    perror("execvp");
    _exit(127);
  }
  int st;
  waitpid(child, &st, 0);
  ptrace(PTRACE_SETOPTIONS, child, 0,
         PTRACE_O_TRACESYSGOOD | PTRACE_O_TRACECLONE | PTRACE_O_TRACEFORK | PTRACE_O_TRACEVFORK | PTRACE_O_EXITKILL);
  get(child);
  ptrace(PTRACE_SYSCALL, child, 0, 0);
  int exitcode = 0;
  while (nlive() > 0) {
    pid_t p = waitpid(-1, &st, __WALL);
    if (p < 0) {
      if (errno == EINTR) continue;
      break;
    }
    struct tr *t = get(p);
    if (WIFEXITED(st) || WIFSIGNALED(st)) {
      if (p == child) exitcode = WIFEXITED(st) ? WEXITSTATUS(st) : 128 + WTERMSIG(st);
      if (inflight == p) inflight = 0;
      t->used = 0;
      // a held tracee may now take its turn
      if (!inflight)
        for (int j = 0; j < ntr; j++)
          if (ts[j].used && ts[j].pending) {
            proceed(&ts[j], pdesc[j]);
            break;
          }
      continue;
    }
    if (!WIFSTOPPED(st)) continue;
    int sig = WSTOPSIG(st);
    if (sig == (SIGTRAP | 0x80)) {
      // ask the kernel whether this is an entry or an exit stop (robust against execve and
      // signal-delivery stops in between); fall back to toggling
      unsigned char info[128];
      long got = ptrace(0x420e /* PTRACE_GET_SYSCALL_INFO */, p, sizeof info, info);
      int entry = !t->insys;
      if (got > 0 && (info[0] == 1 || info[0] == 2)) entry = info[0] == 1;
      if (entry) {
        // syscall entry
        t->insys = 1;
        struct user_regs_struct r;
        if (ptrace(PTRACE_GETREGS, p, 0, &r) == 0) {
          int idx = (int)(t - ts);
          if (classify(p, &r, pdesc[idx])) {
            if (inflight) {
              t->pending = 1;  // stays stopped until the call in flight has returned
              continue;
            }
            proceed(t, pdesc[idx]);
            continue;
          }
        }
        ptrace(PTRACE_SYSCALL, p, 0, 0);
      } else {
        // syscall exit
        t->insys = 0;
        if (t->mutating) {
          t->mutating = 0;
          if (inflight == p) inflight = 0;
          for (int j = 0; j < ntr; j++)
            if (ts[j].used && ts[j].pending) {
              proceed(&ts[j], pdesc[j]);
              break;
            }
        }
        ptrace(PTRACE_SYSCALL, p, 0, 0);
      }
      continue;
    }
    if (sig == SIGTRAP && (st >> 16) != 0) {
      // ptrace event (clone/fork/vfork): the new tracee is attached automatically
      ptrace(PTRACE_SYSCALL, p, 0, 0);
      continue;
    }
    if (sig == SIGSTOP && !t->insys && t->pid != child) {
      // initial stop of an auto-attached thread
      ptrace(PTRACE_SYSCALL, p, 0, 0);
      continue;
    }
    // any other signal (Go uses SIGURG for pre-emption): deliver it unchanged
    ptrace(PTRACE_SYSCALL, p, 0, sig == SIGTRAP ? 0 : sig);
  }
  if (trace) fclose(trace);
  char kp[PATH_MAX + 16];
  snprintf(kp, sizeof kp, "%s/K", snapdir);
  FILE *kf = fopen(kp, "w");
  if (kf) {
    fprintf(kf, "%ld\n", K);
    fclose(kf);
  }
  return exitcode;
}
