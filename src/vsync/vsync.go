// Package vsync stands in for "sync" in regclient's own files when a harness is built through the
// verification overlay. With no scheduler installed every type behaves exactly like its sync
// counterpart (it *is* the sync type, or delegates to it). With a scheduler installed, Mutex.Lock
// and Mutex.TryLock become scheduling points of the controlled scheduler (package qsched).
package vsync

import (
	"sync"
	"sync/atomic"
)

type (
	WaitGroup = sync.WaitGroup
	Once      = sync.Once
	Map       = sync.Map
	Pool      = sync.Pool
	Cond      = sync.Cond
	Locker    = sync.Locker
)

func NewCond(l Locker) *Cond { return sync.NewCond(l) }

// Scheduler is implemented by qsched.
type Scheduler interface {
	// BeforeLock parks the calling goroutine until the scheduler grants it the mutex.
	// It returns false if the caller is not under this scheduler's control (then the real mutex is used).
	BeforeLock(m *Mutex) bool
	// BeforeTryLock is a scheduling point that never blocks.
	BeforeTryLock(m *Mutex) bool
	AfterUnlock(m *Mutex)
}

// FSPointer is implemented by schedulers that offer scheduling points at file operations.
type FSPointer interface{ FSPoint(label string) }

// FSPoint is called by the os stand-in (package vos) before every file operation of the layout code.
func FSPoint(label string) {
	if b := active.Load(); b != nil {
		if f, ok := b.s.(FSPointer); ok {
			f.FSPoint(label)
		}
	}
}

var active atomic.Pointer[schedBox]

type schedBox struct{ s Scheduler }

func Install(s Scheduler) {
	if s == nil {
		active.Store(nil)
		return
	}
	active.Store(&schedBox{s})
}

// Mutex is a drop-in replacement for sync.Mutex.
type Mutex struct {
	real sync.Mutex
	// Held is maintained in scheduled mode only (1 = held). The scheduler reads it to compute
	// which parked goroutines are enabled, and sets it when it grants the lock.
	Held atomic.Int32
	// Name is an optional label for traces (set by harnesses through white-box access).
	Name string
}

func (m *Mutex) Lock() {
	if b := active.Load(); b != nil && b.s.BeforeLock(m) {
		// granted: the scheduler has marked the mutex held
		return
	}
	m.real.Lock()
}

func (m *Mutex) TryLock() bool {
	if b := active.Load(); b != nil && b.s.BeforeTryLock(m) {
		return m.Held.CompareAndSwap(0, 1)
	}
	return m.real.TryLock()
}

func (m *Mutex) Unlock() {
	// Held is only ever set by a scheduler's grant; a goroutine that was granted the mutex and
	// outlives the scheduler (execution torn down after a deadlock verdict) must not touch the real one
	if m.Held.CompareAndSwap(1, 0) {
		if b := active.Load(); b != nil {
			b.s.AfterUnlock(m)
		}
		return
	}
	m.real.Unlock()
}

// RWMutex: regclient does not use it today; provided so that a change introducing one still
// compiles. Readers are treated as writers under the scheduler (coarser, never unsound for
// mutual exclusion, may hide reader/reader parallelism which carries no shared writes).
type RWMutex struct {
	Mutex
}

func (m *RWMutex) RLock()         { m.Lock() }
func (m *RWMutex) RUnlock()       { m.Unlock() }
func (m *RWMutex) TryRLock() bool { return m.TryLock() }
func (m *RWMutex) RLocker() Locker {
	return (*rlocker)(m)
}

type rlocker RWMutex

func (r *rlocker) Lock()   { (*RWMutex)(r).RLock() }
func (r *rlocker) Unlock() { (*RWMutex)(r).RUnlock() }

// OnceFunc etc. pass through.
func OnceFunc(f func()) func()                         { return sync.OnceFunc(f) }
func OnceValue[T any](f func() T) func() T             { return sync.OnceValue(f) }
func OnceValues[T1, T2 any](f func() (T1, T2)) func() (T1, T2) { return sync.OnceValues(f) }
