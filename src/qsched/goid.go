package qsched

import (
	"runtime"
	"sync"
	"unsafe"

	"verif.local/fastgoid"
)

// The scheduler identifies goroutines by the runtime's goroutine id. The portable way to read it,
// parsing the first line of runtime.Stack, formats the whole call stack first and took 86% of the
// time of an execution below a deep net/http stack. The id is therefore read directly from the
// runtime's g structure; the field's offset is not assumed but measured at start-up (the word that
// holds the id reported by runtime.Stack, on two goroutines), and if the measurement is not
// unambiguous the slow way is used.

var goidOff uintptr // 0 = not calibrated, use the slow way

func goidSlow() int64 {
	var buf [64]byte
	n := runtime.Stack(buf[:], false)
	// "goroutine 123 ["
	var id int64
	for i := len("goroutine "); i < n; i++ {
		ch := buf[i]
		if ch < '0' || ch > '9' {
			break
		}
		id = id*10 + int64(ch-'0')
	}
	return id
}

func goidCandidates() map[uintptr]bool {
	id := goidSlow()
	g := fastgoid.Getg()
	c := map[uintptr]bool{}
	for o := uintptr(8); o < 512; o += 8 {
		if *(*int64)(unsafe.Pointer(g + o)) == id {
			c[o] = true
		}
	}
	return c
}

func init() {
	var a, b, c map[uintptr]bool
	var wg sync.WaitGroup
	for _, m := range []*map[uintptr]bool{&a, &b, &c} {
		wg.Add(1)
		go func() { defer wg.Done(); *m = goidCandidates() }()
		wg.Wait()
	}
	var offs []uintptr
	for o := range a {
		if b[o] && c[o] {
			offs = append(offs, o)
		}
	}
	if len(offs) == 1 {
		goidOff = offs[0]
	}
}

func goid() int64 {
	if goidOff == 0 {
		return goidSlow()
	}
	return *(*int64)(unsafe.Pointer(fastgoid.Getg() + goidOff))
}
