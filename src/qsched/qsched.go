// Package qsched is a cooperative, fully controlled goroutine scheduler for exhaustive exploration
// of the interleavings of real regclient code.
//
// One execution runs inside a testing/synctest bubble. Every goroutine of the bubble that reaches a
// *point* (Mutex.Lock/TryLock through the vsync shim, an HTTP request arriving at the model
// transport, an explicit Yield) parks there. The bubble's root goroutine is the scheduler: it waits
// with synctest.Wait until every other goroutine is durably blocked, computes which parked
// goroutines are enabled, asks the explorer which one to run, and grants it. Code between two
// points therefore runs atomically with respect to other controlled goroutines.
package qsched

import (
	"fmt"
	"runtime"
	"sort"
	"strings"
	"sync"
	"testing"
	"testing/synctest"
	"time"

	"github.com/regclient/regclient/internal/verif/explore"
	"github.com/regclient/regclient/internal/verif/vsync"
)

type Kind uint8

const (
	KStart Kind = iota
	KLock
	KTryLock
	KYield
	KHTTP
	KFS
)

var kindName = [...]string{"start", "lock", "trylock", "yield", "http", "fs"}

func (k Kind) String() string { return kindName[k] }

type pt struct {
	kind  Kind
	mu    *vsync.Mutex
	label string
	sig   uint64 // hash of the call stack at the point
	// callerNo: a lock point whose calling function Config.BranchCaller refused
	callerNo bool
}

type G struct {
	id     int64 // runtime goroutine id (only its order is used)
	Name   string
	resume chan struct{}
	at     *pt
	thread bool // a harness thread (must finish for the execution to be complete)
	done   bool
	steps  int
	// hist maps a call-stack signature to the name of the mutex last requested from that call
	// site since the last ResetLocal: a finite stand-in for the goroutine's local variables
	// (e.g. which queue an AcquireMulti loop currently blocks on) in state keys.
	hist []string
	// demoted > 0: the goroutine was delayed in Demote mode; larger = delayed later = scheduled later
	demoted int
}

// HistLen is the number of most recent lock requests kept per goroutine in state keys.
const HistLen = 4

// Mode of costing context switches.
type Mode int

const (
	// Preemption: switching away from a goroutine that could continue costs 1; if the running
	// goroutine cannot continue, every enabled goroutine is a free alternative (CHESS).
	Preemption Mode = iota
	// Delay: the default scheduler is deterministic (running first, then lowest id); every
	// departure from it costs 1, also when the running goroutine blocked (delay bounding).
	Delay
	// Demote: delay bounding with a persistent effect (Emmi, Qadeer, Rakamaric 2011): the default
	// scheduler runs the running goroutine first, then the others by (time of last delay, id);
	// taking alternative i delays the i goroutines in front of it - they move behind every other
	// goroutine and stay there - and costs i. One delay thus stalls a goroutine until all others
	// have blocked or finished, which Delay can only express with one departure per forced switch.
	Demote
)

type Config struct {
	Mode Mode
	// Branch tells at which kinds of point the explorer may take a non-default decision.
	// A nil map means every kind.
	Branch map[Kind]bool
	// BranchMutex, if set, restricts branching at lock points to the mutexes it accepts.
	BranchMutex func(m *vsync.Mutex) bool
	// BranchCaller, if set, restricts branching at lock points to acquisitions made from functions
	// it accepts (the name of the first frame outside the sync shim, e.g.
	// "github.com/regclient/regclient.imageSeenOrWait").
	BranchCaller func(fn string) bool
	// FS makes the file operations of the OCI-layout scheme (through the os stand-in of the overlay)
	// scheduling points of kind KFS. Off by default: only harnesses that ask for it see them.
	FS bool
	// Horizon is the maximum number of grants per execution (0 = 20000). Reaching it is reported
	// as Outcome.Horizon (possible livelock); the rest of the execution is run round-robin up to
	// FairTail further grants.
	Horizon  int
	FairTail int
	// Monitor is called by the scheduler after every grant has quiesced (all goroutines parked or
	// blocked), i.e. at every reachable global state.
	Monitor func(s *Sched)
	// Trace records a line per grant in the explorer log.
	Trace bool
	// StateKey, if set, returns a canonical key of the harness-visible global state; the scheduler
	// appends its own part (status and step count of every goroutine, last-run goroutine) and
	// announces it to the explorer for stateful pruning.
	StateKey func(s *Sched) string
}

type Outcome struct {
	Deadlock   bool
	DeadlockAt string
	Horizon    bool // step horizon reached (livelock suspected)
	TailDone   bool // the fair tail finished the execution
	Grants     int
	Panic      any
}

type Sched struct {
	cfg    Config
	c      *explore.Ctx
	mu     sync.Mutex // real mutex: protects gs
	gs     map[int64]*G
	order  []*G
	rootID int64
	wake   chan struct{}
	last   *G
	out    Outcome
	nth    int
	panics []any
	// demoteSeq numbers the delays of Demote mode
	demoteSeq int
}

func (s *Sched) me() *G {
	id := goid()
	if id == s.rootID {
		return nil
	}
	s.mu.Lock()
	g := s.gs[id]
	if g == nil {
		g = &G{id: id, resume: make(chan struct{})}
		s.gs[id] = g
	}
	s.mu.Unlock()
	return g
}

func (s *Sched) park(p *pt) bool {
	g := s.me()
	if g == nil {
		return false
	}
	if s.cfg.StateKey != nil {
		var pcs [24]uintptr
		n := runtime.Callers(3, pcs[:])
		var h uint64 = 1469598103934665603
		for _, pc := range pcs[:n] {
			h = (h ^ uint64(pc)) * 1099511628211
		}
		p.sig = h
		if p.mu != nil {
			g.hist = append(g.hist, fmt.Sprintf("%x>%s", h&0xffffff, p.mu.Name))
			if len(g.hist) > HistLen {
				g.hist = g.hist[len(g.hist)-HistLen:]
			}
		}
	}
	if s.cfg.BranchCaller != nil && (p.kind == KLock || p.kind == KTryLock) {
		var pcs [8]uintptr
		n := runtime.Callers(3, pcs[:])
		fr := runtime.CallersFrames(pcs[:n])
		fn := ""
		for {
			f, more := fr.Next()
			if !strings.Contains(f.Function, "/vsync.") && !strings.Contains(f.Function, "/qsched.") {
				fn = f.Function
				break
			}
			if !more {
				break
			}
		}
		p.callerNo = !s.cfg.BranchCaller(fn)
	}
	s.mu.Lock()
	g.at = p
	s.mu.Unlock()
	select {
	case s.wake <- struct{}{}:
	default:
	}
	<-g.resume
	return true
}

// vsync.Scheduler
func (s *Sched) BeforeLock(m *vsync.Mutex) bool {
	return s.park(&pt{kind: KLock, mu: m})
}

func (s *Sched) BeforeTryLock(m *vsync.Mutex) bool {
	return s.park(&pt{kind: KTryLock, mu: m})
}

func (s *Sched) AfterUnlock(m *vsync.Mutex) {}

// Yield is an explicit scheduling point (operation boundary, polling loop).
func (s *Sched) Yield(label string) { s.park(&pt{kind: KYield, label: label}) }

// ResetLocal forgets the calling goroutine's call-site history (see G.hist); harness threads call
// it at operation boundaries, where no local state of the previous operation survives.
func (s *Sched) ResetLocal() {
	if g := s.me(); g != nil {
		g.hist = nil
	}
}

// FSPoint implements vsync.FSPointer: a point before a file operation of the layout code.
func (s *Sched) FSPoint(label string) {
	if s.cfg.FS {
		s.park(&pt{kind: KFS, label: label})
	}
}

// Point parks at a point of the given kind (used by the model transport and fs wrappers).
func (s *Sched) Point(k Kind, label string) { s.park(&pt{kind: k, label: label}) }

// Ctx gives harness code running inside a thread access to the explorer context, e.g. for
// environment choices. Those are made by the running goroutine itself: only one runs at a time.
func (s *Sched) Ctx() *explore.Ctx { return s.c }

func (s *Sched) enabled(g *G) bool {
	if g.at == nil {
		return false
	}
	if g.at.kind == KLock {
		return g.at.mu.Held.Load() == 0
	}
	return true
}

func (s *Sched) branchable(g *G) bool {
	k := g.at.kind
	if s.cfg.Branch != nil && !s.cfg.Branch[k] {
		return false
	}
	if (k == KLock || k == KTryLock) && s.cfg.BranchMutex != nil && !s.cfg.BranchMutex(g.at.mu) {
		return false
	}
	if g.at.callerNo {
		return false
	}
	return true
}

// Parked returns a description of the goroutines currently parked (for deadlock reports).
func (s *Sched) parkedDesc() string {
	var sb strings.Builder
	for _, g := range s.sorted() {
		if g.at != nil {
			fmt.Fprintf(&sb, "%s@%s%s(enabled=%v) ", s.name(g), g.at.kind, g.at.label, s.enabled(g))
		} else if g.thread && !g.done {
			fmt.Fprintf(&sb, "%s@blocked ", s.name(g))
		}
	}
	return sb.String()
}

func (s *Sched) name(g *G) string {
	if g.Name != "" {
		return g.Name
	}
	return fmt.Sprintf("g#%d", s.rank(g))
}

func (s *Sched) rank(g *G) int {
	for i, x := range s.sorted() {
		if x == g {
			return i
		}
	}
	return -1
}

func (s *Sched) sorted() []*G {
	s.mu.Lock()
	l := make([]*G, 0, len(s.gs))
	for _, g := range s.gs {
		l = append(l, g)
	}
	s.mu.Unlock()
	sort.Slice(l, func(i, j int) bool { return l[i].id < l[j].id })
	return l
}

// Run executes the threads under the scheduler inside the *current* synctest bubble; it must be
// called from the bubble's root goroutine. setup work that takes regclient mutexes must be done
// before Run (the shim is only active during Run).
func Run(c *explore.Ctx, cfg Config, threads map[string]func(s *Sched), names []string) Outcome {
	s := &Sched{cfg: cfg, c: c, gs: map[int64]*G{}, rootID: goid(), wake: make(chan struct{}, 1)}
	if s.cfg.Horizon == 0 {
		s.cfg.Horizon = 20000
	}
	if s.cfg.FairTail == 0 {
		s.cfg.FairTail = 20000
	}
	vsync.Install(s)
	defer vsync.Install(nil)
	var thr []*G
	for _, n := range names {
		fn := threads[n]
		g := &G{Name: n, resume: make(chan struct{}), thread: true}
		thr = append(thr, g)
		ready := make(chan struct{})
		go func() {
			g.id = goid()
			s.mu.Lock()
			s.gs[g.id] = g
			g.at = &pt{kind: KStart}
			s.mu.Unlock()
			close(ready)
			<-g.resume
			defer func() {
				if r := recover(); r != nil {
					if he, ok := r.(explore.HarnessError); ok {
						s.mu.Lock()
						s.panics = append(s.panics, he)
						s.mu.Unlock()
					} else {
						buf := make([]byte, 4096)
						buf = buf[:runtime.Stack(buf, false)]
						s.mu.Lock()
						s.panics = append(s.panics, fmt.Sprintf("panic in %s: %v\n%s", n, r, buf))
						s.mu.Unlock()
					}
				}
				s.mu.Lock()
				g.done = true
				g.at = nil
				s.mu.Unlock()
			}()
			fn(s)
		}()
		<-ready // creation order = name order, so ids ascend in that order
	}
	s.loop(thr)
	if len(s.panics) > 0 {
		if he, ok := s.panics[0].(explore.HarnessError); ok {
			panic(he)
		}
		s.out.Panic = s.panics[0]
	}
	return s.out
}

func (s *Sched) loop(thr []*G) {
	for {
		synctest.Wait()
		all := s.sorted()
		var parked, en []*G
		for _, g := range all {
			if g.at != nil {
				parked = append(parked, g)
				if s.enabled(g) {
					en = append(en, g)
				}
			}
		}
		if s.cfg.Monitor != nil {
			s.cfg.Monitor(s)
		}
		unfinished := false
		for _, g := range thr {
			s.mu.Lock()
			d := g.done
			s.mu.Unlock()
			if !d {
				unfinished = true
			}
		}
		if len(en) == 0 {
			if !unfinished && len(parked) == 0 {
				// all threads returned and nothing is parked; goroutines blocked elsewhere (sleeping
				// tickers etc.) are left to the bubble
				return
			}
			// nothing can run now: let virtual time pass, or detect a deadlock
			select {
			case <-s.wake:
			default:
			}
			select {
			case <-s.wake:
				continue
			case <-time.After(1000 * time.Hour):
				s.out.Deadlock = true
				s.out.DeadlockAt = s.parkedDesc()
				return
			}
		}
		s.out.Grants++
		var next *G
		if s.out.Grants > s.cfg.Horizon {
			s.out.Horizon = true
			if s.out.Grants > s.cfg.Horizon+s.cfg.FairTail {
				return
			}
			// tail: run-to-block (the running goroutine while it can continue, else the lowest id);
			// a lock-step round-robin would perpetuate exactly the symmetric retry loops the
			// horizon is meant to cut
			next = en[0]
			for _, g := range en {
				if g == s.last {
					next = g
				}
			}
		} else {
			if s.cfg.StateKey != nil {
				s.c.Visit(s.cfg.StateKey(s) + "|" + s.ownKey(all))
			}
			next = s.pick(en)
		}
		s.grant(next)
	}
}

func (s *Sched) ownKey(all []*G) string {
	var sb strings.Builder
	for i, g := range all {
		st := "b" // blocked outside a point (channel, sleep, ...)
		s.mu.Lock()
		if g.done {
			st = "d"
		} else if g.at != nil {
			st = g.at.kind.String()
			if g.at.mu != nil {
				st += ":" + g.at.mu.Name
			}
			st += g.at.label + fmt.Sprintf("@%x", g.at.sig)
		}
		s.mu.Unlock()
		fmt.Fprintf(&sb, "%d=%s", i, st)
		if len(g.hist) > 0 && !g.done {
			sb.WriteString("{" + strings.Join(g.hist, ",") + "}")
		}
		if g.demoted > 0 && !g.done {
			fmt.Fprintf(&sb, "^%d", g.demoted)
		}
		sb.WriteString(";")
	}
	if s.last != nil {
		fmt.Fprintf(&sb, "L%d", s.rank(s.last))
	}
	return sb.String()
}

// Bubble runs f as the root goroutine of a fresh synctest bubble. It reports whether goroutines
// were left blocked when f returned (the bubble's own deadlock report), which the caller decides
// how to classify.
func Bubble(t *testing.T, f func()) (leaked bool, other any) {
	var inner any
	defer func() {
		if r := recover(); r != nil {
			if inner != nil {
				panic(inner)
			}
			if strings.Contains(fmt.Sprint(r), "blocked goroutines remain") {
				leaked = true
				return
			}
			if he, ok := r.(explore.HarnessError); ok {
				panic(he)
			}
			other = r
		}
	}()
	synctest.Test(t, func(t *testing.T) {
		defer func() { inner = recover() }()
		f()
	})
	if inner != nil {
		panic(inner)
	}
	return
}

func (s *Sched) pick(en []*G) *G {
	// canonical order: the running goroutine first if still enabled, then ascending id
	runIdx := -1
	for i, g := range en {
		if g == s.last {
			runIdx = i
		}
	}
	ord := en
	if s.cfg.Mode == Demote {
		ord = append([]*G{}, en...)
		sort.SliceStable(ord, func(i, j int) bool {
			if (ord[i] == s.last) != (ord[j] == s.last) {
				return ord[i] == s.last
			}
			return ord[i].demoted < ord[j].demoted
		})
	} else if runIdx > 0 {
		ord = make([]*G, 0, len(en))
		ord = append(ord, en[runIdx])
		ord = append(ord, en[:runIdx]...)
		ord = append(ord, en[runIdx+1:]...)
	}
	if len(ord) == 1 {
		return ord[0]
	}
	def := ord[0]
	if !s.branchable(def) && runIdx >= 0 {
		// not a branching point for this exploration: continue the running goroutine
		return def
	}
	if s.cfg.Branch != nil && runIdx < 0 {
		// the running goroutine blocked or finished; a switch is forced. Offer the alternatives
		// only if at least one candidate is at a branchable point.
		any := false
		for _, g := range ord {
			if s.branchable(g) {
				any = true
			}
		}
		if !any {
			return def
		}
	}
	free := runIdx < 0 && s.cfg.Mode == Preemption
	ch := s.c.Choose("sched", len(ord), func(i int) int {
		if i == 0 || free {
			return 0
		}
		if s.cfg.Mode == Demote {
			return i
		}
		return 1
	})
	if s.cfg.Mode == Demote {
		for _, g := range ord[:ch] {
			s.demoteSeq++
			g.demoted = s.demoteSeq
		}
	}
	return ord[ch]
}

func (s *Sched) grant(g *G) {
	s.mu.Lock()
	p := g.at
	g.at = nil
	g.steps++
	s.mu.Unlock()
	if p.kind == KLock {
		p.mu.Held.Store(1)
	}
	if s.cfg.Trace {
		l := p.label
		if p.mu != nil && p.mu.Name != "" {
			l = p.mu.Name
		}
		s.c.Logf("run %s %s %s", s.name(g), p.kind, l)
	}
	s.last = g
	g.resume <- struct{}{}
}
