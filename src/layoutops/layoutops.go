// Package layoutops executes named operations on an OCI layout directory through the real client.
// It is shared by the C07 crash driver (a separate, traced process) and by the C07 checker, which
// re-runs interrupted operations on crash snapshots.
package layoutops

import (
	"bytes"
	"context"
	"encoding/json"
	"errors"
	"fmt"
	"os"
	"strings"

	"github.com/opencontainers/go-digest"

	"github.com/regclient/regclient"
	"github.com/regclient/regclient/internal/verif/audit"
	"github.com/regclient/regclient/internal/verif/graphs"
	"github.com/regclient/regclient/internal/verif/modelreg"
	"github.com/regclient/regclient/internal/verif/rcenv"
	"github.com/regclient/regclient/types/descriptor"
	"github.com/regclient/regclient/types/errs"
	"github.com/regclient/regclient/types/manifest"
	"github.com/regclient/regclient/types/ref"
)

const Host = "src.example"

var Graphs = []string{"G1", "G3", "G4", "G10", "G11", "G13", "G15"}

var gcache = map[string]*graphs.Graph{}

func Graph(n string) *graphs.Graph {
	if g, ok := gcache[n]; ok {
		return g
	}
	g := graphs.Build(n)
	gcache[n] = g
	return g
}

type Env struct {
	RC  *regclient.RegClient
	Net *modelreg.Net
	Dir string
}

// New returns a fresh client whose registry side is an in-memory model holding the graph alphabet.
func New(dir string) *Env {
	net := modelreg.NewNet()
	h := net.AddHost(Host, modelreg.Full())
	for _, n := range Graphs {
		Graph(n).Load(h.Repo("src/"+strings.ToLower(n)), "v1")
	}
	return &Env{RC: rcenv.New(net, []string{Host}, rcenv.Opts{}), Net: net, Dir: dir}
}

func (e *Env) base() ref.Ref {
	r, err := ref.New("ocidir://" + e.Dir)
	if err != nil {
		panic(err)
	}
	return r
}

func desc(d string, n int) descriptor.Descriptor {
	return descriptor.Descriptor{Digest: digest.Digest(d), Size: int64(n)}
}

// RefArtifact builds the referrer artifact for a subject manifest.
func RefArtifact(subject string, body []byte) *graphs.Graph { return RefArtifactN(subject, body, 1) }

// RefArtifactN builds the n-th referrer artifact (distinct content and type per n) for a subject.
func RefArtifactN(subject string, body []byte, n int) *graphs.Graph {
	g := graphs.New("ref", "sha256")
	var doc modelreg.ManDoc
	json.Unmarshal(body, &doc)
	sd := modelreg.Desc{MediaType: doc.MediaType, Digest: subject, Size: int64(len(body))}
	at, pfx := "application/vnd.example.sig", "sig-for-"
	if n > 1 {
		at, pfx = fmt.Sprintf("application/vnd.example.sbom%d", n), fmt.Sprintf("sbom%d-for-", n)
	}
	g.Top = g.Artifact(at, pfx+subject[7:15], &sd, nil).Digest
	return g
}

func (e *Env) tagDigest(t string) (string, []byte) {
	_, tg, _, _, err := audit.ReadLayout(e.Dir)
	if err != nil {
		return "", nil
	}
	d := tg[t]
	if d == "" {
		return "", nil
	}
	b, _ := (audit.DirStore{Dir: e.Dir}).Manifest(d)
	return d, b
}

func (e *Env) pushGraph(ctx context.Context, g *graphs.Graph, tag string) error {
	b := e.base()
	for d, body := range g.Blobs {
		if _, err := e.RC.BlobPut(ctx, b, desc(d, len(body)), bytes.NewReader(body)); err != nil {
			return fmt.Errorf("blob put %s: %w", d, err)
		}
	}
	for _, d := range g.Order {
		m, err := manifest.New(manifest.WithRaw(g.Manifests[d].Body))
		if err != nil {
			return err
		}
		if d == g.Top && tag != "" {
			if err := e.RC.ManifestPut(ctx, b.SetTag(tag), m); err != nil {
				return fmt.Errorf("manifest put %s: %w", tag, err)
			}
			continue
		}
		opts := []regclient.ManifestOpts{}
		if d != g.Top {
			opts = append(opts, regclient.WithManifestChild())
		}
		if err := e.RC.ManifestPut(ctx, b.SetDigest(d), m, opts...); err != nil {
			return fmt.Errorf("manifest put %s: %w", d, err)
		}
	}
	return nil
}

// Do executes one operation. Operations: push:G:tag, pushd:G, refput:tag, refdel:tag, tagdel:tag,
// mandel:G, close, copy:G:tag, import:file:tag, blobput:content
func (e *Env) Do(ctx context.Context, op string) error {
	f := strings.Split(op, ":")
	b := e.base()
	switch f[0] {
	case "push":
		return e.pushGraph(ctx, Graph(f[1]), f[2])
	case "pushd":
		return e.pushGraph(ctx, Graph(f[1]), "")
	case "blobput":
		body := []byte(f[1])
		_, err := e.RC.BlobPut(ctx, b, desc(modelreg.Digest("sha256", body), len(body)), bytes.NewReader(body))
		return err
	case "refput":
		d, body := e.tagDigest(f[1])
		if d == "" {
			return fmt.Errorf("refput: tag %s has no manifest", f[1])
		}
		return e.pushGraph(ctx, RefArtifact(d, body), "")
	case "refdel":
		d, body := e.tagDigest(f[1])
		if d == "" {
			return fmt.Errorf("refdel: tag %s has no manifest", f[1])
		}
		return e.RC.ManifestDelete(ctx, b.SetDigest(RefArtifact(d, body).Top))
	case "refput2", "refdel2":
		// a second referrer of the same subject
		d, body := e.tagDigest(f[1])
		if d == "" {
			return fmt.Errorf("%s: tag %s has no manifest", f[0], f[1])
		}
		g := RefArtifactN(d, body, 2)
		if f[0] == "refput2" {
			return e.pushGraph(ctx, g, "")
		}
		return e.RC.ManifestDelete(ctx, b.SetDigest(g.Top))
	case "tagdel":
		return e.RC.TagDelete(ctx, b.SetTag(f[1]))
	case "mandel":
		return e.RC.ManifestDelete(ctx, b.SetDigest(Graph(f[1]).Top))
	case "close":
		return e.RC.Close(ctx, b)
	case "copy":
		src, _ := ref.New(Host + "/src/" + strings.ToLower(f[1]) + ":v1")
		opts := []regclient.ImageOpts{}
		if f[1] == "G13" {
			opts = append(opts, regclient.ImageWithReferrers())
		}
		return e.RC.ImageCopy(ctx, src, b.SetTag(f[2]), opts...)
	case "import":
		fh, err := os.Open(f[1])
		if err != nil {
			return err
		}
		defer fh.Close()
		return e.RC.ImageImport(ctx, b.SetTag(f[2]), fh)
	}
	return fmt.Errorf("unknown op %q", op)
}

// Benign reports whether an error of re-running an interrupted operation is acceptable: deleting
// something that the interrupted run already deleted.
func Benign(op string, err error) bool {
	if err == nil {
		return true
	}
	k := strings.Split(op, ":")[0]
	if k == "tagdel" || k == "mandel" || k == "refdel" || k == "refdel2" {
		return errors.Is(err, errs.ErrNotFound) || errors.Is(err, os.ErrNotExist) || strings.Contains(err.Error(), "not found") || strings.Contains(err.Error(), "no such file")
	}
	return false
}

// ExportTar writes an export of graph g (from the model registry) to file, for import operations.
func (e *Env) ExportTar(ctx context.Context, g, file string) error {
	src, _ := ref.New(Host + "/src/" + strings.ToLower(g) + ":v1")
	fh, err := os.Create(file)
	if err != nil {
		return err
	}
	defer fh.Close()
	return e.RC.ImageExport(ctx, src, fh)
}
