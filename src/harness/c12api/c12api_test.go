package hc12

// C12 (seam ii) — the public client operations over a named registry with mirrors: termination,
// state-changing requests go to the named registry only, transient faults fewer than the limit are
// absorbed, upload sessions make progress.

import (
	"bytes"
	"context"
	"encoding/json"
	"errors"
	"fmt"
	"io"
	"net/http"
	"sort"
	"strings"
	"testing"

	"github.com/regclient/regclient"
	"github.com/regclient/regclient/config"
	"github.com/regclient/regclient/internal/verif/ev"
	"github.com/regclient/regclient/internal/verif/explore"
	"github.com/regclient/regclient/internal/verif/graphs"
	"github.com/regclient/regclient/internal/verif/modelreg"
	"github.com/regclient/regclient/internal/verif/qsched"
	"github.com/regclient/regclient/internal/verif/rcenv"
	"github.com/regclient/regclient/scheme"
	"github.com/regclient/regclient/types/descriptor"
	"github.com/regclient/regclient/types/manifest"
	"github.com/regclient/regclient/types/ref"
	"github.com/opencontainers/go-digest"
)

const (
	up   = "up.example"
	mir  = "mir.example"
	mir2 = "mir2.example"
	repo = "proj/r"
)

type Cfg struct {
	Op      string `json:"op"`
	Mirrors bool   `json:"mirrors"`
	Limit   int    `json:"limit"`
}

func (c Cfg) String() string { return fmt.Sprintf("%s mirrors=%v limit=%d", c.Op, c.Mirrors, c.Limit) }

var ops = []string{"manifest-get", "manifest-head", "manifest-put", "manifest-delete", "blob-get", "blob-head", "blob-put", "blob-put-chunked", "blob-delete", "blob-mount", "tag-list", "tag-delete", "referrers", "repo-list", "image-copy"}

var faults = []string{"500", "502", "503", "504", "408", "429", "429ra", "reset", "trunc", "404", "416", "401"}

func transient(f string) bool {
	switch f {
	case "500", "502", "504", "408", "429", "429ra", "reset", "trunc":
		return true
	}
	return false
}

type halfBody struct {
	b   []byte
	pos int
}

func (h *halfBody) Read(p []byte) (int, error) {
	if h.pos >= len(h.b) {
		return 0, io.ErrUnexpectedEOF
	}
	n := copy(p, h.b[h.pos:])
	h.pos += n
	return n, nil
}
func (h *halfBody) Close() error { return nil }

type result struct {
	err    error
	data   string // what a read operation returned, canonical
	net    *modelreg.Net
	faults []string
	nreq   int
	state  string
	stuck  string // the scheduler found the operation deadlocked or past its step horizon
}

var g1 = graphs.Build("G1")
var g13 = graphs.Build("G13")
var g3 = graphs.Build("G3")

func world(cfg Cfg) *modelreg.Net {
	net := modelreg.NewNet()
	f := modelreg.Full()
	f.TagPage = 2
	f.ReferrersPage = 1
	h := net.AddHost(up, f)
	r := h.Repo(repo)
	g1.Load(r, "v1")
	r.Tags["v2"], r.Tags["v3"], r.Tags["latest"], r.Tags["dev"] = g1.Top, g1.Top, g1.Top, g1.Top
	g13.Load(r, "sub")
	g3.Load(h.Repo("proj/other"), "idx")
	if cfg.Mirrors {
		m := net.AddHost(mir, f)
		mr := m.Repo(repo)
		g1.Load(mr, "v1")
		mr.Tags["v2"], mr.Tags["v3"], mr.Tags["latest"], mr.Tags["dev"] = g1.Top, g1.Top, g1.Top, g1.Top
		g13.Load(mr, "sub")
		f2 := f
		f2.Referrers = false // a mirror that lacks everything, including knowledge of referrers
		net.AddHost(mir2, f2)
	}
	return net
}

func layerOf(g *graphs.Graph) (string, []byte) {
	var ds []string
	for d := range g.Blobs {
		ds = append(ds, d)
	}
	sort.Strings(ds)
	return ds[0], g.Blobs[ds[0]]
}

func run(t *testing.T, c *explore.Ctx, cfg Cfg) *result {
	res := &result{}
	_, other := qsched.Bubble(t, func() {
		net := world(cfg)
		res.net = net
		net.Decide = func(e *modelreg.Entry) *modelreg.Answer {
			res.nreq++
			if res.nreq > 400 {
				return &modelreg.Answer{Err: errors.New("harness: request horizon")}
			}
			ch := c.Choose("net", 1+len(faults), nil)
			if ch == 0 {
				return nil
			}
			f := faults[ch-1]
			res.faults = append(res.faults, f)
			switch f {
			case "429ra":
				return &modelreg.Answer{Status: 429, Header: http.Header{"Retry-After": {"2"}}, Body: []byte("{}"), Note: "fault-" + f}
			case "401":
				return &modelreg.Answer{Status: 401, Header: http.Header{"Www-Authenticate": {`Basic realm="x"`}}, Body: []byte("{}"), Note: "fault-" + f}
			case "reset":
				return &modelreg.Answer{Err: errors.New("connection reset by peer"), Note: "fault-" + f}
			case "trunc":
				if e.Method != "GET" {
					return &modelreg.Answer{Err: io.ErrUnexpectedEOF, Note: "fault-trunc"}
				}
				var def *modelreg.Answer
				net.With(func() { def = net.Peek(e) })
				if def == nil || (def.Status != 200 && def.Status != 206) || len(def.Body) < 2 {
					return &modelreg.Answer{Err: io.ErrUnexpectedEOF, Note: "fault-trunc"}
				}
				return &modelreg.Answer{Status: def.Status, Header: def.Header.Clone(), BodyRC: &halfBody{b: def.Body[:len(def.Body)/2]}, Note: "fault-trunc-body"}
			default:
				var code int
				fmt.Sscanf(f, "%d", &code)
				return &modelreg.Answer{Status: code, Header: http.Header{}, Body: []byte("{}"), Note: "fault-" + f}
			}
		}
		hu := config.Host{Name: up, Hostname: up, TLS: config.TLSDisabled, BlobChunk: 3, BlobMax: 6}
		hosts := []config.Host{hu}
		if cfg.Mirrors {
			hu.Mirrors = []string{mir, mir2}
			hosts = []config.Host{hu, {Name: mir, Hostname: mir, TLS: config.TLSDisabled}, {Name: mir2, Hostname: mir2, TLS: config.TLSDisabled}}
		}
		rc := rcenv.New(net, nil, rcenv.Opts{Hosts: hosts, RetryLimit: cfg.Limit})
		// the operation runs under the scheduler with no branching at all: request arrivals of the
		// goroutines of a copy are granted one at a time in goroutine-creation order, so an execution
		// (and the request position a fault choice refers to) is a function of the choice list only
		var sched *qsched.Sched
		net.OnArrive = func(e *modelreg.Entry) {
			if sched != nil {
				sched.Point(qsched.KHTTP, "")
			}
		}
		out := qsched.Run(c, qsched.Config{Branch: map[qsched.Kind]bool{}}, map[string]func(*qsched.Sched){"op": func(s *qsched.Sched) {
			sched = s
			res.err, res.data = doOp(rc, cfg.Op)
		}}, []string{"op"})
		sched = nil
		net.OnArrive = nil
		if out.Panic != nil {
			res.err = fmt.Errorf("PANIC: %v", out.Panic)
		} else if out.Deadlock || out.Horizon {
			res.stuck = fmt.Sprintf("deadlock=%v horizon=%v %s", out.Deadlock, out.Horizon, out.DeadlockAt)
		}
		res.state = observable(net)
	})
	if other != nil {
		res.err = fmt.Errorf("PANIC: %v", other)
	}
	return res
}

// observable state of the named registry: tags and manifests (uploaded placeholder blobs of the
// tag-delete fallback are not part of what an operation promises)
func observable(net *modelreg.Net) string {
	var sb strings.Builder
	h := net.Hosts[up]
	var rs []string
	for k := range h.Repos {
		rs = append(rs, k)
	}
	sort.Strings(rs)
	for _, rn := range rs {
		r := h.Repos[rn]
		var ks []string
		for t, d := range r.Tags {
			ks = append(ks, "t:"+t+"="+d[:15])
		}
		for d := range r.Manifests {
			ks = append(ks, "m:"+d[:15])
		}
		for d := range r.Blobs {
			if _, ok := g1.Blobs[d]; ok || rn != repo {
				ks = append(ks, "b:"+d[:15])
			}
		}
		sort.Strings(ks)
		fmt.Fprintf(&sb, "%s{%s}", rn, strings.Join(ks, ","))
	}
	return sb.String()
}

func doOp(rc *regclient.RegClient, op string) (error, string) {
	ctx := context.Background()
	rTag, _ := ref.New(up + "/" + repo + ":v1")
	ld, lb := layerOf(g1)
	ldesc := descriptor.Descriptor{Digest: digest.Digest(ld), Size: int64(len(lb))}
	switch op {
	case "manifest-get":
		m, err := rc.ManifestGet(ctx, rTag)
		if err != nil {
			return err, ""
		}
		b, _ := m.RawBody()
		return nil, string(b)
	case "manifest-head":
		m, err := rc.ManifestHead(ctx, rTag)
		if err != nil {
			return err, ""
		}
		return nil, m.GetDescriptor().Digest.String()
	case "manifest-put":
		m, err := manifest.New(manifest.WithRaw(g1.Manifests[g1.Top].Body))
		if err != nil {
			return err, ""
		}
		r2, _ := ref.New(up + "/" + repo + ":new")
		return rc.ManifestPut(ctx, r2, m), ""
	case "manifest-delete":
		r2 := rTag.SetDigest(g13.Top)
		return rc.ManifestDelete(ctx, r2), ""
	case "blob-get":
		br, err := rc.BlobGet(ctx, rTag, ldesc)
		if err != nil {
			return err, ""
		}
		b, err := io.ReadAll(br)
		br.Close()
		return err, string(b)
	case "blob-head":
		br, err := rc.BlobHead(ctx, rTag, ldesc)
		if err != nil {
			return err, ""
		}
		return nil, br.GetDescriptor().Digest.String()
	case "blob-put":
		data := []byte("fresh")
		d := descriptor.Descriptor{Digest: digest.FromBytes(data), Size: int64(len(data))}
		dd, err := rc.BlobPut(ctx, rTag, d, bytes.NewReader(data))
		return err, dd.Digest.String()
	case "blob-put-chunked":
		data := []byte("fresh-and-longer")
		dd, err := rc.BlobPut(ctx, rTag, descriptor.Descriptor{}, bytes.NewReader(data))
		return err, dd.Digest.String()
	case "blob-delete":
		return rc.BlobDelete(ctx, rTag, ldesc), ""
	case "blob-mount":
		src, _ := ref.New(up + "/proj/other:idx")
		var ds []string
		for d := range g3.Blobs {
			ds = append(ds, d)
		}
		sort.Strings(ds)
		d := descriptor.Descriptor{Digest: digest.Digest(ds[0]), Size: int64(len(g3.Blobs[ds[0]]))}
		return rc.BlobMount(ctx, src, rTag, d), ""
	case "tag-list":
		tl, err := rc.TagList(ctx, rTag)
		if err != nil {
			return err, ""
		}
		tags, err := tl.GetTags()
		sort.Strings(tags)
		return err, strings.Join(tags, ",")
	case "tag-delete":
		r2 := rTag.SetTag("dev")
		return rc.TagDelete(ctx, r2), ""
	case "referrers":
		rl, err := rc.ReferrerList(ctx, rTag.SetDigest(g13.Top))
		if err != nil {
			return err, ""
		}
		var ds []string
		for _, d := range rl.Descriptors {
			ds = append(ds, d.Digest.String())
		}
		sort.Strings(ds)
		return nil, strings.Join(ds, ",")
	case "repo-list":
		rl, err := rc.RepoList(ctx, up)
		if err != nil {
			return err, ""
		}
		rs, err := rl.GetRepos()
		sort.Strings(rs)
		return err, strings.Join(rs, ",")
	case "image-copy":
		tgt, _ := ref.New(up + "/proj/copy:v1")
		return rc.ImageCopy(ctx, rTag, tgt), ""
	}
	return fmt.Errorf("unknown op %s", op), ""
}

var _ = scheme.WithReferrerMatchOpt

func judge(cfg Cfg, r, base *result) (string, string) {
	if r.err != nil && strings.HasPrefix(r.err.Error(), "PANIC") {
		return "panic", r.err.Error()
	}
	if r.nreq > 400 {
		return "no-termination", fmt.Sprintf("%s issued more than 400 requests", cfg.Op)
	}
	if r.stuck != "" {
		return "no-termination", fmt.Sprintf("%s did not return: %s", cfg.Op, r.stuck)
	}
	// state-changing requests and upload sessions only at the named registry
	patch := map[string]int{}
	for _, e := range r.net.Log {
		if (e.Mutating() || strings.HasPrefix(e.Kind, "upload-")) && e.Host != up {
			return "write-to-mirror", fmt.Sprintf("%s: %s was sent to %s, not to the registry named in the reference", cfg.Op, e, e.Host)
		}
		if e.Kind == "upload-patch" {
			k := e.Path + "|" + e.Header.Get("Content-Range")
			patch[k]++
			if patch[k] > 12 {
				return "upload-no-progress", fmt.Sprintf("%s: chunk %s sent %d times", cfg.Op, k, patch[k])
			}
		}
	}
	// recovery
	if base != nil && base.err == nil {
		all, is503 := true, false
		for _, f := range r.faults {
			if f == "503" {
				is503 = true
			} else if !transient(f) {
				all = false
			}
		}
		if all && len(r.faults) < cfg.Limit {
			if r.err != nil || r.data != base.data || r.state != base.state {
				k := "recovery"
				if is503 {
					k = "recovery-503"
				}
				return k, fmt.Sprintf("%s: %d transient fault(s) %v (retry limit %d) were not absorbed: err=%v; same result=%v same state=%v", cfg.Op, len(r.faults), r.faults, cfg.Limit, r.err, r.data == base.data, r.state == base.state)
			}
		}
	}
	return "", ""
}

// key: one stable key per defect class, never per fault position.
func key(k string, cfg Cfg, fs []string, r *result) string {
	if k == "" {
		return ""
	}
	if k == "recovery-503" {
		return k
	}
	if k == "write-to-mirror" {
		return k + " op=" + cfg.Op
	}
	fk := map[string]bool{}
	for _, f := range fs {
		fk[f] = true
	}
	if k == "recovery" {
		if cfg.Op == "referrers" && r != nil && r.err == nil {
			// the referrers API probe ignores errors: a transient fault makes the client fall back
			// to the tag scheme and return that list without an error
			// (known for the FIRST page, which doubles as the probe; a later page is an ordinary request)
			for _, e := range r.net.Log {
				if e.Kind == "referrers" && strings.HasPrefix(e.Note, "fault") {
					if (e.Query.Get("offset") != "" || e.Query.Get("last") != "") && !fk["trunc"] {
						return "recovery referrers-silent-fallback fault-on-a-later-page"
					}
					break
				}
			}
			return "recovery referrers-silent-fallback"
		}
		if fk["trunc"] {
			if cfg.Op == "blob-get" {
				return "recovery mirrors faults=trunc"
			}
			// a truncated body of a GET the server does not serve ranges for
			return "recovery-trunc non-blob-read op=" + cfg.Op
		}
	}
	var l []string
	for f := range fk {
		l = append(l, f)
	}
	sort.Strings(l)
	m := "single-host"
	if cfg.Mirrors {
		m = "mirrors"
	}
	return fmt.Sprintf("%s op=%s %s faults=%s", k, cfg.Op, m, strings.Join(l, "+"))
}

type replay struct {
	Cfg     Cfg   `json:"cfg"`
	Choices []int `json:"choices"`
}

// stuckSession: a chunked upload whose first k chunks are accepted and whose next chunk is refused for
// ever (style "416": the recoverable answer with Location and an unmoved Range; style "400": a plain
// refusal, after which the client asks the session for its status and is told nothing moved). Returns
// how often the stuck chunk was sent before BlobPut gave up, and whether it gave up at all.
func stuckSession(t *testing.T, k int, style string) (sent int, nreq int, err error) {
	_, other := qsched.Bubble(t, func() {
		net := world(Cfg{Op: "blob-put-chunked", Limit: 3})
		patches := 0
		net.Decide = func(e *modelreg.Entry) *modelreg.Answer {
			nreq++
			if nreq > 600 {
				return &modelreg.Answer{Err: errors.New("harness: request horizon")}
			}
			if e.Kind != "upload-patch" {
				return nil
			}
			patches++
			if patches <= k {
				return nil
			}
			sent++
			if style == "400" {
				return &modelreg.Answer{Status: 400, Header: http.Header{}, Body: []byte("{}"), Note: "stuck-400"}
			}
			h := net.Hosts[up]
			cur := 0
			if u := h.Repo(repo).Uploads[e.Ref]; u != nil {
				cur = len(u.Data)
			}
			a := &modelreg.Answer{Status: 416, Header: http.Header{}, Body: []byte("{}"), Note: "stuck-416"}
			a.Header.Set("Location", "/v2/"+repo+"/blobs/uploads/"+e.Ref)
			a.Header.Set("Range", fmt.Sprintf("0-%d", cur-1))
			return a
		}
		hu := config.Host{Name: up, Hostname: up, TLS: config.TLSDisabled, BlobChunk: 3, BlobMax: 6}
		rc := rcenv.New(net, nil, rcenv.Opts{Hosts: []config.Host{hu}, RetryLimit: 3})
		err, _ = doOp(rc, "blob-put-chunked")
	})
	if other != nil {
		err = fmt.Errorf("PANIC: %v", other)
	}
	return
}

func stuckBlock(t *testing.T, rec *ev.Rec) {
	for _, style := range []string{"416", "400"} {
		base, n0, err0 := stuckSession(t, 0, style)
		rec.Eval(1)
		if err0 == nil || n0 > 600 {
			rec.Violation("stuck-session-no-termination style="+style, fmt.Sprintf("a chunked upload whose first chunk is refused for ever did not end in an error: err=%v after %d requests", err0, n0), replay{Cfg{Op: "stuck-" + style, Limit: 0}, nil})
			continue
		}
		for k := 1; k <= 4; k++ {
			sent, n, err := stuckSession(t, k, style)
			rec.Eval(1)
			rec.Count("stuck_sessions", 1)
			rec.Distinct(fmt.Sprintf("stuck %s k=%d sent=%d", style, k, sent))
			switch {
			case err == nil || n > 600:
				rec.Violation("stuck-session-no-termination style="+style, fmt.Sprintf("after %d accepted chunks the next chunk is refused for ever; BlobPut did not end in an error: err=%v after %d requests", k, err, n), replay{Cfg{Op: "stuck-" + style, Limit: k}, nil})
			case sent > base:
				rec.Violation("stuck-session-budget-grows-with-progress style="+style, fmt.Sprintf("a chunk refused for ever is sent %d times when nothing was accepted before it and %d times after %d accepted chunks: the bound on repeating a request without progress depends on the history of the session", base, sent, k), replay{Cfg{Op: "stuck-" + style, Limit: k}, nil})
			}
		}
	}
}

func TestVerifC12API(t *testing.T) {
	rec := ev.New()
	defer rec.Flush(t)
	rec.Rule("seam ii: operation ∈ {manifest get/head/put/delete, blob get/head/put (single request and chunked)/delete/mount, tag list over 3 pages, tag delete, referrers over 2 pages, repository list, image copy} × {named registry alone, with one mirror holding the content and one lacking it} × retry limit 3; " +
		"every sequence of at most k answers from {500,502,503,504,408,429,429+Retry-After,reset,truncated body,404,416,401} over the requests of the operation (k = 2 quick; 1 for image copy; thorough 3 / 2). " +
		"Oracle: termination, state-changing and upload-session requests only at the named registry, no chunk resent more than 12 times, a chunk refused for ever after k=1..4 accepted chunks (416 with an unmoved Range, or 400 followed by a status reply that reports no progress) is sent no more often than one refused from the start, transient faults fewer than the limit leave result and observable registry state equal to the fault-free run. distinct_nontrivial = distinct (operation, mirrors, fault list, outcome)")
	if rd := rec.ReplayData(); rd != nil {
		var rp replay
		if err := json.Unmarshal(rd, &rp); err != nil {
			rec.HarnessError("replay: %v", err)
			return
		}
		if strings.HasPrefix(rp.Cfg.Op, "stuck-") {
			style := strings.TrimPrefix(rp.Cfg.Op, "stuck-")
			b, _, _ := stuckSession(t, 0, style)
			sent, n, err := stuckSession(t, rp.Cfg.Limit, style)
			fmt.Printf("replay stuck session style=%s: refused from the start: sent %d times; after %d accepted chunks: sent %d times, %d requests, err=%v\n", style, b, rp.Cfg.Limit, sent, n, err)
			rec.Eval(1)
			if sent > b {
				rec.Violation("stuck-session-budget-grows-with-progress style="+style, "see output", rp)
			}
			return
		}
		base := run(t, explore.NewCtx(nil), rp.Cfg)
		r := run(t, explore.NewCtx(rp.Choices), rp.Cfg)
		k, m := judge(rp.Cfg, r, base)
		fmt.Printf("replay %s choices=%v err=%v faults=%v\n", rp.Cfg, rp.Choices, r.err, r.faults)
		for _, e := range r.net.Log {
			fmt.Printf("  %v %s\n", e.At, e)
		}
		fmt.Printf("verdict: %s %s\n", k, m)
		rec.Eval(1)
		if k != "" {
			rec.Violation(key(k, rp.Cfg, r.faults, r), m, rp)
		}
		return
	}
	if rec.ShardI == 0 {
		stuckBlock(t, rec)
	}
	var items []Cfg
	for _, op := range ops {
		for _, m := range []bool{false, true} {
			items = append(items, Cfg{Op: op, Mirrors: m, Limit: 3})
		}
	}
	for i, cfg := range items {
		if !rec.Mine(i) {
			continue
		}
		if rec.Expired() {
			rec.NotExhaustive("budget reached")
			break
		}
		base := run(t, explore.NewCtx(nil), cfg)
		if base.err != nil {
			rec.HarnessError("fault-free %s failed: %v", cfg, base.err)
			continue
		}
		bound := 2
		if cfg.Op == "image-copy" {
			bound = 1
		}
		if rec.Thorough() {
			bound++
		}
		runOne := func(c *explore.Ctx) explore.Result {
			r := run(t, c, cfg)
			k, m := judge(cfg, r, base)
			o := "ok"
			if r.err != nil {
				o = "err"
			}
			for _, e := range r.net.Log {
				c.Logf("%v %s", e.At, e)
			}
			return explore.Result{Outcome: o + " " + strings.Join(r.faults, ","), VKey: key(k, cfg, r.faults, r), Violation: m}
		}
		ex := &explore.Explorer{Bound: bound, Run: runOne, Stop: rec.Expired, DetCheckEvery: 251}
		ex.OnExec = func(c *explore.Ctx, r explore.Result) {
			if r.Violation != "" {
				r2 := runOne(explore.NewCtx(c.Choices()))
				if r2.VKey != r.VKey {
					rec.HarnessError("violation %q of %s not reproduced", r.VKey, cfg)
					return
				}
				rec.Violation(r.VKey, r.Violation, replay{cfg, explore.Trim(c.Choices())})
			}
			rec.Distinct(cfg.String() + "#" + r.Outcome)
			if strings.HasPrefix(r.Outcome, "ok ") && len(r.Outcome) > 3 {
				rec.Count("faulted_executions_that_recovered", 1)
			}
		}
		func() {
			defer func() {
				if p := recover(); p != nil {
					rec.HarnessError("config %s: %v", cfg, p)
				}
			}()
			ex.Explore()
		}()
		rec.Eval(ex.Stats.Executions)
		rec.Count("executions", ex.Stats.Executions)
		rec.Count("operations", 1)
		if ex.Stats.Capped {
			rec.NotExhaustive("budget reached inside " + cfg.String())
		}
		rec.Sample(map[string]any{"operation": cfg.String(), "fault_bound": bound, "executions": ex.Stats.Executions, "requests_fault_free": base.nreq})
	}
}
