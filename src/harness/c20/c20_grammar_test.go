package main

// C20 – hostile-name and hostile-digest grammars, plus an independent lexical model of where a raw
// (unclean) join would land. Nothing in this file touches regclient code.

import (
	"strings"
)

const (
	c20SegPlain = "c20a"     // a plain name that exists nowhere
	c20SegSpace = "c20a b"   // a name with a space
	c20SegFile  = "c20f"     // name of an existing FILE (in the output directory and, as canary, at every guard level)
	c20SegDir   = "c20d"     // name of an existing DIRECTORY (same)
	c20SegNul   = "c20\x00n" // embedded NUL
	// a name that has the designated directory's own name ("out") as a string prefix: "../out-c20"
	// is a sibling of the designated directory whose path starts with the designated directory's path
	c20SegOutSib = "out-c20"
)

// 255 bytes: the longest single name most file systems accept
var c20SegLong = "c20" + strings.Repeat("x", 252)

func c20Segments() []string {
	return []string{"..", ".", "", c20SegPlain, c20SegSpace, c20SegLong, c20SegNul, c20SegFile, c20SegDir, c20SegOutSib}
}

// c20Names enumerates lead + seg1/seg2/…/segN + trail for every N in 0..maxSegs, every segment tuple,
// lead in {"", "/"} and trail in {"", "/", "//"}; duplicates (same resulting string) are dropped.
func c20Names(maxSegs int) []string {
	segs := c20Segments()
	seen := map[string]bool{}
	var out []string
	var tuple []string
	emit := func() {
		j := strings.Join(tuple, "/")
		for _, lead := range []string{"", "/"} {
			for _, trail := range []string{"", "/", "//"} {
				n := lead + j + trail
				if !seen[n] {
					seen[n] = true
					out = append(out, n)
				}
			}
		}
	}
	var rec func(n int)
	rec = func(n int) {
		if len(tuple) == n {
			emit()
			return
		}
		for _, s := range segs {
			tuple = append(tuple, s)
			rec(n)
			tuple = tuple[:len(tuple)-1]
		}
	}
	for n := 0; n <= maxSegs; n++ {
		rec(n)
	}
	return out
}

// c20Lexical resolves base-relative `name` the way the kernel would for a path built by plain string
// concatenation base+"/"+name, lexically (the guard contains no symlinks on these paths): it returns
// the number of levels the result lies ABOVE base (0 = inside or equal) and the remaining components
// below that ancestor.
func c20Lexical(name string) (up int, rest []string) {
	for _, s := range strings.Split(name, "/") {
		switch s {
		case "", ".":
		case "..":
			if len(rest) > 0 {
				rest = rest[:len(rest)-1]
			} else {
				up++
			}
		default:
			rest = append(rest, s)
		}
	}
	return up, rest
}

// c20PureClimb: after dropping "." and empty segments every ".." comes before every ordinary segment.
// For such names lexical and kernel resolution agree whatever exists on disk.
func c20PureClimb(name string) bool {
	plain := false
	for _, s := range strings.Split(name, "/") {
		switch s {
		case "", ".":
		case "..":
			if plain {
				return false
			}
		default:
			plain = true
		}
	}
	return true
}

// c20NameHostile: a name is hostile unless it is a plain relative path of ordinary, non-colliding
// segments (that is: no "..", ".", empty segment, leading or trailing "/", NUL, over-long segment,
// or segment equal to an existing file/dir).
func c20NameHostile(name string) bool {
	if name == "" {
		return true
	}
	for _, s := range strings.Split(name, "/") {
		if s != c20SegPlain && s != c20SegSpace {
			return true
		}
	}
	return false
}

// c20NameBenign reports names for which success is expected by construction: relative, no dot
// segments, no NUL, no empty segments, every non-final segment is either a fresh name or the
// existing directory, the final one is a fresh name.
func c20NameBenign(name string) bool {
	if name == "" || strings.HasPrefix(name, "/") || strings.HasSuffix(name, "/") {
		return false
	}
	ss := strings.Split(name, "/")
	for i, s := range ss {
		switch s {
		case c20SegPlain, c20SegSpace, c20SegLong:
		case c20SegDir:
			// fine as a parent (it exists, or is simply a new directory name further down), but as the
			// final segment it collides with the existing directory (also after --strip-dirs)
			if i == len(ss)-1 {
				return false
			}
		default:
			return false
		}
	}
	return true
}

const c20HexA = "aaaaaaaaaaaaaaaaaaaaaaaaaaaaaaaaaaaaaaaaaaaaaaaaaaaaaaaaaaaaaaaa" // well-formed sha256 hex naming no blob

// c20Digests: the hostile digest/tag string families.
//
//	enc:  "sha256:"+N for every name N of the grammar (separators, dot segments, NUL, long, colliding in the ENCODED part)
//	alg:  N+":"+hex for every N (the same in the ALGORITHM part)
//	spec: a fixed list (64 slashes, missing/duplicate colon, wrong length, unknown algorithm, over-long,
//	      absolute path of a canary, valid hex followed by a traversal, climbs to every guard level …)
func c20Digests(names []string, deep int) (enc, alg, spec []string) {
	seen := map[string]bool{}
	add := func(l *[]string, s string) {
		if !seen[s] {
			seen[s] = true
			*l = append(*l, s)
		}
	}
	for _, n := range names {
		add(&enc, "sha256:"+n)
	}
	for _, n := range names {
		add(&alg, n+":"+c20HexA)
	}
	sp := []string{
		"sha256:" + strings.Repeat("/", 64),
		"sha256:" + strings.Repeat("../", 32)[:64],
		"sha256:" + c20HexA + "/../../../" + c20SegFile,
		"sha256:" + c20HexA[:63] + "/",
		"sha256:" + c20HexA[:62] + "/.",
		"sha256:" + c20HexA[:61] + "/..",
		"@CANARYDIGEST", // "sha256:" + absolute path of the canary next to the output directory
		"sha256:" + strings.Repeat("a", 5000),
		"sha256:" + strings.Repeat("../", 1500) + c20SegFile,
		"sha256:" + strings.ToUpper(c20HexA),
		"sha256:", ":", "", "sha256", c20SegFile, "..", "../" + c20SegFile, ":" + c20HexA, "sha256::" + c20HexA,
		"sha512:" + c20HexA, "sha384:" + c20HexA,
		"md5:" + c20HexA[:32], c20SegDir + ":" + c20SegFile, "..:" + c20SegFile, ".:.", "..:..",
		"blobs:sha256", "sha256+" + c20SegDir + ":" + c20SegFile, "sha256:" + c20HexA + ":" + c20HexA,
		"sha256/..:" + c20HexA, "sha256/../..:" + c20SegFile, "../../..:" + c20SegFile,
		"sha256:" + c20HexA + "\x00/../../../" + c20SegFile,
		"sha256\x00:" + c20HexA,
		"sha256:" + c20HexA + "\n",
		" sha256:" + c20HexA,
	}
	// climb exactly far enough to reach every guard level from blobs/<algo>/
	for k := 1; k <= deep; k++ {
		sp = append(sp, "sha256:"+strings.Repeat("../", k)+c20SegFile)
		sp = append(sp, "sha256:"+strings.Repeat("../", k)+c20SegDir+"/"+c20SegFile)
		sp = append(sp, strings.Repeat("../", k)+c20SegDir+":"+c20SegFile)
	}
	for _, s := range sp {
		add(&spec, s)
	}
	return enc, alg, spec
}

// c20DigestLexical: where path.Join(layout,"blobs",algo,enc) WITHOUT validation would land, relative
// to the layout directory.
func c20DigestLexical(d string) (up int, rest []string, ok bool) {
	i := strings.Index(d, ":")
	if i < 0 {
		return 0, nil, false
	}
	up, rest = c20Lexical("blobs/" + d[:i] + "/" + d[i+1:])
	return up, rest, true
}
