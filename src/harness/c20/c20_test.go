package main

// C20 — remote or archive content never causes writes outside the chosen directory.
//
// A hostile-name grammar (and the digest/tag strings derived from it) is enumerated exhaustively and
// every string is pushed through four entry routes of the real code:
//
//	i    regctl artifact get --output <dir> [--strip-dirs]   (title annotation, ± unpack annotation, digest as name)
//	ii   archive.Extract                                      (entry names; symlink / hardlink entries and a file "through" them)
//	iii  RegClient.ImageImport of OCI layout tars             (entry names, link entries, hostile descriptor digests) into an
//	                                                          ocidir layout inside the directory and into an in-memory registry
//	iv   every ocidir operation taking a descriptor or a reference digest / tag, via a RegClient on an ocidir:// reference
//
// Oracle: a guard directory encloses the designated directory next to canaries at every ancestor
// level; the recursive listing of guard∖designated is identical before and after every case, nothing
// appears under "/" either, and no read hands back canary bytes or a canary's size.
// The same oracle is run over deliberately unsafe reference implementations (join without cleaning,
// blob path without Digest.Validate) on the same inputs and must flag exactly the escaping ones.

import (
	"bytes"
	"context"
	"encoding/json"
	"fmt"
	"os"
	"path/filepath"
	"runtime/debug"
	"strings"
	"testing"
	"time"

	"github.com/opencontainers/go-digest"

	"github.com/regclient/regclient/internal/verif/ev"
)

const c20Depth = 4

func c20AllCases(thorough bool) ([]c20Case, map[string]int) {
	maxSegs := 3
	if thorough {
		maxSegs = 4
	}
	names := c20Names(maxSegs)
	// hostile ALGORITHM parts: one segment less than the names (the algorithm is a single path
	// component in blobs/<algorithm>/<encoded>, so every extra segment only adds depth)
	enc, _, spec := c20Digests(names, c20Depth+3)
	_, alg, _ := c20Digests(c20Names(maxSegs-1), c20Depth+3)
	info := map[string]int{"max_segments": maxSegs, "max_segments_algorithm_part": maxSegs - 1, "names": len(names), "digests_enc": len(enc), "digests_alg": len(alg), "digests_special": len(spec)}
	var cs []c20Case
	add := func(route, variant string, ins ...string) {
		for _, in := range ins {
			cs = append(cs, c20Case{route, variant, in})
		}
	}
	linkTargets := []string{"@CANARY", "@CANARYDIR", "@SIB", "@ROOT"}
	// route i
	for _, v := range []string{"file", "strip", "unpack", "strip+unpack"} {
		add("i", v, names...)
	}
	for _, v := range []string{"digest", "digest+strip"} {
		add("i", v, enc...)
		add("i", v, spec...)
	}
	// route ii
	for _, v := range []string{"reg", "dir", "sym-thru", "sym-over", "hard-over", "sym-name", "hard-name"} {
		add("ii", v, names...)
	}
	for _, v := range []string{"sym-thru", "sym-over", "hard-over"} {
		add("ii", v, linkTargets...)
	}
	// route iii
	for _, tgt := range []string{"@dir", "@mem"} {
		for _, v := range []string{"extra-reg", "extra-dir", "blob-sym", "blob-hard", "sym-name", "docker-names"} {
			add("iii", v+tgt, names...)
		}
		for _, v := range []string{"blob-sym", "blob-hard"} {
			add("iii", v+tgt, linkTargets...)
		}
		for _, v := range []string{"index-digest", "layer-digest", "config-digest", "ref-digest"} {
			add("iii", v+tgt, enc...)
			add("iii", v+tgt, alg...)
			add("iii", v+tgt, spec...)
		}
	}
	// route iv
	for _, op := range c20DigestOps {
		add("iv", op, "@L", "@M", "@A", "@NEW", "@PUTM")
		add("iv", op, enc...)
		add("iv", op, alg...)
		add("iv", op, spec...)
	}
	for _, op := range c20TagOps {
		add("iv", op, "v1", "a1", "newtag")
		add("iv", op, names...)
		add("iv", op, spec...)
	}
	// self-test of the oracle
	for _, v := range []string{"unsafe-write", "unsafe-read"} {
		add("self", v, names...)
	}
	for _, v := range []string{"unsafe-put", "unsafe-get", "unsafe-delete"} {
		add("self-iv", v, enc...)
		add("self-iv", v, alg...)
		add("self-iv", v, spec...)
	}
	return cs, info
}

type c20Runner struct {
	rec      *ev.Rec
	h        *c20H
	g        *c20Guard
	before   map[string]c20Ent
	curTmpl  string
	pristine string
	prisMap  map[string]string
	verbose  bool
	okByVar  map[string]int
	errByVar map[string]int
	sample     bool
	selfCaught int
}

func (rn *c20Runner) rebuildGuard() error {
	_ = os.Chdir(rn.rec.Scratch)
	if rn.g != nil {
		rn.rec.Count("listings", int64(rn.g.nSnap))
		rn.rec.Count("content_hashes_computed", int64(rn.g.nHashed))
		rn.rec.Count("guard_rebuilds", 1)
	}
	g, err := c20NewGuard(rn.rec.Scratch, c20Depth)
	if err != nil {
		return err
	}
	rn.g = g
	rn.h.g = g
	rn.before = nil
	rn.curTmpl = ""
	return os.Chdir(g.sib)
}

func (rn *c20Runner) prepare(tmpl string) error {
	if rn.curTmpl == tmpl {
		return nil
	}
	if err := rn.g.resetOut(tmpl); err != nil {
		return err
	}
	in, err := rn.g.snapInside()
	if err != nil {
		return err
	}
	rn.curTmpl = tmpl
	rn.pristine = c20InString(in)
	rn.prisMap = map[string]string{}
	for _, e := range in {
		rn.prisMap[e.Rel] = e.Desc
	}
	return nil
}

// restore brings the designated directory back to the template after a case changed it.
func (rn *c20Runner) restore(now []c20In) error {
	if err := rn.g.repairOut(rn.curTmpl, rn.prisMap, now); err == nil {
		if in, err := rn.g.snapInside(); err == nil && c20InString(in) == rn.pristine {
			return nil
		}
	}
	rn.rec.Count("full_resets", 1)
	if err := rn.g.resetOut(rn.curTmpl); err != nil {
		return err
	}
	in, err := rn.g.snapInside()
	if err != nil {
		return err
	}
	if c20InString(in) != rn.pristine {
		return fmt.Errorf("output directory differs from its template after a full reset")
	}
	return nil
}

var c20BenignOK, c20BenignBad int

// c20Expect: non-vacuity – for inputs that are benign by construction the operation must succeed and
// leave the expected file inside the designated directory. Returns ("", true) when there is no
// expectation for the case.
func (rn *c20Runner) expect(c c20Case, res c20Result) (what string, ok bool) {
	out := rn.g.out
	has := func(rel string, content []byte) bool {
		b, err := os.ReadFile(filepath.Join(out, rel))
		return err == nil && (content == nil || bytes.Equal(b, content))
	}
	h := rn.h
	switch c.Route {
	case "i":
		if !c20NameBenign(c.In) {
			return "", true
		}
		segs := strings.Split(c.In, "/")
		last := segs[len(segs)-1]
		switch c.Variant {
		case "file":
			return "file at <out>/<title>", res.err == nil && has(c.In, h.artBlob)
		case "strip":
			return "file at <out>/<last segment>", res.err == nil && has(last, h.artBlob)
		case "unpack":
			// the layer's tar also carries a hostile entry after in.txt: relocating it and refusing it
			// (with an error) are both fine, so only the entry that precedes it is demanded
			return "unpacked under <out>/<title>/", has(c.In+"/in.txt", []byte("unpacked\n"))
		case "strip+unpack":
			return "unpacked under <out>/", has("in.txt", []byte("unpacked\n"))
		}
	case "ii":
		if !c20NameBenign(c.In) {
			return "", true
		}
		segs := strings.Split(c.In, "/")
		switch c.Variant {
		case "reg":
			// Extract does not create parents of a regular entry
			if len(segs) == 1 || (len(segs) == 2 && segs[0] == c20SegDir) {
				return "file at <out>/<name>", res.err == nil && has(c.In, c20Payload)
			}
		case "dir":
			return "directory and file below it", res.err == nil && has(c.In+"/"+c20InName, c20Payload)
		}
	case "iii":
		kind := c.Variant[:strings.Index(c.Variant, "@")]
		if (kind == "extra-reg" || kind == "extra-dir" || kind == "sym-name" || kind == "docker-names") && c20NameBenign(c.In) {
			return "import succeeds and the layer is stored", res.err == nil && res.note == "layer-present"
		}
	case "iv":
		e := func(cond bool) (string, bool) { return "benign " + c.Variant + " on " + c.In, res.err == nil && cond }
		switch c.Variant + c.In {
		case "blob-get@L":
			return e(bytes.Equal(res.read, h.fixLayer))
		case "blob-head@L":
			return e(res.size == int64(len(h.fixLayer)))
		case "blob-put@NEW", "blob-put-nosize@NEW":
			return e(strings.HasPrefix(res.note, "present "+h.newBlobDig.String()))
		case "blob-delete@L", "manifest-delete@A", "manifest-delete-wm@M", "manifest-delete@M":
			return e(res.note == "deleted")
		case "blob-copy@L", "manifest-put-ref@PUTM", "manifest-put-tagnewtag", "manifest-put-desc@PUTM", "manifest-put-subject@M":
			return e(res.note == "present")
		case "manifest-get@M", "manifest-get-desc@M", "manifest-get-tagv1", "idx-get@M":
			return e(bytes.Equal(res.read, h.fixMan))
		case "manifest-head@M", "idx-head@M":
			return e(res.size == int64(len(h.fixMan)))
		case "referrer-list@M":
			return e(res.note == "referrers=1")
		case "image-copy-reg@L":
			return e(res.note == "copied")
		case "tag-deletev1", "idx-delete@M", "idx-copy@M":
			return e(true)
		case "idx-gc@M":
			return e(res.note == "collected")
		}
	}
	return "", true
}

func c20Hostile(c c20Case, in string) bool {
	switch c.Route {
	case "i", "ii", "iii", "iv":
	default:
		return false
	}
	if strings.HasPrefix(c.In, "@") {
		return c.In == "@CANARY" || c.In == "@CANARYDIR" || c.In == "@SIB" || c.In == "@ROOT" || c.In == "@CANARYDIGEST"
	}
	digestLike := c.Route == "iv" || strings.HasPrefix(c.Variant, "digest") || strings.Contains(c.Variant, "-digest")
	if c.Route == "iv" && (strings.Contains(c.Variant, "tag")) {
		digestLike = false
	}
	if digestLike {
		return digest.Digest(in).Validate() != nil
	}
	return c20NameHostile(in)
}

// run executes one case and judges it.
func (rn *c20Runner) run(c c20Case) {
	rec := rn.rec
	if rn.g == nil {
		if err := rn.rebuildGuard(); err != nil {
			rec.HarnessError("guard: %v", err)
			return
		}
	}
	if err := rn.prepare(rn.h.template(c)); err != nil {
		rec.HarnessError("prepare output directory: %v", err)
		return
	}
	if rn.before == nil {
		b, err := rn.g.snapOutside(true)
		if err != nil {
			rec.HarnessError("listing: %v", err)
			return
		}
		rn.before = b
		if tp := rn.g.topPresent(); len(tp) > 0 {
			rec.HarnessError("names watched for absolute escapes already exist under /: %v", tp)
		}
	}
	in := rn.h.expand(c.In)
	self := strings.HasPrefix(c.Route, "self")
	if self {
		// never let the unsafe reference implementation leave the guard: skip inputs that climb past it
		up := 0
		if c.Route == "self" {
			up, _ = c20Lexical(in)
		} else {
			up, _, _ = c20DigestLexical(in)
		}
		if up > c20Depth+1 {
			rec.Count("self.skipped_would_leave_guard", 1)
			return
		}
	}
	res := rn.h.exec(c)
	pfx := c.Route + "." + c.Variant + "."
	if res.skipped != "" {
		rec.Count(c.Route+".unencodable", 1)
		if rn.verbose {
			fmt.Printf("case %s: not expressible: %s\n", c.id(), res.skipped)
		}
		return
	}
	after, err := rn.g.snapOutside(false)
	if err != nil {
		rec.HarnessError("listing: %v", err)
		return
	}
	diff := c20DiffSnap(rn.before, after)
	top := rn.g.topPresent()
	insideL, err := rn.g.snapInside()
	if err != nil {
		rec.HarnessError("listing of the output directory: %v", err)
	}
	inside := c20InString(insideL)
	readEsc := ""
	if bytes.Contains(res.read, []byte(c20Magic)) {
		readEsc = "the operation returned the content of a canary file"
	} else if p, ok := rn.g.canarySizes[res.size]; ok {
		readEsc = fmt.Sprintf("the operation reported size %d, which is the size of canary %s", res.size, p)
	} else if res.err != nil || len(res.read) > 0 || res.out != "" {
		// the content hash of a canary in an error text or output can only come from reading it
		txt := string(res.read) + " " + res.out
		if res.err != nil {
			txt += " " + res.err.Error()
		}
		for rel, hx := range rn.g.canaryHashes() {
			if strings.Contains(txt, hx) {
				readEsc = fmt.Sprintf("the operation's result carries the content digest of canary %s, a file outside the directory that was therefore read", rel)
				break
			}
		}
	}
	rec.Eval(1)
	rec.Count(c.Route+".cases", 1)
	if res.panicked != "" {
		rec.Count(c.Route+".panics", 1)
		rec.Count("panic."+c.Route+"."+c.Variant, 1)
	} else if res.err != nil {
		rec.Count(c.Route+".errors", 1)
		rn.errByVar[pfx]++
	} else {
		rec.Count(c.Route+".ok", 1)
		rn.okByVar[pfx]++
	}
	if inside != rn.pristine {
		rec.Count(c.Route+".changed_inside", 1)
	}
	if rn.verbose {
		fmt.Printf("case %s\n  input expanded: %q\n  error: %v\n  panic: %q\n  note: %s\n  read: %d bytes, head size %d\n  output:%s\n  outside diff: %v\n  under /: %v\n  inside listing:\n    %s\n",
			c.id(), in, res.err, res.panicked, res.note, len(res.read), res.size, res.out, diff, top, strings.ReplaceAll(inside, "\n", "\n    "))
	}
	describe := func() string {
		e := "<nil>"
		if res.err != nil {
			e = c20Printable(res.err.Error())
			if len(e) > 300 {
				e = e[:300] + "…"
			}
		}
		sin := fmt.Sprintf("%q", c.In)
		if len(sin) > 400 {
			sin = sin[:400] + "…"
		}
		return fmt.Sprintf("route %s variant %s input %s (returned error: %s; panic: %q)", c.Route, c.Variant, sin, e, res.panicked)
	}
	if !self {
		if c20Hostile(c, in) {
			rec.Distinct(c.id())
			rec.Count(c.Route+".hostile_cases", 1)
		}
		if len(diff) > 0 {
			rec.Violation(c.Route+"/"+c.Variant+"/outside-changed",
				"files outside the designated directory changed: "+describe()+"\n"+strings.Join(diff, "\n"), c)
			rec.Count(c.Route+".violating_cases", 1)
		}
		if len(top) > 0 {
			rec.Violation(c.Route+"/"+c.Variant+"/absolute-escape",
				fmt.Sprintf("entries appeared directly under /: %v: %s", top, describe()), c)
			rec.Count(c.Route+".violating_cases", 1)
		}
		if readEsc != "" {
			rec.Violation(c.Route+"/"+c.Variant+"/read-escape", readEsc+": "+describe(), c)
			rec.Count(c.Route+".violating_cases", 1)
		}
		if what, ok := rn.expect(c, res); !ok {
			// the property is a pure safety clause (nothing outside the directory): a benign input that
			// does not produce its file is noticed, not judged; the run as a whole must not be vacuous
			rec.Count(c.Route+".benign_not_as_expected", 1)
			c20BenignBad++
			if c20BenignBad <= 3 {
				rec.Note(fmt.Sprintf("benign case %s did not produce %s (err=%s panic=%q note=%q inside=%q)", c.id(), what, c20Printable(fmt.Sprint(res.err)), res.panicked, res.note, insideL))
			}
		} else if what != "" {
			rec.Count(c.Route+".benign_as_expected", 1)
			c20BenignOK++
		}
		if rn.sample {
			// (self-test cases are sampled below)
			e := ""
			if res.err != nil {
				e = c20Printable(res.err.Error())
				if len(e) > 160 {
					e = e[:160] + "…"
				}
			}
			rec.Sample(map[string]any{"route": c.Route, "variant": c.Variant, "in": c20Short(c.In), "hostile": c20Hostile(c, in), "error": e,
				"changed_inside_dir": inside != rn.pristine, "changed_outside": len(diff) > 0})
		}
	} else {
		// oracle self-test: the unsafe implementation must be flagged exactly when it escaped
		up := 0
		if c.Route == "self" {
			up, _ = c20Lexical(in)
		} else {
			up, _, _ = c20DigestLexical(in)
		}
		flagged := len(diff) > 0 || readEsc != ""
		if c.Route == "self" && !c20PureClimb(in) {
			// c20a/../../x: the kernel refuses to walk through a missing c20a, lexical cleaning does not;
			// only the "flagged implies escaping" direction is demanded of such names
			if up > 0 && !flagged {
				up = -1
			}
		}
		escapedWrite := up > 0 && res.note == "wrote"
		escapedRead := up > 0 && res.err == nil && len(res.read) > 0 && strings.Contains(c.Variant, "get") || up > 0 && res.err == nil && len(res.read) > 0 && strings.Contains(c.Variant, "read")
		switch {
		case (escapedWrite || escapedRead) && !flagged:
			rec.HarnessError("oracle self-test: unsafe %s on %q escaped (climbs %d levels, note=%q, read %d bytes) but the oracle saw nothing", c.Variant, c.In, up, res.note, len(res.read))
		case up == 0 && flagged:
			rec.HarnessError("oracle self-test: unsafe %s on %q stays inside the directory but the oracle flagged it: %v %s", c.Variant, c.In, diff, readEsc)
		}
		if rn.sample {
			rec.Sample(map[string]any{"route": c.Route, "variant": c.Variant, "in": c20Short(c.In), "unsafe_reference_implementation": true, "climbs_levels": up, "flagged_by_oracle": flagged})
		}
		if flagged {
			rn.selfCaught++
			rec.Count("selftest.caught", 1)
			rec.Count("selftest.caught."+c.Route+"."+c.Variant, 1)
		} else {
			rec.Count("selftest.not_flagged", 1)
		}
		if escapedWrite || escapedRead {
			rec.Count("selftest.escapes", 1)
		}
	}
	// restore
	if len(top) > 0 {
		for _, n := range top {
			_ = os.RemoveAll("/" + n)
		}
	}
	if len(diff) > 0 {
		if rn.g.repair(rn.before, after) {
			rec.Count("guard_repairs", 1)
			rn.before = nil
		} else {
			if err := rn.rebuildGuard(); err != nil {
				rec.HarnessError("guard: %v", err)
				rn.g = nil
			}
			return // the rebuilt guard has an empty output directory; prepare() repopulates it
		}
	} else {
		rn.before = after
	}
	if inside != rn.pristine {
		if err := rn.restore(insideL); err != nil {
			rec.HarnessError("reset output directory: %v", err)
		}
	}
}

// c20Printable escapes control bytes (error texts echo the hostile names, NUL included).
func c20Printable(s string) string {
	q := fmt.Sprintf("%q", s)
	return q[1 : len(q)-1]
}

func c20Short(s string) string {
	q := fmt.Sprintf("%q", s)
	if len(q) > 80 {
		q = q[:40] + "…" + q[len(q)-30:] + fmt.Sprintf(" (%d bytes)", len(s))
	}
	return q
}

func TestVerifC20(t *testing.T) {
	rec := ev.New()
	defer rec.Flush(t)
	defer func() {
		// vacuity guard for the whole shard: if benign inputs (almost) never produce their files the
		// operations are not being exercised at all
		if rec.ReplayData() == nil && c20BenignOK+c20BenignBad >= 20 && c20BenignOK*4 < c20BenignBad {
			rec.HarnessError("vacuous run: only %d of %d benign control cases produced their expected output", c20BenignOK, c20BenignOK+c20BenignBad)
		}
	}()
	debug.SetGCPercent(400)
	rec.Rule("names = lead+seg/…/seg+trail over segments {.., ., empty, plain, 'with space', 255-byte, embedded NUL, existing file, existing dir, a name that has the designated directory's own name as a prefix}, 0..3 segments (quick) / 0..4 (thorough), lead in {'', '/'}, trail in {'', '/', '//'}, duplicates dropped; " +
		"digests = 'sha256:'+name for every name, name+':'+hex for every name of up to 2 (quick) / 3 (thorough) segments, plus a fixed list of specials; every string is run through every variant of route i (regctl artifact get --output, in process: title ± --strip-dirs ± unpack annotation, digest-as-name), " +
		"ii (archive.Extract: regular/dir entry names, symlink+hardlink entries with the string as target or as name followed by a file through the link), iii (ImageImport of OCI layout tars into an ocidir inside the directory and into an in-memory registry: extra entries, blobs behind links, hostile digests in index/manifest/reference) and " +
		"iv (24 ocidir operations through RegClient with the string as descriptor digest, reference digest, subject digest, index.json entry or tag). One evaluation = one (route, variant, string) executed on the real code and judged by the guard listing. " +
		"distinct_nontrivial = distinct (route, variant, string) triples on the real code whose string is hostile: a name that is not a plain relative path of fresh ordinary segments, or a digest for which Digest.Validate() fails; self-test cases and benign controls are not counted")
	rec.Assume("content hashes of guard files are recomputed when any stat field (inode, size, mode, nlink, mtime, ctime) changed, on every 64th listing and on the closing listing; the kernel stamps ctime on every content or metadata change")
	rec.Assume("the output directory contains no links placed there by the user; the file system is POSIX (Linux); lexical path resolution equals kernel resolution inside the guard because the guard's directories are real directories")
	rec.Assume(fmt.Sprintf("escapes are looked for inside the guard directory (%d ancestor levels with canaries at each)", c20Depth+1) + ", directly under / for absolute paths, and in the process' cwd (the sibling directory); a write elsewhere on the machine would need an absolute path not derived from the input")
	if rec.Scratch == "" || rec.Scratch == os.TempDir() && os.Getenv("VERIF_SCRATCH") == "" {
		d, err := os.MkdirTemp("", "c20-")
		if err != nil {
			rec.HarnessError("scratch: %v", err)
			return
		}
		rec.Scratch = d
		defer os.RemoveAll(d)
	}
	g, err := c20NewGuard(rec.Scratch, c20Depth)
	if err != nil {
		rec.HarnessError("guard: %v", err)
		return
	}
	// everything the process could want to write by default goes into the guard
	for k, v := range map[string]string{"HOME": g.home, "TMPDIR": g.tmp, "REGCTL_CONFIG": filepath.Join(g.home, "regctl-config.json"),
		"DOCKER_CONFIG": filepath.Join(g.home, "docker"), "XDG_CONFIG_HOME": filepath.Join(g.home, "xdg"), "XDG_CACHE_HOME": filepath.Join(g.home, "xdg-cache")} {
		os.Setenv(k, v)
	}
	cwd0, _ := os.Getwd()
	defer os.Chdir(cwd0)
	ctx := context.Background()
	h, err := c20NewH(ctx, rec.Scratch, g)
	if err != nil {
		rec.HarnessError("fixtures: %v", err)
		return
	}
	defer func() {
		if h.mem != nil {
			_ = h.mem.Close()
		}
	}()
	rn := &c20Runner{rec: rec, h: h, okByVar: map[string]int{}, errByVar: map[string]int{}}
	if err := rn.rebuildGuard(); err != nil {
		rec.HarnessError("guard: %v", err)
		return
	}
	defer func() {
		if rn.g != nil {
			if des, err := os.ReadDir(rn.g.tmp); err == nil {
				rec.Count("tmpdir_entries_left", int64(len(des)))
			}
		}
	}()

	if rd := rec.ReplayData(); rd != nil {
		var c c20Case
		if err := json.Unmarshal(rd, &c); err != nil {
			rec.HarnessError("replay: %v", err)
			return
		}
		rn.verbose = true
		rn.run(c)
		if rec.NViolations() == 0 {
			fmt.Println("replay: the case did not violate the property")
		} else {
			fmt.Println("replay: VIOLATION reproduced")
		}
		return
	}

	cases, info := c20AllCases(rec.Thorough())
	for k, v := range info {
		rec.Info(k, v)
	}
	rec.Info("cases_total", len(cases))
	rec.Info("guard_depth", c20Depth)
	only := os.Getenv("VERIF_C20_ONLY")
	expired := false
	routeNS := map[string]time.Duration{}
	sampled := map[string]bool{}
	for i, c := range cases {
		if !rec.Mine(i) {
			continue
		}
		if only != "" && !strings.HasPrefix(c.Route+"/"+c.Variant, only) {
			continue
		}
		if i&255 == 0 && rec.Expired() {
			expired = true
			rec.NotExhaustive(fmt.Sprintf("wall-clock budget reached in shard %d at case %d of %d", rec.ShardI, i, len(cases)))
			break
		}
		// a few actual cases for the evidence file: per route the first traversal-shaped input of shard 0
		rn.sample = rec.ShardI == 0 && !sampled[c.Route] && strings.Contains(c.In, "../") && strings.Contains(c.In, c20SegFile)
		if rn.sample {
			sampled[c.Route] = true
			rec.SampleCap = 8
		}
		t0 := time.Now()
		rn.run(c)
		routeNS[c.Route] += time.Since(t0)
	}
	for r, d := range routeNS {
		rec.Count(r+".wall_ms", d.Milliseconds())
	}
	if rn.g == nil {
		return
	}
	if tp := rn.g.topPresent(); len(tp) > 0 {
		for _, n := range tp {
			_ = os.RemoveAll("/" + n)
		}
		rec.Note(fmt.Sprintf("entries with watched names were present under / at the end of shard %d and were removed: %d", rec.ShardI, len(tp)))
	}
	// closing listing with every content hash recomputed
	if rn.before != nil {
		if fin, err := rn.g.snapOutside(true); err != nil {
			rec.HarnessError("listing: %v", err)
		} else if d := c20DiffSnap(rn.before, fin); len(d) > 0 {
			rec.HarnessError("closing full listing differs from the last per-case listing (a change escaped the stat-keyed hash cache): %v", d)
		}
	}
	rec.Count("listings", int64(rn.g.nSnap))
	rec.Count("content_hashes_computed", int64(rn.g.nHashed))
	if only != "" {
		rec.NotExhaustive("VERIF_C20_ONLY filter active")
		return
	}
	// vacuity: per route both outcomes must have been seen, and the self-test must have caught escapes
	tot := map[string][2]int{}
	for k, v := range rn.okByVar {
		r := k[:strings.Index(k, ".")]
		x := tot[r]
		x[0] += v
		tot[r] = x
	}
	for k, v := range rn.errByVar {
		r := k[:strings.Index(k, ".")]
		x := tot[r]
		x[1] += v
		tot[r] = x
	}
	if rn.selfCaught == 0 && !expired {
		rec.HarnessError("vacuity: the oracle self-test never flagged the unsafe reference implementations in this shard")
	}
	for _, r := range []string{"i", "ii", "iii", "iv"} {
		if (tot[r][0] == 0 || tot[r][1] == 0) && !expired {
			rec.HarnessError("vacuity: route %s saw %d successes and %d errors in this shard", r, tot[r][0], tot[r][1])
		}
	}
}
