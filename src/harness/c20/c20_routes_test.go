package main

// C20 – the four entry routes (real regclient / regctl code) and the deliberately unsafe reference
// implementations used by the oracle self-test.

import (
	"archive/tar"
	"bytes"
	"context"
	"encoding/json"
	"fmt"
	"io"
	"net/http"
	"os"
	"path"
	"path/filepath"
	"regexp"
	"strings"
	"sync"
	"time"

	"github.com/olareg/olareg"
	oConfig "github.com/olareg/olareg/config"
	"github.com/opencontainers/go-digest"

	"github.com/regclient/regclient"
	"github.com/regclient/regclient/config"
	"github.com/regclient/regclient/internal/verif/modelreg"
	"github.com/regclient/regclient/pkg/archive"
	"github.com/regclient/regclient/scheme/reg"
	"github.com/regclient/regclient/types/descriptor"
	"github.com/regclient/regclient/types/manifest"
	"github.com/regclient/regclient/types/mediatype"
	v1 "github.com/regclient/regclient/types/oci/v1"
	"github.com/regclient/regclient/types/ref"
)

type c20Case struct {
	Route   string `json:"route"`   // i | ii | iii | iv | self
	Variant string `json:"variant"` // route-specific entry point / option combination
	In      string `json:"in"`      // the hostile string (name, link target, digest or tag); "@X" = symbolic, see expand
}

func (c c20Case) id() string { return c.Route + "/" + c.Variant + "/" + fmt.Sprintf("%q", c.In) }

type c20Result struct {
	err      error
	panicked string
	read     []byte // bytes handed back by a read operation
	size     int64  // size reported by a head operation (-1: none)
	skipped  string // case cannot be expressed (e.g. a tar header cannot carry a NUL)
	note     string // route-specific observation made before clean-up (e.g. "present")
	out      string
}

// ---------------------------------------------------------------------------------------------
// a tiny registry: serves one manifest for every manifest request and blobs by digest (any digest
// string is answered with the default blob, so that hostile digests are never stopped server-side)

type c20Reg struct {
	mu       sync.Mutex
	manifest []byte
	mt       string
	blobs    map[string][]byte
	anyBlob  []byte
}

var (
	c20ManifestRE = regexp.MustCompile(`^/v2/(.+)/manifests/(.+)$`)
	c20BlobRE     = regexp.MustCompile(`^/v2/(.+)/blobs/(.+)$`)
)

func (s *c20Reg) ServeHTTP(w http.ResponseWriter, r *http.Request) {
	s.mu.Lock()
	defer s.mu.Unlock()
	p := r.URL.Path
	switch {
	case p == "/v2/" || p == "/v2":
		w.Header().Set("Content-Type", "application/json")
		w.WriteHeader(200)
		_, _ = w.Write([]byte("{}"))
	case c20ManifestRE.MatchString(p) && (r.Method == http.MethodGet || r.Method == http.MethodHead):
		if s.manifest == nil {
			w.WriteHeader(404)
			return
		}
		w.Header().Set("Content-Type", s.mt)
		w.Header().Set("Docker-Content-Digest", digest.FromBytes(s.manifest).String())
		w.Header().Set("Content-Length", fmt.Sprint(len(s.manifest)))
		w.WriteHeader(200)
		if r.Method == http.MethodGet {
			_, _ = w.Write(s.manifest)
		}
	case c20BlobRE.MatchString(p) && (r.Method == http.MethodGet || r.Method == http.MethodHead):
		m := c20BlobRE.FindStringSubmatch(p)
		b, ok := s.blobs[m[2]]
		if !ok {
			b = s.anyBlob
		}
		if b == nil {
			w.WriteHeader(404)
			return
		}
		w.Header().Set("Content-Type", "application/octet-stream")
		w.Header().Set("Content-Length", fmt.Sprint(len(b)))
		w.WriteHeader(200)
		if r.Method == http.MethodGet {
			_, _ = w.Write(b)
		}
	default:
		w.WriteHeader(404)
	}
}

// ---------------------------------------------------------------------------------------------

type c20TarEnt struct {
	Name string
	Type byte
	Link string
	Body []byte
}

// c20Tar encodes the entries as a POSIX tar stream by hand: archive/tar's Writer refuses exactly the
// headers a hostile archive would carry (regular entries whose name ends in "/", NUL bytes in PAX
// records). Names or link targets that do not fit the 100-byte ustar fields, or contain a NUL or a
// non-ASCII byte, travel in a PAX extended header ("path=", "linkpath=").
func c20Tar(ents []c20TarEnt) ([]byte, error) {
	var buf bytes.Buffer
	block := func(name string, typ byte, link string, size int, mode int64) {
		var h [512]byte
		copy(h[0:100], name)
		copy(h[100:108], fmt.Sprintf("%07o\x00", mode))
		copy(h[108:116], "0000000\x00")
		copy(h[116:124], "0000000\x00")
		copy(h[124:136], fmt.Sprintf("%011o\x00", size))
		copy(h[136:148], fmt.Sprintf("%011o\x00", c20Old.Unix()))
		copy(h[148:156], "        ")
		h[156] = typ
		copy(h[157:257], link)
		copy(h[257:263], "ustar\x00")
		copy(h[263:265], "00")
		sum := 0
		for _, b := range h {
			sum += int(b)
		}
		copy(h[148:156], fmt.Sprintf("%06o\x00 ", sum))
		buf.Write(h[:])
	}
	data := func(b []byte) {
		buf.Write(b)
		if r := len(b) % 512; r != 0 {
			buf.Write(make([]byte, 512-r))
		}
	}
	plain := func(s string) bool {
		if len(s) > 100 {
			return false
		}
		for i := 0; i < len(s); i++ {
			if s[i] == 0 || s[i] >= 0x80 {
				return false
			}
		}
		return true
	}
	paxRec := func(k, v string) string {
		body := " " + k + "=" + v + "\n"
		n := len(body) + 1
		for len(fmt.Sprint(n))+len(body) != n {
			n = len(fmt.Sprint(n)) + len(body)
		}
		return fmt.Sprint(n) + body
	}
	for i, e := range ents {
		name, link := e.Name, e.Link
		pax := ""
		if !plain(name) {
			pax += paxRec("path", name)
			name = fmt.Sprintf("pax-entry-%d", i)
		}
		if !plain(link) {
			pax += paxRec("linkpath", link)
			link = "pax-link"
		}
		if pax != "" {
			block(fmt.Sprintf("PaxHeaders.0/e%d", i), tar.TypeXHeader, "", len(pax), 0o644)
			data([]byte(pax))
		}
		switch e.Type {
		case tar.TypeReg:
			block(name, e.Type, link, len(e.Body), 0o644)
			data(e.Body)
		case tar.TypeDir:
			block(name, e.Type, link, 0, 0o755)
		default:
			block(name, e.Type, link, 0, 0o777)
		}
	}
	buf.Write(make([]byte, 1024))
	return buf.Bytes(), nil
}

// ---------------------------------------------------------------------------------------------

type c20H struct {
	ctx     context.Context
	g       *c20Guard
	scratch string
	verbose bool

	rt     *modelreg.HandlerRT
	reg    *c20Reg
	mem    *olareg.Server
	memN   int
	rcOpts []regclient.Opt

	tmplPlain, tmplLayout string

	// route i
	artBlob    []byte // a tar: in.txt, ../../c20f, sub/, sub/in2.txt – also used as plain file content
	artBlobDig digest.Digest

	// route iii
	impConf, impLayer, impMan []byte
	impConfD, impLayerD       descriptor.Descriptor
	impManD                   descriptor.Descriptor

	// route iv fixture (layout living in the designated directory)
	fixLayer, fixConf, fixMan, fixArt []byte
	fixLayerD, fixConfD               descriptor.Descriptor
	fixManD, fixArtD                  descriptor.Descriptor
	newBlob                           []byte
	newBlobDig                        digest.Digest
	putMan                            manifest.Manifest // a valid manifest not yet in the layout
	putManRaw                         []byte
}

const (
	c20Host    = "c20.example"
	c20MemHost = "c20mem.example"
)

// the payload names the shard so that a file that shows up under "/" can be told from another shard's
var c20Payload = []byte("C20-PAYLOAD shard=" + os.Getenv("VERIF_SHARD") + ". written by the operation under test\n")

// Names chosen by the harness (not by the grammar) for files written below a hostile directory or link
// name. They carry the shard number so that an absolute escape to "/" – the one place all shard
// processes share – is attributed to the shard that caused it.
var (
	c20ThruName = "c20thru.s" + os.Getenv("VERIF_SHARD")
	c20InName   = "c20in.s" + os.Getenv("VERIF_SHARD")
)

func c20NewH(ctx context.Context, scratch string, g *c20Guard) (*c20H, error) {
	h := &c20H{ctx: ctx, g: g, scratch: scratch}
	h.reg = &c20Reg{blobs: map[string][]byte{}, mt: mediatype.OCI1Manifest}
	h.rt = modelreg.NewHandlerRT()
	h.rt.Hosts[c20Host] = h.reg
	h.rcOpts = []regclient.Opt{
		regclient.WithConfigHost(
			config.Host{Name: c20Host, Hostname: c20Host, TLS: config.TLSDisabled},
			config.Host{Name: c20MemHost, Hostname: c20MemHost, TLS: config.TLSDisabled},
		),
		regclient.WithRegOpts(reg.WithHTTPClient(&http.Client{Transport: h.rt}), reg.WithDelay(time.Millisecond, time.Millisecond), reg.WithRetryLimit(2)),
	}
	var err error
	h.artBlob, err = c20Tar([]c20TarEnt{
		{Name: "in.txt", Type: tar.TypeReg, Body: []byte("unpacked\n")},
		{Name: "../../" + c20SegFile, Type: tar.TypeReg, Body: c20Payload},
		{Name: "sub/", Type: tar.TypeDir},
		{Name: "sub/in2.txt", Type: tar.TypeReg, Body: []byte("unpacked 2\n")},
	})
	if err != nil {
		return nil, err
	}
	h.artBlobDig = digest.FromBytes(h.artBlob)
	h.reg.anyBlob = h.artBlob

	// templates
	h.tmplPlain = filepath.Join(scratch, "tmpl-plain")
	h.tmplLayout = filepath.Join(scratch, "tmpl-layout")
	for _, d := range []string{h.tmplPlain, h.tmplLayout} {
		_ = os.RemoveAll(d)
		if err := os.MkdirAll(d, 0o755); err != nil {
			return nil, err
		}
		if err := c20PlainTemplate(d); err != nil {
			return nil, err
		}
	}
	if err := h.buildImportPieces(); err != nil {
		return nil, err
	}
	if err := h.buildLayoutFixture(); err != nil {
		return nil, err
	}
	return h, nil
}

func (h *c20H) newRC() *regclient.RegClient { return regclient.New(h.rcOpts...) }

func (h *c20H) memReset() {
	if h.mem != nil {
		_ = h.mem.Close()
	}
	h.mem = olareg.New(oConfig.Config{Storage: oConfig.ConfigStorage{StoreType: oConfig.StoreMem}})
	h.rt.Hosts[c20MemHost] = h.mem
	h.memN = 0
}

func c20Desc(mt string, b []byte) descriptor.Descriptor {
	return descriptor.Descriptor{MediaType: mt, Digest: digest.FromBytes(b), Size: int64(len(b))}
}

func (h *c20H) buildImportPieces() error {
	h.impConf = []byte(`{"architecture":"amd64","os":"linux","config":{},"rootfs":{"type":"layers","diff_ids":[]}}`)
	h.impLayer = []byte("C20-IMPORT-LAYER-CONTENT (opaque to the importer)\n")
	h.impConfD = c20Desc(mediatype.OCI1ImageConfig, h.impConf)
	h.impLayerD = c20Desc(mediatype.OCI1Layer, h.impLayer)
	m := v1.Manifest{Versioned: v1.ManifestSchemaVersion, MediaType: mediatype.OCI1Manifest, Config: h.impConfD, Layers: []descriptor.Descriptor{h.impLayerD}}
	var err error
	h.impMan, err = json.Marshal(m)
	if err != nil {
		return err
	}
	h.impManD = c20Desc(mediatype.OCI1Manifest, h.impMan)
	return nil
}

func c20BlobPath(d digest.Digest) string { return "blobs/" + d.Algorithm().String() + "/" + d.Encoded() }

// importTar assembles an OCI layout tar; `pre` entries come first, `man` / `index` override the
// regular manifest and index bytes, `blobs` is the list of (name, content) blob entries.
func (h *c20H) importTar(pre []c20TarEnt, index []byte, blobs []c20TarEnt) ([]byte, error) {
	ents := append([]c20TarEnt{}, pre...)
	ents = append(ents,
		c20TarEnt{Name: "oci-layout", Type: tar.TypeReg, Body: []byte(`{"imageLayoutVersion":"1.0.0"}`)},
		c20TarEnt{Name: "index.json", Type: tar.TypeReg, Body: index},
		c20TarEnt{Name: "blobs/", Type: tar.TypeDir},
		c20TarEnt{Name: "blobs/sha256/", Type: tar.TypeDir},
	)
	ents = append(ents, blobs...)
	return c20Tar(ents)
}

func c20Index(ds ...descriptor.Descriptor) []byte {
	b, _ := json.Marshal(v1.Index{Versioned: v1.IndexSchemaVersion, MediaType: mediatype.OCI1ManifestList, Manifests: ds})
	return b
}

func (h *c20H) buildLayoutFixture() error {
	rc := h.newRC()
	r, err := ref.New("ocidir://" + h.tmplLayout)
	if err != nil {
		return fmt.Errorf("scratch path not usable as ocidir reference: %w", err)
	}
	ctx := h.ctx
	h.fixConf = []byte(`{"architecture":"amd64","os":"linux","config":{},"rootfs":{"type":"layers","diff_ids":[]}}`)
	h.fixLayer = []byte("C20-LAYOUT-LAYER-CONTENT\n")
	h.fixConfD = c20Desc(mediatype.OCI1ImageConfig, h.fixConf)
	h.fixLayerD = c20Desc(mediatype.OCI1Layer, h.fixLayer)
	if _, err := rc.BlobPut(ctx, r, h.fixConfD, bytes.NewReader(h.fixConf)); err != nil {
		return err
	}
	if _, err := rc.BlobPut(ctx, r, h.fixLayerD, bytes.NewReader(h.fixLayer)); err != nil {
		return err
	}
	mm := v1.Manifest{Versioned: v1.ManifestSchemaVersion, MediaType: mediatype.OCI1Manifest, Config: h.fixConfD, Layers: []descriptor.Descriptor{h.fixLayerD}}
	h.fixMan, _ = json.Marshal(mm)
	h.fixManD = c20Desc(mediatype.OCI1Manifest, h.fixMan)
	m, err := manifest.New(manifest.WithRaw(h.fixMan), manifest.WithDesc(h.fixManD))
	if err != nil {
		return err
	}
	if err := rc.ManifestPut(ctx, r.SetTag("v1"), m); err != nil {
		return err
	}
	// an artifact referring to v1 (creates the referrers fallback tag)
	emptyD := descriptor.Descriptor{MediaType: mediatype.OCI1Empty, Digest: descriptor.EmptyDigest, Size: 2}
	if _, err := rc.BlobPut(ctx, r, emptyD, bytes.NewReader(descriptor.EmptyData)); err != nil {
		return err
	}
	subj := h.fixManD
	am := v1.Manifest{Versioned: v1.ManifestSchemaVersion, MediaType: mediatype.OCI1Manifest, ArtifactType: "application/vnd.c20.test", Config: emptyD, Layers: []descriptor.Descriptor{h.fixLayerD}, Subject: &subj}
	h.fixArt, _ = json.Marshal(am)
	h.fixArtD = c20Desc(mediatype.OCI1Manifest, h.fixArt)
	a, err := manifest.New(manifest.WithRaw(h.fixArt), manifest.WithDesc(h.fixArtD))
	if err != nil {
		return err
	}
	if err := rc.ManifestPut(ctx, r.SetTag("a1"), a); err != nil {
		return err
	}
	if err := rc.Close(ctx, r); err != nil {
		return err
	}
	h.newBlob = []byte("C20-NEW-BLOB-CONTENT\n")
	h.newBlobDig = digest.FromBytes(h.newBlob)
	pm := v1.Manifest{Versioned: v1.ManifestSchemaVersion, MediaType: mediatype.OCI1Manifest, Config: h.fixConfD, Layers: []descriptor.Descriptor{h.fixLayerD}, Annotations: map[string]string{"c20": "put"}}
	h.putManRaw, _ = json.Marshal(pm)
	h.putMan, err = manifest.New(manifest.WithRaw(h.putManRaw), manifest.WithDesc(c20Desc(mediatype.OCI1Manifest, h.putManRaw)))
	return err
}

// expand resolves the symbolic inputs (kept symbolic so that keys and replay files carry no temp paths)
func (h *c20H) expand(in string) string {
	switch in {
	case "@CANARY":
		return h.g.canaryAbs
	case "@CANARYDIR":
		return h.g.canaryDirAbs
	case "@SIB":
		return h.g.sib
	case "@ROOT":
		return h.g.root
	case "@L":
		return h.fixLayerD.Digest.String()
	case "@M":
		return h.fixManD.Digest.String()
	case "@A":
		return h.fixArtD.Digest.String()
	case "@NEW":
		return h.newBlobDig.String()
	case "@PUTM":
		return h.putMan.GetDescriptor().Digest.String()
	case "@CANARYDIGEST":
		return "sha256:" + h.g.canaryAbs
	}
	return in
}

func (h *c20H) template(c c20Case) string {
	if c.Route == "iv" || c.Route == "self-iv" {
		return h.tmplLayout
	}
	return h.tmplPlain
}

func (h *c20H) exec(c c20Case) (res c20Result) {
	res.size = -1
	defer func() {
		if p := recover(); p != nil {
			res.panicked = fmt.Sprint(p)
		}
	}()
	in := h.expand(c.In)
	switch c.Route {
	case "i":
		h.execArtifact(c, in, &res)
	case "ii":
		h.execExtract(c, in, &res)
	case "iii":
		h.execImport(c, in, &res)
	case "iv":
		h.execLayout(c, in, &res)
	case "self":
		h.execSelf(c, in, &res)
	case "self-iv":
		h.execSelfDigest(c, in, &res)
	default:
		res.skipped = "unknown route"
	}
	return res
}

// ---------------------------------------------------------------------------------------------
// route i: regctl artifact get --output <dir> [--strip-dirs] in process

func (h *c20H) execArtifact(c c20Case, in string, res *c20Result) {
	layer := descriptor.Descriptor{MediaType: "application/vnd.oci.image.layer.v1.tar", Digest: h.artBlobDig, Size: int64(len(h.artBlob))}
	strip := strings.Contains(c.Variant, "strip")
	if strings.HasPrefix(c.Variant, "digest") {
		// no title: the file name is derived from the layer digest, which is the hostile string
		layer.Digest = digest.Digest(in)
	} else {
		layer.Annotations = map[string]string{ociAnnotTitle: in}
		if strings.Contains(c.Variant, "unpack") {
			layer.Annotations["io.deis.oras.content.unpack"] = "true"
		}
	}
	empty := descriptor.Descriptor{MediaType: mediatype.OCI1Empty, Digest: descriptor.EmptyDigest, Size: 2, Data: descriptor.EmptyData}
	mb, err := json.Marshal(v1.Manifest{Versioned: v1.ManifestSchemaVersion, MediaType: mediatype.OCI1Manifest, ArtifactType: "application/vnd.c20.test", Config: empty, Layers: []descriptor.Descriptor{layer}})
	if err != nil {
		res.skipped = "manifest not encodable: " + err.Error()
		return
	}
	h.reg.mu.Lock()
	h.reg.manifest = mb
	h.reg.mu.Unlock()
	h.rt.ResetLog()
	args := []string{"artifact", "get", "--output", h.g.out}
	if strip {
		args = append(args, "--strip-dirs")
	}
	args = append(args, c20Host+"/c20/art:latest")
	buf := new(bytes.Buffer)
	cmd, ro := NewRootCmd()
	ro.rcOpts = h.rcOpts
	cmd.SetOut(buf)
	cmd.SetErr(buf)
	cmd.SetArgs(args)
	res.err = cmd.ExecuteContext(h.ctx)
	res.out = buf.String()
	res.note = fmt.Sprintf("requests=%d", len(h.rt.Log()))
}

// ---------------------------------------------------------------------------------------------
// route ii: archive.Extract

func (h *c20H) execExtract(c c20Case, in string, res *c20Result) {
	var ents []c20TarEnt
	const ln = "c20l2"
	switch c.Variant {
	case "reg":
		ents = []c20TarEnt{{Name: in, Type: tar.TypeReg, Body: c20Payload}}
	case "dir":
		ents = []c20TarEnt{{Name: in, Type: tar.TypeDir}, {Name: in + "/" + c20InName, Type: tar.TypeReg, Body: c20Payload}}
	case "sym-thru": // link with hostile target, then a file below the link name
		ents = []c20TarEnt{{Name: ln, Type: tar.TypeSymlink, Link: in}, {Name: ln + "/" + c20ThruName, Type: tar.TypeReg, Body: c20Payload}}
	case "sym-over": // link with hostile target, then a file AT the link name (written through the link)
		ents = []c20TarEnt{{Name: ln, Type: tar.TypeSymlink, Link: in}, {Name: ln, Type: tar.TypeReg, Body: c20Payload}}
	case "hard-over":
		ents = []c20TarEnt{{Name: ln, Type: tar.TypeLink, Link: in}, {Name: ln, Type: tar.TypeReg, Body: c20Payload}}
	case "sym-name": // hostile link NAME pointing at the canary next to the output directory
		ents = []c20TarEnt{{Name: in, Type: tar.TypeSymlink, Link: "../" + c20SegFile}, {Name: in, Type: tar.TypeReg, Body: c20Payload}}
	case "hard-name":
		ents = []c20TarEnt{{Name: in, Type: tar.TypeLink, Link: "../" + c20SegFile}, {Name: in, Type: tar.TypeReg, Body: c20Payload}}
	default:
		res.skipped = "unknown variant"
		return
	}
	tb, err := c20Tar(ents)
	if err != nil {
		res.skipped = "tar cannot carry this name: " + err.Error()
		return
	}
	res.err = archive.Extract(h.ctx, h.g.out, bytes.NewReader(tb))
}

// ---------------------------------------------------------------------------------------------
// route iii: ImageImport of OCI layout tars

func (h *c20H) importTarget(variant string) (ref.Ref, error) {
	if strings.HasSuffix(variant, "@mem") {
		if h.mem == nil || h.memN >= 400 {
			h.memReset()
		}
		h.memN++
		return ref.New(fmt.Sprintf("%s/c20/imp%d:latest", c20MemHost, h.memN))
	}
	return ref.New("ocidir://" + filepath.Join(h.g.out, "layout") + ":latest")
}

func (h *c20H) execImport(c c20Case, in string, res *c20Result) {
	r, err := h.importTarget(c.Variant)
	if err != nil {
		res.skipped = "target ref: " + err.Error()
		return
	}
	kind := c.Variant[:strings.Index(c.Variant, "@")]
	manE := c20TarEnt{Name: c20BlobPath(h.impManD.Digest), Type: tar.TypeReg, Body: h.impMan}
	confE := c20TarEnt{Name: c20BlobPath(h.impConfD.Digest), Type: tar.TypeReg, Body: h.impConf}
	layerE := c20TarEnt{Name: c20BlobPath(h.impLayerD.Digest), Type: tar.TypeReg, Body: h.impLayer}
	tagged := h.impManD
	tagged.Annotations = map[string]string{"org.opencontainers.image.ref.name": "latest"}
	index := c20Index(tagged)
	var pre []c20TarEnt
	blobs := []c20TarEnt{manE, confE, layerE}
	hostileBlob := func(dg string, body []byte) c20TarEnt {
		// the entry a naive importer would look for: blobs/<algorithm>/<encoded>
		name := "blobs/" + dg
		if i := strings.Index(dg, ":"); i >= 0 {
			name = "blobs/" + dg[:i] + "/" + dg[i+1:]
		}
		return c20TarEnt{Name: name, Type: tar.TypeReg, Body: body}
	}
	switch kind {
	case "extra-reg":
		pre = []c20TarEnt{{Name: in, Type: tar.TypeReg, Body: c20Payload}}
	case "extra-dir":
		pre = []c20TarEnt{{Name: in, Type: tar.TypeDir}}
	case "blob-sym": // the layer blob lives under the hostile name, the blob path is a symlink to it
		pre = []c20TarEnt{{Name: layerE.Name, Type: tar.TypeSymlink, Link: in}}
		blobs = []c20TarEnt{manE, confE, {Name: in, Type: tar.TypeReg, Body: h.impLayer}}
	case "blob-hard":
		pre = []c20TarEnt{{Name: layerE.Name, Type: tar.TypeLink, Link: in}}
		blobs = []c20TarEnt{manE, confE, {Name: in, Type: tar.TypeReg, Body: h.impLayer}}
	case "sym-name": // hostile link name pointing at a real blob
		pre = []c20TarEnt{{Name: in, Type: tar.TypeSymlink, Link: layerE.Name}}
	case "docker-names": // docker save format: manifest.json names config and layer files by hostile names
		mj, err := json.Marshal([]map[string]any{{"Config": in, "RepoTags": []string{"c20:latest"}, "Layers": []string{in + "/layer.tar"}}})
		if err != nil {
			res.skipped = "manifest.json not encodable"
			return
		}
		tb, err := c20Tar([]c20TarEnt{
			{Name: "manifest.json", Type: tar.TypeReg, Body: mj},
			{Name: in, Type: tar.TypeReg, Body: h.impConf},
			{Name: in + "/layer.tar", Type: tar.TypeReg, Body: h.artBlob},
		})
		if err != nil {
			res.skipped = "tar cannot carry this name: " + err.Error()
			return
		}
		rc := h.newRC()
		res.err = rc.ImageImport(h.ctx, r, bytes.NewReader(tb))
		if res.err == nil {
			if _, err := rc.ManifestHead(h.ctx, r); err == nil {
				res.note = "layer-present"
			}
		}
		_ = rc.Close(h.ctx, r)
		return
	case "index-digest": // index.json names the manifest by a hostile digest
		d := tagged
		d.Digest = digest.Digest(in)
		index = c20Index(d)
		blobs = []c20TarEnt{hostileBlob(in, h.impMan), manE, confE, layerE}
	case "layer-digest", "config-digest":
		m := v1.Manifest{Versioned: v1.ManifestSchemaVersion, MediaType: mediatype.OCI1Manifest, Config: h.impConfD, Layers: []descriptor.Descriptor{h.impLayerD}}
		if kind == "layer-digest" {
			m.Layers[0].Digest = digest.Digest(in)
		} else {
			m.Config.Digest = digest.Digest(in)
		}
		mb, err := json.Marshal(m)
		if err != nil {
			res.skipped = "manifest not encodable"
			return
		}
		md := c20Desc(mediatype.OCI1Manifest, mb)
		md.Annotations = tagged.Annotations
		index = c20Index(md)
		body := h.impLayer
		if kind == "config-digest" {
			body = h.impConf
		}
		blobs = []c20TarEnt{{Name: c20BlobPath(md.Digest), Type: tar.TypeReg, Body: mb}, hostileBlob(in, body), confE, layerE}
	case "ref-digest": // two entries in the index, the reference selects by a hostile digest
		a, b := h.impManD, h.impManD
		a.Annotations = map[string]string{"org.opencontainers.image.ref.name": "a"}
		b.Annotations = map[string]string{"org.opencontainers.image.ref.name": "b"}
		index = c20Index(a, b)
		blobs = []c20TarEnt{hostileBlob(in, h.impMan), manE, confE, layerE}
		r = r.SetDigest(in)
	default:
		res.skipped = "unknown variant"
		return
	}
	tb, err := h.importTar(pre, index, blobs)
	if err != nil {
		res.skipped = "tar cannot carry this name: " + err.Error()
		return
	}
	rc := h.newRC()
	res.err = rc.ImageImport(h.ctx, r, bytes.NewReader(tb))
	if r.Scheme == "ocidir" {
		if _, err := os.Stat(filepath.Join(r.Path, c20BlobPath(h.impLayerD.Digest))); err == nil {
			res.note = "layer-present"
		}
	} else if res.err == nil {
		if _, err := rc.ManifestHead(h.ctx, r); err == nil {
			res.note = "layer-present"
		}
	}
	_ = rc.Close(h.ctx, r)
}

// ---------------------------------------------------------------------------------------------
// route iv: every ocidir operation taking a descriptor or a reference digest / tag

var c20DigestOps = []string{
	"blob-get", "blob-head", "blob-put", "blob-put-nosize", "blob-delete", "blob-copy",
	"manifest-get", "manifest-get-desc", "manifest-head", "manifest-put-ref", "manifest-put-desc", "manifest-put-subject",
	"manifest-delete", "manifest-delete-wm", "manifest-delete-wm-desc", "referrer-list", "image-copy-reg",
	"idx-get", "idx-head", "idx-delete", "idx-gc", "idx-copy",
}
var c20TagOps = []string{"tag-delete", "manifest-put-tag", "manifest-get-tag"}

func (h *c20H) execLayout(c c20Case, in string, res *c20Result) {
	ctx := h.ctx
	rc := h.newRC()
	r, err := ref.New("ocidir://" + h.g.out)
	if err != nil {
		res.skipped = "ref: " + err.Error()
		return
	}
	defer func() {
		// Close runs the garbage collector of the layout when the operation modified it
		_ = rc.Close(ctx, r)
	}()
	d := descriptor.Descriptor{MediaType: mediatype.OCI1Layer, Digest: digest.Digest(in)}
	present := func(dg digest.Digest) bool {
		if dg.Validate() != nil {
			return false
		}
		_, err := os.Stat(filepath.Join(h.g.out, c20BlobPath(dg)))
		return err == nil
	}
	readAll := func(rd io.ReadCloser, err error) {
		res.err = err
		if err != nil {
			return
		}
		defer rd.Close()
		res.read, res.err = io.ReadAll(rd)
	}
	seedIndex := func() error {
		// the layout's own index.json names a manifest by the hostile digest under tag "evil"
		idx := v1.Index{}
		ib, err := os.ReadFile(filepath.Join(h.g.out, "index.json"))
		if err != nil {
			return err
		}
		if err := json.Unmarshal(ib, &idx); err != nil {
			return err
		}
		idx.Manifests = append(idx.Manifests, descriptor.Descriptor{MediaType: mediatype.OCI1Manifest, Digest: digest.Digest(in), Size: int64(len(h.fixMan)),
			Annotations: map[string]string{"org.opencontainers.image.ref.name": "evil"}})
		ob, err := json.Marshal(idx)
		if err != nil {
			return err
		}
		return os.WriteFile(filepath.Join(h.g.out, "index.json"), ob, 0o644)
	}
	switch c.Variant {
	case "blob-get":
		b, err := rc.BlobGet(ctx, r, d)
		if err != nil {
			res.err = err
			return
		}
		readAll(b, nil)
	case "blob-head":
		b, err := rc.BlobHead(ctx, r, d)
		res.err = err
		if err == nil {
			res.size = b.GetDescriptor().Size
			_ = b.Close()
		}
	case "blob-put", "blob-put-nosize":
		if c.Variant == "blob-put" {
			d.Size = int64(len(h.newBlob))
		}
		dr, err := rc.BlobPut(ctx, r, d, bytes.NewReader(h.newBlob))
		res.err = err
		if err == nil && present(dr.Digest) {
			res.note = "present " + dr.Digest.String()
		}
	case "blob-delete":
		was := present(d.Digest)
		res.err = rc.BlobDelete(ctx, r, d)
		if was && !present(d.Digest) {
			res.note = "deleted"
		}
	case "blob-copy":
		rt, err := ref.New("ocidir://" + filepath.Join(h.g.out, "copy"))
		if err != nil {
			res.skipped = err.Error()
			return
		}
		res.err = rc.BlobCopy(ctx, r, rt, d)
		if res.err == nil {
			if _, err := os.Stat(filepath.Join(rt.Path, "blobs")); err == nil {
				res.note = "present"
			}
		}
		_ = rc.Close(ctx, rt)
	case "manifest-get":
		m, err := rc.ManifestGet(ctx, r.SetDigest(in))
		res.err = err
		if err == nil {
			res.read, _ = m.RawBody()
		}
	case "manifest-get-desc":
		m, err := rc.ManifestGet(ctx, r.SetTag("v1"), regclient.WithManifestDesc(descriptor.Descriptor{MediaType: mediatype.OCI1Manifest, Digest: digest.Digest(in)}))
		res.err = err
		if err == nil {
			res.read, _ = m.RawBody()
		}
	case "manifest-get-tag":
		m, err := rc.ManifestGet(ctx, r.SetTag(in))
		res.err = err
		if err == nil {
			res.read, _ = m.RawBody()
		}
	case "manifest-head":
		m, err := rc.ManifestHead(ctx, r.SetDigest(in))
		res.err = err
		if err == nil {
			res.size = m.GetDescriptor().Size
		}
	case "manifest-put-ref":
		res.err = rc.ManifestPut(ctx, r.SetDigest(in), h.putMan)
		if res.err == nil && present(h.putMan.GetDescriptor().Digest) {
			res.note = "present"
		}
	case "manifest-put-tag":
		res.err = rc.ManifestPut(ctx, r.SetTag(in), h.putMan)
		if res.err == nil && present(h.putMan.GetDescriptor().Digest) {
			res.note = "present"
		}
	case "manifest-put-desc":
		m, err := manifest.New(manifest.WithDesc(descriptor.Descriptor{MediaType: mediatype.OCI1Manifest, Digest: digest.Digest(in), Size: int64(len(h.putManRaw))}), manifest.WithRaw(h.putManRaw))
		if err != nil {
			res.err = fmt.Errorf("manifest.New: %w", err)
			return
		}
		res.err = rc.ManifestPut(ctx, r.SetTag("put"), m)
		if res.err == nil && present(h.putMan.GetDescriptor().Digest) {
			res.note = "present"
		}
	case "manifest-put-subject":
		sub := descriptor.Descriptor{MediaType: mediatype.OCI1Manifest, Digest: digest.Digest(in), Size: int64(len(h.fixMan))}
		mb, err := json.Marshal(v1.Manifest{Versioned: v1.ManifestSchemaVersion, MediaType: mediatype.OCI1Manifest, ArtifactType: "application/vnd.c20.test",
			Config: h.fixConfD, Layers: []descriptor.Descriptor{h.fixLayerD}, Subject: &sub})
		if err != nil {
			res.skipped = "manifest not encodable"
			return
		}
		m, err := manifest.New(manifest.WithRaw(mb))
		if err != nil {
			res.err = fmt.Errorf("manifest.New: %w", err)
			return
		}
		res.err = rc.ManifestPut(ctx, r.SetTag("sub"), m)
		if res.err == nil && present(m.GetDescriptor().Digest) {
			res.note = "present"
		}
	case "manifest-delete":
		was := present(digest.Digest(in))
		res.err = rc.ManifestDelete(ctx, r.SetDigest(in))
		if was && !present(digest.Digest(in)) {
			res.note = "deleted"
		}
	case "manifest-delete-wm":
		// the caller hands over the manifest it believes it is deleting (regclient.WithManifest)
		was := present(digest.Digest(in))
		mv, err := manifest.New(manifest.WithRaw(h.fixMan), manifest.WithDesc(h.fixManD))
		if err != nil {
			res.skipped = err.Error()
			return
		}
		res.err = rc.ManifestDelete(ctx, r.SetDigest(in), regclient.WithManifest(mv))
		if was && !present(digest.Digest(in)) {
			res.note = "deleted"
		}
	case "manifest-delete-wm-desc":
		// a well-formed reference (the fixture manifest); the manifest handed over with it is built from
		// an untrusted descriptor alone, so the digest under test sits in that manifest's descriptor
		mv, err := manifest.New(manifest.WithDesc(descriptor.Descriptor{MediaType: mediatype.OCI1Manifest, Digest: digest.Digest(in), Size: int64(len(h.fixMan))}))
		if err != nil {
			res.skipped = err.Error()
			return
		}
		res.err = rc.ManifestDelete(ctx, r.SetDigest(h.fixManD.Digest.String()), regclient.WithManifest(mv))
	case "tag-delete":
		res.err = rc.TagDelete(ctx, r.SetTag(in))
	case "referrer-list":
		rl, err := rc.ReferrerList(ctx, r.SetDigest(in))
		res.err = err
		if err == nil {
			res.note = fmt.Sprintf("referrers=%d", len(rl.Descriptors))
			if rl.Manifest != nil {
				res.read, _ = rl.Manifest.RawBody()
			}
		}
	case "image-copy-reg":
		// a registry serves a manifest whose layer digest is the hostile string; copy it into the layout
		l := h.fixLayerD
		l.Digest = digest.Digest(in)
		mb, err := json.Marshal(v1.Manifest{Versioned: v1.ManifestSchemaVersion, MediaType: mediatype.OCI1Manifest, Config: h.fixConfD, Layers: []descriptor.Descriptor{l}})
		if err != nil {
			res.skipped = "manifest not encodable"
			return
		}
		h.reg.mu.Lock()
		h.reg.manifest = mb
		h.reg.blobs[h.fixConfD.Digest.String()] = h.fixConf
		h.reg.anyBlob = h.fixLayer
		h.reg.mu.Unlock()
		defer func() {
			h.reg.mu.Lock()
			h.reg.anyBlob = h.artBlob
			h.reg.mu.Unlock()
		}()
		h.rt.ResetLog()
		rs, err := ref.New(c20Host + "/c20/img:latest")
		if err != nil {
			res.skipped = err.Error()
			return
		}
		res.err = rc.ImageCopy(ctx, rs, r.SetTag("cp"))
		if res.err == nil {
			res.note = "copied"
		}
	case "idx-get", "idx-head", "idx-delete", "idx-gc", "idx-copy":
		if err := seedIndex(); err != nil {
			res.skipped = "cannot seed index.json: " + err.Error()
			return
		}
		switch c.Variant {
		case "idx-get":
			m, err := rc.ManifestGet(ctx, r.SetTag("evil"))
			res.err = err
			if err == nil {
				res.read, _ = m.RawBody()
			}
		case "idx-head":
			m, err := rc.ManifestHead(ctx, r.SetTag("evil"))
			res.err = err
			if err == nil {
				res.size = m.GetDescriptor().Size
			}
		case "idx-delete":
			res.err = rc.ManifestDelete(ctx, r.SetDigest(in))
		case "idx-gc":
			// modify the layout, then let Close walk the (hostile) index for garbage collection
			_, err := rc.BlobPut(ctx, r, descriptor.Descriptor{}, bytes.NewReader(h.newBlob))
			if err != nil {
				res.err = err
				return
			}
			res.err = rc.Close(ctx, r)
			if res.err == nil && !present(h.newBlobDig) {
				res.note = "collected"
			}
		case "idx-copy":
			rt, err := ref.New("ocidir://" + filepath.Join(h.g.out, "copy") + ":evil")
			if err != nil {
				res.skipped = err.Error()
				return
			}
			res.err = rc.ImageCopy(ctx, r.SetTag("evil"), rt)
			_ = rc.Close(ctx, rt)
		}
	default:
		res.skipped = "unknown variant"
	}
}

// ---------------------------------------------------------------------------------------------
// self-test: deliberately unsafe reference implementations judged by the same oracle

// execSelf joins the name to the output directory by plain concatenation – no cleaning – and
// creates parents as needed: what runArtifactGet / Extract would do without path.Clean("/"+name).
func (h *c20H) execSelf(c c20Case, in string, res *c20Result) {
	if strings.ContainsRune(in, 0) {
		res.err = fmt.Errorf("NUL in name")
		return
	}
	p := h.g.out + "/" + in
	switch c.Variant {
	case "unsafe-write":
		if strings.HasSuffix(p, "/") {
			_, errS := os.Stat(p)
			res.err = os.MkdirAll(p, 0o755)
			if res.err == nil && errS != nil {
				res.note = "wrote" // a directory that did not exist was created
			}
			return
		}
		if err := os.MkdirAll(path.Dir(p), 0o755); err != nil {
			res.err = err
			return
		}
		// do not count re-creating an unchanged directory as a write
		res.err = os.WriteFile(p, c20Payload, 0o644)
		if res.err == nil {
			res.note = "wrote"
		}
	case "unsafe-read":
		res.read, res.err = os.ReadFile(p)
	}
}

// execSelfDigest: blobs/<algorithm>/<encoded> without Digest.Validate().
func (h *c20H) execSelfDigest(c c20Case, in string, res *c20Result) {
	i := strings.Index(in, ":")
	if i < 0 || strings.ContainsRune(in, 0) {
		res.err = fmt.Errorf("unusable digest")
		return
	}
	p := path.Join(h.g.out, "blobs", in[:i], in[i+1:])
	switch c.Variant {
	case "unsafe-put":
		if err := os.MkdirAll(path.Dir(p), 0o755); err != nil {
			res.err = err
			return
		}
		res.err = os.WriteFile(p, c20Payload, 0o644)
		if res.err == nil {
			res.note = "wrote"
		}
	case "unsafe-get":
		res.read, res.err = os.ReadFile(p)
	case "unsafe-delete":
		res.err = os.Remove(p)
		if res.err == nil {
			res.note = "wrote"
		}
	}
}
