package main

// C20 – guard directory, canaries and the before/after listing oracle.
//
//   <scratch>/guard/                      level 0         c20f (canary file)  c20d/c20f (canary in a dir)
//      tmp/  home/                                        (TMPDIR and HOME of the process)
//      n1/                                level 1         c20f  c20d/c20f
//        n2/ …                            …
//          n<depth>/                      level depth     c20f  c20d/c20f  c20l -> c20f
//             sib/keep                    sibling directory (also the cwd of the process)
//             out/                        THE DESIGNATED DIRECTORY (the only place that may change)
//
// Every ancestor level carries the same names the grammar uses for "existing file" / "existing
// directory", so a traversal that climbs k levels and then names c20f, c20d or c20d/c20f hits a
// canary, and one that names anything else creates a new entry – both show up in the listing.

import (
	"bytes"
	"crypto/sha256"
	"crypto/sha512"
	"encoding/hex"
	"fmt"
	"os"
	"path/filepath"
	"sort"
	"strings"
	"syscall"
	"time"
)

const c20Magic = "C20-CANARY"

type c20Ent struct {
	Mode  uint32
	Size  int64
	Mtime int64
	Ctime int64
	Nlink uint64
	Link  string
	Hash  string
}

func (e c20Ent) String() string {
	return fmt.Sprintf("mode=%o size=%d mtime=%d ctime=%d nlink=%d link=%q sha256=%.12s", e.Mode, e.Size, e.Mtime, e.Ctime, e.Nlink, e.Link, e.Hash)
}

type c20Guard struct {
	root, out, sib, tmp, home string
	depth                     int
	canaryAbs                 string           // the canary file right next to out
	canaryDirAbs              string           // the canary directory right next to out
	canarySizes               map[int64]string // unique canary sizes -> relative path
	canaryDig                 map[string]string
	topNames                  []string         // first-level names that an absolute escape would create under "/"
	nCanary                   int
	hashes                    map[string]c20Hashed
	nSnap, nHashed            int
	canaryBody                map[string][]byte // relative path -> content, for repairs
	pristine                  map[string]string // relative path -> type/size/hash/link of the freshly built guard
}

var c20Old = time.Date(2001, 2, 3, 4, 5, 6, 0, time.UTC)

func c20CanaryBody(rel string, size int) []byte {
	// shaped like an OCI manifest so that a manifest read that escaped would parse it
	head := `{"schemaVersion":2,"mediaType":"application/vnd.oci.image.manifest.v1+json","config":{"mediaType":"application/vnd.oci.empty.v1+json","digest":"sha256:44136fa355b3678a1146ad16f7e8649e94fb4fc21fe77e8310c060f61caaff8a","size":2},"layers":[],"annotations":{"c20":"` + c20Magic + ` ` + rel + ` `
	tail := `"}}`
	pad := size - len(head) - len(tail)
	if pad < 0 {
		pad = 0
	}
	return []byte(head + strings.Repeat("#", pad) + tail)
}

func c20NewGuard(scratch string, depth int) (*c20Guard, error) {
	g := &c20Guard{root: filepath.Join(scratch, "guard"), depth: depth, canarySizes: map[int64]string{}, canaryBody: map[string][]byte{}}
	if err := os.RemoveAll(g.root); err != nil {
		return nil, err
	}
	mk := func(p string) error { return os.MkdirAll(p, 0o755) }
	g.tmp = filepath.Join(g.root, "tmp")
	g.home = filepath.Join(g.root, "home")
	for _, d := range []string{g.root, g.tmp, g.home} {
		if err := mk(d); err != nil {
			return nil, err
		}
	}
	canary := func(p string) error {
		rel, _ := filepath.Rel(g.root, p)
		size := 1201 + 2*g.nCanary
		g.nCanary++
		body := c20CanaryBody(rel, size)
		g.canaryBody[rel] = body
		if err := os.WriteFile(p, body, 0o644); err != nil {
			return err
		}
		g.canarySizes[int64(size)] = rel
		return os.Chtimes(p, c20Old, c20Old)
	}
	dir := g.root
	for l := 0; l <= depth; l++ {
		if l > 0 {
			dir = filepath.Join(dir, fmt.Sprintf("n%d", l))
			if err := mk(dir); err != nil {
				return nil, err
			}
		}
		if err := canary(filepath.Join(dir, c20SegFile)); err != nil {
			return nil, err
		}
		if err := mk(filepath.Join(dir, c20SegDir)); err != nil {
			return nil, err
		}
		if err := canary(filepath.Join(dir, c20SegDir, c20SegFile)); err != nil {
			return nil, err
		}
	}
	g.canaryAbs = filepath.Join(dir, c20SegFile)
	g.canaryDirAbs = filepath.Join(dir, c20SegDir)
	g.sib = filepath.Join(dir, "sib")
	g.out = filepath.Join(dir, "out")
	if err := mk(g.sib); err != nil {
		return nil, err
	}
	if err := canary(filepath.Join(g.sib, "keep")); err != nil {
		return nil, err
	}
	if err := os.Symlink(c20SegFile, filepath.Join(dir, "c20l")); err != nil {
		return nil, err
	}
	if err := mk(g.out); err != nil {
		return nil, err
	}
	// age every directory so that a create+delete inside one is visible through its mtime
	_ = filepath.Walk(g.root, func(p string, fi os.FileInfo, err error) error {
		if err == nil && fi.IsDir() {
			_ = os.Chtimes(p, c20Old, c20Old)
		}
		return nil
	})
	m, err := g.snapOutside(true)
	if err != nil {
		return nil, err
	}
	g.pristine = c20Shape(m)
	g.topNames = []string{c20SegPlain, c20SegSpace, c20SegLong, c20SegFile, c20SegDir, "c20", "c20l", c20ThruName, c20InName, "blobs", "in.txt"}
	return g, nil
}

// topPresent lists which of the watched names exist directly under "/" (absolute escapes). "/" is
// shared by all shard processes: a regular file carrying another shard's payload is left to that shard.
func (g *c20Guard) topPresent() []string {
	var r []string
	for _, n := range g.topNames {
		for try := 0; ; try++ {
			fi, err := os.Lstat("/" + n)
			if err != nil {
				break
			}
			if fi.Mode().IsRegular() {
				b, err := os.ReadFile("/" + n)
				if err == nil && bytes.HasPrefix(b, []byte("C20-PAYLOAD shard=")) && !bytes.Equal(b, c20Payload) {
					break // another shard's
				}
				if err == nil && len(b) == 0 && try < 3 {
					// possibly another shard's file between create and write: look again
					time.Sleep(2 * time.Millisecond)
					continue
				}
			}
			r = append(r, n)
			break
		}
	}
	return r
}

func c20HashFile(p string) string {
	b, err := os.ReadFile(p)
	if err != nil {
		return "read-error:" + err.Error()
	}
	h := sha256.Sum256(b)
	return hex.EncodeToString(h[:])
}

// Content hashes are recomputed whenever any stat field of a file (inode, size, mode, link count,
// mtime, ctime) differs from the last time it was hashed, and for every file on every 64th listing and
// on the last one; otherwise the previous hash is carried over. ctime cannot be set from user space, so
// a content change without a stat change would need a kernel that does not stamp writes.
type c20StatKey struct {
	ino, nlink          uint64
	size, mtime, ctime  int64
	mode                uint32
}

type c20Hashed struct {
	k c20StatKey
	h string
}

func c20Key(fi os.FileInfo) c20StatKey {
	k := c20StatKey{size: fi.Size(), mtime: fi.ModTime().UnixNano(), mode: uint32(fi.Mode())}
	if st, ok := fi.Sys().(*syscall.Stat_t); ok {
		k.ino, k.nlink = st.Ino, uint64(st.Nlink)
		k.ctime = st.Ctim.Sec*1e9 + st.Ctim.Nsec
	}
	return k
}

func (g *c20Guard) hash(p string, fi os.FileInfo, full bool) string {
	k := c20Key(fi)
	if !full {
		if c, ok := g.hashes[p]; ok && c.k == k {
			return c.h
		}
	}
	h := c20HashFile(p)
	if g.hashes == nil {
		g.hashes = map[string]c20Hashed{}
	}
	g.hashes[p] = c20Hashed{k, h}
	g.nHashed++
	return h
}

// snapOutside lists guard∖out: every entry with type+permissions, size (files), mtime, ctime (files),
// link count, link target and content hash. HOME's contents are listed too; the contents (and mtime) of
// TMPDIR are not part of the listing: temp files are allowed there and are counted separately.
func (g *c20Guard) snapOutside(full bool) (map[string]c20Ent, error) {
	g.nSnap++
	if g.nSnap%64 == 0 {
		full = true
	}
	m := make(map[string]c20Ent, 48)
	var walk func(dir, rel string) error
	walk = func(dir, rdir string) error {
		des, err := os.ReadDir(dir)
		if err != nil {
			return err
		}
		for _, de := range des {
			p := dir + "/" + de.Name()
			if p == g.out {
				continue
			}
			rel := de.Name()
			if rdir != "" {
				rel = rdir + "/" + rel
			}
			fi, err := os.Lstat(p)
			if err != nil {
				return err
			}
			k := c20Key(fi)
			e := c20Ent{Mode: k.mode, Mtime: k.mtime, Nlink: k.nlink}
			switch {
			case fi.Mode()&os.ModeSymlink != 0:
				e.Link, _ = os.Readlink(p)
				e.Ctime = k.ctime
			case fi.Mode().IsRegular():
				e.Size = k.size
				e.Ctime = k.ctime
				e.Hash = g.hash(p, fi, full)
			case fi.IsDir():
				e.Nlink = 0 // directory link counts are a function of the entries listed anyway
				if p == g.tmp {
					// TMPDIR: temp files are allowed there (and only there); counted separately
					e.Mtime = 0
				} else if err := walk(p, rel); err != nil {
					return err
				}
			}
			m[rel] = e
		}
		return nil
	}
	if err := walk(g.root, ""); err != nil {
		return nil, err
	}
	// the guard root itself
	if fi, err := os.Lstat(g.root); err == nil {
		m["."] = c20Ent{Mode: uint32(fi.Mode()), Mtime: fi.ModTime().UnixNano()}
	}
	return m, nil
}

func c20DiffSnap(a, b map[string]c20Ent) []string {
	var d []string
	for k, va := range a {
		vb, ok := b[k]
		if !ok {
			d = append(d, "REMOVED "+k+" ("+va.String()+")")
		} else if va != vb {
			d = append(d, "CHANGED "+k+": "+va.String()+" -> "+vb.String())
		}
	}
	for k, vb := range b {
		if _, ok := a[k]; !ok {
			d = append(d, "CREATED "+k+" ("+vb.String()+")")
		}
	}
	sort.Strings(d)
	return d
}

// c20Shape reduces a listing to what defines the guard (no times): used to check a repaired guard.
func c20Shape(m map[string]c20Ent) map[string]string {
	r := make(map[string]string, len(m))
	for k, e := range m {
		r[k] = fmt.Sprintf("%o %d %d %q %s", e.Mode, e.Size, e.Nlink, e.Link, e.Hash)
	}
	return r
}

// repair undoes the changes a violating case made outside the designated directory without rebuilding
// the whole guard; it reports false when the result does not have the shape of a fresh guard.
func (g *c20Guard) repair(before, after map[string]c20Ent) bool {
	var created []string
	for k := range after {
		if _, ok := before[k]; !ok {
			created = append(created, k)
		}
	}
	sort.Strings(created)
	for _, k := range created {
		_ = c20ForceRemove(filepath.Join(g.root, k)) // parents sort first; children vanish with them
	}
	var damaged []string
	for k, vb := range before {
		if va, ok := after[k]; !ok || va != vb {
			damaged = append(damaged, k)
		}
	}
	sort.Strings(damaged)
	for _, k := range damaged {
		p := filepath.Join(g.root, k)
		e := before[k]
		mode := os.FileMode(e.Mode)
		switch {
		case k == ".":
		case mode&os.ModeSymlink != 0:
			_ = c20ForceRemove(p)
			_ = os.Symlink(e.Link, p)
		case mode.IsDir():
			if fi, err := os.Lstat(p); err != nil || !fi.IsDir() {
				_ = c20ForceRemove(p)
				_ = os.MkdirAll(p, 0o755)
			}
			_ = os.Chmod(p, mode.Perm())
		default:
			body, ok := g.canaryBody[k]
			if !ok {
				return false
			}
			_ = c20ForceRemove(p)
			if err := os.WriteFile(p, body, 0o644); err != nil {
				return false
			}
			_ = os.Chtimes(p, c20Old, c20Old)
		}
	}
	// directories whose entries were touched got a new mtime: age them again (deepest first)
	for i := len(damaged) - 1; i >= 0; i-- {
		k := damaged[i]
		if os.FileMode(before[k].Mode).IsDir() && filepath.Join(g.root, k) != g.tmp {
			_ = os.Chtimes(filepath.Join(g.root, k), c20Old, c20Old)
		}
	}
	m, err := g.snapOutside(true)
	if err != nil {
		return false
	}
	sh := c20Shape(m)
	if len(sh) != len(g.pristine) {
		return false
	}
	for k, v := range g.pristine {
		if sh[k] != v {
			return false
		}
	}
	return true
}

type c20In struct{ Rel, Desc string }

func c20InString(l []c20In) string {
	var sb strings.Builder
	for _, e := range l {
		sb.WriteString(e.Rel)
		sb.WriteString(e.Desc)
		sb.WriteByte('\n')
	}
	return sb.String()
}

// snapInside lists the designated directory (names, type, size, content hash; no times), parents
// before children.
func (g *c20Guard) snapInside() ([]c20In, error) {
	var l []c20In
	var walk func(dir, rdir string) error
	walk = func(dir, rdir string) error {
		des, err := os.ReadDir(dir)
		if err != nil {
			return err
		}
		for _, de := range des {
			p := dir + "/" + de.Name()
			rel := de.Name()
			if rdir != "" {
				rel = rdir + "/" + rel
			}
			fi, err := os.Lstat(p)
			if err != nil {
				return err
			}
			switch {
			case fi.Mode()&os.ModeSymlink != 0:
				t, _ := os.Readlink(p)
				l = append(l, c20In{rel, " -> " + t})
			case fi.IsDir():
				l = append(l, c20In{rel, "/"})
				if err := walk(p, rel); err != nil {
					return err
				}
			default:
				l = append(l, c20In{rel, fmt.Sprintf(" %d %.12s", fi.Size(), g.hash(p, fi, false))})
			}
		}
		return nil
	}
	err := walk(g.out, "")
	return l, err
}

func c20ForceRemove(p string) error {
	if err := os.RemoveAll(p); err != nil {
		// a directory created without permissions
		_ = filepath.Walk(p, func(q string, fi os.FileInfo, err error) error {
			if err == nil && fi.IsDir() {
				_ = os.Chmod(q, 0o755)
			}
			return nil
		})
		return os.RemoveAll(p)
	}
	return nil
}

// resetOut empties the designated directory and repopulates it from a template tree.
func (g *c20Guard) resetOut(tmpl string) error {
	des, err := os.ReadDir(g.out)
	if err != nil {
		return err
	}
	for _, de := range des {
		if err := c20ForceRemove(filepath.Join(g.out, de.Name())); err != nil {
			return err
		}
	}
	return c20CopyTree(tmpl, g.out)
}

// repairOut brings the designated directory back to the template state touching only what differs.
func (g *c20Guard) repairOut(tmpl string, pristine map[string]string, now []c20In) error {
	seen := map[string]bool{}
	for _, e := range now {
		want, ok := pristine[e.Rel]
		if ok && want == e.Desc {
			seen[e.Rel] = true
			continue
		}
		// new or altered entry (children of a removed directory vanish with it)
		if err := c20ForceRemove(filepath.Join(g.out, e.Rel)); err != nil {
			return err
		}
	}
	// restore what is missing, parents first
	rels := make([]string, 0, len(pristine))
	for rel := range pristine {
		if !seen[rel] {
			rels = append(rels, rel)
		}
	}
	sort.Strings(rels)
	for _, rel := range rels {
		src, dst := filepath.Join(tmpl, rel), filepath.Join(g.out, rel)
		if pristine[rel] == "/" {
			if err := os.MkdirAll(dst, 0o755); err != nil {
				return err
			}
			continue
		}
		b, err := os.ReadFile(src)
		if err != nil {
			return err
		}
		if err := os.MkdirAll(filepath.Dir(dst), 0o755); err != nil {
			return err
		}
		if err := os.WriteFile(dst, b, 0o644); err != nil {
			return err
		}
	}
	return nil
}

func c20CopyTree(src, dst string) error {
	return filepath.Walk(src, func(p string, fi os.FileInfo, err error) error {
		if err != nil {
			return err
		}
		rel, _ := filepath.Rel(src, p)
		if rel == "." {
			return nil
		}
		q := filepath.Join(dst, rel)
		if fi.IsDir() {
			return os.MkdirAll(q, 0o755)
		}
		b, err := os.ReadFile(p)
		if err != nil {
			return err
		}
		return os.WriteFile(q, b, 0o644)
	})
}

// c20PlainTemplate: what routes i–iii find in the designated directory: the existing file and the
// existing directory the grammar refers to.
func c20PlainTemplate(dir string) error {
	if err := os.MkdirAll(filepath.Join(dir, c20SegDir), 0o755); err != nil {
		return err
	}
	if err := os.WriteFile(filepath.Join(dir, c20SegFile), []byte("inside-file\n"), 0o644); err != nil {
		return err
	}
	return os.WriteFile(filepath.Join(dir, c20SegDir, c20SegFile), []byte("inside-dir-file\n"), 0o644)
}


// canaryHashes returns sha256 and sha512 hex digests of every canary body (computed once).
func (g *c20Guard) canaryHashes() map[string]string {
	if g.canaryDig != nil {
		return g.canaryDig
	}
	g.canaryDig = map[string]string{}
	for rel, b := range g.canaryBody {
		h := sha256.Sum256(b)
		g.canaryDig[rel] = hex.EncodeToString(h[:])
		h5 := sha512.Sum512(b)
		g.canaryDig[rel+"#512"] = hex.EncodeToString(h5[:])
	}
	return g.canaryDig
}
