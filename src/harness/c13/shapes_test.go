package hc13

// Fixture images for C13, written by hand as an OCI image layout (blobs/<alg>/<hex>, index.json,
// oci-layout) from tiny blobs. Nothing here uses regclient types: the bytes are produced with
// encoding/json, archive/tar, compress/gzip and klauspost zstd only. The same directory backs the
// in-memory olareg registry (as its read-through root) and is copied for ocidir sources.

import (
	"archive/tar"
	"bytes"
	"compress/gzip"
	"crypto/sha256"
	"encoding/hex"
	"encoding/json"
	"fmt"
	"os"
	"path/filepath"
	"time"

	"github.com/klauspost/compress/zstd"
)

const (
	mtOCIManifest   = "application/vnd.oci.image.manifest.v1+json"
	mtOCIIndex      = "application/vnd.oci.image.index.v1+json"
	mtOCIConfig     = "application/vnd.oci.image.config.v1+json"
	mtOCILayer      = "application/vnd.oci.image.layer.v1.tar"
	mtOCILayerGzip  = "application/vnd.oci.image.layer.v1.tar+gzip"
	mtOCILayerZstd  = "application/vnd.oci.image.layer.v1.tar+zstd"
	mtOCIForeign    = "application/vnd.oci.image.layer.nondistributable.v1.tar"
	mtOCIForeignGz  = "application/vnd.oci.image.layer.nondistributable.v1.tar+gzip"
	mtOCIForeignZs  = "application/vnd.oci.image.layer.nondistributable.v1.tar+zstd"
	mtOCIEmpty      = "application/vnd.oci.empty.v1+json"
	mtDockerMan     = "application/vnd.docker.distribution.manifest.v2+json"
	mtDockerList    = "application/vnd.docker.distribution.manifest.list.v2+json"
	mtDockerConfig  = "application/vnd.docker.container.image.v1+json"
	mtDockerLayer   = "application/vnd.docker.image.rootfs.diff.tar"
	mtDockerLayerGz = "application/vnd.docker.image.rootfs.diff.tar.gzip"
	mtDockerLayerZs = "application/vnd.docker.image.rootfs.diff.tar.zstd"
	mtDockerForeign = "application/vnd.docker.image.rootfs.foreign.diff.tar.gzip"
	mtInToto        = "application/vnd.in-toto+json"

	annoRefName    = "org.opencontainers.image.ref.name"
	annoBaseName   = "org.opencontainers.image.base.name"
	annoBaseDigest = "org.opencontainers.image.base.digest"
	annoVersion    = "org.example.version"

	regHost  = "reg.example"
	reg2Host = "reg2.example"
	srcRepo  = "src"
)

var (
	tSet  = time.Date(2020, 1, 1, 0, 0, 0, 0, time.UTC) // the time every timestamp option sets
	t2021 = time.Date(2021, 6, 1, 0, 0, 0, 0, time.UTC)
	t2022 = time.Date(2022, 3, 4, 5, 6, 7, 0, time.UTC)
)

// shape describes one fixture image; the flags feed the conservative "changes nothing" table.
type shape struct {
	name         string // also the tag in the fixture repository
	allOCI       bool   // every manifest/config/layer media type is already an OCI one
	allDocker    bool   // ... a Docker one
	comp         string // "gzip" | "zstd" | "none": compression of every tar layer
	hasVersion   bool   // some manifest carries the org.example.version annotation
	hasOwner     bool   // some tar header has uname/gname
	hasStrip     bool   // some layer has entries under strip/
	hasInnerTar  bool   // some layer has dir/inner.tar
	hasForeign   bool   // some layer has urls
	hasData      bool   // some descriptor has inline data
	hasDockerRef bool   // index entries with vnd.docker.reference.* annotations
	cfgTimesSet  bool   // all config created/history times == tSet
	tarTimesSet  bool   // all tar header times == tSet
	amd64Only    bool   // every image config is linux/amd64
	isIndex      bool
	nReferrers   int
	nImages      int
}

type fxFile struct {
	name string
	body string
	dir  bool
}

func fxTar(files []fxFile, mtime time.Time, owner bool) []byte {
	var buf bytes.Buffer
	tw := tar.NewWriter(&buf)
	for _, f := range files {
		h := &tar.Header{Name: f.name, Mode: 0o644, ModTime: mtime, Format: tar.FormatPAX}
		if owner {
			h.Uname, h.Gname = "root", "root"
		}
		if f.dir {
			h.Typeflag = tar.TypeDir
			h.Mode = 0o755
		} else {
			h.Typeflag = tar.TypeReg
			h.Size = int64(len(f.body))
		}
		if err := tw.WriteHeader(h); err != nil {
			panic(err)
		}
		if !f.dir {
			tw.Write([]byte(f.body))
		}
	}
	tw.Close()
	return buf.Bytes()
}

func fxGzip(b []byte) []byte {
	var buf bytes.Buffer
	w := gzip.NewWriter(&buf)
	w.Write(b)
	w.Close()
	return buf.Bytes()
}

func fxZstd(b []byte) []byte {
	w, err := zstd.NewWriter(nil)
	if err != nil {
		panic(err)
	}
	defer w.Close()
	return w.EncodeAll(b, nil)
}

func fxDigest(b []byte) string {
	h := sha256.Sum256(b)
	return "sha256:" + hex.EncodeToString(h[:])
}

type fxPlat struct {
	Architecture string `json:"architecture"`
	OS           string `json:"os"`
}

type fxDesc struct {
	MediaType    string            `json:"mediaType"`
	Digest       string            `json:"digest"`
	Size         int64             `json:"size"`
	URLs         []string          `json:"urls,omitempty"`
	Annotations  map[string]string `json:"annotations,omitempty"`
	Data         []byte            `json:"data,omitempty"`
	Platform     *fxPlat           `json:"platform,omitempty"`
	ArtifactType string            `json:"artifactType,omitempty"`
}

type fxImage struct {
	SchemaVersion int               `json:"schemaVersion"`
	MediaType     string            `json:"mediaType"`
	ArtifactType  string            `json:"artifactType,omitempty"`
	Config        fxDesc            `json:"config"`
	Layers        []fxDesc          `json:"layers"`
	Subject       *fxDesc           `json:"subject,omitempty"`
	Annotations   map[string]string `json:"annotations,omitempty"`
}

type fxIndex struct {
	SchemaVersion int               `json:"schemaVersion"`
	MediaType     string            `json:"mediaType"`
	Manifests     []fxDesc          `json:"manifests"`
	Annotations   map[string]string `json:"annotations,omitempty"`
}

type fxHist struct {
	Created    string `json:"created"`
	CreatedBy  string `json:"created_by"`
	EmptyLayer bool   `json:"empty_layer,omitempty"`
}

type fxCfgCfg struct {
	Env    []string          `json:"Env"`
	Cmd    []string          `json:"Cmd"`
	Labels map[string]string `json:"Labels"`
}

type fxRootFS struct {
	Type    string   `json:"type"`
	DiffIDs []string `json:"diff_ids"`
}

type fxConfig struct {
	Created      string   `json:"created"`
	Architecture string   `json:"architecture"`
	OS           string   `json:"os"`
	Config       fxCfgCfg `json:"config"`
	RootFS       fxRootFS `json:"rootfs"`
	History      []fxHist `json:"history,omitempty"`
}

// fxLayout writes one OCI layout directory.
type fxLayout struct {
	dir     string
	tags    []fxDesc
	foreign map[string]bool
	// indent: documents are written indented (as buildkit writes them), i.e. NOT in the encoding
	// regclient itself would produce for the parsed value
	indent bool
}

func newFxLayout(dir string) *fxLayout {
	if err := os.MkdirAll(filepath.Join(dir, "blobs", "sha256"), 0o755); err != nil {
		panic(err)
	}
	return &fxLayout{dir: dir, foreign: map[string]bool{}}
}

func (l *fxLayout) blob(b []byte) string {
	d := fxDigest(b)
	if err := os.WriteFile(filepath.Join(l.dir, "blobs", "sha256", d[7:]), b, 0o644); err != nil {
		panic(err)
	}
	return d
}

func (l *fxLayout) desc(mt string, b []byte) fxDesc {
	return fxDesc{MediaType: mt, Digest: l.blob(b), Size: int64(len(b))}
}

func (l *fxLayout) json(v any) []byte {
	if l.indent {
		b, err := json.MarshalIndent(v, "", "  ")
		if err != nil {
			panic(err)
		}
		return b
	}
	b, err := json.Marshal(v)
	if err != nil {
		panic(err)
	}
	return b
}

func (l *fxLayout) tag(name string, d fxDesc) {
	d.Annotations = map[string]string{annoRefName: name}
	d.Platform = nil
	d.Data = nil
	l.tags = append(l.tags, d)
}

func (l *fxLayout) finish() {
	idx := fxIndex{SchemaVersion: 2, MediaType: mtOCIIndex, Manifests: l.tags}
	if err := os.WriteFile(filepath.Join(l.dir, "index.json"), l.json(idx), 0o644); err != nil {
		panic(err)
	}
	if err := os.WriteFile(filepath.Join(l.dir, "oci-layout"), []byte(`{"imageLayoutVersion":"1.0.0"}`), 0o644); err != nil {
		panic(err)
	}
}

// a layer of the alphabet: uncompressed tar plus the identity its marker file (id-X) gives it
type fxLayer struct {
	id   string
	tar  []byte
	diff string
}

func mkLayer(id string, files []fxFile, mtime time.Time, owner bool) fxLayer {
	t := fxTar(files, mtime, owner)
	return fxLayer{id: id, tar: t, diff: fxDigest(t)}
}

type fxLayers struct {
	A, A2, B, C, S, F, Az, Bz, Added fxLayer
}

func mkLayers() fxLayers {
	inner := fxTar([]fxFile{{name: "x.txt", body: "inner"}}, t2022, false)
	return fxLayers{
		A:     mkLayer("A", []fxFile{{name: "id-A", body: "A"}, {name: "etc", dir: true}, {name: "etc/base.txt", body: "base"}}, t2021, true),
		A2:    mkLayer("A2", []fxFile{{name: "id-A2", body: "A2"}, {name: "etc", dir: true}, {name: "etc/base.txt", body: "base two"}}, t2021, true),
		B:     mkLayer("B", []fxFile{{name: "id-B", body: "B"}, {name: "strip", dir: true}, {name: "strip/me.txt", body: "strip me"}, {name: "dir", dir: true}, {name: "dir/inner.tar", body: string(inner)}}, t2021, false),
		C:     mkLayer("C", []fxFile{{name: "id-C", body: "C"}, {name: "c.txt", body: "ccc"}}, t2022, true),
		S:     mkLayer("S", []fxFile{{name: "strip", dir: true}, {name: "strip/id-S", body: "S"}}, t2021, false),
		F:     mkLayer("F", []fxFile{{name: "id-F", body: "F"}, {name: "foreign.bin", body: "not distributable"}}, t2021, false),
		Az:    mkLayer("Az", []fxFile{{name: "id-Az", body: "Az"}, {name: "z.txt", body: "zzz"}}, tSet, false),
		Bz:    mkLayer("Bz", []fxFile{{name: "id-Bz", body: "Bz"}}, tSet, false),
		Added: mkLayer("added", []fxFile{{name: "id-added", body: "added by the option"}}, t2022, false),
	}
}

type fxH struct {
	by    string
	empty bool
}

func (l *fxLayout) config(mt, arch string, created time.Time, diffs []string, hist []fxH) fxDesc {
	c := fxConfig{Created: created.Format(time.RFC3339), Architecture: arch, OS: "linux",
		Config: fxCfgCfg{Env: []string{"PATH=/bin"}, Cmd: []string{"/bin/sh"}, Labels: map[string]string{"version": "1", "created": "2019-06-01T00:00:00Z"}},
		RootFS: fxRootFS{Type: "layers", DiffIDs: diffs}}
	if arch == "unknown" {
		c.OS = "unknown"
	}
	for _, h := range hist {
		c.History = append(c.History, fxHist{Created: created.Format(time.RFC3339), CreatedBy: h.by, EmptyLayer: h.empty})
	}
	return l.desc(mt, l.json(c))
}

func compress(kind string, b []byte) []byte {
	switch kind {
	case "gzip":
		return fxGzip(b)
	case "zstd":
		return fxZstd(b)
	}
	return b
}

func layerMT(family, kind string) string {
	if family == "docker" {
		return map[string]string{"gzip": mtDockerLayerGz, "zstd": mtDockerLayerZs, "none": mtDockerLayer}[kind]
	}
	return map[string]string{"gzip": mtOCILayerGzip, "zstd": mtOCILayerZstd, "none": mtOCILayer}[kind]
}

// image writes config + layers + manifest and returns the manifest descriptor.
func (l *fxLayout) image(family, kind, arch string, created time.Time, layers []fxLayer, hist []fxH, ann map[string]string, foreignLast bool, inlineCfg bool) fxDesc {
	var diffs []string
	var lds []fxDesc
	for i, ly := range layers {
		diffs = append(diffs, ly.diff)
		d := l.desc(layerMT(family, kind), compress(kind, ly.tar))
		if foreignLast && i == len(layers)-1 {
			d.MediaType = mtOCIForeignGz
			d.URLs = []string{"https://foreign.example/blobs/" + ly.id}
			l.foreign[d.Digest] = true
		}
		lds = append(lds, d)
	}
	cmt, mmt := mtOCIConfig, mtOCIManifest
	if family == "docker" {
		cmt, mmt = mtDockerConfig, mtDockerMan
	}
	cd := l.config(cmt, arch, created, diffs, hist)
	if inlineCfg {
		b, _ := os.ReadFile(filepath.Join(l.dir, "blobs", "sha256", cd.Digest[7:]))
		cd.Data = b
	}
	m := fxImage{SchemaVersion: 2, MediaType: mmt, Config: cd, Layers: lds, Annotations: ann}
	md := l.desc(mmt, l.json(m))
	md.Platform = &fxPlat{Architecture: arch, OS: "linux"}
	return md
}

type fixtures struct {
	dir     string // directory holding the layout directories ("src", "bad"): olareg root
	shapes  []*shape
	layers  fxLayers
	baseOld string
	srcHash string // snapshot hash of the pristine src layout
	badTags map[string]string
	foreign map[string]bool // digests of layers that carry urls in some fixture
}

func histAB(ids ...string) []fxH {
	var h []fxH
	for i, id := range ids {
		h = append(h, fxH{by: "layer " + id})
		if i == 0 {
			h = append(h, fxH{by: "ENV base=1", empty: true})
		} else if i%2 == 1 {
			h = append(h, fxH{by: fmt.Sprintf("CMD step%d", i), empty: true})
		}
	}
	return h
}

// buildFixtures writes <dir>/src (all shapes, one tag each, plus base-old/base-new) and <dir>/bad
// (deliberately malformed images the auditor must flag).
func buildFixtures(dir string) *fixtures {
	fx := &fixtures{dir: dir, layers: mkLayers(), badTags: map[string]string{}}
	L := fx.layers
	l := newFxLayout(filepath.Join(dir, srcRepo))

	baseOld := l.image("oci", "gzip", "amd64", t2021, []fxLayer{L.A}, []fxH{{by: "layer A"}, {by: "ENV base=1", empty: true}}, nil, false, false)
	l.tag("base-old", baseOld)
	baseNew := l.image("oci", "gzip", "amd64", t2021, []fxLayer{L.A2}, []fxH{{by: "layer A2"}, {by: "ENV base=2", empty: true}, {by: "LABEL base two", empty: true}}, nil, false, false)
	l.tag("base-new", baseNew)
	fx.baseOld = baseOld.Digest
	baseAnn := func(version bool) map[string]string {
		m := map[string]string{annoBaseName: regHost + "/" + srcRepo + ":base-new", annoBaseDigest: baseOld.Digest}
		if version {
			m[annoVersion] = "1"
		}
		return m
	}

	// oci: single OCI image, 3 gzip layers, empty-layer history entries between them
	l.tag("oci", l.image("oci", "gzip", "amd64", t2021, []fxLayer{L.A, L.B, L.S}, histAB("A", "B", "S"), baseAnn(true), false, false))
	fx.shapes = append(fx.shapes, &shape{name: "oci", allOCI: true, comp: "gzip", hasVersion: true, hasOwner: true, hasStrip: true, hasInnerTar: true, amd64Only: true, nImages: 1})

	// ocib2: like oci, but built on a base of TWO layers whose history has a metadata-only entry
	// between the layer entries (rebase must cut layers and history entries by their own counts)
	{
		baseOld2 := l.image("oci", "gzip", "amd64", t2021, []fxLayer{L.A, L.B}, histAB("A", "B"), nil, false, false)
		l.tag("base-old2", baseOld2)
		ann := baseAnn(true)
		ann[annoBaseDigest] = baseOld2.Digest
		l.tag("ocib2", l.image("oci", "gzip", "amd64", t2021, []fxLayer{L.A, L.B, L.S}, histAB("A", "B", "S"), ann, false, false))
		fx.shapes = append(fx.shapes, &shape{name: "ocib2", allOCI: true, comp: "gzip", hasVersion: true, hasOwner: true, hasStrip: true, hasInnerTar: true, amd64Only: true, nImages: 1})
	}

	// docker: Docker schema2 image, 2 gzip layers
	l.tag("docker", l.image("docker", "gzip", "amd64", t2021, []fxLayer{L.A, L.B}, histAB("A", "B"), nil, false, false))
	fx.shapes = append(fx.shapes, &shape{name: "docker", allDocker: true, comp: "gzip", hasOwner: true, hasStrip: true, hasInnerTar: true, amd64Only: true, nImages: 1})

	// index2: OCI index of two platforms sharing layer A
	{
		c1 := l.image("oci", "gzip", "amd64", t2021, []fxLayer{L.A, L.B}, histAB("A", "B"), map[string]string{annoVersion: "1"}, false, false)
		c2 := l.image("oci", "gzip", "arm64", t2021, []fxLayer{L.A, L.C}, histAB("A", "C"), map[string]string{annoVersion: "1"}, false, false)
		idx := fxIndex{SchemaVersion: 2, MediaType: mtOCIIndex, Manifests: []fxDesc{c1, c2}, Annotations: baseAnn(true)}
		l.tag("index2", l.desc(mtOCIIndex, l.json(idx)))
		fx.shapes = append(fx.shapes, &shape{name: "index2", allOCI: true, comp: "gzip", hasVersion: true, hasOwner: true, hasStrip: true, hasInnerTar: true, isIndex: true, nImages: 2})
	}

	// ociind / idxind: the shapes oci and index2 again with every document indented: a manifest whose
	// stored bytes differ from regclient's own encoding of it (options that change nothing must hand
	// back exactly those bytes)
	{
		l.indent = true
		l.tag("ociind", l.image("oci", "gzip", "amd64", t2021, []fxLayer{L.A, L.B, L.S}, histAB("A", "B", "S"), baseAnn(true), false, false))
		fx.shapes = append(fx.shapes, &shape{name: "ociind", allOCI: true, comp: "gzip", hasVersion: true, hasOwner: true, hasStrip: true, hasInnerTar: true, amd64Only: true, nImages: 1})
		c1 := l.image("oci", "gzip", "amd64", t2021, []fxLayer{L.A, L.B}, histAB("A", "B"), map[string]string{annoVersion: "2"}, false, false)
		c2 := l.image("oci", "gzip", "arm64", t2021, []fxLayer{L.A, L.C}, histAB("A", "C"), map[string]string{annoVersion: "2"}, false, false)
		idx := fxIndex{SchemaVersion: 2, MediaType: mtOCIIndex, Manifests: []fxDesc{c1, c2}, Annotations: baseAnn(true)}
		l.tag("idxind", l.desc(mtOCIIndex, l.json(idx)))
		fx.shapes = append(fx.shapes, &shape{name: "idxind", allOCI: true, comp: "gzip", hasVersion: true, hasOwner: true, hasStrip: true, hasInnerTar: true, isIndex: true, nImages: 2})
		l.indent = false
	}

	// idxref: OCI index of one image (inline config data) + a buildkit-style attestation child named
	// by vnd.docker.reference.* annotations, and an OCI referrer (subject = the index)
	{
		c1 := l.image("oci", "gzip", "amd64", t2021, []fxLayer{L.A, L.C}, histAB("A", "C"), nil, false, true)
		stmt := []byte(`{"_type":"https://in-toto.io/Statement/v0.1","predicateType":"https://slsa.dev/provenance/v0.2","subject":[]}`)
		sd := l.desc(mtInToto, stmt)
		sd.Annotations = map[string]string{"in-toto.io/predicate-type": "https://slsa.dev/provenance/v0.2"}
		acfg := l.config(mtOCIConfig, "unknown", t2021, []string{fxDigest(stmt)}, nil)
		att := fxImage{SchemaVersion: 2, MediaType: mtOCIManifest, Config: acfg, Layers: []fxDesc{sd}}
		ad := l.desc(mtOCIManifest, l.json(att))
		ad.Platform = &fxPlat{Architecture: "unknown", OS: "unknown"}
		ad.Annotations = map[string]string{"vnd.docker.reference.type": "attestation-manifest", "vnd.docker.reference.digest": c1.Digest}
		idx := fxIndex{SchemaVersion: 2, MediaType: mtOCIIndex, Manifests: []fxDesc{c1, ad}}
		id := l.desc(mtOCIIndex, l.json(idx))
		l.tag("idxref", id)
		// referrer artifact
		empty := l.desc(mtOCIEmpty, []byte("{}"))
		empty.Data = []byte("{}")
		sb := l.desc("text/plain", []byte("sbom of idxref"))
		subj := id
		art := fxImage{SchemaVersion: 2, MediaType: mtOCIManifest, ArtifactType: "application/vnd.example.sbom", Config: empty, Layers: []fxDesc{sb}, Subject: &subj,
			Annotations: map[string]string{"org.example.kind": "sbom"}}
		artD := l.desc(mtOCIManifest, l.json(art))
		artD.ArtifactType = "application/vnd.example.sbom"
		artD.Annotations = map[string]string{"org.example.kind": "sbom"}
		rl := fxIndex{SchemaVersion: 2, MediaType: mtOCIIndex, Manifests: []fxDesc{artD}}
		l.tag("sha256-"+id.Digest[7:], l.desc(mtOCIIndex, l.json(rl)))
		fx.shapes = append(fx.shapes, &shape{name: "idxref", allOCI: true, comp: "gzip", hasOwner: true, hasData: true, hasDockerRef: true, isIndex: true, nReferrers: 1, nImages: 2})
	}

	// zstd: single OCI image with zstd layers; every timestamp already equals tSet, no owner names
	l.tag("zstd", l.image("oci", "zstd", "amd64", tSet, []fxLayer{L.Az, L.Bz}, []fxH{{by: "layer Az"}, {by: "layer Bz"}}, nil, false, false))
	fx.shapes = append(fx.shapes, &shape{name: "zstd", allOCI: true, comp: "zstd", cfgTimesSet: true, tarTimesSet: true, amd64Only: true, nImages: 1})

	// uncomp: single OCI image with uncompressed layers
	l.tag("uncomp", l.image("oci", "none", "amd64", t2021, []fxLayer{L.A, L.B, L.S}, histAB("A", "B", "S"), map[string]string{annoVersion: "1"}, false, false))
	fx.shapes = append(fx.shapes, &shape{name: "uncomp", allOCI: true, comp: "none", hasVersion: true, hasOwner: true, hasStrip: true, hasInnerTar: true, amd64Only: true, nImages: 1})

	// foreign: gzip layer + a non-distributable layer with urls (blob also present in the repository)
	l.tag("foreign", l.image("oci", "gzip", "amd64", t2021, []fxLayer{L.A, L.F}, histAB("A", "F"), baseAnn(false), true, false))
	fx.shapes = append(fx.shapes, &shape{name: "foreign", allOCI: true, comp: "gzip", hasOwner: true, hasForeign: true, amd64Only: true, nImages: 1})

	l.finish()
	fx.srcHash = hashDir(l.dir)
	fx.foreign = l.foreign

	// ---- malformed images for the auditor's self-test -------------------------------------------
	b := newFxLayout(filepath.Join(dir, "bad"))
	mk := func(name string, mut func(m *fxImage, cfg *fxConfig)) {
		var diffs []string
		var lds []fxDesc
		for _, ly := range []fxLayer{L.A, L.B} {
			diffs = append(diffs, ly.diff)
			lds = append(lds, b.desc(mtOCILayerGzip, fxGzip(ly.tar)))
		}
		cfg := fxConfig{Created: t2021.Format(time.RFC3339), Architecture: "amd64", OS: "linux", RootFS: fxRootFS{Type: "layers", DiffIDs: diffs},
			History: []fxHist{{Created: t2021.Format(time.RFC3339), CreatedBy: "layer A"}, {Created: t2021.Format(time.RFC3339), CreatedBy: "ENV x", EmptyLayer: true}, {Created: t2021.Format(time.RFC3339), CreatedBy: "layer B"}}}
		m := fxImage{SchemaVersion: 2, MediaType: mtOCIManifest, Layers: lds}
		mut(&m, &cfg)
		if m.Config.Digest == "" {
			m.Config = b.desc(mtOCIConfig, b.json(cfg))
		}
		b.tag(name, b.desc(mtOCIManifest, b.json(m)))
	}
	mk("good", func(m *fxImage, c *fxConfig) {})
	fx.badTags["good"] = ""
	mk("bad-diffid", func(m *fxImage, c *fxConfig) { c.RootFS.DiffIDs[1] = m.Layers[1].Digest })
	fx.badTags["bad-diffid"] = "diffid-mismatch compressed-digest"
	mk("bad-diffcount", func(m *fxImage, c *fxConfig) { c.RootFS.DiffIDs = c.RootFS.DiffIDs[:1] })
	fx.badTags["bad-diffcount"] = "diffid-count-mismatch"
	mk("bad-history-count", func(m *fxImage, c *fxConfig) { c.History = c.History[:2] })
	fx.badTags["bad-history-count"] = "history-count-mismatch"
	mk("bad-history-order", func(m *fxImage, c *fxConfig) {
		c.History[0].CreatedBy, c.History[2].CreatedBy = c.History[2].CreatedBy, c.History[0].CreatedBy
	})
	fx.badTags["bad-history-order"] = "history-misaligned"
	mk("bad-size", func(m *fxImage, c *fxConfig) { m.Layers[0].Size++ })
	fx.badTags["bad-size"] = "size-mismatch layer"
	mk("bad-missing", func(m *fxImage, c *fxConfig) { m.Layers[1].Digest = fxDigest([]byte("never stored")) })
	fx.badTags["bad-missing"] = "missing layer"
	mk("bad-data", func(m *fxImage, c *fxConfig) {
		m.Config = b.desc(mtOCIConfig, b.json(*c))
		m.Config.Data = []byte(`{"not":"the config"}`)
	})
	fx.badTags["bad-data"] = "inline-data-mismatch config"
	mk("bad-nomt", func(m *fxImage, c *fxConfig) { m.Layers[1].MediaType = "" })
	fx.badTags["bad-nomt"] = "descriptor-without-mediatype layer"
	mk("bad-comp", func(m *fxImage, c *fxConfig) { m.Layers[1].MediaType = mtOCILayerZstd })
	fx.badTags["bad-comp"] = "layer-compression-mismatch"
	{
		c1 := b.tags[0] // "good"
		c1.Annotations = nil
		idx := fxIndex{SchemaVersion: 2, MediaType: mtOCIIndex, Manifests: []fxDesc{c1}}
		body := b.json(idx)
		idx.Manifests[0].Data = body // what candidate defect #15 would produce: the parent's body
		b.tag("bad-idxdata", b.desc(mtOCIIndex, b.json(idx)))
		fx.badTags["bad-idxdata"] = "inline-data-mismatch index-child"
		idx2 := fxIndex{SchemaVersion: 2, MediaType: mtOCIIndex, Manifests: []fxDesc{{MediaType: mtOCIManifest, Digest: fxDigest([]byte("no such child")), Size: 13}}}
		b.tag("bad-child", b.desc(mtOCIIndex, b.json(idx2)))
		fx.badTags["bad-child"] = "missing index-child"
		c3 := c1
		c3.MediaType = mtDockerMan
		idx3 := fxIndex{SchemaVersion: 2, MediaType: mtOCIIndex, Manifests: []fxDesc{c3}}
		b.tag("bad-childmt", b.desc(mtOCIIndex, b.json(idx3)))
		fx.badTags["bad-childmt"] = "mediatype-mismatch index-child"
	}
	b.finish()
	return fx
}

func (fx *fixtures) shape(name string) *shape {
	for _, s := range fx.shapes {
		if s.name == name {
			return s
		}
	}
	return nil
}

// hashDir is a content hash of every file below dir (path + bytes), used for "layout untouched".
func hashDir(dir string) string {
	h := sha256.New()
	filepath.Walk(dir, func(p string, fi os.FileInfo, err error) error {
		if err != nil || fi.IsDir() {
			return nil
		}
		rel, _ := filepath.Rel(dir, p)
		b, _ := os.ReadFile(p)
		fmt.Fprintf(h, "%s\x00%d\x00", rel, len(b))
		h.Write(b)
		return nil
	})
	return hex.EncodeToString(h.Sum(nil))
}

func copyDir(dst, src string) error {
	return filepath.Walk(src, func(p string, fi os.FileInfo, err error) error {
		if err != nil {
			return err
		}
		rel, _ := filepath.Rel(src, p)
		if fi.IsDir() {
			return os.MkdirAll(filepath.Join(dst, rel), 0o755)
		}
		b, err := os.ReadFile(p)
		if err != nil {
			return err
		}
		return os.WriteFile(filepath.Join(dst, rel), b, 0o644)
	})
}
