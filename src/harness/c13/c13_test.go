package hc13

// C13 — image modification yields a well-formed image and leaves the source untouched.
//
// Every option program up to the tier's length bound, over an alphabet of one representative per
// option family of package mod, is applied with the real mod.Apply to every fixture shape
// (shapes_test.go) under every endpoint pairing. No sampling: the space is enumerated completely.
//
// Oracle (clauses of the property statement -> what is checked, all in audit_test.go / runCase):
//   - every descriptor of every manifest written (the result's closure, the referrers the target
//     lists for it, and every manifest PUT / new manifest file observed during Apply) has digest,
//     size and inline data equal to the content read back from raw storage;
//   - rootfs.diff_ids[i] is the digest of layer i decoded the way its media type declares; the
//     number of non-empty history entries equals the number of layers and entry i describes layer
//     i (fixture layers carry a marker file id-X, their history says "layer X", layers added by mod
//     say comment "regclient");
//   - index entries resolve to the child present at the target, agree with its media type, and no
//     manifest written during Apply is left unreachable from the result (a rewritten child that the
//     index does not name would be);
//   - the source (tags, digests, closure, referrer lists) equals its pristine snapshot after every
//     run, failed ones included, unless it is the target; a same-repository target may add referrers
//     to manifests it shares with the source (documented behaviour);
//   - a program made only of tabulated no-ops (optDef.noop, conservative) returns the source digest;
//   - two runs on fresh identical inputs give the same outcome and digest.
// Programs that return an error are allowed and counted per error class.
//
// Replay: bin/check C13 --replay <file> re-runs exactly one (shape, pairing, program) twice and
// prints both outcomes; VERIF_C13_DEBUG=keep leaves the work directory, noclose skips rc.Close.

import (
	"bytes"
	"context"
	"encoding/json"
	"fmt"
	"io"
	"log/slog"
	"net/http"
	"os"
	"path/filepath"
	"regexp"
	"sort"
	"strings"
	"sync"
	"testing"
	"time"

	"github.com/olareg/olareg"
	oConfig "github.com/olareg/olareg/config"
	"github.com/opencontainers/go-digest"

	"github.com/regclient/regclient"
	"github.com/regclient/regclient/config"
	"github.com/regclient/regclient/internal/verif/ev"
	"github.com/regclient/regclient/internal/verif/modelreg"
	"github.com/regclient/regclient/mod"
	"github.com/regclient/regclient/pkg/archive"
	"github.com/regclient/regclient/scheme/reg"
	"github.com/regclient/regclient/types/platform"
	"github.com/regclient/regclient/types/ref"
	"github.com/regclient/regclient/types/warning"
)

// ---- option alphabet ---------------------------------------------------------------------------

type optDef struct {
	name string
	mk   func(fx *fixtures) mod.Opts // a fresh option value per Apply (readers are consumed)
	noop func(s *shape) bool         // conservative: true only where the option unambiguously changes nothing
}

func never(*shape) bool { return false }

func alphabet() []optDef {
	amd64, _ := platform.Parse("linux/amd64")
	return []optDef{
		{"anno-add", func(*fixtures) mod.Opts { return mod.WithAnnotation("[*]verif.a", "1") }, never},
		{"anno-rm", func(*fixtures) mod.Opts { return mod.WithAnnotation("[*]"+annoVersion, "") }, func(s *shape) bool { return !s.hasVersion }},
		{"label", func(*fixtures) mod.Opts { return mod.WithLabel("verif.l", "x") }, never},
		{"env", func(*fixtures) mod.Opts { return mod.WithEnv("VERIF", "1") }, never},
		{"cfg-time", func(*fixtures) mod.Opts { return mod.WithConfigTimestamp(mod.OptTime{Set: tSet}) }, func(s *shape) bool { return s.cfgTimesSet }},
		{"layer-time", func(*fixtures) mod.Opts { return mod.WithLayerTimestamp(mod.OptTime{Set: tSet}) }, func(s *shape) bool { return s.tarTimesSet }},
		{"tar-time", func(*fixtures) mod.Opts { return mod.WithFileTarTime("dir/inner.tar", mod.OptTime{Set: tSet}) }, func(s *shape) bool { return !s.hasInnerTar }},
		{"layer-add", func(fx *fixtures) mod.Opts { return mod.WithLayerAddTar(bytes.NewReader(fx.layers.Added.tar), "", nil) }, never},
		{"rm-idx0", func(*fixtures) mod.Opts { return mod.WithLayerRmIndex(0) }, never},
		{"rm-idx1", func(*fixtures) mod.Opts { return mod.WithLayerRmIndex(1) }, never},
		{"rm-by", func(*fixtures) mod.Opts { return mod.WithLayerRmCreatedBy(*regexp.MustCompile(`^layer [BC]$`)) }, never},
		{"strip", func(*fixtures) mod.Opts { return mod.WithLayerStripFile("/strip") }, func(s *shape) bool { return !s.hasStrip }},
		{"gzip", func(*fixtures) mod.Opts { return mod.WithLayerCompression(archive.CompressGzip) }, func(s *shape) bool { return s.comp == "gzip" }},
		{"zstd", func(*fixtures) mod.Opts { return mod.WithLayerCompression(archive.CompressZstd) }, func(s *shape) bool { return s.comp == "zstd" }},
		{"uncompress", func(*fixtures) mod.Opts { return mod.WithLayerCompression(archive.CompressNone) }, func(s *shape) bool { return s.comp == "none" }},
		{"repro", func(*fixtures) mod.Opts { return mod.WithLayerReproducible() }, func(s *shape) bool { return !s.hasOwner }},
		{"sha512", func(*fixtures) mod.Opts { return mod.WithDigestAlgo(digest.SHA512) }, never},
		{"sha256", func(*fixtures) mod.Opts { return mod.WithDigestAlgo(digest.SHA256) }, func(*shape) bool { return true }},
		{"to-oci", func(*fixtures) mod.Opts { return mod.WithManifestToOCI() }, func(s *shape) bool { return s.allOCI }},
		{"to-docker", func(*fixtures) mod.Opts { return mod.WithManifestToDocker() }, func(s *shape) bool { return s.allDocker }},
		{"to-referrers", func(*fixtures) mod.Opts { return mod.WithManifestToOCIReferrers() }, func(s *shape) bool { return !s.hasDockerRef }},
		{"data-0", func(*fixtures) mod.Opts { return mod.WithData(0) }, func(s *shape) bool { return !s.hasData }},
		{"data-big", func(*fixtures) mod.Opts { return mod.WithData(100000) }, never},
		{"rebase", func(*fixtures) mod.Opts { return mod.WithRebase() }, never},
		{"url-rm", func(*fixtures) mod.Opts { return mod.WithExternalURLsRm() }, func(s *shape) bool { return !s.hasForeign }},
		{"platform", func(*fixtures) mod.Opts { return mod.WithConfigPlatform(amd64) }, func(s *shape) bool { return s.amd64Only }},
	}
}

// extended: the rest of the option set. These are enumerated alone and paired (both orders) with
// every option of the core alphabet; nothing is claimed about which of them are no-ops.
func extended() []optDef {
	mustRef := func(s string) ref.Ref {
		r, err := ref.New(s)
		if err != nil {
			panic(err)
		}
		return r
	}
	baseOld := func() ref.Ref { return mustRef(regHost + "/" + srcRepo + ":base-old") }
	baseNew := func() ref.Ref { return mustRef(regHost + "/" + srcRepo + ":base-new") }
	return []optDef{
		{"buildarg-rm", func(*fixtures) mod.Opts { return mod.WithBuildArgRm("HTTP_PROXY", regexp.MustCompile(".*")) }, never},
		{"cmd", func(*fixtures) mod.Opts { return mod.WithConfigCmd([]string{"/bin/verif", "-x"}) }, never},
		{"entrypoint", func(*fixtures) mod.Opts { return mod.WithConfigEntrypoint([]string{"/entry"}) }, never},
		{"cfg-time-label", func(*fixtures) mod.Opts { return mod.WithConfigTimestampFromLabel("created") }, never},
		{"cfg-time-max", func(*fixtures) mod.Opts { return mod.WithConfigTimestampMax(tSet) }, never},
		{"cfg-time-after", func(*fixtures) mod.Opts {
			return mod.WithConfigTimestamp(mod.OptTime{Set: tSet, After: tSet.Add(24 * time.Hour)})
		}, never},
		{"expose-add", func(*fixtures) mod.Opts { return mod.WithExposeAdd("8080/tcp") }, never},
		{"expose-rm", func(*fixtures) mod.Opts { return mod.WithExposeRm("8080/tcp") }, never},
		{"volume-add", func(*fixtures) mod.Opts { return mod.WithVolumeAdd("/data") }, never},
		{"volume-rm", func(*fixtures) mod.Opts { return mod.WithVolumeRm("/data") }, never},
		{"layer-time-label", func(*fixtures) mod.Opts { return mod.WithLayerTimestampFromLabel("created") }, never},
		{"layer-time-max", func(*fixtures) mod.Opts { return mod.WithLayerTimestampMax(tSet) }, never},
		{"layer-time-base1", func(*fixtures) mod.Opts { return mod.WithLayerTimestamp(mod.OptTime{Set: tSet, BaseLayers: 1}) }, never},
		{"layer-time-baseref", func(*fixtures) mod.Opts { return mod.WithLayerTimestamp(mod.OptTime{Set: tSet, BaseRef: baseOld()}) }, never},
		{"tar-time-max", func(*fixtures) mod.Opts { return mod.WithFileTarTimeMax("dir/inner.tar", tSet) }, never},
		{"anno-oci-base", func(fx *fixtures) mod.Opts { return mod.WithAnnotationOCIBase(baseNew(), digest.Digest(fx.baseOld)) }, never},
		{"anno-promote", func(*fixtures) mod.Opts { return mod.WithAnnotationPromoteCommon() }, never},
		{"label-to-anno", func(*fixtures) mod.Opts { return mod.WithLabelToAnnotation() }, never},
		{"rebase-refs", func(*fixtures) mod.Opts { return mod.WithRebaseRefs(baseOld(), baseNew()) }, never},
	}
}

// ---- endpoint pairings -----------------------------------------------------------------------

type pairing struct {
	name      string
	srcLayout bool   // source is an OCI layout
	tgt       string // "same-repo" | "other-repo" | "other-reg" | "layout" | "same-layout" | "in-place" | "by-digest"
}

func pairings(thorough bool) []pairing {
	ps := []pairing{
		{"reg:same-repo-new-tag", false, "same-repo"},
		{"reg:other-repo", false, "other-repo"},
		{"reg->layout", false, "layout"},
		{"layout->layout", true, "layout"},
	}
	if thorough {
		ps = append(ps,
			pairing{"reg:other-registry", false, "other-reg"},
			pairing{"reg:in-place", false, "in-place"},
			pairing{"layout:same-layout-new-tag", true, "same-layout"},
		)
	}
	return ps
}

// ---- one case --------------------------------------------------------------------------------

type caseID struct {
	Shape   string   `json:"shape"`
	Pairing string   `json:"pairing"`
	Program []string `json:"program"`
	// Fault: "<status>@<METHOD> <path>": the first such request during Apply is answered with that
	// status (once); "" = a faithful registry
	Fault string `json:"fault,omitempty"`
}

func (c caseID) String() string {
	f := ""
	if c.Fault != "" {
		f = " | fault " + c.Fault
	}
	return fmt.Sprintf("%s | %s | [%s]%s", c.Shape, c.Pairing, strings.Join(c.Program, ", "), f)
}

type outcome struct {
	err        string // non-empty: Apply returned an error (or panicked: prefix "panic:")
	panicked   bool
	rootDigest string
	srcDigest  string
	findings   []finding
	counts     map[string]int64
	written    int // manifests written to the target during Apply
	rootFound  bool
	gets       []string // distinct "GET <path>" answered 200 during Apply, in order of first occurrence
	faultFired bool
}

type harness struct {
	t          *testing.T
	rec        *ev.Rec
	fx         *fixtures
	opts       []optDef
	byName     map[string]int
	pristine   map[string]string            // snapshot of a fresh registry's src repository
	pristineEx map[string]map[string]string // ... without one tag (in-place pairing)
	layoutOK   map[string]string            // snapshot of the pristine source layout
	srcDir     string                       // reusable source layout (re-copied whenever it was altered)
	seq        int
	verbose    bool
}

var discardLog = slog.New(slog.NewTextHandler(io.Discard, nil))

func (h *harness) newRegistry() *olareg.Server {
	f := false
	return olareg.New(oConfig.Config{
		Storage: oConfig.ConfigStorage{StoreType: oConfig.StoreMem, RootDir: h.fx.dir, ReadOnly: &f,
			GC: oConfig.ConfigGC{Frequency: -1}},
	})
}

func (h *harness) freshSrcLayout() string {
	if h.srcDir != "" {
		return h.srcDir
	}
	h.seq++
	d := filepath.Join(h.rec.Scratch, fmt.Sprintf("srcl%d", h.seq), srcRepo)
	if err := copyDir(d, filepath.Join(h.fx.dir, srcRepo)); err != nil {
		h.rec.HarnessError("copy source layout: %v", err)
	}
	h.srcDir = d
	return d
}

// runCase executes one case on fresh inputs and judges it.
func (h *harness) runCase(c caseID) outcome {
	out := outcome{counts: map[string]int64{}}
	sh := h.fx.shape(c.Shape)
	var pr pairing
	for _, p := range pairings(true) {
		if p.name == c.Pairing {
			pr = p
		}
	}
	if sh == nil || pr.name == "" {
		h.rec.HarnessError("unknown case %v", c)
		return out
	}
	// fresh endpoints
	rt := modelreg.NewHandlerRT()
	regA := h.newRegistry()
	defer regA.Close()
	rt.Hosts[regHost] = regA
	var regB *olareg.Server
	if pr.tgt == "other-reg" {
		f := false
		regB = olareg.New(oConfig.Config{Storage: oConfig.ConfigStorage{StoreType: oConfig.StoreMem, ReadOnly: &f, GC: oConfig.ConfigGC{Frequency: -1}}})
		defer regB.Close()
		rt.Hosts[reg2Host] = regB
	}
	rc := regclient.New(
		regclient.WithConfigHost(
			config.Host{Name: regHost, Hostname: regHost, TLS: config.TLSDisabled},
			config.Host{Name: reg2Host, Hostname: reg2Host, TLS: config.TLSDisabled}),
		regclient.WithRegOpts(reg.WithHTTPClient(&http.Client{Transport: rt}), reg.WithDelay(time.Millisecond, time.Millisecond)),
		regclient.WithSlog(discardLog),
	)
	h.seq++
	work := filepath.Join(h.rec.Scratch, fmt.Sprintf("w%d", h.seq))
	if !strings.Contains(os.Getenv("VERIF_C13_DEBUG"), "keep") {
		defer os.RemoveAll(work)
	}

	var srcStore, tgtStore rawStore
	var srcRefS, tgtRefS string
	tgtTag := "mod"
	if pr.srcLayout {
		d := h.freshSrcLayout()
		if pr.tgt == "same-layout" {
			// the target is the source layout itself: work on a private copy
			d = filepath.Join(work, "srcl", srcRepo)
			if err := copyDir(d, filepath.Join(h.fx.dir, srcRepo)); err != nil {
				h.rec.HarnessError("copy source layout: %v", err)
				return out
			}
		}
		srcStore = &dirStore{d}
		srcRefS = "ocidir://" + d + ":" + sh.name
	} else {
		srcStore = &regStore{regA, srcRepo}
		srcRefS = regHost + "/" + srcRepo + ":" + sh.name
	}
	switch pr.tgt {
	case "same-repo":
		tgtStore, tgtRefS = srcStore, regHost+"/"+srcRepo+":"+tgtTag
	case "in-place":
		tgtTag = sh.name
		tgtStore, tgtRefS = srcStore, srcRefS
	case "other-repo":
		tgtStore, tgtRefS = &regStore{regA, "tgt"}, regHost+"/tgt:"+tgtTag
	case "other-reg":
		tgtStore, tgtRefS = &regStore{regB, "tgt"}, reg2Host+"/tgt:"+tgtTag
	case "layout":
		d := filepath.Join(work, "tgtl")
		tgtStore, tgtRefS = &dirStore{d}, "ocidir://"+d+":"+tgtTag
	case "same-layout":
		tgtStore, tgtRefS = srcStore, "ocidir://"+srcStore.(*dirStore).dir+":"+tgtTag
	}
	rSrc, err := ref.New(srcRefS)
	if err != nil {
		h.rec.HarnessError("ref %s: %v", srcRefS, err)
		return out
	}
	rTgt, err := ref.New(tgtRefS)
	if err != nil {
		h.rec.HarnessError("ref %s: %v", tgtRefS, err)
		return out
	}
	_, out.srcDigest, _ = srcStore.tag(sh.name)
	if out.srcDigest == "" {
		h.rec.HarnessError("source tag %s not readable from %s", sh.name, srcStore)
		return out
	}
	var before map[string]bool
	if ds, ok := tgtStore.(*dirStore); ok {
		before = ds.blobFiles()
	}

	// the program
	var opts []mod.Opts
	for _, n := range c.Program {
		i, ok := h.byName[n]
		if !ok {
			h.rec.HarnessError("unknown option %q", n)
			return out
		}
		opts = append(opts, h.opts[i].mk(h.fx))
	}
	opts = append(opts, mod.WithRefTgt(rTgt))
	ctx := warning.NewContext(context.Background(), &warning.Warning{})
	rt.ResetLog()
	if c.Fault != "" {
		st, target, _ := strings.Cut(c.Fault, "@")
		code := 404
		fmt.Sscan(st, &code)
		var fmu sync.Mutex
		rt.Before = func(req *http.Request) (*http.Response, error) {
			fmu.Lock()
			defer fmu.Unlock()
			if out.faultFired || req.Method+" "+req.URL.Path != target {
				return nil, nil
			}
			out.faultFired = true
			body := `{"errors":[{"code":"BLOB_UNKNOWN","message":"injected"}]}`
			return &http.Response{StatusCode: code, Status: fmt.Sprintf("%d injected", code), Proto: "HTTP/1.1", ProtoMajor: 1, ProtoMinor: 1,
				Header: http.Header{"Content-Type": {"application/json"}, "Content-Length": {fmt.Sprint(len(body))}}, ContentLength: int64(len(body)),
				Body: io.NopCloser(strings.NewReader(body)), Request: req}, nil
		}
	}
	var rOut ref.Ref
	func() {
		defer func() {
			if p := recover(); p != nil {
				out.panicked = true
				out.err = fmt.Sprintf("panic: %v", p)
			}
		}()
		rOut, err = mod.Apply(ctx, rc, rSrc, opts...)
		if err != nil {
			out.err = err.Error()
		}
	}()
	reqLog := rt.Log()
	rt.Before = nil
	{
		seen := map[string]bool{}
		for _, l := range reqLog {
			k := l.Method + " " + l.Path
			if l.Method == http.MethodGet && l.Status == 200 && !seen[k] {
				seen[k] = true
				out.gets = append(out.gets, k)
			}
		}
	}
	// what regctl does after a modification: release the references (runs the layout's GC)
	if !strings.Contains(os.Getenv("VERIF_C13_DEBUG"), "noclose") {
		_ = rc.Close(ctx, rTgt)
		_ = rc.Close(ctx, rSrc)
	}

	// ---- source untouched (judged for failed programs too) ---------------------------------------
	after := srcStore.snapshot()
	pristine := h.pristine
	if pr.srcLayout {
		pristine = h.layoutOK
	}
	if pr.tgt == "in-place" {
		// the source tag is named as the target: everything reachable from the *other* tags must survive
		pristine = h.pristineWithout(sh.name)
	}
	var diffs []string
	for k, v := range pristine {
		if k == "tag:"+sh.name && pr.tgt == "in-place" {
			continue // the source tag is named as the target
		}
		if av, ok := after[k]; !ok {
			diffs = append(diffs, "lost "+k)
		} else if av != v {
			if strings.HasPrefix(k, "r:") && tgtStore == srcStore && containsAll(av, v) {
				// a manifest of the source gained a referrer because the result was written to the same
				// repository and shares that manifest: the image itself is unchanged
				out.counts["source_referrer_lists_grown_same_repo"]++
				continue
			}
			diffs = append(diffs, fmt.Sprintf("changed %s: %s -> %s", k, v, av))
		}
	}
	if tgtStore != srcStore {
		for k := range after {
			if _, ok := pristine[k]; !ok {
				diffs = append(diffs, "gained "+k)
			}
		}
	}
	out.counts["source_snapshots_compared"]++
	if len(diffs) > 0 {
		sort.Strings(diffs)
		out.findings = append(out.findings, finding{"source-altered", fmt.Sprintf("the source %s differs from its pristine state after Apply (err=%q): %s", srcStore, out.err, strings.Join(diffs, "; "))})
		if pr.srcLayout && pr.tgt != "same-layout" {
			h.srcDir = "" // next case gets a new copy
		}
	}
	if out.err != "" {
		return out
	}

	// ---- audit of the target ----------------------------------------------------------------------
	au := newAuditor(tgtStore)
	au.foreign = h.fx.foreign
	var body []byte
	var ok bool
	if rOut.Tag != "" && rOut.Digest == "" {
		body, out.rootDigest, ok = tgtStore.tag(rOut.Tag)
		if !ok {
			au.fail("result-tag-not-created", "Apply returned %s without error but tag %q does not exist at %s (manifest PUTs to the target during Apply: %d)", rOut.CommonName(), rOut.Tag, tgtStore, countManifestPuts(reqLog))
		}
	} else {
		out.rootDigest = rOut.Digest
		body, ok = tgtStore.manifest(rOut.Digest)
		if !ok {
			au.fail("result-digest-not-at-target", "Apply returned %s without error but that manifest is not present at %s", rOut.CommonName(), tgtStore)
		}
	}
	out.rootFound = ok
	// every manifest written during Apply, whether or not the root reaches it
	type wr struct {
		name, dig string
		body      []byte
	}
	var written []wr
	if rs, isReg := tgtStore.(*regStore); isReg {
		pfx := "/v2/" + rs.repo + "/manifests/"
		host := regHost
		if pr.tgt == "other-reg" {
			host = reg2Host
		}
		for _, l := range reqLog {
			if l.Method == http.MethodPut && l.Host == host && strings.HasPrefix(l.Path, pfx) && l.Status >= 200 && l.Status < 300 {
				name := strings.TrimPrefix(l.Path, pfx)
				dig := name
				if !strings.Contains(name, ":") {
					dig = "sha256:" + hashBytes("sha256", l.Body)
					if q := l.Query; strings.HasPrefix(q, "digest=") {
						dig = strings.ReplaceAll(strings.TrimPrefix(q, "digest="), "%3A", ":")
					}
				}
				written = append(written, wr{name, dig, l.Body})
			}
		}
	} else if ds, isDir := tgtStore.(*dirStore); isDir {
		refLists := map[string]bool{} // referrer lists the layout keeps under fallback tags
		for _, e := range ds.index() {
			if _, isRef := isFallbackTag(e.Annotations[annoRefName]); isRef {
				refLists[e.Digest] = true
			}
		}
		for d := range ds.blobFiles() {
			if before[d] {
				continue
			}
			b, _ := ds.blob(d)
			var m aManifest
			if json.Unmarshal(b, &m) == nil && m.SchemaVersion == 2 && (m.Config != nil || m.Manifests != nil) {
				name := d
				if refLists[d] {
					name = "sha256-referrer-list"
				}
				written = append(written, wr{name, d, b})
			}
		}
		sort.Slice(written, func(i, j int) bool { return written[i].dig < written[j].dig })
	}
	out.written = len(written)
	if ok {
		alg, enc, _ := strings.Cut(out.rootDigest, ":")
		if hashBytes(alg, body) != enc {
			au.fail("digest-mismatch root", "target root is named %s but its content hashes to %s", out.rootDigest, digestOf(alg, body))
		}
		au.manifest(out.rootDigest, body, "root", 0)
	}
	for _, w := range written {
		if !au.reach[w.dig] {
			// a manifest written by Apply that neither the result nor its referrers name
			if _, isRefTag := isFallbackTag(w.name); !isRefTag {
				au.fail("orphan-manifest-written", "manifest %s was written to %s during Apply but the result %s does not reach it (an index entry or referrer list names something else)", w.dig, tgtStore, out.rootDigest)
			}
		}
		au.manifest(w.dig, w.body, "written", 0)
	}
	out.findings = append(out.findings, au.findings...)
	for k, v := range au.counts {
		out.counts[k] += v
	}
	return out
}

func (h *harness) pristineWithout(tag string) map[string]string {
	if s, ok := h.pristineEx[tag]; ok {
		return s
	}
	r := h.newRegistry()
	defer r.Close()
	s := (&regStore{r, srcRepo}).snapshotExcept(tag)
	h.pristineEx[tag] = s
	return s
}

func containsAll(after, before string) bool {
	have := map[string]bool{}
	for _, d := range strings.Split(after, ",") {
		have[d] = true
	}
	for _, d := range strings.Split(before, ",") {
		if d != "" && !have[d] {
			return false
		}
	}
	return true
}

func countManifestPuts(log []modelreg.ReqLog) int {
	n := 0
	for _, l := range log {
		if l.Method == http.MethodPut && strings.Contains(l.Path, "/manifests/") {
			n++
		}
	}
	return n
}

func isFallbackTag(name string) (string, bool) {
	if strings.HasPrefix(name, "sha256-") || strings.HasPrefix(name, "sha512-") {
		return name, true
	}
	return "", false
}

// ---- enumeration -------------------------------------------------------------------------------

// programs lists every sequence over alphabet with minLen <= length <= maxLen, shortest first.
func programs(alphabet []int, minLen, maxLen int) [][]int {
	var out [][]int
	prev := [][]int{{}}
	if minLen == 0 {
		out = append(out, []int{})
	}
	for l := 1; l <= maxLen; l++ {
		var cur [][]int
		for _, p := range prev {
			for _, o := range alphabet {
				cur = append(cur, append(append([]int{}, p...), o))
			}
		}
		if l >= minLen {
			out = append(out, cur...)
		}
		prev = cur
	}
	return out
}

// the options that add, remove, empty or rewrite layers and history (longer programs in the thorough tier)
var layerFamily = []string{"layer-add", "rm-idx0", "rm-idx1", "rm-by", "strip", "rebase", "zstd", "layer-time"}

func errClass(e string) string {
	e = regexp.MustCompile(`sha(256|512):[0-9a-f]+`).ReplaceAllString(e, "<digest>")
	e = regexp.MustCompile(`/[^ :]*/w[0-9]+/`).ReplaceAllString(e, "<work>/")
	e = regexp.MustCompile(`[0-9]+`).ReplaceAllString(e, "N")
	if len(e) > 90 {
		e = e[:90]
	}
	return e
}

func TestVerifC13(t *testing.T) {
	rec := ev.New()
	defer rec.Flush(t)
	rec.SampleCap = 3
	nCore := len(alphabet())
	h := &harness{t: t, rec: rec, opts: append(alphabet(), extended()...), byName: map[string]int{}, pristineEx: map[string]map[string]string{}}
	for i, o := range h.opts {
		h.byName[o.name] = i
	}
	h.fx = buildFixtures(filepath.Join(rec.Scratch, "fix"))
	maxLen2, maxLen3 := 2, false
	if v := os.Getenv("VERIF_C13_MAXLEN"); v != "" { // development aid: 1 = singles only, 3 = add the thorough blocks
		n := 2
		fmt.Sscan(v, &n)
		maxLen2, maxLen3 = min(n, 2), n >= 3
	}
	prs := pairings(rec.Thorough())
	bound := fmt.Sprintf("every option program of length 0..%d over the %d-option core alphabet (%s) x %d shapes (%s) x %d endpoint pairings (%s); plus the %d further options (%s) alone x all pairings and paired in both orders with every core option x pairing %s",
		maxLen2, nCore, optNames(h.opts[:nCore]), len(h.fx.shapes), shapeNames(h.fx.shapes), len(prs), pairingNames(prs), len(h.opts)-nCore, optNames(h.opts[nCore:]), prs[0].name)
	if rec.Thorough() {
		bound += fmt.Sprintf("; plus every program of length 3 over the full alphabet and every program of length 4 over the layer/history family (%s), each x %d shapes x 2 pairings (%s, %s)",
			strings.Join(layerFamily, " "), len(h.fx.shapes), prs[0].name, prs[3].name)
	}
	rec.Rule(bound + "; plus, for eight options that rewrite layers, configs or manifests x all shapes x 2 registry pairings, every distinct GET of the fault-free run answered once with 404 (thorough: also 500, 403): Apply may fail, a reported success is judged like any other; every case is run twice on fresh identical inputs (determinism) and judged by the independent audit. " +
		"distinct_nontrivial = cases (shape, pairing, program) whose Apply succeeded AND produced a digest different from the source's AND whose target closure was audited")
	rec.Assume("olareg (in memory, behind an in-process RoundTripper) and the file system are faithful stores; Go's gzip/zstd/tar/sha2 implementations are trusted by the auditor")
	rec.Assume("mod stamps added history with its process start time (SOURCE_DATE_EPOC pinned by the check spec); both runs of a case share that instant")

	// pristine snapshots + auditor self-test
	{
		r := h.newRegistry()
		h.pristine = (&regStore{r, srcRepo}).snapshot()
		h.layoutOK = (&dirStore{filepath.Join(h.fx.dir, srcRepo)}).snapshot()
		h.selfTest(r)
		r.Close()
	}

	if rd := rec.ReplayData(); rd != nil {
		var c caseID
		if err := json.Unmarshal(rd, &c); err != nil {
			rec.HarnessError("replay: %v", err)
			return
		}
		h.verbose = true
		h.judge(c)
		return
	}

	// ---- the enumeration, as blocks of (programs x shapes x pairings) -------------------------------
	type block struct {
		name  string
		progs [][]int
		prs   []pairing
	}
	all := make([]int, nCore)
	for i := range all {
		all[i] = i
	}
	var blocks []block
	blocks = append(blocks, block{fmt.Sprintf("len0-%d/all-options", maxLen2), programs(all, 0, maxLen2), prs})
	{
		var single, pairs [][]int
		for e := nCore; e < len(h.opts); e++ {
			single = append(single, []int{e})
			if maxLen2 >= 2 {
				for c := 0; c < nCore; c++ {
					pairs = append(pairs, []int{e, c}, []int{c, e})
				}
			}
		}
		blocks = append(blocks, block{"extended/alone", single, prs})
		if len(pairs) > 0 {
			blocks = append(blocks, block{"extended/paired-with-core", pairs, prs[:1]})
		}
	}
	if (rec.Thorough() && os.Getenv("VERIF_C13_MAXLEN") == "") || maxLen3 {
		two := []pairing{prs[0], prs[3]}
		blocks = append(blocks, block{"len3/all-options", programs(all, 3, 3), two})
		var fam []int
		for _, n := range layerFamily {
			fam = append(fam, h.byName[n])
		}
		blocks = append(blocks, block{"len4/layer-history-family", programs(fam, 4, 4), two})
	}
	total := 0
	for _, b := range blocks {
		total += len(b.progs) * len(b.prs) * len(h.fx.shapes)
	}
	rec.Info("cases_in_bound", total)
	idx := 0
	for _, b := range blocks {
		for _, sh := range h.fx.shapes {
			for _, pr := range b.prs {
				for _, p := range b.progs {
					idx++
					if !rec.Mine(idx) {
						continue
					}
					if rec.Expired() {
						rec.NotExhaustive(fmt.Sprintf("wall-clock budget reached in shard %d at case %d of %d (block %s)", rec.ShardI, idx, total, b.name))
						h.vacuity()
						return
					}
					c := caseID{Shape: sh.name, Pairing: pr.name, Program: []string{}}
					for _, o := range p {
						c.Program = append(c.Program, h.opts[o].name)
					}
					h.judge(c)
					rec.Count("cases."+b.name, 1)
				}
			}
		}
	}
	// ---- one answer of the source registry replaced ------------------------------------------------
	// For the options that rewrite layers or configs: every distinct GET the fault-free run sends is,
	// in turn, answered once with 404 (and, thorough, once with 500). Apply may fail; when it reports
	// success the result is judged like any other.
	faultOpts := []string{"strip", "layer-time", "rm-idx0", "layer-add", "label", "zstd", "rebase", "to-oci"}
	faultPrs := []pairing{prs[1], prs[0]}
	codes := []string{"404"}
	if rec.Thorough() {
		codes = append(codes, "500", "403")
	}
	for _, sh := range h.fx.shapes {
		for _, pr := range faultPrs {
			for _, on := range faultOpts {
				idx++
				if !rec.Mine(idx) {
					continue
				}
				if rec.Expired() {
					rec.NotExhaustive(fmt.Sprintf("wall-clock budget reached in shard %d in the fault block", rec.ShardI))
					h.vacuity()
					return
				}
				base := caseID{Shape: sh.name, Pairing: pr.name, Program: []string{on}}
				o := h.runCase(base)
				if o.err != "" {
					continue
				}
				for _, g := range o.gets {
					for _, code := range codes {
						fc := base
						fc.Fault = code + "@" + g
						h.judge(fc)
						rec.Count("cases.fault", 1)
					}
				}
			}
		}
	}
	h.vacuity()
}

func shapeNames(ss []*shape) string {
	var n []string
	for _, s := range ss {
		n = append(n, s.name)
	}
	return strings.Join(n, " ")
}

func pairingNames(ps []pairing) string {
	var n []string
	for _, p := range ps {
		n = append(n, p.name)
	}
	return strings.Join(n, " ")
}

func optNames(os []optDef) string {
	var n []string
	for _, o := range os {
		n = append(n, o.name)
	}
	return strings.Join(n, " ")
}

var tallies = map[string]int64{}

// judge runs a case twice and records everything.
func (h *harness) judge(c caseID) {
	rec := h.rec
	tl := tallies
	if c.Fault != "" {
		tl = faultTallies // faulted cases fail often by design: kept out of the vacuity ratios
	}
	sh := h.fx.shape(c.Shape)
	o1 := h.runCase(c)
	o2 := h.runCase(c)
	rec.Eval(1)
	rec.Count("apply_runs", 2)
	tl["cases"]++
	report := func(key, msg string) {
		rec.Count("violations."+key, 1)
		if f, err := os.OpenFile(filepath.Join(rec.Scratch, "violations.jsonl"), os.O_APPEND|os.O_CREATE|os.O_WRONLY, 0o644); err == nil {
			b, _ := json.Marshal(map[string]any{"key": key, "case": c, "msg": msg})
			f.Write(append(b, '\n'))
			f.Close()
		}
		rec.Violation(key, fmt.Sprintf("case: %s\n%s", c, msg), c)
		if h.verbose {
			fmt.Printf("replay: violation %s\n  %s\n", key, msg)
		}
	}
	for k, v := range o1.counts {
		rec.Count(k, v)
	}
	seenKey := map[string]bool{}
	hasAdd := false
	for _, n := range c.Program {
		if n == "layer-add" {
			hasAdd = true
		}
	}
	for _, f := range append(append([]finding{}, o1.findings...), o2.findings...) {
		key := f.key
		// the recorded finding about an added layer that a later step leaves alone is a class of
		// programs, not of symptoms: the same symptom from a program without layer-add is another defect
		if hasAdd && (key == "diffid-mismatch layer-is-empty-blob" || key == "descriptor-without-mediatype layer") {
			key += " after-layer-add"
		}
		if !seenKey[key] {
			seenKey[key] = true
			report(key, f.msg)
		}
	}
	if h.verbose {
		fmt.Printf("case %s\n run1: err=%q root=%s src=%s written=%d findings=%d\n run2: err=%q root=%s\n", c, o1.err, o1.rootDigest, o1.srcDigest, o1.written, len(o1.findings), o2.err, o2.rootDigest)
	}
	if o1.panicked || o2.panicked {
		rec.Count("apply_panicked", 1)
		rec.Note("Apply panicked (recovered, counted as a failed program): " + errClass(o1.err+o2.err) + " e.g. " + c.String())
	}
	// determinism (errors included: the same program on the same input must fail the same way)
	rec.Count("determinism_pairs_compared", 1)
	if (o1.err == "") != (o2.err == "") {
		report("nondeterministic-outcome", fmt.Sprintf("two runs on identical fresh inputs: first err=%q, second err=%q", o1.err, o2.err))
	} else if o1.err == "" && o1.rootDigest != o2.rootDigest {
		report("nondeterministic-digest", fmt.Sprintf("two runs on identical fresh inputs gave %s and %s", o1.rootDigest, o2.rootDigest))
	}
	if c.Fault != "" {
		rec.Count("fault.cases", 1)
		if o1.faultFired {
			rec.Count("fault.cases_in_which_the_fault_was_delivered", 1)
			if o1.err == "" {
				rec.Count("fault.delivered_and_apply_succeeded", 1)
				faultTallies["ok"]++
			} else {
				rec.Count("fault.delivered_and_apply_failed", 1)
				faultTallies["err"]++
			}
		}
	}
	if o1.err != "" {
		rec.Count("apply_errors", 1)
		tl["errors"]++
		rec.Count("error_class: "+errClass(o1.err), 1)
		return
	}
	rec.Count("apply_ok", 1)
	rec.Count("manifests_written_checked_for_reachability", int64(o1.written))
	tl["ok"]++
	if !o1.rootFound {
		rec.Count("result_not_found_at_target", 1)
		return
	}
	// no-op programs reproduce the source digest
	allNoop := true
	for _, n := range c.Program {
		if !h.opts[h.byName[n]].noop(sh) {
			allNoop = false
		}
	}
	if allNoop {
		rec.Count("noop_programs_checked", 1)
		tl["noop"]++
		if o1.rootDigest != o1.srcDigest {
			report("noop-changed-digest", fmt.Sprintf("every option of the program is a tabulated no-op for shape %s, yet the result is %s, the source %s", sh.name, o1.rootDigest, o1.srcDigest))
		}
	}
	if o1.rootDigest != o1.srcDigest {
		rec.Count("digest_changed", 1)
		tl["changed"]++
		if o1.counts["manifests_audited"] > 0 {
			rec.Distinct(c.String())
		}
		if len(c.Program) >= 2 {
			rec.Sample(map[string]any{"case": c, "result": o1.rootDigest, "manifests_written": o1.written, "descriptors_checked": o1.counts["descriptors_checked"]})
		}
	} else {
		rec.Count("digest_same_as_source", 1)
	}
}

// selfTest: the auditor must accept every pristine fixture and flag every malformed one with the
// expected class – otherwise its silence on mod's output would mean nothing.
func (h *harness) selfTest(r *olareg.Server) {
	for _, st := range []rawStore{&regStore{r, srcRepo}, &dirStore{filepath.Join(h.fx.dir, srcRepo)}} {
		for _, sh := range h.fx.shapes {
			body, dig, ok := st.tag(sh.name)
			if !ok {
				h.rec.HarnessError("self-test: %s: tag %s missing", st, sh.name)
				continue
			}
			au := newAuditor(st)
			au.manifest(dig, body, "root", 0)
			if len(au.findings) > 0 {
				h.rec.HarnessError("self-test: auditor flags pristine fixture %s at %s: %v", sh.name, st, au.findings[0])
			}
			if sh.nReferrers > 0 && au.counts["referrers_checked"] != int64(sh.nReferrers) {
				h.rec.HarnessError("self-test: fixture %s at %s: %d referrers seen, want %d", sh.name, st, au.counts["referrers_checked"], sh.nReferrers)
			}
			h.rec.Count("selftest_good_accepted", 1)
		}
	}
	for _, st := range []rawStore{&regStore{r, "bad"}, &dirStore{filepath.Join(h.fx.dir, "bad")}} {
		for tag, want := range h.fx.badTags {
			body, dig, ok := st.tag(tag)
			if !ok {
				h.rec.HarnessError("self-test: %s: tag %s missing", st, tag)
				continue
			}
			au := newAuditor(st)
			au.manifest(dig, body, "root", 0)
			got := ""
			for _, f := range au.findings {
				got += f.key + "; "
				if f.key == want {
					got = want
					break
				}
			}
			if want == "" && len(au.findings) > 0 || want != "" && got != want {
				h.rec.HarnessError("self-test: malformed fixture %s at %s: want finding %q, got %q", tag, st, want, got)
			} else if want != "" {
				h.rec.Count("selftest_bad_flagged", 1)
			}
		}
	}
}

var faultTallies = map[string]int64{}

func (h *harness) vacuity() {
	n := tallies["cases"]
	if n < 20 {
		return
	}
	if tallies["ok"]*100 < n*45 {
		h.rec.HarnessError("vacuity: only %d of %d programs succeeded (need >= 45%%)", tallies["ok"], n)
	}
	if tallies["changed"]*100 < n*35 {
		h.rec.HarnessError("vacuity: only %d of %d programs changed the digest (need >= 35%%)", tallies["changed"], n)
	}
	if tallies["noop"] == 0 {
		h.rec.HarnessError("vacuity: no all-no-op program was checked in this shard")
	}
}
