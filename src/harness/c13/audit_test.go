package hc13

// Independent well-formedness audit for C13. It uses encoding/json, crypto/sha256|sha512,
// archive/tar, compress/gzip and klauspost zstd only – no regclient type, parser or digest helper –
// and reads the target through raw storage: files of an OCI layout, or plain HTTP requests served
// by the registry handler itself (not through regclient).

import (
	"archive/tar"
	"bytes"
	"compress/gzip"
	"crypto/sha256"
	"crypto/sha512"
	"encoding/base64"
	"encoding/hex"
	"encoding/json"
	"fmt"
	"io"
	"net/http"
	"net/http/httptest"
	"os"
	"path/filepath"
	"sort"
	"strings"

	"github.com/klauspost/compress/zstd"
)

// ---- raw stores --------------------------------------------------------------------------------

type rawStore interface {
	// tag resolves a tag to the manifest body stored under it and the digest the store names it by.
	tag(name string) (body []byte, digest string, ok bool)
	manifest(digest string) ([]byte, bool)
	blob(digest string) ([]byte, bool)
	// referrers lists the descriptors the store reports as referrers of digest.
	referrers(digest string) []aDesc
	// snapshot is a canonical description of tags and content (for "source untouched").
	snapshot() map[string]string
	String() string
}

// regStore talks to the registry handler directly.
type regStore struct {
	h    http.Handler
	repo string
}

func (s *regStore) String() string { return "registry:" + s.repo }

func (s *regStore) get(path, accept string) (int, http.Header, []byte) {
	req := httptest.NewRequest(http.MethodGet, "http://"+regHost+path, nil)
	if accept != "" {
		req.Header.Set("Accept", accept)
	}
	rec := httptest.NewRecorder()
	s.h.ServeHTTP(rec, req)
	return rec.Code, rec.Header(), rec.Body.Bytes()
}

const acceptAll = mtOCIManifest + ", " + mtOCIIndex + ", " + mtDockerMan + ", " + mtDockerList

func (s *regStore) tag(name string) ([]byte, string, bool) {
	code, hd, body := s.get("/v2/"+s.repo+"/manifests/"+name, acceptAll)
	if code != 200 {
		return nil, "", false
	}
	return body, hd.Get("Docker-Content-Digest"), true
}

func (s *regStore) manifest(digest string) ([]byte, bool) {
	code, _, body := s.get("/v2/"+s.repo+"/manifests/"+digest, acceptAll)
	return body, code == 200
}

func (s *regStore) blob(digest string) ([]byte, bool) {
	code, _, body := s.get("/v2/"+s.repo+"/blobs/"+digest, "")
	return body, code == 200
}

func (s *regStore) referrers(digest string) []aDesc {
	code, _, body := s.get("/v2/"+s.repo+"/referrers/"+digest, "")
	if code != 200 {
		return nil
	}
	var idx aManifest
	if json.Unmarshal(body, &idx) != nil {
		return nil
	}
	return idx.Manifests
}

func (s *regStore) tags() []string {
	code, _, body := s.get("/v2/"+s.repo+"/tags/list", "")
	if code != 200 {
		return nil
	}
	var tl struct {
		Tags []string `json:"tags"`
	}
	json.Unmarshal(body, &tl)
	sort.Strings(tl.Tags)
	return tl.Tags
}

func (s *regStore) snapshot() map[string]string { return s.snapshotExcept("") }

// snapshotExcept describes everything reachable from every tag but skip.
func (s *regStore) snapshotExcept(skip string) map[string]string {
	snap := map[string]string{}
	for _, t := range s.tags() {
		if t == skip {
			continue
		}
		body, dig, ok := s.tag(t)
		if !ok {
			continue
		}
		snap["tag:"+t] = dig + "/" + hashBytes("sha256", body)
		s.snapClosure(snap, dig, body, 0)
	}
	return snap
}

func (s *regStore) snapClosure(snap map[string]string, dig string, body []byte, depth int) {
	if _, seen := snap["m:"+dig]; seen || depth > 6 {
		return
	}
	snap["m:"+dig] = hashBytes("sha256", body)
	var m aManifest
	if json.Unmarshal(body, &m) != nil {
		return
	}
	for _, c := range m.Manifests {
		if b, ok := s.manifest(c.Digest); ok {
			s.snapClosure(snap, c.Digest, b, depth+1)
		}
	}
	if m.Config != nil {
		if b, ok := s.blob(m.Config.Digest); ok {
			snap["b:"+m.Config.Digest] = hashBytes("sha256", b)
		}
	}
	for _, l := range m.Layers {
		if b, ok := s.blob(l.Digest); ok {
			snap["b:"+l.Digest] = hashBytes("sha256", b)
		}
	}
	var rl []string
	for _, r := range s.referrers(dig) {
		rl = append(rl, r.Digest)
		if b, ok := s.manifest(r.Digest); ok {
			s.snapClosure(snap, r.Digest, b, depth+1)
		}
	}
	sort.Strings(rl)
	snap["r:"+dig] = strings.Join(rl, ",")
}

// dirStore reads an OCI layout directory.
type dirStore struct{ dir string }

func (s *dirStore) String() string { return "layout:" + filepath.Base(s.dir) }

func (s *dirStore) index() []aDesc {
	b, err := os.ReadFile(filepath.Join(s.dir, "index.json"))
	if err != nil {
		return nil
	}
	var idx aManifest
	if json.Unmarshal(b, &idx) != nil {
		return nil
	}
	return idx.Manifests
}

func (s *dirStore) tag(name string) ([]byte, string, bool) {
	for _, d := range s.index() {
		if d.Annotations[annoRefName] == name {
			b, ok := s.blob(d.Digest)
			return b, d.Digest, ok
		}
	}
	return nil, "", false
}

func (s *dirStore) blob(digest string) ([]byte, bool) {
	alg, enc, ok := strings.Cut(digest, ":")
	if !ok || strings.ContainsAny(enc, "/.") || strings.ContainsAny(alg, "/.") {
		return nil, false
	}
	b, err := os.ReadFile(filepath.Join(s.dir, "blobs", alg, enc))
	return b, err == nil
}

func (s *dirStore) manifest(digest string) ([]byte, bool) { return s.blob(digest) }

func (s *dirStore) referrers(digest string) []aDesc {
	alg, enc, _ := strings.Cut(digest, ":")
	// referrers tag schema of the distribution spec: <alg (at most 32 chars)>-<encoded (at most 64 chars)>
	fallback := alg[:min(32, len(alg))] + "-" + enc[:min(64, len(enc))]
	body, _, ok := s.tag(fallback)
	if !ok {
		return nil
	}
	var idx aManifest
	if json.Unmarshal(body, &idx) != nil {
		return nil
	}
	return idx.Manifests
}

func (s *dirStore) snapshot() map[string]string {
	snap := map[string]string{}
	for _, d := range s.index() {
		if n := d.Annotations[annoRefName]; n != "" {
			snap["tag:"+n] = d.Digest
		} else {
			snap["untagged:"+d.Digest] = "1"
		}
	}
	filepath.Walk(filepath.Join(s.dir, "blobs"), func(p string, fi os.FileInfo, err error) error {
		if err != nil || fi.IsDir() {
			return nil
		}
		rel, _ := filepath.Rel(s.dir, p)
		b, _ := os.ReadFile(p)
		snap["f:"+rel] = hashBytes("sha256", b)
		return nil
	})
	return snap
}

// blobFiles lists digest → true for every file under blobs/.
func (s *dirStore) blobFiles() map[string]bool {
	out := map[string]bool{}
	algs, _ := os.ReadDir(filepath.Join(s.dir, "blobs"))
	for _, a := range algs {
		fs, _ := os.ReadDir(filepath.Join(s.dir, "blobs", a.Name()))
		for _, f := range fs {
			out[a.Name()+":"+f.Name()] = true
		}
	}
	return out
}

// ---- JSON shapes (the auditor's own) -------------------------------------------------------------

type aDesc struct {
	MediaType    string            `json:"mediaType"`
	Digest       string            `json:"digest"`
	Size         int64             `json:"size"`
	URLs         []string          `json:"urls"`
	Data         *string           `json:"data"`
	Annotations  map[string]string `json:"annotations"`
	ArtifactType string            `json:"artifactType"`
}

type aManifest struct {
	SchemaVersion int               `json:"schemaVersion"`
	MediaType     string            `json:"mediaType"`
	ArtifactType  string            `json:"artifactType"`
	Config        *aDesc            `json:"config"`
	Layers        []aDesc           `json:"layers"`
	Manifests     []aDesc           `json:"manifests"`
	Subject       *aDesc            `json:"subject"`
	Annotations   map[string]string `json:"annotations"`
}

type aConfig struct {
	Architecture string `json:"architecture"`
	OS           string `json:"os"`
	Config       struct {
		Env    []string          `json:"Env"`
		Labels map[string]string `json:"Labels"`
	} `json:"config"`
	RootFS struct {
		Type    string   `json:"type"`
		DiffIDs []string `json:"diff_ids"`
	} `json:"rootfs"`
	History []struct {
		CreatedBy  string `json:"created_by"`
		Comment    string `json:"comment"`
		EmptyLayer bool   `json:"empty_layer"`
	} `json:"history"`
}

func hashBytes(alg string, b []byte) string {
	switch alg {
	case "sha256":
		h := sha256.Sum256(b)
		return hex.EncodeToString(h[:])
	case "sha512":
		h := sha512.Sum512(b)
		return hex.EncodeToString(h[:])
	}
	return ""
}

func digestOf(alg string, b []byte) string { return alg + ":" + hashBytes(alg, b) }

func isIndexMT(mt string) bool { return mt == mtOCIIndex || mt == mtDockerList }
func isImageConfigMT(mt string) bool {
	return mt == mtOCIConfig || mt == mtDockerConfig
}

// layerCompression maps a layer media type to the compression it promises ("" = not a tar layer).
func layerCompression(mt string) string {
	switch mt {
	case mtOCILayer, mtDockerLayer, mtOCIForeign:
		return "none"
	case mtOCILayerGzip, mtDockerLayerGz, mtOCIForeignGz, mtDockerForeign:
		return "gzip"
	case mtOCILayerZstd, mtDockerLayerZs, mtOCIForeignZs:
		return "zstd"
	}
	return ""
}

var zstdDec, _ = zstd.NewReader(nil)

func decompress(kind string, b []byte) ([]byte, error) {
	switch kind {
	case "gzip":
		r, err := gzip.NewReader(bytes.NewReader(b))
		if err != nil {
			return nil, err
		}
		return io.ReadAll(r)
	case "zstd":
		return zstdDec.DecodeAll(b, nil)
	case "none":
		// an uncompressed tar must not start with a compression magic
		if bytes.HasPrefix(b, []byte{0x1f, 0x8b}) || bytes.HasPrefix(b, []byte{0x28, 0xb5, 0x2f, 0xfd}) {
			return nil, fmt.Errorf("content starts with a compression magic")
		}
		return b, nil
	}
	return b, nil
}

func sniff(b []byte) string {
	switch {
	case bytes.HasPrefix(b, []byte{0x1f, 0x8b}):
		return "gzip"
	case bytes.HasPrefix(b, []byte{0x28, 0xb5, 0x2f, 0xfd}):
		return "zstd"
	}
	return "none"
}

// layerIdentity returns the X of the first tar entry whose base name is id-X ("" if none / not a tar).
func layerIdentity(tarBytes []byte) string {
	tr := tar.NewReader(bytes.NewReader(tarBytes))
	for {
		h, err := tr.Next()
		if err != nil {
			return ""
		}
		base := h.Name
		if i := strings.LastIndex(base, "/"); i >= 0 {
			base = base[i+1:]
		}
		if strings.HasPrefix(base, "id-") {
			return base[3:]
		}
	}
}

// ---- the audit -------------------------------------------------------------------------------

type finding struct {
	key string // stable class: clause + location
	msg string
}

type auditor struct {
	st       rawStore
	findings []finding
	seen     map[string]bool // manifests audited (digest)
	reach    map[string]bool // every manifest digest reached (closure + referrers)
	counts   map[string]int64
	configs  []aConfig
	foreign  map[string]bool // digests that are external (urls) layers in the fixtures
}

func newAuditor(st rawStore) *auditor {
	return &auditor{st: st, seen: map[string]bool{}, reach: map[string]bool{}, counts: map[string]int64{}}
}

func (a *auditor) fail(key, format string, args ...any) {
	a.findings = append(a.findings, finding{key, fmt.Sprintf(format, args...)})
}

// checkDesc verifies one descriptor against content at the target. loc names the position class
// (index-child, config, layer, subject, referrer). It returns the content when present.
func (a *auditor) checkDesc(d aDesc, loc string, manifest bool, where string) ([]byte, bool) {
	a.counts["descriptors_checked"]++
	alg, enc, ok := strings.Cut(d.Digest, ":")
	if !ok || (alg != "sha256" && alg != "sha512") || len(enc) != map[string]int{"sha256": 64, "sha512": 128}[alg] {
		a.fail("bad-digest "+loc, "%s: %s descriptor has malformed digest %q", where, loc, d.Digest)
		return nil, false
	}
	var body []byte
	var found bool
	if manifest {
		body, found = a.st.manifest(d.Digest)
	} else {
		body, found = a.st.blob(d.Digest)
	}
	if !found {
		if len(d.URLs) > 0 {
			a.counts["foreign_not_at_target"]++
			if d.Data != nil {
				a.fail("inline-data-unverifiable "+loc, "%s: %s %s has data but no content at the target", where, loc, d.Digest)
			}
			return nil, false
		}
		key := "missing " + loc
		if alg != "sha256" {
			// diagnosis (one defect, one key): every fixture is sha256, so this digest was computed by mod
			// during this Apply - over a stream that is not the blob it pushed
			key += " rehashed-digest-of-unpushed-stream"
		}
		if a.foreign[d.Digest] {
			// one defect, one key: the descriptor of a (formerly) external layer lost its urls but the
			// blob was not brought to the target
			key += " url-stripped-external"
		}
		a.fail(key, "%s: %s %s (mediaType %q, urls %v) is not present at %s", where, loc, d.Digest, d.MediaType, d.URLs, a.st)
		return nil, false
	}
	if got := hashBytes(alg, body); got != enc {
		a.fail("digest-mismatch "+loc, "%s: %s %s: content at the target hashes to %s:%s", where, loc, d.Digest, alg, got)
	}
	if d.Size != int64(len(body)) {
		a.fail("size-mismatch "+loc, "%s: %s %s: descriptor size %d, content size %d", where, loc, d.Digest, d.Size, len(body))
	}
	if d.Data != nil {
		a.counts["inline_data_checked"]++
		raw, err := base64.StdEncoding.DecodeString(*d.Data)
		if err != nil {
			a.fail("inline-data-mismatch "+loc, "%s: %s %s: data is not base64: %v", where, loc, d.Digest, err)
		} else if !bytes.Equal(raw, body) {
			a.fail("inline-data-mismatch "+loc, "%s: %s %s: inline data (%d bytes, %s) differs from the content (%d bytes); data starts %.80q, content starts %.80q",
				where, loc, d.Digest, len(raw), digestOf(alg, raw), len(body), raw, body)
		}
	}
	return body, true
}

// manifest audits the manifest stored as digest (body already fetched) and everything below it.
func (a *auditor) manifest(digest string, body []byte, where string, depth int) {
	a.reach[digest] = true
	if a.seen[digest] || depth > 6 {
		return
	}
	a.seen[digest] = true
	a.counts["manifests_audited"]++
	var m aManifest
	if err := json.Unmarshal(body, &m); err != nil {
		a.fail("manifest-unparsable", "%s: manifest %s is not JSON: %v", where, digest, err)
		return
	}
	where = where + ">" + short(digest)
	if isIndexMT(m.MediaType) || (m.Manifests != nil && m.Config == nil) {
		for i, c := range m.Manifests {
			w := fmt.Sprintf("%s.manifests[%d]", where, i)
			cb, ok := a.checkDesc(c, "index-child", true, w)
			if !ok {
				continue
			}
			a.counts["index_children_checked"]++
			var cm aManifest
			if json.Unmarshal(cb, &cm) == nil && cm.MediaType != "" && c.MediaType != cm.MediaType {
				a.fail("mediatype-mismatch index-child", "%s: entry says %q, the child %s declares %q", w, c.MediaType, c.Digest, cm.MediaType)
			}
			a.manifest(c.Digest, cb, where, depth+1)
		}
	} else {
		a.image(m, where)
	}
	if m.Subject != nil {
		a.counts["subjects_checked"]++
		a.checkDesc(*m.Subject, "subject", true, where+".subject")
	}
	// referrers the target reports for this manifest
	for i, r := range a.st.referrers(digest) {
		w := fmt.Sprintf("%s.referrers[%d]", where, i)
		rb, ok := a.checkDesc(r, "referrer", true, w)
		if !ok {
			continue
		}
		a.counts["referrers_checked"]++
		var rm aManifest
		if json.Unmarshal(rb, &rm) == nil {
			if rm.Subject == nil || rm.Subject.Digest != digest {
				a.fail("referrer-subject-mismatch", "%s: listed as referrer of %s but its subject is %v", w, digest, rm.Subject)
			}
		}
		a.manifest(r.Digest, rb, where+"~ref", depth+1)
	}
}

func (a *auditor) image(m aManifest, where string) {
	var cfg *aConfig
	if m.Config != nil {
		cb, ok := a.checkDesc(*m.Config, "config", false, where+".config")
		if ok && isImageConfigMT(m.Config.MediaType) {
			var c aConfig
			if err := json.Unmarshal(cb, &c); err != nil {
				a.fail("config-unparsable", "%s: config %s is not JSON: %v", where, m.Config.Digest, err)
			} else {
				cfg = &c
				a.configs = append(a.configs, c)
			}
		}
	}
	type lay struct {
		ok    bool
		uc    []byte
		ident string
		tarMT bool
	}
	lays := make([]lay, len(m.Layers))
	for i, l := range m.Layers {
		w := fmt.Sprintf("%s.layers[%d]", where, i)
		lb, ok := a.checkDesc(l, "layer", false, w)
		if !ok {
			continue
		}
		kind := layerCompression(l.MediaType)
		if l.MediaType == "" {
			// nothing declares how to decode this layer; report that once and judge the diff-id clause
			// on the form the bytes are actually in
			a.fail("descriptor-without-mediatype layer", "%s: layer descriptor %s has no mediaType (content starts % x)", w, l.Digest, lb[:min(4, len(lb))])
			kind = sniff(lb)
		}
		uc, err := decompress(kind, lb)
		if err != nil {
			a.fail("layer-compression-mismatch", "%s: layer %s has mediaType %q but its content does not decode as %s: %v", w, l.Digest, l.MediaType, kind, err)
			continue
		}
		lays[i] = lay{ok: true, uc: uc, tarMT: kind != ""}
		if kind != "" {
			lays[i].ident = layerIdentity(uc)
		}
	}
	if cfg == nil {
		return
	}
	a.counts["configs_audited"]++
	// diff-ids
	if len(cfg.RootFS.DiffIDs) != len(m.Layers) {
		a.fail("diffid-count-mismatch", "%s: %d layers but %d diff_ids", where, len(m.Layers), len(cfg.RootFS.DiffIDs))
	}
	for i := range m.Layers {
		if i >= len(cfg.RootFS.DiffIDs) || !lays[i].ok {
			continue
		}
		want := cfg.RootFS.DiffIDs[i]
		alg, _, _ := strings.Cut(want, ":")
		got := digestOf(alg, lays[i].uc)
		a.counts["diffids_checked"]++
		if got != want {
			hint := ""
			if want == m.Layers[i].Digest {
				hint = " (it is the digest of the compressed blob)"
			}
			for j := range lays {
				if j != i && lays[j].ok && digestOf(alg, lays[j].uc) == want {
					hint = fmt.Sprintf(" (it is the diff-id of layer %d)", j)
				}
			}
			key := "diffid-mismatch"
			if len(lays[i].uc) == 0 {
				key += " layer-is-empty-blob"
			} else if want == m.Layers[i].Digest && layerCompression(m.Layers[i].MediaType) != "none" {
				key += " compressed-digest"
			}
			a.fail(key, "%s: rootfs.diff_ids[%d]=%s but layer %s (%d bytes, mediaType %q) decompresses to %s%s", where, i, want, m.Layers[i].Digest, len(lays[i].uc), m.Layers[i].MediaType, got, hint)
		}
	}
	// history
	if len(cfg.History) > 0 {
		var ne []int
		for i, h := range cfg.History {
			if !h.EmptyLayer {
				ne = append(ne, i)
			}
		}
		a.counts["histories_checked"]++
		if len(ne) != len(m.Layers) {
			a.fail("history-count-mismatch", "%s: %d layers but %d non-empty history entries", where, len(m.Layers), len(ne))
		} else {
			for i := range m.Layers {
				if !lays[i].ok || lays[i].ident == "" {
					continue
				}
				h := cfg.History[ne[i]]
				okH := h.CreatedBy == "layer "+lays[i].ident
				if lays[i].ident == "added" {
					okH = h.Comment == "regclient" && h.CreatedBy == ""
				}
				a.counts["history_entries_aligned"]++
				if !okH {
					a.fail("history-misaligned", "%s: layer %d is layer %q but its history entry (#%d) says created_by=%q comment=%q", where, i, lays[i].ident, ne[i], h.CreatedBy, h.Comment)
				}
			}
		}
	}
}

func short(d string) string {
	if i := strings.Index(d, ":"); i >= 0 && len(d) > i+9 {
		return d[i+1 : i+9]
	}
	return d
}
