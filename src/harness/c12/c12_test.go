package reghttp

// C12 (seam i) — bounded retries, back-off, recovery and mirror routing at the Client.Do seam,
// where one Do (plus reading its body) is exactly one logical request.

import (
	"bytes"
	"context"
	"encoding/json"
	"errors"
	"fmt"
	"io"
	"net/http"
	"sort"
	"strconv"
	"strings"
	"testing"
	"time"

	"github.com/regclient/regclient/config"
	"github.com/regclient/regclient/internal/verif/ev"
	"github.com/regclient/regclient/internal/verif/explore"
	"github.com/regclient/regclient/internal/verif/qsched"
)

type c12Mirror struct {
	Prio  uint   `json:"prio"`
	State string `json:"state"` // has, lacks, fails
}

type c12Cfg struct {
	Limit   int         `json:"limit"`
	DelayMs int         `json:"delay_ms"`
	MaxMs   int         `json:"max_ms"`
	UpPrio  uint        `json:"up_prio"`
	UpState string      `json:"up_state"`
	Mirrors []c12Mirror `json:"mirrors"`
	Method  string      `json:"method"`
	Expect  bool        `json:"expect_len"` // caller states the expected length (as blob GET does)
	Ops     int         `json:"ops"`        // number of consecutive logical requests through one client
	// GapMs: virtual idle time between consecutive logical requests. Prime: a fault scripted for
	// the very first round trip (outside the explorer's budget), so that the host carries a
	// failure history when the explored faults arrive after the gap.
	GapMs int    `json:"gap_ms,omitempty"`
	Prime string `json:"prime,omitempty"`
	// Overlap: a response of the same host, opened before the first logical request, is still open
	// while that request meets its faults and is finished ("drain": read to the end, "close": closed
	// unread) before the next logical request starts. The explored answers then include "the host
	// asks for a pause and the caller gives up" (429ra-giveup): the pause must outlive both.
	Overlap string `json:"overlap,omitempty"`
}

func (c c12Cfg) String() string {
	var ms []string
	for _, m := range c.Mirrors {
		ms = append(ms, fmt.Sprintf("%d:%s", m.Prio, m.State))
	}
	return fmt.Sprintf("limit=%d delay=%dms/%dms up=%d:%s mirrors=[%s] %s expect=%v ops=%d gap=%dms prime=%q", c.Limit, c.DelayMs, c.MaxMs, c.UpPrio, c.UpState, strings.Join(ms, ","), c.Method, c.Expect, c.Ops, c.GapMs, c.Prime) + map[bool]string{true: " overlap=" + c.Overlap}[c.Overlap != ""]
}

var c12Body = []byte("0123456789")

var c12Faults = []string{"500", "502", "503", "504", "408", "429", "429ra", "reset", "trunc1", "trunc9", "404", "416", "401"}

func c12Transient(f string) bool {
	switch f {
	case "500", "502", "504", "408", "429", "429ra", "reset", "trunc1", "trunc9":
		return true
	}
	return false
}

// answers after which the client must back off from the host
func c12BackoffClass(f string) bool {
	switch f {
	case "500", "502", "503", "504", "408", "429", "429ra", "429ra-giveup", "reset", "trunc1", "trunc9", "fails":
		return true
	}
	return false
}

type c12Req struct {
	At     time.Duration
	Host   string
	Method string
	Range  string
	Answer string
	Op     int
}

type c12Trunc struct {
	b   []byte
	pos int
}

func (h *c12Trunc) Read(p []byte) (int, error) {
	if h.pos >= len(h.b) {
		return 0, io.ErrUnexpectedEOF
	}
	n := copy(p, h.b[h.pos:])
	h.pos += n
	return n, nil
}
func (h *c12Trunc) Close() error { return nil }

type c12RT struct {
	cfg    c12Cfg
	c      *explore.Ctx
	start  time.Time
	log    []c12Req
	op     int
	const_ string // constant adversary: the same fault at every request
	faults []string
	primed bool
	// overlap configurations: requests of the pre-opened response are not explored; giveUp cancels
	// the context of the logical request in progress
	quiet  bool
	giveUp func()
}

func (rt *c12RT) state(host string) string {
	if host == "up.example" {
		return rt.cfg.UpState
	}
	var i int
	fmt.Sscanf(host, "m%d.example", &i)
	return rt.cfg.Mirrors[i].State
}

func (rt *c12RT) RoundTrip(req *http.Request) (*http.Response, error) {
	if req.Body != nil {
		io.Copy(io.Discard, req.Body)
		req.Body.Close()
	}
	e := c12Req{At: time.Since(rt.start), Host: req.URL.Host, Method: req.Method, Range: req.Header.Get("Range"), Op: rt.op}
	if len(rt.log) > 200 {
		return nil, errors.New("harness: request horizon")
	}
	mk := func(code int, hdr http.Header, body []byte) (*http.Response, error) {
		if hdr == nil {
			hdr = http.Header{}
		}
		r := &http.Response{StatusCode: code, Status: strconv.Itoa(code), Header: hdr, Request: req, Proto: "HTTP/1.1", ProtoMajor: 1, ProtoMinor: 1}
		if req.Method == "HEAD" {
			r.Body = http.NoBody
		} else {
			r.Body = io.NopCloser(bytes.NewReader(body))
		}
		return r, nil
	}
	f := ""
	if rt.quiet {
		// the response that stays open: conforming answer, not part of the explored sequence
	} else if rt.cfg.Prime != "" && len(rt.log) == 0 {
		f = rt.cfg.Prime
		rt.primed = true
	} else if rt.const_ != "" {
		f = rt.const_
	} else {
		fl := c12Faults
		if rt.cfg.Overlap != "" {
			fl = append(append([]string{}, c12Faults...), "429ra-giveup")
		}
		ch := rt.c.Choose("net", 1+len(fl), nil)
		if ch > 0 {
			f = fl[ch-1]
			rt.faults = append(rt.faults, f)
		}
	}
	// what the host would serve
	body := c12Body
	code := 200
	hdr := http.Header{}
	switch rt.state(req.URL.Host) {
	case "lacks":
		code, body = 404, []byte("{}")
	case "fails":
		code, body = 500, []byte("{}")
		if f == "" {
			e.Answer = "fails"
		}
	}
	if code == 200 {
		hdr.Set("Content-Length", strconv.Itoa(len(body)))
		if rg := req.Header.Get("Range"); strings.HasPrefix(rg, "bytes=") {
			var a, b int
			if n, _ := fmt.Sscanf(rg, "bytes=%d-%d", &a, &b); n >= 1 && a >= 0 && a < len(body) {
				code = 206
				hdr.Set("Content-Range", fmt.Sprintf("bytes %d-%d/%d", a, len(body)-1, len(body)))
				body = body[a:]
				hdr.Set("Content-Length", strconv.Itoa(len(body)))
			}
		}
	}
	if f == "" {
		if e.Answer == "" {
			e.Answer = strconv.Itoa(code)
		}
		rt.log = append(rt.log, e)
		return mk(code, hdr, body)
	}
	e.Answer = f
	rt.log = append(rt.log, e)
	switch f {
	case "500", "502", "503", "504", "408", "429", "404", "416":
		c, _ := strconv.Atoi(f)
		return mk(c, nil, []byte("{}"))
	case "429ra":
		return mk(429, http.Header{"Retry-After": {"2"}}, []byte("{}"))
	case "429ra-giveup":
		if rt.giveUp != nil {
			rt.giveUp()
		}
		return mk(429, http.Header{"Retry-After": {"2"}}, []byte("{}"))
	case "401":
		return mk(401, http.Header{"Www-Authenticate": {`Basic realm="x"`}}, []byte("{}"))
	case "reset":
		return nil, errors.New("read tcp: connection reset by peer")
	case "trunc1", "trunc9":
		if code != 200 && code != 206 || req.Method == "HEAD" {
			return nil, io.ErrUnexpectedEOF
		}
		k := 1
		if f == "trunc9" {
			k = len(body) - 1
		}
		if k >= len(body) || k < 1 {
			return nil, io.ErrUnexpectedEOF
		}
		r, _ := mk(code, hdr, nil)
		r.Body = &c12Trunc{b: body[:k]}
		return r, nil
	}
	return nil, errors.New("unknown fault")
}

type c12Result struct {
	errs   []error
	bodies [][]byte
	log    []c12Req
	faults []string
}

func c12Run(t *testing.T, c *explore.Ctx, cfg c12Cfg, constant string) *c12Result {
	res := &c12Result{}
	_, other := qsched.Bubble(t, func() {
		rt := &c12RT{cfg: cfg, c: c, start: time.Now(), const_: constant}
		hosts := map[string]*config.Host{}
		up := &config.Host{Name: "up.example", Hostname: "up.example", TLS: config.TLSDisabled, Priority: cfg.UpPrio}
		for i, m := range cfg.Mirrors {
			n := fmt.Sprintf("m%d.example", i)
			hosts[n] = &config.Host{Name: n, Hostname: n, TLS: config.TLSDisabled, Priority: m.Prio}
			up.Mirrors = append(up.Mirrors, n)
		}
		hosts[up.Name] = up
		cl := NewClient(
			WithConfigHostFn(func(n string) *config.Host {
				if h, ok := hosts[n]; ok {
					return h
				}
				return config.HostNewName(n)
			}),
			WithHTTPClient(&http.Client{Transport: rt}),
			WithRetryLimit(cfg.Limit),
			WithDelay(time.Duration(cfg.DelayMs)*time.Millisecond, time.Duration(cfg.MaxMs)*time.Millisecond),
		)
		var held *Resp
		if cfg.Overlap != "" {
			rt.quiet, rt.op = true, -1
			h, err := cl.Do(context.Background(), &Req{Host: "up.example", Method: "GET", Repository: "proj", Path: "blobs/held"})
			rt.quiet = false
			if err != nil {
				res.errs = append(res.errs, fmt.Errorf("PANIC: harness: the held response could not be opened: %v", err))
				return
			}
			held = h
		}
		for op := 0; op < cfg.Ops; op++ {
			if op > 0 && cfg.GapMs > 0 {
				time.Sleep(time.Duration(cfg.GapMs) * time.Millisecond)
			}
			if op == 1 && held != nil {
				// the response opened first finishes now, successfully
				if cfg.Overlap == "drain" {
					io.Copy(io.Discard, held)
				}
				_ = held.Close()
			}
			rt.op = op
			req := &Req{Host: "up.example", Method: cfg.Method, Repository: "proj", Path: "blobs/x"}
			if cfg.Expect {
				req.ExpectLen = int64(len(c12Body))
			}
			octx, ocancel := context.WithCancel(context.Background())
			rt.giveUp = ocancel
			resp, err := cl.Do(octx, req)
			var body []byte
			if err == nil {
				body, err = io.ReadAll(resp)
				_ = resp.Close()
			}
			ocancel()
			res.errs = append(res.errs, err)
			res.bodies = append(res.bodies, body)
		}
		res.log = rt.log
		res.faults = rt.faults
	})
	if other != nil {
		res.errs = append(res.errs, fmt.Errorf("PANIC: %v", other))
	}
	return res
}

// expected order of first visits: descending priority, the named registry last among equals
func c12Expected(cfg c12Cfg) []string {
	type h struct {
		n  string
		p  uint
		up bool
	}
	hs := []h{{"up.example", cfg.UpPrio, true}}
	for i, m := range cfg.Mirrors {
		hs = append(hs, h{fmt.Sprintf("m%d.example", i), m.Prio, false})
	}
	sort.SliceStable(hs, func(i, j int) bool {
		if hs[i].p != hs[j].p {
			return hs[i].p > hs[j].p
		}
		return !hs[i].up && hs[j].up
	})
	var out []string
	for _, x := range hs {
		out = append(out, x.n)
	}
	return out
}

func c12Judge(cfg c12Cfg, r *c12Result, constant string) (string, string) {
	for _, e := range r.errs {
		if e != nil && strings.HasPrefix(e.Error(), "PANIC") {
			return "panic", e.Error()
		}
	}
	if len(r.log) > 200 {
		return "no-termination", fmt.Sprintf("more than 200 round trips for %d logical requests", cfg.Ops)
	}
	// attempts per logical request
	per := map[int]int{}
	for _, e := range r.log {
		per[e.Op]++
	}
	for op, n := range per {
		if n > cfg.Limit+1 {
			return "attempt-bound", fmt.Sprintf("logical request %d was attempted %d times, retry limit is %d: %s", op, n, cfg.Limit, c12LogStr(r.log))
		}
	}
	// back-off
	delay := time.Duration(cfg.DelayMs) * time.Millisecond
	for i, e := range r.log {
		if !c12BackoffClass(e.Answer) {
			continue
		}
		want := delay
		if e.Answer == "429ra" || e.Answer == "429ra-giveup" {
			want = 2 * time.Second
		}
		for _, n := range r.log[i+1:] {
			if n.Host != e.Host {
				continue
			}
			if n.At-e.At < want {
				return "backoff-too-short", fmt.Sprintf("host %s answered %s at %v and was asked again at %v (< %v later): %s", e.Host, e.Answer, e.At, n.At, want, c12LogStr(r.log))
			}
			break
		}
	}
	// recovery: transient faults fewer than the limit, fresh client, one logical request
	anyHas := cfg.UpState == "has"
	for _, m := range cfg.Mirrors {
		if m.State == "has" {
			anyHas = true
		}
	}
	if constant == "" && cfg.Ops == 1 && cfg.Prime == "" && anyHas && noFailing(cfg) {
		all := true
		is503 := false
		for _, f := range r.faults {
			if f == "503" {
				is503 = true
			} else if !c12Transient(f) {
				all = false
			}
		}
		if all && len(r.faults) < cfg.Limit {
			ok := r.errs[0] == nil && (cfg.Method == "HEAD" || bytes.Equal(r.bodies[0], c12Body))
			if !ok {
				k := "recovery"
				if is503 {
					k = "recovery-503"
				} else if r.errs[0] != nil && strings.Contains(r.errs[0].Error(), "retry limit") {
					// the attempts of one logical request are counted together whichever host they went to:
					// visits to hosts that merely LACK the content (404, not a fault) use up the same budget
					lacking := 0
					for _, q := range r.log {
						if q.Answer == "404" {
							lacking++
						}
					}
					if lacking > 0 && len(r.faults)+lacking > cfg.Limit {
						k = "recovery-budget-shared-with-hosts-lacking-the-content"
					}
				}
				return k, fmt.Sprintf("%d transient fault(s) %v with retry limit %d were not absorbed: err=%v body=%q: %s", len(r.faults), r.faults, cfg.Limit, r.errs[0], r.bodies[0], c12LogStr(r.log))
			}
		}
	}
	// never a clean read of wrong content
	for i, b := range r.bodies {
		if r.errs[i] == nil && cfg.Method == "GET" && cfg.Expect && !bytes.Equal(b, c12Body) {
			return "wrong-content", fmt.Sprintf("read completed without error but returned %q: %s", b, c12LogStr(r.log))
		}
	}
	// routing of reads
	prio := func(h string) uint {
		if h == "up.example" {
			return cfg.UpPrio
		}
		var i int
		fmt.Sscanf(h, "m%d.example", &i)
		return cfg.Mirrors[i].Prio
	}
	firstVisits := func(op int) []string {
		var seen []string
		for _, e := range r.log {
			if e.Op != op {
				continue
			}
			dup := false
			for _, s := range seen {
				if s == e.Host {
					dup = true
				}
			}
			if !dup {
				seen = append(seen, e.Host)
			}
		}
		return seen
	}
	if constant == "" && len(cfg.Mirrors) > 0 {
		if len(r.faults) == 0 {
			// (a) descending priority, (b) the named registry last among equals
			seen := firstVisits(0)
			for i := 0; i+1 < len(seen); i++ {
				a, b := seen[i], seen[i+1]
				if prio(a) < prio(b) {
					// the recorded finding is "lowest priority first" (the comparison is the wrong way
					// round, pinned by the repository's own test); any other wrong order is something else
					key := "routing-priority-order ascending"
					for j := 0; j+1 < len(seen); j++ {
						if prio(seen[j]) > prio(seen[j+1]) {
							key = "routing-priority-order"
						}
					}
					return key, fmt.Sprintf("hosts were tried in order %v: %s (priority %d) before %s (priority %d); documented order is highest priority first: %v", seen, a, prio(a), b, prio(b), c12Expected(cfg))
				}
				if prio(a) == prio(b) && a == "up.example" {
					return "routing-upstream-not-last", fmt.Sprintf("the named registry was tried before mirror %s of equal priority: %v", b, seen)
				}
			}
			// a read that some host can serve must be served
			if anyHas && (r.errs[0] != nil) {
				return "routing-no-fallthrough", fmt.Sprintf("a host has the content but the read failed: %v: %s", r.errs[0], c12LogStr(r.log))
			}
		}
		// (c) a host with a server-requested delay still pending comes after the others
		if cfg.Ops == 2 && len(r.faults) == 1 && r.faults[0] == "429ra" {
			limited := ""
			for _, e := range r.log {
				if e.Answer == "429ra" && e.Op == 0 {
					limited = e.Host
				}
			}
			seen := firstVisits(1)
			for i, h := range seen {
				if limited != "" && h == limited && i+1 < len(seen) {
					return "routing-backoff-order", fmt.Sprintf("%s asked for a 2s pause but was tried before %v in the next request: %s", limited, seen[i+1:], c12LogStr(r.log))
				}
			}
		}
	}
	return "", ""
}

func noFailing(cfg c12Cfg) bool {
	if cfg.UpState == "fails" {
		return false
	}
	for _, m := range cfg.Mirrors {
		if m.State == "fails" {
			return false
		}
	}
	return true
}

func c12LogStr(l []c12Req) string {
	var sb strings.Builder
	for _, e := range l {
		fmt.Fprintf(&sb, "[%v %s %s %s->%s]", e.At, e.Method, e.Host, e.Range, e.Answer)
	}
	return sb.String()
}

type c12Item struct {
	cfg   c12Cfg
	bound int
}

func c12Grid(thorough bool) []c12Item {
	var out []c12Item
	b := 2
	// single host: every retry limit × delays × methods
	for _, lim := range []int{1, 2, 3, 5} {
		for _, d := range [][2]int{{1, 4}, {100, 30000}} {
			for _, m := range []string{"GET", "HEAD"} {
				for _, ex := range []bool{true, false} {
					if m == "HEAD" && ex {
						continue
					}
					bb := b
					if thorough {
						bb = min(lim+2, 4)
					}
					out = append(out, c12Item{c12Cfg{Limit: lim, DelayMs: d[0], MaxMs: d[1], UpState: "has", Method: m, Expect: ex, Ops: 1}, bb})
				}
			}
		}
	}
	// two logical requests through one client (host back-off state carries over)
	for _, lim := range []int{2, 3} {
		out = append(out, c12Item{c12Cfg{Limit: lim, DelayMs: 100, MaxMs: 30000, UpState: "has", Method: "GET", Expect: true, Ops: 2}, b})
	}
	// a host with a failure history (one absorbed fault), an idle period longer than every back-off
	// delay, then more faults: back-off must restart from the present
	for _, lim := range []int{3, 5} {
		for _, d := range [][2]int{{100, 200}, {100, 30000}} {
			for _, gap := range []int{1500, 120000} {
				for _, prime := range []string{"500", "429", "reset"} {
					out = append(out, c12Item{c12Cfg{Limit: lim, DelayMs: d[0], MaxMs: d[1], UpState: "has", Method: "GET", Expect: true, Ops: 2, GapMs: gap, Prime: prime}, b})
				}
			}
		}
	}
	// a response of the host is open while the next request meets its faults, and finishes before
	// the request after that
	for _, ov := range []string{"drain", "close"} {
		for _, lim := range []int{1, 3} {
			out = append(out, c12Item{c12Cfg{Limit: lim, DelayMs: 100, MaxMs: 30000, UpState: "has", Method: "GET", Expect: true, Ops: 2, Overlap: ov}, b})
		}
	}
	// mirror sets
	states := []string{"has", "lacks", "fails"}
	prios := []uint{0, 1, 2}
	for _, up := range prios {
		for nm := 1; nm <= 2; nm++ {
			var rec func(ms []c12Mirror)
			rec = func(ms []c12Mirror) {
				if len(ms) == nm {
					bb := 1
					if thorough {
						bb = 2
					}
					for _, us := range []string{"has", "lacks"} {
						// (an upstream lacking the content makes the client walk the whole list, so
						// the position of the named registry among equals becomes observable)
						cfg := c12Cfg{Limit: 3, DelayMs: 100, MaxMs: 30000, UpPrio: up, UpState: us, Mirrors: append([]c12Mirror{}, ms...), Method: "GET", Expect: true, Ops: 1}
						out = append(out, c12Item{cfg, bb})
						if (thorough || nm == 1) && us == "has" {
							cfg.Ops = 2
							out = append(out, c12Item{cfg, 1})
						}
					}
					return
				}
				for _, p := range prios {
					for _, s := range states {
						rec(append(ms, c12Mirror{p, s}))
					}
				}
			}
			rec(nil)
		}
	}
	if thorough {
		for _, up := range []uint{0, 1} {
			for _, a := range prios {
				for _, bb := range prios {
					for _, cc := range prios {
						out = append(out, c12Item{c12Cfg{Limit: 3, DelayMs: 100, MaxMs: 30000, UpPrio: up, UpState: "has", Mirrors: []c12Mirror{{a, "lacks"}, {bb, "lacks"}, {cc, "has"}}, Method: "GET", Expect: true, Ops: 1}, 1})
					}
				}
			}
		}
	}
	return out
}

type c12Replay struct {
	Cfg      c12Cfg `json:"cfg"`
	Constant string `json:"constant,omitempty"`
	Choices  []int  `json:"choices"`
}

func TestVerifC12(t *testing.T) {
	rec := ev.New()
	defer rec.Flush(t)
	rec.Rule("seam i (Client.Do + reading the body = one logical request): configuration = retry limit {1,2,3,5} × delays × method × expected length × number of consecutive requests × mirror set (0-2, thorough 3, mirrors with priorities 0-2, each has / lacks / fails; upstream priority 0-2); " +
		"per configuration every sequence of at most k answers from {500,502,503,504,408,429,429+Retry-After,reset,body truncated after 1 / all-but-1 bytes,404,416,401} over the requests (k=2 quick, up to limit+2 thorough) plus, for each fault, the constant adversary that gives it at every request. " +
		"Oracle: round trips per logical request ≤ limit+1, termination, virtual-time back-off ≥ initial delay / Retry-After, transient faults fewer than the limit absorbed, clean reads return the right bytes, first visits in documented priority order. distinct_nontrivial = distinct (configuration, fault list, outcome)")
	rec.Assume("virtual time from testing/synctest; recovery is demanded of a fresh client and a single logical request (host back-off state deliberately carries over between requests)")
	if rd := rec.ReplayData(); rd != nil {
		var rp c12Replay
		if err := json.Unmarshal(rd, &rp); err != nil {
			rec.HarnessError("replay: %v", err)
			return
		}
		r := c12Run(t, explore.NewCtx(rp.Choices), rp.Cfg, rp.Constant)
		k, m := c12Judge(rp.Cfg, r, rp.Constant)
		fmt.Printf("replay %s constant=%q choices=%v\nerrs=%v bodies=%q\n%s\nverdict: %s %s\n", rp.Cfg, rp.Constant, rp.Choices, r.errs, r.bodies, c12LogStr(r.log), k, m)
		rec.Eval(1)
		if k != "" {
			rec.Violation(c12Key(k, rp.Cfg, r.faults, rp.Constant), m, rp)
		}
		return
	}
	items := c12Grid(rec.Thorough())
	var nRecovered, nBackoffChecked int64
	for i, it := range items {
		if !rec.Mine(i) {
			continue
		}
		if rec.Expired() {
			rec.NotExhaustive("budget reached")
			break
		}
		cfg := it.cfg
		runOne := func(c *explore.Ctx) explore.Result {
			r := c12Run(t, c, cfg, "")
			k, m := c12Judge(cfg, r, "")
			out := fmt.Sprint(len(r.log)) + " "
			for _, e := range r.errs {
				if e == nil {
					out += "ok,"
				} else {
					out += "err,"
				}
			}
			c.Logf("%s", c12LogStr(r.log))
			if len(r.faults) > 0 && r.errs[0] == nil {
				nRecovered++
			}
			for _, e := range r.log {
				if c12BackoffClass(e.Answer) {
					nBackoffChecked++
				}
			}
			return explore.Result{Outcome: out + strings.Join(r.faults, ","), VKey: c12Key(k, cfg, r.faults, ""), Violation: m}
		}
		ex := &explore.Explorer{Bound: it.bound, Run: runOne, Stop: rec.Expired, DetCheckEvery: 499}
		ex.OnExec = func(c *explore.Ctx, r explore.Result) {
			if r.Violation != "" {
				r2 := runOne(explore.NewCtx(c.Choices()))
				if r2.VKey != r.VKey {
					rec.HarnessError("violation %q of %s not reproduced", r.VKey, cfg)
					return
				}
				rec.Violation(r.VKey, r.Violation+"\nconfig: "+cfg.String(), c12Replay{cfg, "", explore.Trim(c.Choices())})
			}
			rec.Distinct(cfg.String() + "#" + r.Outcome)
		}
		func() {
			defer func() {
				if p := recover(); p != nil {
					rec.HarnessError("config %s: %v", cfg, p)
				}
			}()
			ex.Explore()
		}()
		rec.Eval(ex.Stats.Executions)
		rec.Count(fmt.Sprintf("executions_bound%d", it.bound), ex.Stats.Executions)
		rec.Count("configurations", 1)
		if ex.Stats.Capped {
			rec.NotExhaustive("budget reached inside " + cfg.String())
		}
		// constant adversaries
		for _, f := range c12Faults {
			r := c12Run(t, explore.NewCtx(nil), cfg, f)
			k, m := c12Judge(cfg, r, f)
			rec.Eval(1)
			rec.Count("constant_adversary_executions", 1)
			rec.Distinct(cfg.String() + "#const-" + f + fmt.Sprint(len(r.log)))
			if k != "" {
				rec.Violation(c12Key(k, cfg, nil, f), m+"\nconfig: "+cfg.String()+" constant adversary "+f, c12Replay{cfg, f, nil})
			}
		}
		if i%53 == 0 {
			rec.Sample(map[string]any{"config": cfg.String(), "fault_bound": it.bound, "executions": ex.Stats.Executions})
		}
	}
	rec.Count("faulted_executions_that_recovered", nRecovered)
	rec.Count("backoff_class_answers_checked", nBackoffChecked)
}

// c12Key: one key per defect class (clause + the fault kinds involved + whether mirrors are in
// play), never per position or configuration detail.
func c12Key(k string, cfg c12Cfg, faults []string, constant string) string {
	if k == "" {
		return ""
	}
	if k == "recovery-503" || k == "recovery-budget-shared-with-hosts-lacking-the-content" {
		// one finding each: 503 is classified "do not retry"; one retry budget for all hosts
		return k
	}
	fk := map[string]bool{}
	for _, f := range faults {
		if strings.HasPrefix(f, "trunc") {
			f = "trunc"
		}
		fk[f] = true
	}
	if constant != "" {
		fk["const-"+constant] = true
	}
	var fs []string
	for f := range fk {
		fs = append(fs, f)
	}
	sort.Strings(fs)
	m := "single-host"
	if len(cfg.Mirrors) > 0 {
		m = "mirrors"
	}
	if strings.HasPrefix(k, "routing-") {
		return k
	}
	if k == "recovery" && m == "mirrors" && fk["trunc"] && constant == "" {
		// one recorded finding: a body cut short at one host is not resumed when other hosts are
		// configured; further transient faults in the same execution do not make it another defect
		return "recovery mirrors faults=trunc"
	}
	return fmt.Sprintf("%s %s faults=%s", k, m, strings.Join(fs, "+"))
}
