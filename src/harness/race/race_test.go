package hrace

// Free-running race pass. The cooperative scheduler of the other steps switches goroutines only at
// lock acquisitions and request arrivals, and its hand-offs are happens-before edges: a lock that
// was removed, narrowed or released too early leaves the unprotected region running atomically
// there, and the race detector sees nothing. This step runs the same kinds of concurrent bodies
// with real goroutines under the Go race detector (no scheduler, no bubble, GOMAXPROCS > 1) and
// turns every report whose stacks touch regclient code into a violation of the property whose
// shared state it concerns. It samples schedules; it is a guard for the assumption the exhaustive
// steps rest on (data-race freedom between scheduling points), not an exploration.

import (
	"bytes"
	"context"
	"fmt"
	"io"
	"net/http"
	"os"
	"path/filepath"
	"regexp"
	"sort"
	"strings"
	"sync"
	"testing"
	"time"

	"github.com/regclient/regclient"
	"github.com/regclient/regclient/config"
	"github.com/regclient/regclient/internal/pqueue"
	"github.com/regclient/regclient/internal/reqmeta"
	"github.com/regclient/regclient/internal/verif/ev"
	"github.com/regclient/regclient/internal/verif/graphs"
	"github.com/regclient/regclient/internal/verif/modelreg"
	"github.com/regclient/regclient/internal/verif/rcenv"
	"github.com/regclient/regclient/scheme/reg"
	"github.com/regclient/regclient/types/manifest"
	"github.com/regclient/regclient/types/ref"
)

const (
	hA, hB = "a.example", "b.example"
)

var gnames = []string{"G1", "G3", "G4", "G13", "G15", "G18", "G20"}
var gs = func() map[string]*graphs.Graph {
	m := map[string]*graphs.Graph{}
	for _, n := range gnames {
		m[n] = graphs.Build(n)
	}
	g := graphs.Build("G13")
	g.FallbackTags()
	m["G13fb"] = g
	return m
}()

type world struct {
	net *modelreg.Net
	rc  *regclient.RegClient
	dir string
}

func newWorld(scratch string, cache bool, noAPI bool) *world {
	w := &world{net: modelreg.NewNet()}
	f := modelreg.Full()
	a := w.net.AddHost(hA, f)
	for _, n := range gnames {
		gs[n].Load(a.Repo("src/"+strings.ToLower(n)), "v1")
	}
	fb := f
	if noAPI {
		fb.Referrers, fb.OCISubject = false, false
	}
	w.net.AddHost(hB, fb)
	w.dir, _ = os.MkdirTemp(scratch, "lay")
	ro := rcenv.Opts{Hosts: []config.Host{
		{Name: hA, Hostname: hA, TLS: config.TLSDisabled},
		{Name: hB, Hostname: hB, TLS: config.TLSDisabled},
	}}
	if cache {
		ro.RegOpts = []reg.Opts{reg.WithCache(5*time.Minute, 500)}
	}
	w.rc = rcenv.New(w.net, nil, ro)
	return w
}

func (w *world) src(g string) ref.Ref {
	r, _ := ref.New(hA + "/src/" + strings.ToLower(g) + ":v1")
	return r
}

func par(fns ...func()) {
	var wg sync.WaitGroup
	start := make(chan struct{})
	for _, f := range fns {
		wg.Add(1)
		go func() { defer wg.Done(); <-start; f() }()
	}
	close(start)
	wg.Wait()
}

type scenario struct {
	prop string
	name string
	run  func(scratch string, i int)
}

func scenarios() []scenario {
	ctx := context.Background()
	return []scenario{
		{"C17", "pqueue: acquire / try / multi / cancel on two queues", func(_ string, i int) {
			q := []*pqueue.Queue[reqmeta.Data]{
				pqueue.New(pqueue.Opts[reqmeta.Data]{Max: 1 + i%2, Next: reqmeta.DataNext}),
				pqueue.New(pqueue.Opts[reqmeta.Data]{Max: 1}),
			}
			e := func(k int) reqmeta.Data { return reqmeta.Data{Kind: reqmeta.Blob, Size: int64(100 * k)} }
			var fns []func()
			for k := 0; k < 4; k++ {
				fns = append(fns, func() {
					for n := 0; n < 3; n++ {
						switch (k + n + i) % 4 {
						case 0:
							if d, err := q[k%2].Acquire(ctx, e(k)); err == nil {
								d()
							}
						case 1:
							if d, err := q[k%2].TryAcquire(ctx, e(k)); err == nil && d != nil {
								d()
							}
						case 2:
							if c2, d, err := pqueue.AcquireMulti(ctx, e(k), q[k%2], q[(k+1)%2]); err == nil {
								if d2, err := q[0].Acquire(c2, e(k)); err == nil {
									d2()
								}
								d()
							}
						case 3:
							cctx, cancel := context.WithCancel(ctx)
							go cancel()
							if d, err := q[k%2].Acquire(cctx, e(k)); err == nil {
								d()
							}
							cancel()
						}
					}
				})
			}
			par(fns...)
		}},
		{"C03", "image copies with internal parallelism, registry to registry and to a layout", func(scratch string, i int) {
			w := newWorld(scratch, false, false)
			defer os.RemoveAll(w.dir)
			g := []string{"G3", "G18", "G15", "G20", "G4"}[i%5]
			if i%3 == 1 {
				// one blob of the image cannot be fetched: the failure paths of the copy run concurrently
				// with its other tasks
				var victim string
				for d := range gs[g].Blobs {
					if victim == "" || d < victim {
						victim = d
					}
				}
				w.net.Decide = func(e *modelreg.Entry) *modelreg.Answer {
					if e.Kind == "blob-get" && e.Method == "GET" && e.Ref == victim {
						return &modelreg.Answer{Status: 404, Header: http.Header{}, Body: []byte("{}"), Note: "fault-404"}
					}
					return nil
				}
			}
			tB, _ := ref.New(hB + "/copy/x:v1")
			tD, _ := ref.New("ocidir://" + w.dir + ":v1")
			par(func() { _ = w.rc.ImageCopy(ctx, w.src(g), tB) }, func() { _ = w.rc.ImageCopy(ctx, w.src(g), tD); _ = w.rc.Close(ctx, tD) })
		}},
		{"C08", "two copies into one layout, closes in between", func(scratch string, i int) {
			w := newWorld(scratch, false, false)
			defer os.RemoveAll(w.dir)
			base, _ := ref.New("ocidir://" + w.dir)
			_ = w.rc.ImageCopy(ctx, w.src("G1"), base.SetTag("a"))
			if i%2 == 0 {
				_ = w.rc.Close(ctx, base)
			}
			par(
				func() { _ = w.rc.ImageCopy(ctx, w.src("G1"), base.SetTag("a")); _ = w.rc.Close(ctx, base) },
				func() { _ = w.rc.ImageCopy(ctx, w.src("G3"), base.SetTag("b")); _ = w.rc.Close(ctx, base) },
				func() { _ = w.rc.ImageCopy(ctx, w.src("G18"), base.SetTag("c")); _ = w.rc.Close(ctx, base) },
				func() { _ = w.rc.Close(ctx, base) },
				func() { _ = w.rc.TagDelete(ctx, base.SetTag("a")) },
			)
		}},
		{"C10", "referrer pushes, deletes and listings of one subject through one client", func(scratch string, i int) {
			w := newWorld(scratch, i%2 == 0, i%4 < 2)
			defer os.RemoveAll(w.dir)
			g := gs["G13"]
			var tgt ref.Ref
			if i%3 == 2 {
				tgt, _ = ref.New("ocidir://" + w.dir)
			} else {
				tgt, _ = ref.New(hB + "/copy/r")
			}
			_ = w.rc.ImageCopy(ctx, w.src("G13"), tgt.SetTag("sub"))
			put := func(d string) func() {
				return func() {
					m, err := manifest.New(manifest.WithRaw(g.Manifests[d].Body))
					if err == nil {
						_ = w.rc.ManifestPut(ctx, tgt.SetDigest(d), m)
					}
				}
			}
			del := func(d string) func() {
				return func() {
					_ = w.rc.ManifestDelete(ctx, tgt.SetDigest(d), regclient.WithManifestCheckReferrers())
				}
			}
			list := func() { _, _ = w.rc.ReferrerList(ctx, tgt.SetDigest(g.Top)) }
			rs := g.Referrers
			par(put(rs[0]), put(rs[1]), list, list)
			par(del(rs[0]), put(rs[0]), del(rs[1]), list)
		}},
		{"C06", "tag pushes, deletes and listings through one client", func(scratch string, i int) {
			w := newWorld(scratch, i%2 == 0, false)
			defer os.RemoveAll(w.dir)
			var tgt ref.Ref
			if i%3 == 2 {
				tgt, _ = ref.New("ocidir://" + w.dir)
			} else {
				tgt, _ = ref.New(hB + "/copy/t")
			}
			_ = w.rc.ImageCopy(ctx, w.src("G1"), tgt.SetTag("a"))
			_ = w.rc.ImageCopy(ctx, w.src("G3"), tgt.SetTag("b"))
			m1, _ := manifest.New(manifest.WithRaw(gs["G1"].Manifests[gs["G1"].Top].Body))
			m3, _ := manifest.New(manifest.WithRaw(gs["G3"].Manifests[gs["G3"].Top].Body))
			par(
				func() { _ = w.rc.ManifestPut(ctx, tgt.SetTag("c"), m1) },
				func() { _ = w.rc.ManifestPut(ctx, tgt.SetTag("a"), m3) },
				func() { _ = w.rc.TagDelete(ctx, tgt.SetTag("b")) },
				func() { _, _ = w.rc.TagList(ctx, tgt) },
				func() { _, _ = w.rc.ManifestHead(ctx, tgt.SetTag("a")) },
				func() {
					if m, err := w.rc.ManifestGet(ctx, tgt.SetTag("a")); err == nil {
						_, _ = m.RawBody()
					}
				},
			)
			_ = w.rc.Close(ctx, tgt)
		}},
	}
}

var reFrame = regexp.MustCompile(`^\s+(github\.com/regclient/regclient[./]\S+)\(`)

// signature names the first regclient function (outside the harness and the model) of each stack of a report.
func signature(block string) string {
	var sig []string
	for _, part := range strings.Split(block, "\n\n") {
		lines := strings.Split(part, "\n")
		if len(lines) == 0 || !(strings.Contains(lines[0], " at 0x") || strings.Contains(lines[0], "by goroutine")) {
			continue
		}
		if strings.HasPrefix(strings.TrimSpace(lines[0]), "Goroutine") {
			continue
		}
		for _, l := range lines[1:] {
			m := reFrame.FindStringSubmatch(l)
			if m == nil || strings.Contains(m[1], "/internal/verif/") {
				continue
			}
			f := strings.TrimPrefix(strings.TrimPrefix(m[1], "github.com/regclient/regclient"), "/")
			f = regexp.MustCompile(`\.func\d+(\.\d+)*$`).ReplaceAllString(f, "")
			sig = append(sig, f)
			break
		}
	}
	sort.Strings(sig)
	var out []string
	for i, s := range sig {
		if i == 0 || sig[i-1] != s {
			out = append(out, s)
		}
	}
	return strings.Join(out, " / ")
}

func TestVerifRace(t *testing.T) {
	rec := ev.New()
	defer rec.Flush(t)
	prop := os.Getenv("VERIF_PROPERTY")
	rec.Rule("free-running pass under the Go race detector: the concurrent bodies of this property (see the scenario names in the samples) run with real goroutines, " +
		"no scheduler and no virtual clock, N rounds each with varied parameters; every race report whose stacks reach regclient code is a violation. Sampling of schedules by the Go runtime: a guard for the data-race-freedom assumption of the exhaustive steps, not an exhaustive exploration itself. distinct_nontrivial = rounds executed")
	rec.NotExhaustive("schedules are sampled by the Go runtime in this step (by design)")
	if rec.ReplayData() != nil {
		fmt.Println("a race report is not replayable by choice list; re-run the check: the scenario is in the violation text")
		return
	}
	rounds := 24
	if rec.Thorough() {
		rounds = 400
	}
	logPrefix := filepath.Join(rec.Scratch, "racelog")
	for _, sc := range scenarios() {
		if prop != "" && sc.prop != prop {
			continue
		}
		for i := 0; i < rounds; i++ {
			if i%rec.NShards != rec.ShardI {
				continue
			}
			if rec.Expired() {
				break
			}
			sc.run(rec.Scratch, i)
			rec.Eval(1)
			rec.Distinct(fmt.Sprintf("%s#%d", sc.name, i))
		}
		if rec.ShardI == 0 {
			rec.Sample(map[string]any{"scenario": sc.name, "rounds": rounds})
		}
	}
	// collect what the detector wrote
	files, _ := filepath.Glob(logPrefix + ".*")
	seen := map[string]bool{}
	for _, f := range files {
		b, err := os.ReadFile(f)
		if err != nil {
			continue
		}
		for _, block := range bytes.Split(b, []byte("==================")) {
			s := string(block)
			if !strings.Contains(s, "WARNING: DATA RACE") {
				continue
			}
			sig := signature(s)
			if sig == "" {
				rec.Count("race_reports_outside_regclient", 1)
				continue
			}
			rec.Count("race_reports", 1)
			if seen[sig] {
				continue
			}
			seen[sig] = true
			if len(s) > 6000 {
				s = s[:6000]
			}
			rec.Violation("data-race "+sig, "the Go race detector reports unsynchronised accesses:\n"+s, nil)
		}
	}
	_ = io.Discard
}
