package hc17use

// C17 (use sites) — the throttles as the client uses them: reghttp takes a slot of the host's queue
// for every request and hands it to the response, BlobCopy takes the source's and the target's
// queue together, the layout scheme throttles writes. Every host is configured with ONE concurrent
// request, so a slot that is not given back (or is asked for a second time by its holder) blocks
// the next request for ever: after every operation — whatever faults it met — one further request
// per host must still be admitted.

import (
	"bytes"
	"context"
	"encoding/json"
	"errors"
	"fmt"
	"io"
	"net/http"
	"os"
	"path/filepath"
	"sort"
	"strings"
	"testing"

	"github.com/opencontainers/go-digest"
	"github.com/regclient/regclient"
	"github.com/regclient/regclient/config"
	"github.com/regclient/regclient/internal/verif/ev"
	"github.com/regclient/regclient/internal/verif/explore"
	"github.com/regclient/regclient/internal/verif/graphs"
	"github.com/regclient/regclient/internal/verif/modelreg"
	"github.com/regclient/regclient/internal/verif/qsched"
	"github.com/regclient/regclient/internal/verif/rcenv"
	"github.com/regclient/regclient/types/descriptor"
	"github.com/regclient/regclient/types/manifest"
	"github.com/regclient/regclient/types/ref"
)

const (
	hA, hB = "a.example", "b.example"
	// alias scenarios: registry A is configured under a name that differs from its DNS name and is
	// also listed, spelled as a URL, among the mirrors of hU
	hAlias, hU = "alias-a.example", "up.example"
	repo   = "proj/r"
)

type Cfg struct {
	Op    string `json:"op"`
	Limit int    `json:"limit"` // concurrent requests per host (and writes per layout)
}

func (c Cfg) String() string { return fmt.Sprintf("%s concurrent=%d", c.Op, c.Limit) }

var ops = []string{"manifest-get", "manifest-head", "manifest-put", "manifest-delete", "blob-get", "blob-get-unsized", "blob-get-rewind", "blob-get-unread", "blob-head", "blob-put", "blob-put-chunked",
	"blob-delete", "blob-mount", "blob-copy-cross", "blob-copy-same-host", "tag-list", "tag-delete", "referrers", "repo-list", "image-copy-cross", "image-copy-index", "image-copy-to-layout", "image-copy-from-layout",
	"referrer-put-fallback", "referrer-delete-fallback", "image-copy-referrers", "blob-put-noseek", "blob-put-chunked-noseek",
	"alias-name-first", "alias-mirror-first"}

// noSeek hides the Seek method of a reader: the body of a request fed from it cannot be produced twice
type noSeek struct{ r io.Reader }

func (n noSeek) Read(p []byte) (int, error) { return n.r.Read(p) }

var faults = []string{"500", "429", "reset", "trunc", "404", "401", "cancel"}

type halfBody struct {
	b   []byte
	pos int
}

func (h *halfBody) Read(p []byte) (int, error) {
	if h.pos >= len(h.b) {
		return 0, io.ErrUnexpectedEOF
	}
	n := copy(p, h.b[h.pos:])
	h.pos += n
	return n, nil
}
func (h *halfBody) Close() error { return nil }

var g1 = graphs.Build("G1")
var g3 = graphs.Build("G3")
var g13 = graphs.Build("G13")
var g13fb = func() *graphs.Graph { g := graphs.Build("G13"); g.FallbackTags(); return g }()

type result struct {
	err      error
	faults   []string
	nreq     int
	out      qsched.Outcome
	phase    string // op, probe-a, probe-b, probe-layout, done
	probeErr []string
	panic    any
	err2     error  // alias scenarios: result of the second caller
	log      []string
	over     string // first request that arrived at a host while as many requests as its limit were in flight there
}

func layerOf(g *graphs.Graph) (string, []byte) {
	var ds []string
	for d := range g.Blobs {
		ds = append(ds, d)
	}
	sort.Strings(ds)
	// the longest blob, so that a body cut in half still has bytes
	best := ds[0]
	for _, d := range ds {
		if len(g.Blobs[d]) > len(g.Blobs[best]) {
			best = d
		}
	}
	return best, g.Blobs[best]
}

func run(t *testing.T, c *explore.Ctx, cfg Cfg, scratch string) *result {
	res := &result{phase: "setup"}
	_, other := qsched.Bubble(t, func() {
		net := modelreg.NewNet()
		f := modelreg.Full()
		f.TagPage = 2
		f.ReferrersPage = 1
		a := net.AddHost(hA, f)
		r := a.Repo(repo)
		g1.Load(r, "v1")
		r.Tags["v2"], r.Tags["dev"] = g1.Top, g1.Top
		g13.Load(r, "sub")
		g3.Load(a.Repo("proj/other"), "idx")
		// b has no referrers API: pushing or deleting a referrer there maintains the fallback tag
		fb := f
		fb.Referrers, fb.OCISubject = false, false
		b := net.AddHost(hB, fb)
		g13.LoadSubset(b.Repo(repo), func(d string) bool { _, isBlob := g13.Blobs[d]; return isBlob })
		if cfg.Op == "referrer-delete-fallback" {
			g13fb.Load(b.Repo(repo), "sub")
		}
		lay := filepath.Join(scratch, "lay")
		useLayout := strings.Contains(cfg.Op, "layout")
		if useLayout {
			os.RemoveAll(lay)
			if err := g1.WriteLayout(lay, "v1"); err != nil {
				t.Fatal(err)
			}
		}
		ctx, cancel := context.WithCancel(context.Background())
		defer func() {
			// after a deadlock verdict the blocked goroutines are left as they are (the bubble reports
			// and discards them); waking them by cancellation would only run code past the verdict
			if !res.out.Deadlock && !res.out.Horizon {
				cancel()
			}
		}()
		alias := strings.HasPrefix(cfg.Op, "alias-")
		if alias {
			// hU holds nothing: what is asked of it is served by its mirror, registry A
			net.AddHost(hU, f)
		}
		var sched *qsched.Sched
		// a request is in flight from its arrival to the return of the round trip; reghttp takes the
		// slot before it sends and keeps it at least that long, so more requests in flight at one
		// registry than its limit are more holders than the throttle admits
		inflight := map[string]int{}
		net.OnArrive = func(e *modelreg.Entry) {
			inflight[e.Host]++
			if inflight[e.Host] > cfg.Limit && res.over == "" && res.phase == "op" {
				res.over = fmt.Sprintf("%s %s%s arrived while %d request(s) were in flight at %s (limit %d)", e.Method, e.Host, e.Path, inflight[e.Host]-1, e.Host, cfg.Limit)
			}
			if sched != nil {
				sched.Point(qsched.KHTTP, "")
			}
		}
		net.OnReturn = func(e *modelreg.Entry) { inflight[e.Host]-- }
		net.Decide = func(e *modelreg.Entry) *modelreg.Answer {
			if res.phase != "op" {
				return nil
			}
			res.nreq++
			if res.nreq > 400 {
				return &modelreg.Answer{Err: errors.New("harness: request horizon")}
			}
			ch := c.Choose("net", 1+len(faults), nil)
			if ch == 0 {
				return nil
			}
			fl := faults[ch-1]
			res.faults = append(res.faults, fl)
			switch fl {
			case "401":
				return &modelreg.Answer{Status: 401, Header: http.Header{"Www-Authenticate": {`Basic realm="x"`}}, Body: []byte("{}"), Note: "fault-" + fl}
			case "reset":
				return &modelreg.Answer{Err: errors.New("connection reset by peer"), Note: "fault-" + fl}
			case "cancel":
				cancel()
				return &modelreg.Answer{Err: context.Canceled, Note: "fault-cancel"}
			case "trunc":
				if e.Method != "GET" {
					return &modelreg.Answer{Err: io.ErrUnexpectedEOF, Note: "fault-trunc"}
				}
				var def *modelreg.Answer
				net.With(func() { def = net.Peek(e) })
				if def == nil || (def.Status != 200 && def.Status != 206) || len(def.Body) < 2 {
					return &modelreg.Answer{Err: io.ErrUnexpectedEOF, Note: "fault-trunc"}
				}
				return &modelreg.Answer{Status: def.Status, Header: def.Header.Clone(), BodyRC: &halfBody{b: def.Body[:len(def.Body)/2]}, Note: "fault-trunc-body"}
			default:
				var code int
				fmt.Sscanf(fl, "%d", &code)
				return &modelreg.Answer{Status: code, Header: http.Header{}, Body: []byte("{}"), Note: "fault-" + fl}
			}
		}
		hosts := []config.Host{
			{Name: hA, Hostname: hA, TLS: config.TLSDisabled, BlobChunk: 3, BlobMax: 6, ReqConcurrent: int64(cfg.Limit)},
			{Name: hB, Hostname: hB, TLS: config.TLSDisabled, BlobChunk: 3, BlobMax: 6, ReqConcurrent: int64(cfg.Limit)},
		}
		probes := []string{hA, hB}
		if alias {
			hosts[0].Name = hAlias
			hosts = append(hosts, config.Host{Name: hU, Hostname: hU, TLS: config.TLSDisabled, ReqConcurrent: int64(cfg.Limit), Mirrors: []string{"http://" + hAlias}})
			probes = []string{hAlias, hU}
		}
		rc := rcenv.New(net, nil, rcenv.Opts{Hosts: hosts, RetryLimit: 3})
		branch := map[qsched.Kind]bool{}
		threads := map[string]func(*qsched.Sched){}
		names := []string{"op"}
		done := make(chan struct{})
		if alias {
			// two callers reach registry A at the same time, one by its configured name, one through the
			// mirror entry of hU: pre-emptions at request arrivals are part of the deviation bound
			branch[qsched.KHTTP] = true
			names = []string{"op", "second"}
			threads["second"] = func(s *qsched.Sched) {
				defer close(done)
				sched = s
				h2 := hU
				if cfg.Op == "alias-mirror-first" {
					h2 = hAlias
				}
				r2, _ := ref.New(h2 + "/" + repo + ":v1")
				_, res.err2 = rc.ManifestGet(ctx, r2)
			}
		} else {
			close(done)
		}
		threads["op"] = func(s *qsched.Sched) {
			sched = s
			res.phase = "op"
			res.err = doOp(ctx, rc, cfg.Op, lay)
			<-done
			// all holders have finished: one more request per host must be admitted
			bg := context.Background()
			for _, h := range probes {
				res.phase = "probe-" + h
				pr, _ := ref.New(h + "/" + repo + ":v1")
				if _, err := rc.ManifestHead(bg, pr); err != nil && h == hA && !strings.Contains(cfg.Op, "delete") {
					res.probeErr = append(res.probeErr, fmt.Sprintf("%s: %v", h, err))
				}
			}
			if useLayout {
				res.phase = "probe-layout"
				lr, _ := ref.New("ocidir://" + lay + ":probe")
				data := []byte("probe")
				if _, err := rc.BlobPut(bg, lr, descriptor.Descriptor{Digest: digest.FromBytes(data), Size: int64(len(data))}, bytes.NewReader(data)); err != nil {
					res.probeErr = append(res.probeErr, fmt.Sprintf("layout: %v", err))
				}
			}
			res.phase = "done"
		}
		res.out = qsched.Run(c, qsched.Config{Branch: branch}, threads, names)
		for _, e := range net.Log {
			res.log = append(res.log, e.String())
		}
		sched = nil
	})
	res.panic = other
	return res
}

func doOp(ctx context.Context, rc *regclient.RegClient, op string, lay string) error {
	rTag, _ := ref.New(hA + "/" + repo + ":v1")
	ld, lb := layerOf(g1)
	ldesc := descriptor.Descriptor{Digest: digest.Digest(ld), Size: int64(len(lb))}
	switch op {
	case "alias-name-first", "alias-mirror-first":
		h := hAlias
		if op == "alias-mirror-first" {
			h = hU
		}
		r, _ := ref.New(h + "/" + repo + ":v1")
		_, err := rc.ManifestGet(ctx, r)
		return err
	case "manifest-get":
		_, err := rc.ManifestGet(ctx, rTag)
		return err
	case "manifest-head":
		_, err := rc.ManifestHead(ctx, rTag)
		return err
	case "manifest-put":
		m, err := manifest.New(manifest.WithRaw(g1.Manifests[g1.Top].Body))
		if err != nil {
			return err
		}
		return rc.ManifestPut(ctx, rTag.SetTag("new"), m)
	case "manifest-delete":
		return rc.ManifestDelete(ctx, rTag.SetDigest(g13.Top))
	case "blob-get", "blob-get-unsized":
		d := ldesc
		if op == "blob-get-unsized" {
			d.Size = 0
		}
		br, err := rc.BlobGet(ctx, rTag, d)
		if err != nil {
			return err
		}
		_, err = io.ReadAll(br)
		br.Close()
		return err
	case "blob-get-rewind":
		br, err := rc.BlobGet(ctx, rTag, ldesc)
		if err != nil {
			return err
		}
		defer br.Close()
		buf := make([]byte, 2)
		if _, err := io.ReadFull(br, buf); err != nil {
			return err
		}
		if _, err := br.Seek(0, io.SeekStart); err != nil {
			return err
		}
		_, err = io.ReadAll(br)
		return err
	case "blob-get-unread":
		// a reader that is closed without having been read
		br, err := rc.BlobGet(ctx, rTag, ldesc)
		if err != nil {
			return err
		}
		return br.Close()
	case "blob-head":
		br, err := rc.BlobHead(ctx, rTag, ldesc)
		if err != nil {
			return err
		}
		return br.Close()
	case "blob-put":
		data := []byte("fresh")
		_, err := rc.BlobPut(ctx, rTag, descriptor.Descriptor{Digest: digest.FromBytes(data), Size: int64(len(data))}, bytes.NewReader(data))
		return err
	case "blob-put-noseek":
		data := []byte("fresh")
		_, err := rc.BlobPut(ctx, rTag, descriptor.Descriptor{Digest: digest.FromBytes(data), Size: int64(len(data))}, noSeek{bytes.NewReader(data)})
		return err
	case "blob-put-chunked-noseek":
		_, err := rc.BlobPut(ctx, rTag, descriptor.Descriptor{}, noSeek{bytes.NewReader([]byte("fresh-and-longer"))})
		return err
	case "blob-put-chunked":
		_, err := rc.BlobPut(ctx, rTag, descriptor.Descriptor{}, bytes.NewReader([]byte("fresh-and-longer")))
		return err
	case "blob-delete":
		return rc.BlobDelete(ctx, rTag, ldesc)
	case "blob-mount":
		src, _ := ref.New(hA + "/proj/other:idx")
		d, b := layerOf(g3)
		return rc.BlobMount(ctx, src, rTag, descriptor.Descriptor{Digest: digest.Digest(d), Size: int64(len(b))})
	case "blob-copy-cross":
		tgt, _ := ref.New(hB + "/proj/copy:v1")
		return rc.BlobCopy(ctx, rTag, tgt, ldesc)
	case "blob-copy-same-host":
		tgt, _ := ref.New(hA + "/proj/copy:v1")
		return rc.BlobCopy(ctx, rTag, tgt, ldesc)
	case "tag-list":
		_, err := rc.TagList(ctx, rTag)
		return err
	case "tag-delete":
		return rc.TagDelete(ctx, rTag.SetTag("dev"))
	case "referrers":
		_, err := rc.ReferrerList(ctx, rTag.SetDigest(g13.Top))
		return err
	case "repo-list":
		_, err := rc.RepoList(ctx, hA)
		return err
	case "referrer-put-fallback":
		rd := g13.Referrers[0]
		m, err := manifest.New(manifest.WithRaw(g13.Manifests[rd].Body))
		if err != nil {
			return err
		}
		rB, _ := ref.New(hB + "/" + repo)
		return rc.ManifestPut(ctx, rB.SetDigest(rd), m)
	case "referrer-delete-fallback":
		rB, _ := ref.New(hB + "/" + repo)
		return rc.ManifestDelete(ctx, rB.SetDigest(g13.Referrers[0]), regclient.WithManifestCheckReferrers())
	case "image-copy-referrers":
		tgt, _ := ref.New(hB + "/proj/copy:sub")
		return rc.ImageCopy(ctx, rTag.SetTag("sub"), tgt, regclient.ImageWithReferrers())
	case "image-copy-cross":
		tgt, _ := ref.New(hB + "/proj/copy:v1")
		return rc.ImageCopy(ctx, rTag, tgt)
	case "image-copy-index":
		src, _ := ref.New(hA + "/proj/other:idx")
		tgt, _ := ref.New(hB + "/proj/copy:idx")
		return rc.ImageCopy(ctx, src, tgt)
	case "image-copy-to-layout":
		tgt, _ := ref.New("ocidir://" + lay + ":copy")
		src, _ := ref.New(hA + "/proj/other:idx")
		err := rc.ImageCopy(ctx, src, tgt)
		_ = rc.Close(ctx, tgt)
		return err
	case "image-copy-from-layout":
		src, _ := ref.New("ocidir://" + lay + ":v1")
		tgt, _ := ref.New(hB + "/proj/copy:v1")
		return rc.ImageCopy(ctx, src, tgt)
	}
	return fmt.Errorf("unknown op %s", op)
}

func judge(cfg Cfg, r *result) (string, string) {
	if r.panic != nil {
		return "panic", fmt.Sprint(r.panic)
	}
	if r.out.Panic != nil {
		return "panic", fmt.Sprint(r.out.Panic)
	}
	if r.nreq > 400 {
		return "no-termination", fmt.Sprintf("%s issued more than 400 requests", cfg.Op)
	}
	kinds := strings.Join(uniq(r.faults), "+")
	if kinds == "" {
		kinds = "none"
	}
	if r.out.Deadlock || r.out.Horizon {
		if r.phase == "op" {
			return "use-site-deadlock op=" + cfg.Op + " faults=" + kinds, fmt.Sprintf("%s never returned: every goroutine is blocked (%s); faults %v", cfg.Op, r.out.DeadlockAt, r.faults)
		}
		return "use-site-slot-lost op=" + cfg.Op + " faults=" + kinds, fmt.Sprintf("after %s returned (err=%v, faults %v) the next request (%s) was never admitted: a slot of that throttle is still held (%s)", cfg.Op, r.err, r.faults, r.phase, r.out.DeadlockAt)
	}
	if r.phase != "done" {
		return "harness", "execution ended in phase " + r.phase
	}
	if r.over != "" {
		return "use-site-over-limit op=" + cfg.Op + " faults=" + kinds, fmt.Sprintf("more requests in flight at one registry than its throttle admits: %s; faults %v", r.over, r.faults)
	}
	return "", ""
}

func uniq(l []string) []string {
	s := append([]string{}, l...)
	sort.Strings(s)
	var o []string
	for i, v := range s {
		if i == 0 || s[i-1] != v {
			o = append(o, v)
		}
	}
	return o
}

type replay struct {
	Cfg     Cfg   `json:"cfg"`
	Choices []int `json:"choices"`
}

func TestVerifC17Use(t *testing.T) {
	rec := ev.New()
	defer rec.Flush(t)
	rec.Rule("use sites of the throttles: operation ∈ {" + strings.Join(ops, ", ") + "} through one client whose hosts admit ONE request at a time (thorough: also two), registry sources/targets and an OCI layout; the two alias-… operations are two concurrent manifest fetches that reach one registry under two spellings (its configured name, which differs from its DNS name, and a URL-style mirror entry of another host), with pre-emptions at request arrivals counted in the same bound; every sequence of at most k answers from {500, 429, connection reset, body cut in half, 404, 401, cancellation of the caller's context} over the requests of the operation (k=2; 1 for image copies; thorough 3 / 2). Oracle: the operation returns, and afterwards one more request to each host and one more write to the layout are admitted (a slot that was not given back, or that its holder asks for again, blocks them for ever and shows as a deadlock of the bubble); at no request arrival are more requests in flight at one registry than its limit. distinct_nontrivial = distinct (operation, fault list, outcome)")
	rec.Assume("operations run under the scheduler without branching (request arrivals granted in goroutine-creation order); interleavings of the queue itself are the subject of the other step")
	if rd := rec.ReplayData(); rd != nil {
		var rp replay
		if err := json.Unmarshal(rd, &rp); err != nil {
			rec.HarnessError("replay: %v", err)
			return
		}
		r := run(t, explore.NewCtx(rp.Choices), rp.Cfg, rec.Scratch)
		k, m := judge(rp.Cfg, r)
		fmt.Printf("replay %s choices=%v err=%v err2=%v faults=%v phase=%s probes=%v\nrequests:\n  %s\nverdict: %s %s\n", rp.Cfg, rp.Choices, r.err, r.err2, r.faults, r.phase, r.probeErr, strings.Join(r.log, "\n  "), k, m)
		rec.Eval(1)
		if k != "" {
			rec.Violation(k, m, rp)
		}
		return
	}
	var items []Cfg
	for _, op := range ops {
		items = append(items, Cfg{Op: op, Limit: 1})
		if rec.Thorough() {
			items = append(items, Cfg{Op: op, Limit: 2})
		}
	}
	for _, cfg := range items {
		// every shard takes part in every operation: the level-1 subtrees are dealt out
		if rec.Expired() {
			rec.NotExhaustive("budget reached")
			break
		}
		base := run(t, explore.NewCtx(nil), cfg, rec.Scratch)
		if k, m := judge(cfg, base); k != "" || base.err != nil {
			if k == "" || k == "harness" {
				if rec.ShardI == 0 {
					rec.HarnessError("fault-free %s: err=%v %s %s", cfg, base.err, k, m)
				}
				continue
			}
		}
		bound := 2
		if strings.HasPrefix(cfg.Op, "image-copy") {
			bound = 1
		}
		if rec.Thorough() {
			bound++
		}
		runOne := func(c *explore.Ctx) explore.Result {
			r := run(t, c, cfg, rec.Scratch)
			k, m := judge(cfg, r)
			o := "ok"
			if r.err != nil {
				o = "err"
			}
			c.Logf("%s %v %s", o, r.faults, r.phase)
			return explore.Result{Outcome: o + " " + strings.Join(r.faults, ",") + " " + r.phase, VKey: k, Violation: m}
		}
		ex := &explore.Explorer{Bound: bound, Run: runOne, Stop: rec.Expired, DetCheckEvery: 211,
			Mine: func(k int) bool { return k%rec.NShards == rec.ShardI }, Root: rec.ShardI == 0}
		ex.OnExec = func(c *explore.Ctx, r explore.Result) {
			if r.VKey == "harness" {
				rec.HarnessError("%s: %s (%s)", cfg, r.Violation, c.Describe())
				return
			}
			if r.Violation != "" {
				r2 := runOne(explore.NewCtx(c.Choices()))
				if r2.VKey != r.VKey {
					rec.HarnessError("violation %q of %s not reproduced (%q)", r.VKey, cfg, r2.VKey)
					return
				}
				rec.Violation(r.VKey, r.Violation+"\nscenario: "+cfg.String()+"\nfaults: "+c.Describe(), replay{cfg, explore.Trim(c.Choices())})
			}
			rec.Distinct(cfg.String() + "#" + r.Outcome)
		}
		func() {
			defer func() {
				if p := recover(); p != nil {
					rec.HarnessError("scenario %s: %v", cfg, p)
				}
			}()
			ex.Explore()
		}()
		rec.Eval(ex.Stats.Executions)
		rec.Count("executions", ex.Stats.Executions)
		if rec.ShardI == 0 {
			rec.Count("operations", 1)
		}
		if ex.Stats.Capped {
			rec.NotExhaustive("budget reached inside " + cfg.String())
		}
		if rec.ShardI == 0 {
			rec.Sample(map[string]any{"scenario": cfg.String(), "fault_bound": bound, "requests_fault_free": base.nreq})
		}
	}
}
