package hc01

// C01 — blob reads never complete cleanly on content that does not match the descriptor.
//
// The real RegClient.BlobGet is read to the end for every case of a bounded grid: contents over a
// two-letter alphabet, descriptors, corruptions of the served stream at every offset, Content-Length
// variants, every composition of read sizes, EOF delivery, connection drops at every offset followed
// by every kind of range answer, rewinds, for a registry (scripted transport), an OCI layout (file on
// disk) and inline descriptor data.

import (
	"archive/tar"
	"bytes"
	"compress/gzip"
	"context"
	"crypto/sha256"
	"crypto/sha512"
	"encoding/hex"
	"encoding/json"
	"errors"
	"fmt"
	"io"
	"net/http"
	"os"
	"path/filepath"
	"strconv"
	"strings"
	"testing"
	"time"

	"github.com/regclient/regclient/internal/verif/ev"
	"github.com/regclient/regclient/internal/verif/qsched"
	"github.com/regclient/regclient/internal/verif/rcenv"
	"github.com/regclient/regclient/types/descriptor"
	"github.com/regclient/regclient/types/errs"
	"github.com/regclient/regclient/types/ref"
	"github.com/opencontainers/go-digest"
)

type Case struct {
	Content string `json:"content"`
	Algo    string `json:"algo"`
	Sized   bool   `json:"sized"`
	Store   string `json:"store"` // reg, dir, inline
	Xform   string `json:"xform"` // id, flip@k, trunc@k, extra1, extra2, subst-same, subst-longer, subst-shorter
	CL      string `json:"cl"`    // right (length of what is served), absent, plus1, minus1, intended (length of the intended content)
	Reads   []int  `json:"reads"` // read sizes, the last one repeats; 0 = a zero length read
	EOFSep  bool   `json:"eof_separate"`
	Drops   []int  `json:"drops,omitempty"`  // offsets (in the served stream) at which the connection drops
	Resume  string `json:"resume,omitempty"` // how range requests are answered
	Mode    string `json:"mode"`             // read, rawbody, rewind@k
	Data    string `json:"data,omitempty"`   // inline: right, wrong
	// Stated: the descriptor states a size that differs from the length of the intended content
	// (plus1, minus1, half, double); the digest is right and the store is intact unless Xform says otherwise
	Stated string `json:"stated,omitempty"`
	// DCD: the Docker-Content-Digest header of the registry's answer: "" absent, "intended" the digest
	// the caller asked by, "served" the digest of the bytes actually served (a self-consistent answer
	// for other content), "served-other-algo" that digest in the other algorithm
	DCD string `json:"dcd,omitempty"`
}

func statedSize(n int, how string) int64 {
	switch how {
	case "plus1":
		return int64(n) + 1
	case "minus1":
		return int64(n) - 1
	case "half":
		return int64(n) / 2
	case "double":
		return int64(n) * 2
	}
	return int64(n)
}

func (c Case) String() string {
	b, _ := json.Marshal(c)
	return string(b)
}

func dig(algo string, b []byte) digest.Digest {
	if algo == "sha512" {
		s := sha512.Sum512(b)
		return digest.Digest("sha512:" + hex.EncodeToString(s[:]))
	}
	s := sha256.Sum256(b)
	return digest.Digest("sha256:" + hex.EncodeToString(s[:]))
}

// contentBytes resolves the symbolic contents of the structured-reader family ("@tar", "@targz",
// "@config"); every other content is literal.
var symContent = func() map[string][]byte {
	var tb bytes.Buffer
	tw := tar.NewWriter(&tb)
	tw.WriteHeader(&tar.Header{Name: "f.txt", Mode: 0o644, Size: 5, ModTime: time.Unix(0, 0)})
	tw.Write([]byte("hello"))
	tw.Close()
	var gb bytes.Buffer
	gw := gzip.NewWriter(&gb)
	gw.Write(tb.Bytes())
	gw.Close()
	return map[string][]byte{
		"@tar":    tb.Bytes(),
		// the same archive followed by 12 KiB of zero padding, more than any read-ahead buffer holds:
		// bytes the tar walker itself never asks for, but which belong to the blob
		"@tarpad": append(append([]byte{}, tb.Bytes()...), make([]byte, 12288)...),
		"@targz":  gb.Bytes(),
		"@config": []byte(`{"architecture":"amd64","os":"linux","config":{"Env":["A=b"]},"rootfs":{"type":"layers","diff_ids":[]}}`),
	}
}()

func contentBytes(c string) []byte {
	if b, ok := symContent[c]; ok {
		return append([]byte{}, b...)
	}
	return []byte(c)
}

func xform(x []byte, t string) []byte {
	y := append([]byte{}, x...)
	switch {
	case t == "id":
	case strings.HasPrefix(t, "flip@"):
		k, _ := strconv.Atoi(t[5:])
		if y[k] == 'a' {
			y[k] = 'b'
		} else if y[k] == 'b' {
			y[k] = 'a'
		} else {
			y[k] ^= 0x01
		}
	case strings.HasPrefix(t, "trunc@"):
		k, _ := strconv.Atoi(t[6:])
		y = y[:k]
	case t == "extra1":
		y = append(y, 'a')
	case t == "extra2":
		y = append(y, 'b', 'a')
	case t == "subst-same":
		for i := range y {
			y[i] = 'a' + byte((int(y[i]-'a')+1)%2)
		}
	case t == "subst-longer":
		y = append([]byte("ba"), y...)
	case t == "subst-shorter":
		if len(y) > 0 {
			y = y[1:]
		}
	}
	return y
}

// body delivers a prepared byte sequence the way a net/http response body would.
type body struct {
	data    []byte
	pos     int
	end     error // what follows the data: io.EOF or io.ErrUnexpectedEOF
	eofSep  bool
	closed  bool
}

func (b *body) Read(p []byte) (int, error) {
	if b.pos >= len(b.data) {
		return 0, b.end
	}
	n := copy(p, b.data[b.pos:])
	b.pos += n
	if b.pos >= len(b.data) && !b.eofSep && n > 0 {
		return n, b.end
	}
	return n, nil
}
func (b *body) Close() error { b.closed = true; return nil }

type rt struct {
	c      Case
	served []byte
	nreq   int
	drops  []int
	log    []string
}

func (r *rt) RoundTrip(req *http.Request) (*http.Response, error) {
	r.nreq++
	if r.nreq > 50 {
		return nil, errors.New("harness: request horizon")
	}
	hdr := http.Header{}
	mk := func(code int, b *body) *http.Response {
		return &http.Response{StatusCode: code, Status: strconv.Itoa(code), Header: hdr, Body: b, Request: req, Proto: "HTTP/1.1", ProtoMajor: 1, ProtoMinor: 1, ContentLength: -1}
	}
	if r.c.Store == "ext" {
		// the registry does not hold the blob; the descriptor names an external location for it
		if req.URL.Host != "ext.example" {
			return mk(404, &body{data: []byte("{}"), end: io.EOF}), nil
		}
	} else if !strings.Contains(req.URL.Path, "/blobs/") {
		return mk(404, &body{end: io.EOF}), nil
	}
	y := r.served
	switch r.c.DCD {
	case "intended":
		hdr.Set("Docker-Content-Digest", dig(r.c.Algo, contentBytes(r.c.Content)).String())
	case "served":
		hdr.Set("Docker-Content-Digest", dig(r.c.Algo, y).String())
	case "served-other-algo":
		hdr.Set("Docker-Content-Digest", dig(map[string]string{"sha256": "sha512", "sha512": "sha256"}[r.c.Algo], y).String())
	}
	start := 0
	rng := req.Header.Get("Range")
	r.log = append(r.log, req.Method+" range="+rng)
	code := 200
	if rng != "" {
		var a, b int
		n, _ := fmt.Sscanf(rng, "bytes=%d-%d", &a, &b)
		if n < 1 {
			return mk(400, &body{end: io.EOF}), nil
		}
		start = a
		switch r.c.Resume {
		case "correct":
			code = 206
			hdr.Set("Content-Range", fmt.Sprintf("bytes %d-%d/%d", a, len(y)-1, len(y)))
		case "shift-1":
			code = 206
			hdr.Set("Content-Range", fmt.Sprintf("bytes %d-%d/%d", a, len(y)-1, len(y)))
			start = max(a-1, 0)
		case "shift+1":
			code = 206
			hdr.Set("Content-Range", fmt.Sprintf("bytes %d-%d/%d", a, len(y)-1, len(y)))
			start = min(a+1, len(y))
		case "other-bytes":
			code = 206
			hdr.Set("Content-Range", fmt.Sprintf("bytes %d-%d/%d", a, len(y)-1, len(y)))
			y = xform(y, "subst-same")
		case "full-200":
			code, start = 200, 0
		case "206-no-content-range":
			code = 206
		case "416":
			return mk(416, &body{end: io.EOF}), nil
		case "500-then-correct":
			if r.nreq%2 == 0 {
				return mk(500, &body{data: []byte("{}"), end: io.EOF}), nil
			}
			code = 206
			hdr.Set("Content-Range", fmt.Sprintf("bytes %d-%d/%d", a, len(y)-1, len(y)))
		}
	}
	if start > len(y) {
		start = len(y)
	}
	out := y[start:]
	// Content-Length and what net/http would make of a body that disagrees with it
	end := error(io.EOF)
	cl := -1
	switch r.c.CL {
	case "right":
		cl = len(out)
	case "intended":
		cl = len(contentBytes(r.c.Content)) - start
	case "plus1":
		cl = len(out) + 1
	case "minus1":
		cl = len(out) - 1
	}
	if rng != "" && r.c.CL != "absent" {
		cl = len(out) // resumed answers state their own length
	}
	if cl >= 0 {
		hdr.Set("Content-Length", strconv.Itoa(cl))
		if len(out) > cl {
			out = out[:cl] // the transport never hands out more than Content-Length bytes
		} else if len(out) < cl {
			end = io.ErrUnexpectedEOF // the peer closed before Content-Length bytes arrived
		}
	}
	// connection drop
	if len(r.drops) > 0 {
		at := r.drops[0] - start
		if at >= 0 && at < len(out) {
			r.drops = r.drops[1:]
			out = out[:at]
			end = io.ErrUnexpectedEOF
		}
	}
	if req.Method == "HEAD" {
		return mk(code, &body{end: io.EOF}), nil
	}
	return mk(code, &body{data: out, end: end, eofSep: r.c.EOFSep}), nil
}

type outcome struct {
	clean bool
	acc   []byte
	err   error
	pass2 bool
	openErr error
}

func readAll(rdr io.Reader, sizes []int) ([]byte, error) {
	var acc []byte
	i := 0
	for n := 0; n < 200; n++ {
		sz := 1 << 10
		if len(sizes) > 0 {
			sz = sizes[min(i, len(sizes)-1)]
			i++
		}
		buf := make([]byte, sz)
		k, err := rdr.Read(buf)
		acc = append(acc, buf[:k]...)
		if err != nil {
			return acc, err
		}
	}
	return acc, errors.New("harness: read horizon")
}

func run(t *testing.T, c Case, scratch string) outcome {
	var o outcome
	x := contentBytes(c.Content)
	d := descriptor.Descriptor{Digest: dig(c.Algo, x)}
	if c.Sized {
		d.Size = int64(len(x))
	}
	if c.Stated != "" {
		d.Size = statedSize(len(x), c.Stated)
	}
	y := xform(x, c.Xform)
	ctx := context.Background()
	tr := &rt{c: c, served: y, drops: append([]int{}, c.Drops...)}
	rc := rcenv.New(tr, []string{"reg.example"}, rcenv.Opts{})
	var r ref.Ref
	var err error
	switch c.Store {
	case "reg":
		r, err = ref.New("reg.example/proj/blob:t")
	case "ext":
		r, err = ref.New("reg.example/proj/blob:t")
		d.URLs = []string{"http://ext.example/layers/" + d.Digest.Encoded()}
	case "inline":
		r, err = ref.New("reg.example/proj/blob:t")
		d.Data = x
		if c.Data == "wrong" {
			d.Data = xform(x, "subst-same")
			if len(x) == 0 {
				d.Data = []byte("a")
			}
		}
	case "dir":
		dir := filepath.Join(scratch, "lay")
		os.MkdirAll(filepath.Join(dir, "blobs", d.Digest.Algorithm().String()), 0o755)
		os.WriteFile(filepath.Join(dir, "oci-layout"), []byte(`{"imageLayoutVersion":"1.0.0"}`), 0o644)
		os.WriteFile(filepath.Join(dir, "index.json"), []byte(`{"schemaVersion":2,"manifests":[]}`), 0o644)
		os.WriteFile(filepath.Join(dir, "blobs", d.Digest.Algorithm().String(), d.Digest.Encoded()), y, 0o644)
		r, err = ref.New("ocidir://" + dir)
	}
	if err != nil {
		o.openErr = err
		return o
	}
	rdr, err := rc.BlobGet(ctx, r, d)
	if err != nil {
		o.openErr = err
		o.err = err
		return o
	}
	defer rdr.Close()
	switch {
	case c.Mode == "tar-rawbody" || c.Mode == "tar-missing-file" || c.Mode == "tar-walk":
		tr, err := rdr.ToTarReader()
		if err != nil {
			o.err = err
			return o
		}
		switch c.Mode {
		case "tar-rawbody":
			o.acc, o.err = tr.RawBody()
			o.clean = o.err == nil
		case "tar-missing-file":
			_, _, err := tr.ReadFile("no/such/file")
			o.err = err
			o.clean = errors.Is(err, errs.ErrFileNotFound)
		case "tar-walk":
			// the way regctl walks a layer: every entry, then the verdict of the search for a name
			// that is not there
			t, err := tr.GetTarReader()
			if err == nil {
				for {
					if _, err = t.Next(); err != nil {
						break
					}
				}
			}
			if err != io.EOF {
				o.err = err
				return o
			}
			_, _, err = tr.ReadFile("no/such/file")
			o.err = err
			o.clean = errors.Is(err, errs.ErrFileNotFound)
		}
		return o
	case c.Mode == "tar-peek-rewind":
		// look into the layer through its tar view, then rewind the blob itself and read it raw
		tr, err := rdr.ToTarReader()
		if err != nil {
			o.err = err
			return o
		}
		if _, fr, err := tr.ReadFile("f.txt"); err == nil && fr != nil {
			buf := make([]byte, 2)
			_, _ = io.ReadFull(fr, buf)
		}
		if _, err := rdr.Seek(0, io.SeekStart); err != nil {
			o.err = err
			return o
		}
		o.pass2 = true
		o.acc, o.err = readAll(rdr, []int{4096})
		o.clean = o.err == io.EOF
		return o
	case c.Mode == "ociconfig":
		oc, err := rdr.ToOCIConfig()
		o.err = err
		o.clean = err == nil
		if err == nil {
			o.acc, _ = oc.RawBody()
		}
		return o
	case c.Mode == "rawbody":
		o.acc, o.err = rdr.RawBody()
		o.clean = o.err == nil
		return o
	case strings.HasPrefix(c.Mode, "rewind@"):
		k, _ := strconv.Atoi(c.Mode[7:])
		buf := make([]byte, k)
		if k > 0 {
			if _, err := io.ReadFull(rdr, buf); err != nil {
				o.err = err
				return o
			}
		}
		if _, err := rdr.Seek(0, io.SeekStart); err != nil {
			o.err = err
			return o
		}
		o.pass2 = true
	}
	o.acc, o.err = readAll(rdr, c.Reads)
	o.clean = o.err == io.EOF
	return o
}

func judge(c Case, o outcome) (string, string) {
	x := contentBytes(c.Content)
	if strings.HasPrefix(c.Mode, "tar-") || c.Mode == "ociconfig" {
		// structured readers: "clean" means the reader reported that it consumed and accepted the
		// whole blob (RawBody / ToOCIConfig returned nil; ReadFile of an absent name answered "not
		// found", which it may only say after reading to the end)
		y := xform(x, c.Xform)
		if c.Mode == "tar-peek-rewind" {
			if o.clean && !bytes.Equal(o.acc, x) {
				return "clean-read-of-wrong-content structured-reader", fmt.Sprintf("after a look through the tar view and a rewind the raw read ended cleanly on %d bytes that are not the content the descriptor names (%d bytes)", len(o.acc), len(x))
			}
			if !o.clean && bytes.Equal(y, x) && c.Stated == "" {
				return "observed:intact-stream-unreadable structured-reader", fmt.Sprintf("mode %s failed on intact content: %v", c.Mode, o.err)
			}
			return "", ""
		}
		if o.clean && !bytes.Equal(y, x) {
			return "clean-read-of-wrong-content structured-reader", fmt.Sprintf("mode %s reported the blob as read to the end and accepted, but the stored/served bytes differ from the content the descriptor names (%s)", c.Mode, c.Xform)
		}
		if !o.clean && bytes.Equal(y, x) && c.Stated == "" {
			return "observed:intact-stream-unreadable structured-reader", fmt.Sprintf("mode %s failed on intact content: %v", c.Mode, o.err)
		}
		return "", ""
	}
	if o.clean && c.Stated != "" {
		// the descriptor states a size (> 0, so it is a statement and not "unknown") that differs from
		// the number of bytes delivered
		if st := statedSize(len(x), c.Stated); st > 0 && st != int64(len(o.acc)) {
			return "clean-read-of-wrong-length stated-size-ignored", fmt.Sprintf("read completed without error and delivered %d bytes, the descriptor states %d", len(o.acc), st)
		}
	}
	if o.clean {
		if !bytes.Equal(o.acc, x) {
			// clean completion with bytes that do not hash to the descriptor's digest (the intended
			// content is the only string of this alphabet and length range with that digest)
			k := "clean-read-of-wrong-content"
			if len(o.acc) != len(x) && c.Sized {
				k = "clean-read-of-wrong-length"
			}
			return k, fmt.Sprintf("read completed without error but delivered %q, descriptor names %q (digest %s)", o.acc, x, dig(c.Algo, x))
		}
		return "", ""
	}
	if o.err != nil && strings.Contains(o.err.Error(), "harness:") {
		return "no-termination", o.err.Error()
	}
	// non-vacuity / liveness: an intact stream must be readable
	intact := c.Stated == "" && c.Xform == "id" && (c.CL == "right" || c.CL == "absent" || c.CL == "intended") &&
		(len(c.Drops) == 0 || ((c.Resume == "correct" || c.Resume == "500-then-correct") && (c.Sized || c.CL != "absent")))
	// (a drop can only be recognised and resumed when the total length is known from the descriptor
	// or the Content-Length header; without either the early end is reported as an error, which the
	// statement allows)
	if intact && len(c.Drops) <= 1 {
		return "observed:intact-stream-unreadable", fmt.Sprintf("the served stream is intact but the read failed: %v", o.err)
	}
	return "", ""
}

func compositions(n int) [][]int {
	// all ways to read n bytes with sizes from {1,2,3}, followed by a large read for EOF; plus one
	// single large read, one with interleaved zero-length reads
	var out [][]int
	var rec func(rem int, cur []int)
	rec = func(rem int, cur []int) {
		if rem <= 0 {
			out = append(out, append(append([]int{}, cur...), 8))
			return
		}
		for _, s := range []int{1, 2, 3} {
			if s <= rem+0 {
				rec(rem-s, append(cur, s))
			}
		}
	}
	rec(n, nil)
	out = append(out, []int{64})
	out = append(out, []int{0, 1, 0, 2, 0, 64})
	return out
}

func contents(maxLen int) []string {
	out := []string{""}
	frontier := []string{""}
	for l := 1; l <= maxLen; l++ {
		var next []string
		for _, s := range frontier {
			next = append(next, s+"a", s+"b")
		}
		out = append(out, next...)
		frontier = next
	}
	return out
}

func xforms(n int) []string {
	xs := []string{"id", "extra1", "extra2", "subst-longer"}
	for k := 0; k < n; k++ {
		xs = append(xs, fmt.Sprintf("flip@%d", k), fmt.Sprintf("trunc@%d", k))
	}
	if n > 0 {
		xs = append(xs, "subst-same", "subst-shorter")
	}
	return xs
}

func enumerate(thorough bool, emit func(Case)) {
	maxLen := 4
	if thorough {
		maxLen = 6
	}
	cs := contents(maxLen)
	cs = append(cs, strings.Repeat("ab", 35))
	resumes := []string{"correct", "shift-1", "shift+1", "other-bytes", "full-200", "206-no-content-range", "416", "500-then-correct"}
	for _, x := range cs {
		n := len(x)
		long := n > 10
		for _, algo := range []string{"sha256", "sha512"} {
			for _, sized := range []bool{true, false} {
				xfs := xforms(n)
				if long {
					xfs = []string{"id", "flip@0", "flip@35", "flip@69", "trunc@1", "trunc@69", "extra1", "subst-same"}
				}
				for _, xf := range xfs {
					served := len(xform([]byte(x), xf))
					var comps [][]int
					if long || (algo == "sha512" && !thorough) {
						comps = [][]int{{64}, {1, 2, 3, 64}, {7}}
					} else {
						comps = compositions(served)
					}
					// registry
					for _, cl := range []string{"right", "absent", "plus1", "minus1", "intended"} {
						if cl == "minus1" && served == 0 {
							continue
						}
						for _, rd := range comps {
							for _, sep := range []bool{false, true} {
								emit(Case{Content: x, Algo: algo, Sized: sized, Store: "reg", Xform: xf, CL: cl, Reads: rd, EOFSep: sep, Mode: "read"})
							}
						}
						emit(Case{Content: x, Algo: algo, Sized: sized, Store: "reg", Xform: xf, CL: cl, Mode: "rawbody"})
						for k := 0; k <= min(served, 3); k++ {
							emit(Case{Content: x, Algo: algo, Sized: sized, Store: "reg", Xform: xf, CL: cl, Reads: []int{2, 64}, Mode: fmt.Sprintf("rewind@%d", k)})
						}
					}
					// layout
					for _, rd := range comps {
						emit(Case{Content: x, Algo: algo, Sized: sized, Store: "dir", Xform: xf, CL: "right", Reads: rd, Mode: "read"})
					}
					emit(Case{Content: x, Algo: algo, Sized: sized, Store: "dir", Xform: xf, CL: "right", Mode: "rawbody"})
					for k := 0; k <= min(served, 2); k++ {
						emit(Case{Content: x, Algo: algo, Sized: sized, Store: "dir", Xform: xf, CL: "right", Reads: []int{2, 64}, Mode: fmt.Sprintf("rewind@%d", k)})
					}
					// drops and resumes (registry)
					if algo == "sha256" || thorough {
						for d1 := 0; d1 < served; d1++ {
							for _, rs := range resumes {
								for _, rd := range [][]int{{64}, {1, 64}, {2, 1, 64}} {
									for _, cl := range []string{"right", "absent"} {
										emit(Case{Content: x, Algo: algo, Sized: sized, Store: "reg", Xform: xf, CL: cl, Reads: rd, Drops: []int{d1}, Resume: rs, Mode: "read"})
									}
								}
								if thorough || !long {
									for d2 := d1; d2 < served && d2 <= d1+2; d2++ {
										emit(Case{Content: x, Algo: algo, Sized: sized, Store: "reg", Xform: xf, CL: "right", Reads: []int{2, 64}, Drops: []int{d1, d2}, Resume: rs, Mode: "read"})
									}
								}
							}
						}
					}
				}
				// the registry announces a digest of its own
				for _, dcd := range []string{"intended", "served", "served-other-algo"} {
					for _, xf := range []string{"id", "subst-same", "subst-longer", "subst-shorter", "flip@0", "extra1"} {
						if (xf == "flip@0" || xf == "subst-shorter") && n == 0 {
							continue
						}
						for _, cl := range []string{"right", "absent"} {
							for _, rd := range [][]int{{64}, {1, 64}} {
								for _, sep := range []bool{false, true} {
									emit(Case{Content: x, Algo: algo, Sized: sized, Store: "reg", Xform: xf, CL: cl, Reads: rd, EOFSep: sep, Mode: "read", DCD: dcd})
								}
							}
							emit(Case{Content: x, Algo: algo, Sized: sized, Store: "reg", Xform: xf, CL: cl, Mode: "rawbody", DCD: dcd})
							emit(Case{Content: x, Algo: algo, Sized: sized, Store: "reg", Xform: xf, CL: cl, Reads: []int{2, 64}, Mode: fmt.Sprintf("rewind@%d", min(1, len(xform([]byte(x), xf)))), DCD: dcd})
						}
					}
				}
				// a foreign layer: the registry answers 404, the bytes come from the URL the descriptor carries
				for _, xf := range xfs {
					for _, cl := range []string{"right", "absent", "intended"} {
						for _, dcd := range []string{"", "served"} {
							for _, rd := range [][]int{{64}, {1, 64}, {1, 2, 3, 64}} {
								emit(Case{Content: x, Algo: algo, Sized: sized, Store: "ext", Xform: xf, CL: cl, Reads: rd, Mode: "read", DCD: dcd})
							}
							emit(Case{Content: x, Algo: algo, Sized: sized, Store: "ext", Xform: xf, CL: cl, Mode: "rawbody", DCD: dcd})
							emit(Case{Content: x, Algo: algo, Sized: sized, Store: "ext", Xform: xf, CL: cl, Reads: []int{2, 64}, Mode: "rewind@1", DCD: dcd})
						}
					}
					if served := len(xform([]byte(x), xf)); served > 1 {
						for _, rs := range []string{"correct", "shift+1", "other-bytes", "full-200"} {
							emit(Case{Content: x, Algo: algo, Sized: sized, Store: "ext", Xform: xf, CL: "right", Reads: []int{1, 64}, Drops: []int{served / 2}, Resume: rs, Mode: "read"})
						}
					}
				}
				// a descriptor whose stated size differs from the content it names (digest right)
				if sized {
					for _, st := range []string{"plus1", "minus1", "half", "double"} {
						if v := statedSize(n, st); v <= 0 || v == int64(n) {
							continue // size 0 means unknown
						}
						for _, xf := range []string{"id", "extra1", "trunc@1"} {
							if xf == "trunc@1" && n < 2 {
								continue
							}
							for _, store := range []string{"reg", "dir", "inline"} {
								cls := []string{"right"}
								if store == "reg" {
									cls = []string{"right", "absent", "intended"}
								}
								for _, cl := range cls {
									for _, rd := range [][]int{{64}, {1, 64}, {2, 1, 64}} {
										emit(Case{Content: x, Algo: algo, Sized: true, Store: store, Xform: xf, CL: cl, Reads: rd, Mode: "read", Stated: st, Data: "right"})
									}
									emit(Case{Content: x, Algo: algo, Sized: true, Store: store, Xform: xf, CL: cl, Mode: "rawbody", Stated: st, Data: "right"})
									emit(Case{Content: x, Algo: algo, Sized: true, Store: store, Xform: xf, CL: cl, Reads: []int{2, 64}, Mode: "rewind@1", Stated: st, Data: "right"})
								}
							}
						}
					}
				}
				// inline data
				for _, data := range []string{"right", "wrong"} {
					for _, xf := range []string{"id", "subst-same", "extra1"} {
						if xf == "subst-same" && n == 0 {
							continue
						}
						emit(Case{Content: x, Algo: algo, Sized: sized, Store: "inline", Xform: xf, CL: "right", Reads: []int{1, 64}, Mode: "read", Data: data})
					}
				}
			}
		}
	}
}

// structured: the readers layered on the blob reader (tar walker, config parser) on real tar /
// gzip / JSON content, damaged at every position class
func enumerateStructured(emit func(Case)) {
	for _, cn := range []string{"@tar", "@tarpad", "@targz", "@config"} {
		n := len(symContent[cn])
		var offs []int
		for _, k := range []int{0, 1, 100, 156, 257, 511, 512, 513, 516, 517, 1023, 1024, 1025, 1535, 1536, 2047, 2048, 6144, 6145, n / 2, n - 9, n - 8, n - 4, n - 1} {
			if k >= 0 && k < n {
				offs = append(offs, k)
			}
		}
		var xfs []string
		seen := map[int]bool{}
		for _, k := range offs {
			if !seen[k] {
				seen[k] = true
				xfs = append(xfs, fmt.Sprintf("flip@%d", k))
			}
		}
		xfs = append([]string{"id"}, xfs...)
		xfs = append(xfs, fmt.Sprintf("trunc@%d", n-1), fmt.Sprintf("trunc@%d", n/2), "extra1", "extra2")
		modes := []string{"tar-rawbody", "tar-missing-file", "tar-walk", "tar-peek-rewind"}
		if cn == "@config" {
			modes = []string{"ociconfig"}
		}
		for _, algo := range []string{"sha256", "sha512"} {
			for _, sized := range []bool{true, false} {
				for _, store := range []string{"reg", "dir"} {
					for _, xf := range xfs {
						for _, m := range modes {
							cls := []string{"right"}
							if store == "reg" {
								cls = []string{"right", "absent"}
							}
							for _, cl := range cls {
								emit(Case{Content: cn, Algo: algo, Sized: sized, Store: store, Xform: xf, CL: cl, Mode: m})
							}
						}
					}
				}
			}
		}
	}
}

func TestVerifC01(t *testing.T) {
	rec := ev.New()
	defer rec.Flush(t)
	rec.Rule("case = content (all strings over {a,b} of length 0..4, thorough 0..6, plus one 70-byte string) x digest algorithm x size stated/unknown/stated wrongly (±1, half, double; digest right) x store {registry (scripted transport), external URL of the descriptor after the registry's 404, OCI layout file, inline data} x served-stream transformation {identity, flip at every offset, truncation at every offset, 1-2 extra bytes, substitution of equal / greater / smaller length} x Content-Length {right, absent, +1, -1, of the intended content} x Docker-Content-Digest header {absent, the digest asked by, the digest of what is served, that digest in the other algorithm} x every composition of read sizes from {1,2,3} (plus large reads and zero-length reads) x EOF with / after the last data x mode {read, RawBody, rewind after k bytes then read}; plus the structured readers on real content (a tar, a gzip-compressed tar, a config JSON; flips at 21 positions incl. header, data, padding and trailer, truncations, extra bytes): BTarReader.RawBody, ReadFile of an absent name, a full walk followed by that search, a look at one file through the tar view followed by a rewind and a raw read of the blob, ToOCIConfig x connection drops at every offset (1, and 2 nearby) x range answer {correct, shifted -1/+1, other bytes, 200 full body, 206 without Content-Range, 416, 500 then correct}. " +
		"Oracle: a read that ends in io.EOF delivered exactly the intended content (the only string of the alphabet with that digest); an intact stream (with correct resumes) must be readable. distinct_nontrivial = cases whose served stream differs from the intended content or involves a drop")
	rec.Assume("the scripted transport hands out bodies the way net/http does (never more than Content-Length bytes; early close = unexpected EOF)")
	rec.Assume("two distinct strings of the enumerated alphabet never share a digest")
	if rd := rec.ReplayData(); rd != nil {
		var c Case
		if err := json.Unmarshal(rd, &c); err != nil {
			rec.HarnessError("replay: %v", err)
			return
		}
		var o outcome
		qsched.Bubble(t, func() { o = run(t, c, rec.Scratch) })
		k, m := judge(c, o)
		fmt.Printf("replay %s\nclean=%v acc=%q err=%v\nverdict: %s %s\n", c, o.clean, o.acc, o.err, k, m)
		rec.Eval(1)
		if k != "" {
			rec.Violation(key(k, c), m, c)
		}
		return
	}
	var batch []Case
	var nCorruptRejected, nCorrupt, nIntactOK int64
	flush := func() {
		if len(batch) == 0 {
			return
		}
		cases := batch
		batch = nil
		qsched.Bubble(t, func() {
			for _, c := range cases {
				dir, _ := os.MkdirTemp(rec.Scratch, "c01")
				o := run(t, c, dir)
				os.RemoveAll(dir)
				k, m := judge(c, o)
				rec.Eval(1)
				corrupt := c.Xform != "id" || len(c.Drops) > 0 || (c.CL != "right" && c.CL != "absent") || c.Data == "wrong"
				if corrupt {
					rec.Distinct(c.String())
					nCorrupt++
					if !o.clean {
						nCorruptRejected++
					}
				} else if o.clean {
					nIntactOK++
				}
				if k != "" {
					rec.Violation(key(k, c), m+"\ncase: "+c.String(), c)
				}
			}
		})
	}
	i := 0
	var sample int
	both := func(emit func(Case)) {
		enumerateStructured(emit)
		enumerate(rec.Thorough(), emit)
	}
	both(func(c Case) {
		i++
		if !rec.Mine(i / 64) { // blocks of 64 consecutive cases per shard
			return
		}
		if rec.Expired() {
			rec.NotExhaustive("budget reached")
			return
		}
		batch = append(batch, c)
		if len(batch) >= 256 {
			flush()
		}
		if sample < 3 && (len(c.Drops) > 0 || c.Xform != "id") && i%9973 == 0 {
			rec.Sample(json.RawMessage(c.String()))
			sample++
		}
	})
	flush()
	rec.Count("corrupt_or_dropped_cases", nCorrupt)
	rec.Count("corrupt_or_dropped_cases_not_clean", nCorruptRejected)
	rec.Count("intact_cases_read_cleanly", nIntactOK)
	if nCorrupt > 1000 && nCorruptRejected == 0 {
		rec.HarnessError("vacuous: no corrupt stream ever produced an error")
	}
	if sample == 0 {
		rec.Sample(json.RawMessage(Case{Content: "ab", Algo: "sha256", Sized: true, Store: "reg", Xform: "flip@1", CL: "right", Reads: []int{1, 8}, Mode: "read"}.String()))
	}
}

// key: clause + store + what was wrong with the stream (kind only) + mode kind
func key(k string, c Case) string {
	xf := c.Xform
	if i := strings.IndexByte(xf, '@'); i > 0 {
		xf = xf[:i]
	}
	mode := c.Mode
	if i := strings.IndexByte(mode, '@'); i > 0 {
		mode = mode[:i]
	}
	dr := "nodrop"
	if len(c.Drops) > 0 {
		dr = fmt.Sprintf("drops=%d resume=%s", len(c.Drops), c.Resume)
	}
	return fmt.Sprintf("%s store=%s xform=%s cl=%s sized=%v %s mode=%s", k, c.Store, xf, c.CL, c.Sized, dr, mode)
}
