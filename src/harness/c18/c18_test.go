package main

// C18 — after a sync run every selected source tag is mirrored; nothing else is touched.
//
// Every case generates a regsync YAML configuration, loads it with ConfigLoadReader, and runs the
// body of `regsync once` / `once --missing` / `check` (rootOpts.process per entry, exactly what
// runOnce / runCheck do after loadConf) with rootOpts.rc replaced by a regclient whose transport is a
// modelreg.Net: no sockets, every request logged, raw stores open to the oracle. The oracle
// (c18_oracle_test.go) compares full dumps of the source and the target registry before and after
// every run against an independent reference of the filters, platform, backup names and actions.
//
// The enumeration is a union of explicitly bounded blocks (see c18Cases); every case of every block
// is executed. Nothing is sampled.

import (
	"encoding/json"
	"fmt"
	"os"
	"strings"
	"testing"

	"github.com/regclient/regclient/internal/verif/audit"
	"github.com/regclient/regclient/internal/verif/ev"
	"github.com/regclient/regclient/internal/verif/modelreg"
)

// every c18CLIStride-th case of the enumeration is additionally run through the command line
const c18CLIStride = 19

var c18Alphabet = []string{"v1", "v.*", "v[12]", ".*", "latest", "v1|v2"}

// c18Lists: every list of 0..2 distinct alphabet entries; ordered = both orders of a pair.
func c18Lists(ordered bool) [][]string {
	out := [][]string{nil}
	for _, a := range c18Alphabet {
		out = append(out, []string{a})
	}
	for i, a := range c18Alphabet {
		for k, b := range c18Alphabet {
			if i == k || (!ordered && k < i) {
				continue
			}
			out = append(out, []string{a, b})
		}
	}
	return out
}

type c18Filt struct{ Allow, Deny []string }

// reduced filter set used where the other dimensions are multiplied out
var c18FiltSmall = []c18Filt{
	{nil, nil},
	{[]string{"v.*"}, []string{"v3"}},
	{[]string{"v1|v2"}, nil},
	{[]string{".*"}, []string{"latest", "v[12]"}},
	{[]string{"v1", "latest"}, []string{"v1"}},
	{nil, []string{"v.*"}},
}

type c18Pop struct{ Src, Tgt string }

var c18AllSrc = []string{"S-base", "S-idx", "S-near", "S-dt", "S-one"}
var c18AllTgt = []string{"T-empty", "T-part", "T-moved", "T-extra"}

// c18SwitchSets: none and every single switch; all = every subset of the four switches.
func c18SwitchSets(all bool) [][]string {
	sw := []string{"referrers", "digestTags", "fastCheck", "forceRecursive"}
	var out [][]string
	for m := 0; m < 16; m++ {
		var set []string
		for b := 0; b < 4; b++ {
			if m&(1<<b) != 0 {
				set = append(set, sw[b])
			}
		}
		if all || len(set) <= 1 {
			out = append(out, set)
		}
	}
	return out
}

func c18Subsets5() []string {
	var out []string
	for m := 0; m < 32; m++ {
		s := ""
		for b := 0; b < 5; b++ {
			if m&(1<<b) != 0 {
				s += "1"
			} else {
				s += "0"
			}
		}
		out = append(out, s)
	}
	return out
}

const c18RuleText = "union of bounded blocks, every case executed on the real regsync code (generated YAML → ConfigLoadReader → rootOpts.process per entry exactly as runOnce/runCheck do, client over model registries; every 19th case additionally through NewRootCmd().Execute() `once [--missing]|check -c file`): " +
	"A = tags.allow × tags.deny over all ordered lists of 0-2 distinct entries of {v1, v.*, v[12], .*, latest, v1|v2} (37×37) × type {repository, registry} × (action, source population, target population) [quick: 5 triples; thorough: 3 actions × 5 source × 4 target]; " +
	"B = entry shapes ({repository, registry} × 6 filter pairs ∪ image {v1→v1, v3→stable, latest→latest} × {no filter, a filter that would exclude the tag}) × platform {none, linux/amd64} × backup {none, bkup-{{.Ref.Tag}}, {{.Ref.Registry}}/backups/{{.Ref.Repository}}:{{.Ref.Tag}}} × switches {none, referrers, digestTags, fastCheck, forceRecursive one at a time; referrers also against a target without the referrers API} [thorough: every subset of the four switches, × mediaTypes {default, OCI only}] × action {copy, check, missing} × 5 source × 4 target populations × two-run history (run, re-point source tags v1 and dev, run again); " +
	"C = 2-4 entries into distinct target repositories with defaults.parallel {1,2,4} [thorough 1-4], entry goroutines as in runOnce, × backup × action × populations; " +
	"D = every subset of {v1,v2,v3,latest,dev} at the source × every subset at the target (pointing at another image) with --missing [thorough: also copy, 3 filter pairs]; " +
	"E = registry entries with repos.allow × repos.deny lists of 0-1 entries of {proj/app, proj/.*, proj/app|proj/lib, .*lib} over a source registry holding proj/app, proj/app2, proj/lib. " +
	"Source populations: S-base {v1:G1 v2:G2 v3:G3 latest:G13 dev:G1}, S-idx {v1:G3 v2:G13 latest:G3 dev:G2}, S-near {v1 v2 v10 dev2 dev} (near-miss names for anchoring), S-dt (G14 with digest tags), S-one {latest:G3}; G1 OCI image, G2 Docker image, G3 two-platform index, G13 image with referrers. Target populations: empty, partially equal, tags moved to other images, extra unrelated tags and repositories. " +
	"evaluations = judged runs (both routes). distinct_nontrivial = process-route runs (keyed by case number and run number) in which the independent reference demanded at least one tag write (a selected source tag whose target tag was absent or pointed elsewhere) or, for check, saw that a sync was needed."

// c18Cases is the stated bound (see c18RuleText).
func c18Cases(thorough bool) []c18Case {
	var cs []c18Case
	lists := c18Lists(true)
	var pops []c18Pop
	for _, s := range c18AllSrc {
		for _, t := range c18AllTgt {
			pops = append(pops, c18Pop{s, t})
		}
	}

	// ---- A
	type aps struct {
		action string
		p      c18Pop
	}
	var apsL []aps
	if thorough {
		for _, a := range []string{"copy", "check", "missing"} {
			for _, p := range pops {
				apsL = append(apsL, aps{a, p})
			}
		}
	} else {
		apsL = []aps{
			{"copy", c18Pop{"S-base", "T-extra"}},
			{"copy", c18Pop{"S-near", "T-empty"}},
			{"copy", c18Pop{"S-near", "T-extra"}},
			{"check", c18Pop{"S-near", "T-moved"}},
			{"missing", c18Pop{"S-near", "T-extra"}},
		}
	}
	for _, al := range lists {
		for _, dl := range lists {
			for _, typ := range []string{"repository", "registry"} {
				for _, ap := range apsL {
					cs = append(cs, c18Case{Block: "A", Entries: []c18Entry{{Type: typ, Allow: al, Deny: dl}}, Action: ap.action, Src: ap.p.Src, Tgt: ap.p.Tgt})
				}
			}
		}
	}

	// ---- B
	var shapes []c18Entry
	for _, f := range c18FiltSmall {
		for _, typ := range []string{"repository", "registry"} {
			shapes = append(shapes, c18Entry{Type: typ, Allow: f.Allow, Deny: f.Deny})
		}
	}
	for _, it := range [][2]string{{"v1", "v1"}, {"v3", "stable"}, {"latest", "latest"}} {
		shapes = append(shapes, c18Entry{Type: "image", SrcTag: it[0], TgtTag: it[1]})
		shapes = append(shapes, c18Entry{Type: "image", SrcTag: it[0], TgtTag: it[1], Allow: []string{"v2"}, Deny: []string{it[0]}})
	}
	mts := []string{""}
	if thorough {
		mts = []string{"", "oci"}
	}
	for _, sh := range shapes {
		for _, plat := range []string{"", "linux/amd64"} {
			for _, bk := range []string{"", "tag", "repo"} {
				for _, sw := range c18SwitchSets(thorough) {
					feats := []string{""}
					if c18In(sw, "referrers") {
						feats = []string{"", "noref"}
					}
					for _, feat := range feats {
						for _, mt := range mts {
							for _, act := range []string{"copy", "check", "missing"} {
								for _, p := range pops {
									e := sh
									e.Platform, e.Backup, e.Switches, e.MediaTypes = plat, bk, sw, mt
									cs = append(cs, c18Case{Block: "B", Entries: []c18Entry{e}, Parallel: 1, Action: act, Src: p.Src, Tgt: p.Tgt, TgtFeat: feat, History: "move"})
								}
							}
						}
					}
				}
			}
		}
	}

	// ---- C
	laneEntry := func(i int, bk string) c18Entry {
		f := c18FiltSmall[(i+1)%len(c18FiltSmall)]
		e := c18Entry{Type: "repository", TgtRepo: fmt.Sprintf("mirror/app-%d", i), Allow: f.Allow, Deny: f.Deny, Backup: bk}
		if i == 3 {
			e = c18Entry{Type: "image", SrcTag: "v1", TgtTag: "v1", TgtRepo: "mirror/app-3", Backup: bk}
		}
		if i == 1 {
			e.Platform = "linux/amd64"
		}
		return e
	}
	cPar, cBk, cAct := []int{1, 2, 4}, []string{"tag", "repo"}, []string{"copy"}
	cPops := []c18Pop{{"S-base", "T-extra"}, {"S-idx", "T-moved"}, {"S-near", "T-part"}, {"S-dt", "T-empty"}}
	if thorough {
		cPar, cBk, cAct = []int{1, 2, 3, 4}, []string{"", "tag", "repo"}, []string{"copy", "missing", "check"}
		cPops = pops
	}
	for _, k := range []int{2, 3, 4} {
		for _, par := range cPar {
			for _, bk := range cBk {
				for _, act := range cAct {
					for _, p := range cPops {
						var es []c18Entry
						for i := 0; i < k; i++ {
							es = append(es, laneEntry(i, bk))
						}
						cs = append(cs, c18Case{Block: "C", Entries: es, Parallel: par, Action: act, Src: p.Src, Tgt: p.Tgt, History: "move"})
					}
				}
			}
		}
	}

	// ---- D
	dF := c18FiltSmall[:1]
	dAct := []string{"missing"}
	if thorough {
		dF = c18FiltSmall[:3]
		dAct = []string{"missing", "copy"}
	}
	for _, f := range dF {
		for _, act := range dAct {
			for _, s := range c18Subsets5() {
				for _, t := range c18Subsets5() {
					cs = append(cs, c18Case{Block: "D", Entries: []c18Entry{{Type: "repository", Allow: f.Allow, Deny: f.Deny}}, Action: act, Src: "sub:" + s, Tgt: "tsub:" + t})
				}
			}
		}
	}

	// ---- G: referrers / digest tags requested on the entry or inherited from the defaults block
	for _, sw := range [][]string{{"referrers"}, {"digestTags"}, {"referrers", "digestTags"}, {"digestTags", "forceRecursive"}, {"referrers", "fastCheck"}} {
		for _, inDef := range []bool{false, true} {
			for _, p := range []c18Pop{{"S-base", "T-empty"}, {"S-dt", "T-empty"}, {"S-dt", "T-part"}, {"S-idx", "T-moved"}, {"S-base", "T-same"}} {
				for _, feat := range []string{"", "noref"} {
					for _, sh := range []c18Entry{{Type: "repository", Allow: []string{"v.*", "latest"}}, {Type: "image", SrcTag: "latest", TgtTag: "latest"}, {Type: "image", SrcTag: "v1", TgtTag: "one"}, {Type: "registry", Allow: []string{".*"}}} {
						e := sh
						e.Switches, e.InDefaults = sw, inDef
						cs = append(cs, c18Case{Block: "G", Entries: []c18Entry{e}, Parallel: 1, Action: "copy", Src: p.Src, Tgt: p.Tgt, TgtFeat: feat})
					}
				}
			}
		}
	}

	// ---- F: lasting refusals (a run that cannot mirror a selected tag must not report success)
	for _, fault := range []string{"tgt-refuses:v1", "tgt-refuses:v2", "tgt-refuses:latest", "src-blob-gone"} {
		for _, par := range []int{0, 1, 2} {
			for _, p := range []c18Pop{{"S-base", "T-empty"}, {"S-base", "T-part"}, {"S-idx", "T-moved"}} {
				for _, act := range []string{"copy", "missing"} {
					cs = append(cs, c18Case{Block: "F", Entries: []c18Entry{{Type: "repository", Allow: []string{"v.*", "latest"}}}, Parallel: par, Action: act, Src: p.Src, Tgt: p.Tgt, Fault: fault})
					cs = append(cs, c18Case{Block: "F", Entries: []c18Entry{{Type: "registry", Allow: []string{"v.*", "latest"}}}, Parallel: par, Action: act, Src: p.Src, Tgt: p.Tgt, Fault: fault})
					cs = append(cs, c18Case{Block: "F", Entries: []c18Entry{{Type: "image", SrcTag: "v1", TgtTag: "v1"}, {Type: "image", SrcTag: "v2", TgtTag: "v2", TgtRepo: "mirror/two"}}, Parallel: par, Action: act, Src: p.Src, Tgt: p.Tgt, Fault: fault})
				}
			}
		}
	}

	// ---- E
	rl := [][]string{nil, {"proj/app"}, {"proj/.*"}, {"proj/app|proj/lib"}, {".*lib"}}
	ePops := []c18Pop{{"S-base", "T-extra"}, {"S-near", "T-empty"}, {"S-idx", "T-moved"}, {"S-base", "T-part"}}
	if thorough {
		ePops = pops
	}
	for _, ra := range rl {
		for _, rd := range rl {
			for _, p := range ePops {
				cs = append(cs, c18Case{Block: "E", Entries: []c18Entry{{Type: "registry", RepoAllow: ra, RepoDeny: rd, Allow: []string{"v.*"}}}, Action: "copy", Src: p.Src, Tgt: p.Tgt, App2: true})
				if p == ePops[0] || thorough {
					// the source hands out its catalogue in pages (some of which the filter empties)
					for _, cp := range []int{1, 2, 3} {
						cs = append(cs, c18Case{Block: "E", Entries: []c18Entry{{Type: "registry", RepoAllow: ra, RepoDeny: rd, Allow: []string{"v.*"}}}, Action: "copy", Src: p.Src, Tgt: p.Tgt, App2: true, CatPage: cp})
					}
				}
			}
		}
	}
	return cs
}

type c18Result struct {
	Judges []*c18Judge
	Viols  []c18Viol
	Final  c18Snap
}

// c18Canonical lists the content of both registries for the comparison of the two routes. Referrers
// fallback tags (sha256-<hex>) and the indexes they point to are left out: the order of the entries in
// such an index depends on the order in which concurrently copied referrers arrive.
func c18Canonical(w *c18World) map[string]bool {
	out := map[string]bool{}
	w.net.With(func() {
		for hn, h := range w.net.Hosts {
			for rn, r := range h.Repos {
				pfx := hn + "/" + rn + " "
				out[pfx+"repository"] = true
				for t, d := range r.Tags {
					if m := c18DigestTagRe.FindStringSubmatch(t); m != nil && m[3] == "" {
						continue
					}
					out[pfx+"tag "+t+"="+c18Short(d)] = true
				}
				for d := range r.Blobs {
					out[pfx+"blob "+c18Short(d)] = true
				}
				for d, m := range r.Manifests {
					if c18IsIndex(m.MediaType) {
						refs := audit.References(m.Body, false)
						fallback := len(refs) > 0
						for _, c := range refs {
							cm := r.Manifests[c]
							if cm == nil || audit.Subject(cm.Body) == "" {
								fallback = false
							}
						}
						if fallback {
							continue
						}
					}
					out[pfx+"manifest "+c18Short(d)] = true
				}
			}
		}
	})
	return out
}

// c18RouteDiff compares the final stores of the two routes ("" when equal).
func c18RouteDiff(a, b *c18World) string {
	ca, cb := c18Canonical(a), c18Canonical(b)
	var out []string
	for _, k := range c18SortedKeys(ca) {
		if !cb[k] {
			out = append(out, "only process route: "+k)
		}
	}
	for _, k := range c18SortedKeys(cb) {
		if !ca[k] {
			out = append(out, "only command-line route: "+k)
		}
	}
	return strings.Join(out, " | ")
}

// c18Exec runs one case (one or two runs) and judges every run. cliScratch != "" selects the
// command-line route (NewRootCmd().Execute()).
func c18Exec(c c18Case, verbose bool, cliScratch string) (*c18World, *c18Result) {
	w := c18NewWorld(c)
	res := &c18Result{}
	runs := 1
	if c.History == "move" {
		runs = 2
	}
	for r := 1; r <= runs; r++ {
		if r == 2 {
			w.moveSource()
		}
		pre := w.snapshot()
		var err error
		var log []*modelreg.Entry
		var evts []c18PutEvt
		if cliScratch != "" {
			err, log, evts = w.runCLI(cliScratch)
		} else {
			err, log, evts = w.run()
		}
		post := w.snapshot()
		res.Final = post
		j := c18Judgement(w, r, pre, post, err, log, evts)
		res.Judges = append(res.Judges, j)
		res.Viols = append(res.Viols, j.viols...)
		if verbose {
			fmt.Printf("---- run %d: err=%v, %d requests, %d tag PUTs at the target\n", r, err, len(log), len(evts))
			for _, h := range []string{c18SrcHost, c18TgtHost} {
				for _, rn := range c18UnionKeys(pre[h], post[h]) {
					fmt.Printf("  %s/%s before: %s\n", h, rn, c18TagLine(pre[h][rn]))
					fmt.Printf("  %s/%s after:  %s\n", h, rn, c18TagLine(post[h][rn]))
				}
			}
			for _, e := range log {
				if e.Mutating() && e.Kind == "manifest-put" {
					fmt.Printf("  #%d %s\n", e.Seq, e)
				}
			}
			for _, v := range j.viols {
				fmt.Printf("  VIOLATION %s: %s\n", v.Key, v.Msg)
			}
		}
	}
	return w, res
}

func c18TagLine(r *c18RepoSnap) string {
	if r == nil {
		return "<no repository>"
	}
	var ps []string
	for _, t := range c18SortedKeys(r.Tags) {
		ps = append(ps, t+"="+c18Short(r.Tags[t]))
	}
	return fmt.Sprintf("{%s} manifests=%d blobs=%d", strings.Join(ps, " "), len(r.Manifests), len(r.Blobs))
}

func TestVerifC18(t *testing.T) {
	rec := ev.New()
	defer rec.Flush(t)
	c18InitGraphs()
	rec.Rule(c18RuleText)
	rec.Assume("modelreg (in-memory distribution-spec registry with referential validation) stands for the registries; Go's regexp package is trusted for the full-match reference ^(?:re)$")
	rec.Assume("tag filters do not apply to type image entries (docs/regsync.md: filters are implemented for registry and repository types); a --missing run must leave existing target tags alone; a media type outside mediaTypes excludes the tag like a filter")
	rec.Assume("with platform configured, a target tag that already equalled the source index before the run may keep it (statement: same digest as at the source, or the platform's)")
	rec.Assume("target pre-states are referentially closed (every manifest present has its content); runs that return an error are judged only for the check-only and backup clauses and for the source being unchanged")
	rec.SampleCap = 3

	if rd := rec.ReplayData(); rd != nil {
		var c c18Case
		if err := json.Unmarshal(rd, &c); err != nil {
			rec.HarnessError("replay: %v", err)
			return
		}
		fmt.Printf("REPLAY case %s\n---- generated configuration\n%s", c, c18YAML(c))
		cli := ""
		if c.CLI {
			cli = rec.Scratch
			fmt.Println("(command-line route: NewRootCmd().Execute())")
		}
		_, res := c18Exec(c, true, cli)
		rec.Eval(int64(len(res.Judges)))
		for _, v := range res.Viols {
			rec.Violation(v.Key, v.Msg+"\ncase "+c.String()+"\n"+c18YAML(c), c)
		}
		if len(res.Viols) == 0 {
			fmt.Println("REPLAY: no violation reproduced")
		}
		return
	}

	cases := c18Cases(rec.Thorough())
	rec.Info("cases_in_bound", len(cases))
	ran := 0
	tally := map[string]int64{}
	count := func(k string, n int64) { rec.Count(k, n); tally[k] += n }
	for i, c := range cases {
		// cases are dealt to the shards by a scrambled index: the case list is a product of small
		// dimensions, and index mod 16 would give some shards no case at all of some dimension values
		if !rec.Mine(int((uint32(i) * 2654435761) >> 12)) {
			continue
		}
		if rec.Expired() {
			rec.NotExhaustive(fmt.Sprintf("wall-clock budget reached in shard %d after %d of its cases", rec.ShardI, ran))
			break
		}
		ran++
		w, res := c18Exec(c, false, "")
		count("cases."+c.Block, 1)
		if i%c18CLIStride == c18CLIStride/2 {
			// the same case through the command line; must be judged clean and end in the same stores
			cc := c
			cc.CLI = true
			cw, cres := c18Exec(cc, false, rec.Scratch)
			count("cli.cases", 1)
			count("cli.runs.action."+c.Action, int64(len(cres.Judges)))
			for _, j := range cres.Judges {
				rec.Eval(1)
				count("cli.requests", int64(len(j.log)))
				for k, n := range j.stats {
					count(k, n)
				}
			}
			inProc := map[string]bool{}
			for _, v := range res.Viols {
				inProc[v.Key] = true
			}
			for _, v := range cres.Viols {
				if inProc[v.Key] {
					count("cli.violations_same_as_process_route", 1)
					continue
				}
				rec.Violation(v.Key+" [cli-only]", "command-line route (NewRootCmd().Execute()) only: "+v.Msg+"\ncase "+c.String()+"\n"+w.yaml, cc)
			}
			if d := c18RouteDiff(w, cw); d != "" {
				rec.Violation("cli/differs-from-process-route", "the command-line route and the per-entry process route end in different stores: "+d+"\ncase "+c.String()+"\n"+w.yaml, cc)
			}
		}
		for _, j := range res.Judges {
			rec.Eval(1)
			count("runs.action."+c.Action, 1)
			count("requests.total", int64(len(j.log)))
			mut := false
			for _, e := range j.log {
				if e.Mutating() {
					mut = true
					break
				}
			}
			if mut {
				count("runs.with_state_changing_requests", 1)
			}
			if j.err == nil {
				count("runs.success", 1)
			} else if !j.expectErr {
				rec.Note(fmt.Sprintf("run error not predicted by the reference (allowed, not a violation): %v | %s", c18Trunc(j.err.Error(), 200), c))
			}
			for k, n := range j.stats {
				count(k, n)
			}
			if j.nontrivial {
				rec.Distinct(fmt.Sprintf("%d/%d", i, j.run))
				if c.Block == "B" || i%7 == 0 {
					rec.Sample(map[string]any{"case": c.String(), "config": w.yaml})
				}
			}
		}
		for _, v := range res.Viols {
			rec.Violation(v.Key, v.Msg+"\ncase "+c.String()+"\n"+w.yaml, c)
		}
	}
	if os.Getenv("C18_NO_VACUITY") == "" && ran >= 300 {
		// vacuity: a shard of this size must have exercised every clause
		for _, k := range []string{"runs.with_state_changing_requests", "runs.success", "ref.tags_selected", "ref.tags_excluded_by_filter", "ref.tag_writes_due",
			"clause.mirrored.tags_judged", "clause.closure.images_walked", "clause.untouched.tags_compared", "clause.untouched.other_repos_compared",
			"clause.check.runs_judged", "clause.backup.overwrites_judged", "clause.missing.existing_tags_compared", "clause.source_unchanged.repos_compared"} {
			if tally[k] == 0 {
				rec.HarnessError("vacuous shard: counter %s is 0 after %d cases", k, ran)
			}
		}
	}
}

func c18Trunc(s string, n int) string {
	if len(s) > n {
		return s[:n] + "…"
	}
	return s
}
