package main

// C18 environment: case description, generated YAML, model registries (populations), the run itself
// (the body of runOnce / runCheck with the regclient replaced by one over a modelreg.Net) and deep
// snapshots of both stores.

import (
	"context"
	"errors"
	"fmt"
	"io"
	"log/slog"
	"net/http"
	"sort"
	"strings"
	"sync"

	"github.com/regclient/regclient/internal/pqueue"
	"github.com/regclient/regclient/internal/verif/audit"
	"github.com/regclient/regclient/internal/verif/graphs"
	"github.com/regclient/regclient/internal/verif/modelreg"
	"github.com/regclient/regclient/internal/verif/rcenv"
)

const (
	c18SrcHost = "src.example"
	c18TgtHost = "tgt.example"
	c18SrcRepo = "proj/app"
	c18LibRepo = "proj/lib"
	c18TgtRepo = "mirror/app"

	c18BackupTagTmpl  = "bkup-{{.Ref.Tag}}"
	c18BackupRepoTmpl = "{{.Ref.Registry}}/backups/{{.Ref.Repository}}:{{.Ref.Tag}}"
)

// c18Entry is one `sync:` entry of the generated configuration.
type c18Entry struct {
	Type       string   `json:"type"`               // image | repository | registry
	SrcRepo    string   `json:"src_repo,omitempty"` // default proj/app (ignored for registry)
	TgtRepo    string   `json:"tgt_repo,omitempty"` // default mirror/app (ignored for registry)
	SrcTag     string   `json:"src_tag,omitempty"`  // image only
	TgtTag     string   `json:"tgt_tag,omitempty"`  // image only
	Allow      []string `json:"allow,omitempty"`
	Deny       []string `json:"deny,omitempty"`
	RepoAllow  []string `json:"repo_allow,omitempty"` // registry only
	RepoDeny   []string `json:"repo_deny,omitempty"`
	Platform   string   `json:"platform,omitempty"`
	Backup     string   `json:"backup,omitempty"`      // "" | tag | repo
	Switches   []string `json:"switches,omitempty"`    // referrers digestTags fastCheck forceRecursive
	InDefaults bool     `json:"in_defaults,omitempty"` // the switches are written in the defaults: block, the entry leaves them unset
	MediaTypes string   `json:"media_types,omitempty"` // "" (default list) | oci
}

func (e c18Entry) srcRepo() string {
	if e.SrcRepo != "" {
		return e.SrcRepo
	}
	return c18SrcRepo
}

func (e c18Entry) tgtRepo() string {
	if e.TgtRepo != "" {
		return e.TgtRepo
	}
	return c18TgtRepo
}

func (e c18Entry) has(sw string) bool {
	for _, s := range e.Switches {
		if s == sw {
			return true
		}
	}
	return false
}

// c18Case is one enumerated case: a configuration, an action, populations and a history.
type c18Case struct {
	Block    string     `json:"block"`
	Entries  []c18Entry `json:"entries"`
	Parallel int        `json:"parallel"` // 0 = key omitted
	Action   string     `json:"action"`   // copy | check | missing
	Src      string     `json:"src"`      // source population
	Tgt      string     `json:"tgt"`      // target population
	TgtFeat  string     `json:"tgt_feat,omitempty"`
	History  string     `json:"history,omitempty"` // "" = one run, move = run, move source tags, run again
	App2     bool       `json:"app2,omitempty"`    // source registry also holds proj/app2 (repos-filter cases)
	CatPage  int        `json:"cat_page,omitempty"` // the source hands out its catalogue in pages of this size; it then also holds aaa/first and zzz/last
	// Fault: a lasting refusal. "tgt-refuses:<tag>": the target answers 403 to every manifest PUT of
	// that tag; "src-blob-gone": the source answers 404 to every blob GET (manifests are served)
	Fault string `json:"fault,omitempty"`
	CLI      bool       `json:"cli,omitempty"`     // replay through the command-line route
}

func (c c18Case) String() string {
	var es []string
	for _, e := range c.Entries {
		s := e.Type
		if e.Type == "image" {
			s += fmt.Sprintf("(%s→%s)", e.SrcTag, e.TgtTag)
		}
		if e.TgtRepo != "" {
			s += "→" + e.TgtRepo
		}
		s += fmt.Sprintf(" allow=%v deny=%v", e.Allow, e.Deny)
		if len(e.RepoAllow)+len(e.RepoDeny) > 0 {
			s += fmt.Sprintf(" repos.allow=%v repos.deny=%v", e.RepoAllow, e.RepoDeny)
		}
		if e.Platform != "" {
			s += " platform=" + e.Platform
		}
		if e.Backup != "" {
			s += " backup=" + e.Backup
		}
		if len(e.Switches) > 0 {
			if e.InDefaults {
				s += " defaults:"
			}
			s += " " + strings.Join(e.Switches, "+")
		}
		if e.MediaTypes != "" {
			s += " mediaTypes=" + e.MediaTypes
		}
		es = append(es, s)
	}
	h := c.History
	if h == "" {
		h = "single"
	}
	f := ""
	if c.TgtFeat != "" {
		f = " tgtfeat=" + c.TgtFeat
	}
	if c.CatPage > 0 {
		f += fmt.Sprintf(" catalog-page=%d", c.CatPage)
	}
	if c.Fault != "" {
		f += " fault=" + c.Fault
	}
	return fmt.Sprintf("[%s] %s | action=%s parallel=%d src=%s tgt=%s%s history=%s", c.Block, strings.Join(es, " ; "), c.Action, c.Parallel, c.Src, c.Tgt, f, h)
}

// ---- YAML -------------------------------------------------------------------------------------

func c18YAMLList(sb *strings.Builder, indent, key string, l []string) {
	if len(l) == 0 {
		return
	}
	fmt.Fprintf(sb, "%s%s:\n", indent, key)
	for _, v := range l {
		fmt.Fprintf(sb, "%s  - %q\n", indent, v)
	}
}

func c18BackupTemplate(kind string) string {
	switch kind {
	case "tag":
		return c18BackupTagTmpl
	case "repo":
		return c18BackupRepoTmpl
	}
	return ""
}

// c18YAML renders the configuration file of a case (what a user would write).
func c18YAML(c c18Case) string {
	var sb strings.Builder
	sb.WriteString("version: 1\ncreds:\n")
	for _, h := range []string{c18SrcHost, c18TgtHost} {
		fmt.Fprintf(&sb, "  - registry: %s\n    tls: disabled\n", h)
	}
	sb.WriteString("defaults:\n  skipDockerConfig: true\n")
	if c.Parallel > 0 {
		fmt.Fprintf(&sb, "  parallel: %d\n", c.Parallel)
	}
	for _, e := range c.Entries {
		if e.InDefaults {
			for _, sw := range e.Switches {
				fmt.Fprintf(&sb, "  %s: true\n", sw)
			}
			break
		}
	}
	sb.WriteString("sync:\n")
	for _, e := range c.Entries {
		var src, tgt string
		switch e.Type {
		case "registry":
			src, tgt = c18SrcHost, c18TgtHost
		case "image":
			src = c18SrcHost + "/" + e.srcRepo() + ":" + e.SrcTag
			tgt = c18TgtHost + "/" + e.tgtRepo() + ":" + e.TgtTag
		default:
			src = c18SrcHost + "/" + e.srcRepo()
			tgt = c18TgtHost + "/" + e.tgtRepo()
		}
		fmt.Fprintf(&sb, "  - source: %s\n    target: %s\n    type: %s\n", src, tgt, e.Type)
		if len(e.RepoAllow)+len(e.RepoDeny) > 0 {
			sb.WriteString("    repos:\n")
			c18YAMLList(&sb, "      ", "allow", e.RepoAllow)
			c18YAMLList(&sb, "      ", "deny", e.RepoDeny)
		}
		if len(e.Allow)+len(e.Deny) > 0 {
			sb.WriteString("    tags:\n")
			c18YAMLList(&sb, "      ", "allow", e.Allow)
			c18YAMLList(&sb, "      ", "deny", e.Deny)
		}
		if e.Platform != "" {
			fmt.Fprintf(&sb, "    platform: %s\n", e.Platform)
		}
		if e.Backup != "" {
			fmt.Fprintf(&sb, "    backup: %q\n", c18BackupTemplate(e.Backup))
		}
		if !e.InDefaults {
			for _, sw := range e.Switches {
				fmt.Fprintf(&sb, "    %s: true\n", sw)
			}
		}
		if e.MediaTypes == "oci" {
			c18YAMLList(&sb, "    ", "mediaTypes", []string{graphs.MTOCIManifest, graphs.MTOCIIndex})
		}
	}
	return sb.String()
}

// ---- image library ------------------------------------------------------------------------------

var c18GraphLib = map[string]*graphs.Graph{}

func c18InitGraphs() {
	for _, n := range []string{"G1", "G2", "G3", "G13", "G14", "G18"} {
		c18GraphLib[n] = graphs.Build(n)
	}
	for _, n := range []string{"old-a", "old-b", "old-c"} {
		g := graphs.New(n, "sha256")
		g.Top = g.SimpleImage(false, "amd64", n+"-layer").Digest
		c18GraphLib[n] = g
	}
}

// c18LoadImage stores the image under tag. all=false stores only what is reachable from the top
// manifest (no referrers, no digest tags).
func c18LoadImage(r *modelreg.Repo, gname, tag string, all bool) {
	g := c18GraphLib[gname]
	if g == nil {
		panic("c18: unknown graph " + gname)
	}
	if all {
		g.Load(r, tag)
		return
	}
	keep := map[string]bool{}
	var walk func(d string)
	walk = func(d string) {
		if keep[d] {
			return
		}
		keep[d] = true
		if m, ok := g.Manifests[d]; ok {
			for _, c := range audit.References(m.Body, false) {
				walk(c)
			}
		}
	}
	walk(g.Top)
	g.LoadSubset(r, func(d string) bool { return keep[d] })
	r.Tags[tag] = g.Top
}

// ---- populations --------------------------------------------------------------------------------

type c18TagImg struct{ Tag, Graph string }

var c18BaseTags = []c18TagImg{{"v1", "G1"}, {"v2", "G2"}, {"v3", "G3"}, {"latest", "G13"}, {"dev", "G1"}}

var c18SrcPops = map[string][]c18TagImg{
	"S-base": c18BaseTags,
	"S-idx":  {{"v1", "G3"}, {"v2", "G13"}, {"latest", "G3"}, {"dev", "G2"}},
	"S-near": {{"v1", "G1"}, {"v2", "G13"}, {"v10", "G2"}, {"dev2", "G3"}, {"dev", "G2"}},
	"S-dt":   {{"v1", "G14"}, {"v2", "G2"}, {"latest", "G13"}, {"dev", "G14"}},
	"S-one":  {{"latest", "G3"}},
}

var c18LibPop = []c18TagImg{{"v1", "G2"}, {"edge", "G1"}}
var c18App2Pop = []c18TagImg{{"v1", "G1"}, {"v2", "G3"}}

// c18SrcPop resolves a source population name: a named one or "sub:<5 bits>" (a subset of the base
// tags v1,v2,v3,latest,dev with the base images).
func c18SrcPop(name string) []c18TagImg {
	if strings.HasPrefix(name, "sub:") {
		var out []c18TagImg
		for i, b := range name[4:] {
			if b == '1' && i < len(c18BaseTags) {
				out = append(out, c18BaseTags[i])
			}
		}
		return out
	}
	p, ok := c18SrcPops[name]
	if !ok {
		panic("c18: unknown source population " + name)
	}
	return p
}

// c18LoadTargetRepo fills one target repository according to the target population, relative to
// what the source repository holds (rename maps a source tag to the tag name used at the target).
func c18LoadTargetRepo(h *modelreg.Host, repo, pop string, src []c18TagImg, rename func(string) string) {
	other := func(i int) string {
		// an image different from the source's for position i
		if i%2 == 0 {
			return "old-a"
		}
		g := src[(i+1)%len(src)].Graph
		if g == src[i].Graph {
			return "old-b"
		}
		return g
	}
	switch {
	case pop == "T-empty":
	case pop == "T-same":
		// every tag already points at the source's image, without its referrers or digest tags
		for _, ti := range src {
			c18LoadImage(h.Repo(repo), ti.Graph, rename(ti.Tag), false)
		}
	case pop == "T-part":
		for i, ti := range src {
			if i%2 == 0 {
				c18LoadImage(h.Repo(repo), ti.Graph, rename(ti.Tag), false)
			}
		}
	case pop == "T-moved":
		for i, ti := range src {
			if i%3 == 2 {
				continue
			}
			c18LoadImage(h.Repo(repo), other(i), rename(ti.Tag), false)
		}
	case pop == "T-extra":
		r := h.Repo(repo)
		for i, ti := range src {
			switch i % 3 {
			case 0:
				c18LoadImage(r, "old-a", rename(ti.Tag), false)
			case 1:
				c18LoadImage(r, ti.Graph, rename(ti.Tag), false)
			}
		}
		c18LoadImage(r, "old-b", "old", false)
		c18LoadImage(r, "old-c", "v9", false)
		if len(src) > 0 {
			c18LoadImage(r, "old-b", "bkup-"+rename(src[0].Tag), false)
		}
	case strings.HasPrefix(pop, "tsub:"):
		for i, b := range pop[5:] {
			if b == '1' && i < len(c18BaseTags) {
				c18LoadImage(h.Repo(repo), "old-a", rename(c18BaseTags[i].Tag), false)
			}
		}
	default:
		panic("c18: unknown target population " + pop)
	}
}

// ---- world ------------------------------------------------------------------------------------

// c18PutEvt is a tag-addressed manifest PUT seen at the target registry, with the state of the store
// at the moment the request arrived (before it was applied).
type c18PutEvt struct {
	Seq       int
	Repo, Tag string
	Prev, New string
	// for every backup kind: what the backup name of (Repo, Tag) resolved to at that moment and
	// whether that image was complete there
	BackupAt map[string]string
	BackupOK map[string]bool
}

type c18World struct {
	c      c18Case
	net    *modelreg.Net
	mu     sync.Mutex
	events []c18PutEvt
	yaml   string
}

func c18TgtFeatures(name string) modelreg.Features {
	f := modelreg.Full()
	if name == "noref" {
		f.Referrers = false
		f.OCISubject = false
	}
	return f
}

// c18BackupName is the reference expansion of the two backup templates for a target (repo, tag).
func c18BackupName(kind, repo, tag string) (string, string) {
	switch kind {
	case "tag":
		return repo, "bkup-" + tag
	case "repo":
		return "backups/" + repo, tag
	}
	return "", ""
}

func c18NewWorld(c c18Case) *c18World {
	w := &c18World{c: c, net: modelreg.NewNet(), yaml: c18YAML(c)}
	sf := modelreg.Full()
	sf.CatalogPage = c.CatPage
	sh := w.net.AddHost(c18SrcHost, sf)
	th := w.net.AddHost(c18TgtHost, c18TgtFeatures(c.TgtFeat))
	src := c18SrcPop(c.Src)
	srcRepos := map[string][]c18TagImg{c18SrcRepo: src, c18LibRepo: c18LibPop}
	if c.App2 {
		srcRepos["proj/app2"] = c18App2Pop
	}
	if c.CatPage > 0 {
		srcRepos["aaa/first"] = c18App2Pop
		srcRepos["zzz/last"] = c18App2Pop
	}
	for _, e := range c.Entries {
		if e.Type != "registry" && e.srcRepo() != c18SrcRepo {
			srcRepos[e.srcRepo()] = src
		}
	}
	for name, pop := range srcRepos {
		r := sh.Repo(name)
		for _, ti := range pop {
			c18LoadImage(r, ti.Graph, ti.Tag, true)
		}
	}
	ident := func(s string) string { return s }
	extras := false
	for _, e := range c.Entries {
		switch e.Type {
		case "registry":
			var names []string
			for n := range srcRepos {
				names = append(names, n)
			}
			sort.Strings(names)
			for _, n := range names {
				c18LoadTargetRepo(th, n, c.Tgt, srcRepos[n], ident)
			}
		case "image":
			e := e
			c18LoadTargetRepo(th, e.tgtRepo(), c.Tgt, srcRepos[e.srcRepo()], func(s string) string {
				if s == e.SrcTag {
					return e.TgtTag
				}
				return s
			})
		default:
			c18LoadTargetRepo(th, e.tgtRepo(), c.Tgt, srcRepos[e.srcRepo()], ident)
		}
		if c.Tgt == "T-extra" && !extras {
			extras = true
			// unrelated repositories at the target, one of them under the backup prefix
			rep := e.tgtRepo()
			if e.Type == "registry" {
				rep = c18SrcRepo
			}
			o := th.Repo("other/repo")
			c18LoadImage(o, "old-a", "v1", false)
			c18LoadImage(o, "old-b", "keep", false)
			c18LoadImage(th.Repo("backups/"+rep), "old-c", "keep", false)
			c18LoadImage(th.Repo(rep+"-old"), "old-c", "v1", false)
		}
	}
	w.net.Decide = w.observe
	return w
}

// observe records tag PUTs at the target together with the backup names' state at that instant.
func (w *c18World) observe(e *modelreg.Entry) *modelreg.Answer {
	if f := w.c.Fault; f != "" {
		if tg, ok := strings.CutPrefix(f, "tgt-refuses:"); ok && e.Host == c18TgtHost && e.Kind == "manifest-put" && e.Ref == tg {
			return &modelreg.Answer{Status: 403, Header: http.Header{}, Body: []byte(`{"errors":[{"code":"DENIED"}]}`), Note: "fault-" + f}
		}
		if f == "src-blob-gone" && e.Host == c18SrcHost && e.Kind == "blob-get" && e.Method == "GET" {
			return &modelreg.Answer{Status: 404, Header: http.Header{}, Body: []byte(`{"errors":[{"code":"BLOB_UNKNOWN"}]}`), Note: "fault-" + f}
		}
	}
	if e.Host != c18TgtHost || e.Kind != "manifest-put" || strings.Contains(e.Ref, ":") {
		return nil
	}
	evt := c18PutEvt{Seq: e.Seq, Repo: e.Repo, Tag: e.Ref, BackupAt: map[string]string{}, BackupOK: map[string]bool{}}
	algo := "sha256"
	if q := e.Query.Get("digest"); strings.HasPrefix(q, "sha512:") {
		algo = "sha512"
	}
	evt.New = modelreg.Digest(algo, e.Body)
	w.net.With(func() {
		h := w.net.Hosts[c18TgtHost]
		if r := h.Repos[e.Repo]; r != nil {
			evt.Prev = r.Tags[e.Ref]
		}
		for _, kind := range []string{"tag", "repo"} {
			br, bt := c18BackupName(kind, e.Repo, e.Ref)
			if r := h.Repos[br]; r != nil {
				if d, ok := r.Tags[bt]; ok {
					evt.BackupAt[kind] = d
					_, probs := audit.Closure(audit.RepoStore{R: r}, d, audit.ClosureOpts{})
					evt.BackupOK[kind] = len(probs) == 0
				}
			}
		}
	})
	w.mu.Lock()
	w.events = append(w.events, evt)
	w.mu.Unlock()
	return nil
}

// c18MoveSource is the history step between two runs: v1 and dev are re-pointed at other images
// (created when absent) in every source repository that holds an enumerated population.
func (w *c18World) moveSource() {
	sh := w.net.Hosts[c18SrcHost]
	w.net.With(func() {
		for name, r := range sh.Repos {
			if name == c18LibRepo || name == "proj/app2" {
				continue
			}
			move := func(tag string, cands ...string) {
				cur := r.Tags[tag]
				for _, g := range cands {
					if c18GraphLib[g].Top != cur {
						c18LoadImage(r, g, tag, true)
						return
					}
				}
			}
			move("v1", "G3", "G1")
			move("dev", "G2", "G13")
			// an index tag that moves to ANOTHER index (the platform child changes with it)
			move("latest", "G18", "G3")
		}
	})
}

var c18Discard = slog.New(slog.NewTextHandler(io.Discard, nil))

// run performs one `regsync once` / `regsync once --missing` / `regsync check` over the generated
// configuration: ConfigLoadReader, then the body of runOnce / runCheck with the client replaced.
func (w *c18World) run() (err error, log []*modelreg.Entry, evts []c18PutEvt) {
	conf, lerr := ConfigLoadReader(strings.NewReader(w.yaml))
	if lerr != nil {
		return fmt.Errorf("c18 harness: config does not load: %w", lerr), nil, nil
	}
	concurrent := conf.Defaults.Parallel
	if concurrent <= 0 {
		concurrent = 1
	}
	opts := &rootOpts{
		conf:     conf,
		rc:       rcenv.New(w.net, []string{c18SrcHost, c18TgtHost}, rcenv.Opts{}),
		throttle: pqueue.New(pqueue.Opts[throttle]{Max: concurrent}),
		log:      c18Discard,
	}
	start := w.net.LogLen()
	w.mu.Lock()
	w.events = nil
	w.mu.Unlock()
	ctx, cancel := context.WithCancel(context.Background())
	defer cancel()
	var errsL []error
	switch w.c.Action {
	case "check":
		// body of runCheck
		for _, s := range opts.conf.Sync {
			err := opts.process(ctx, s, actionCheck)
			if err != nil && !errors.Is(err, context.Canceled) && !errors.Is(err, ErrCanceled) {
				errsL = append(errsL, err)
			}
		}
	default:
		// body of runOnce
		action := actionCopy
		if w.c.Action == "missing" {
			action = actionMissing
		}
		var mu sync.Mutex
		var wg sync.WaitGroup
		for _, s := range opts.conf.Sync {
			if opts.conf.Defaults.Parallel > 0 {
				wg.Add(1)
				go func() {
					defer wg.Done()
					err := opts.process(ctx, s, action)
					if err != nil && !errors.Is(err, context.Canceled) && !errors.Is(err, ErrCanceled) {
						mu.Lock()
						errsL = append(errsL, err)
						mu.Unlock()
					}
				}()
			} else {
				err := opts.process(ctx, s, action)
				if err != nil {
					errsL = append(errsL, err)
				}
			}
		}
		wg.Wait()
	}
	w.mu.Lock()
	evts = append([]c18PutEvt{}, w.events...)
	w.mu.Unlock()
	return errors.Join(errsL...), w.net.LogSince(start), evts
}

// ---- snapshots ----------------------------------------------------------------------------------

type c18RepoSnap struct {
	Tags      map[string]string
	Manifests map[string]bool
	Blobs     map[string]bool
}

// c18Snap is host → repository → content.
type c18Snap map[string]map[string]*c18RepoSnap

func (w *c18World) snapshot() c18Snap {
	s := c18Snap{}
	w.net.With(func() {
		for hn, h := range w.net.Hosts {
			s[hn] = map[string]*c18RepoSnap{}
			for rn, r := range h.Repos {
				rs := &c18RepoSnap{Tags: map[string]string{}, Manifests: map[string]bool{}, Blobs: map[string]bool{}}
				for t, d := range r.Tags {
					rs.Tags[t] = d
				}
				for d := range r.Manifests {
					rs.Manifests[d] = true
				}
				for d := range r.Blobs {
					rs.Blobs[d] = true
				}
				s[hn][rn] = rs
			}
		}
	})
	return s
}

func c18SortedKeys[V any](m map[string]V) []string {
	ks := make([]string, 0, len(m))
	for k := range m {
		ks = append(ks, k)
	}
	sort.Strings(ks)
	return ks
}

func c18Short(d string) string {
	if i := strings.IndexByte(d, ':'); i > 0 && len(d) > i+13 {
		return d[:i+13]
	}
	if d == "" {
		return "<absent>"
	}
	return d
}

// diffRepo describes how b differs from a ("" when equal).
func c18DiffRepo(a, b *c18RepoSnap) string {
	var out []string
	if a == nil && b == nil {
		return ""
	}
	if a == nil {
		return fmt.Sprintf("repository created (tags %v, %d manifests, %d blobs)", c18SortedKeys(b.Tags), len(b.Manifests), len(b.Blobs))
	}
	if b == nil {
		return "repository removed"
	}
	for _, t := range c18SortedKeys(a.Tags) {
		if d, ok := b.Tags[t]; !ok {
			out = append(out, "tag "+t+" removed")
		} else if d != a.Tags[t] {
			out = append(out, fmt.Sprintf("tag %s moved %s→%s", t, c18Short(a.Tags[t]), c18Short(d)))
		}
	}
	for _, t := range c18SortedKeys(b.Tags) {
		if _, ok := a.Tags[t]; !ok {
			out = append(out, fmt.Sprintf("tag %s created →%s", t, c18Short(b.Tags[t])))
		}
	}
	for _, d := range c18SortedKeys(a.Manifests) {
		if !b.Manifests[d] {
			out = append(out, "manifest "+c18Short(d)+" removed")
		}
	}
	for _, d := range c18SortedKeys(b.Manifests) {
		if !a.Manifests[d] {
			out = append(out, "manifest "+c18Short(d)+" added")
		}
	}
	for _, d := range c18SortedKeys(a.Blobs) {
		if !b.Blobs[d] {
			out = append(out, "blob "+c18Short(d)+" removed")
		}
	}
	for _, d := range c18SortedKeys(b.Blobs) {
		if !a.Blobs[d] {
			out = append(out, "blob "+c18Short(d)+" added")
		}
	}
	return strings.Join(out, "; ")
}
