package main

// C18 oracle: written against the property statement and docs/regsync.md, from raw dumps of both
// model stores before and after a run, the request log and the tag-PUT events. Nothing of regsync's
// own filtering or template code is used: filters are re-implemented as full matches ^(?:re)$, the
// two backup templates are expanded by hand, the platform child is read from the raw index JSON.

import (
	"encoding/json"
	"fmt"
	"regexp"
	"sort"
	"strings"

	"github.com/regclient/regclient/internal/verif/audit"
	"github.com/regclient/regclient/internal/verif/graphs"
	"github.com/regclient/regclient/internal/verif/modelreg"
)

type c18Viol struct{ Key, Msg string }

const (
	c18AltKey        = "filter-alternation-anchoring"
	c18PlatBackupKey = "backup-skipped-platform-narrows-matching-index"
)

// ---- filter reference -------------------------------------------------------------------------

var c18ReCache = map[string]*regexp.Regexp{}

func c18Re(expr string) *regexp.Regexp {
	if re, ok := c18ReCache[expr]; ok {
		return re
	}
	re := regexp.MustCompile(expr)
	c18ReCache[expr] = re
	return re
}

// c18FullMatch: the filter matches the whole string.
func c18FullMatch(filter, s string) bool { return c18Re("^(?:" + filter + ")$").MatchString(s) }

// c18NaiveMatch: the anchors are pasted around the filter text. Used ONLY to label a violation that is
// explained by the anchors binding to the first/last alternative; never to decide whether something
// is a violation.
func c18NaiveMatch(filter, s string) bool { return c18Re("^" + filter + "$").MatchString(s) }

// c18HasTopAlt reports whether the regular expression has an alternation outside any group.
func c18HasTopAlt(f string) bool {
	depth, inClass := 0, false
	for i := 0; i < len(f); i++ {
		switch c := f[i]; {
		case c == '\\':
			i++
		case inClass:
			if c == ']' {
				inClass = false
			}
		case c == '[':
			inClass = true
		case c == '(':
			depth++
		case c == ')':
			depth--
		case c == '|' && depth == 0:
			return true
		}
	}
	return false
}

func c18AnyTopAlt(lists ...[]string) bool {
	for _, l := range lists {
		for _, f := range l {
			if c18HasTopAlt(f) {
				return true
			}
		}
	}
	return false
}

// c18Selected: passes the allow list (or there is none) and no deny entry.
func c18Selected(allow, deny []string, s string, match func(f, s string) bool) bool {
	if len(allow) > 0 {
		ok := false
		for _, f := range allow {
			if match(f, s) {
				ok = true
				break
			}
		}
		if !ok {
			return false
		}
	}
	for _, f := range deny {
		if match(f, s) {
			return false
		}
	}
	return true
}

// ---- image reference --------------------------------------------------------------------------

type c18IndexDoc struct {
	Manifests []struct {
		Digest   string `json:"digest"`
		Platform *struct {
			Architecture string `json:"architecture"`
			OS           string `json:"os"`
		} `json:"platform"`
	} `json:"manifests"`
}

func c18IsIndex(mt string) bool { return mt == graphs.MTOCIIndex || mt == graphs.MTDockerList }

// c18Expected: the digest a mirrored tag must have for a source digest, honouring `platform` and
// `mediaTypes`. skip = the media type is not in the configured list; nochild = no such platform.
func c18Expected(e c18Entry, src *modelreg.Repo, d string) (exp string, skip, nochild bool) {
	m := src.Manifests[d]
	if m == nil {
		return d, false, false
	}
	if e.MediaTypes == "oci" && m.MediaType != graphs.MTOCIManifest && m.MediaType != graphs.MTOCIIndex {
		return d, true, false
	}
	if e.Platform == "" || !c18IsIndex(m.MediaType) {
		return d, false, false
	}
	sp := strings.SplitN(e.Platform, "/", 2)
	var doc c18IndexDoc
	if json.Unmarshal(m.Body, &doc) != nil {
		return d, false, true
	}
	for _, c := range doc.Manifests {
		if c.Platform != nil && c.Platform.OS == sp[0] && c.Platform.Architecture == sp[1] {
			return c.Digest, false, false
		}
	}
	return d, false, true
}

var c18DigestTagRe = regexp.MustCompile(`^(sha256|sha512)-([0-9a-f]{64}|[0-9a-f]{128})(.*)$`)

// ---- judge --------------------------------------------------------------------------------------

type c18Lane struct {
	E                c18Entry
	SrcRepo, TgtRepo string
	// AltRepo: the repos filters have a top-level alternation and the full-match and pasted-anchor
	// readings disagree on this repository
	AltRepo bool
}

type c18Want struct {
	SrcTag string
	Src    string   // source digest
	Accept []string // acceptable target digests
}

type c18Judge struct {
	w          *c18World
	run        int
	pre, post  c18Snap
	err        error
	log        []*modelreg.Entry
	evts       []c18PutEvt
	viols      []c18Viol
	stats      map[string]int64
	nontrivial bool
	// expectErr: the reference itself says the run cannot succeed (absent source tag / repository)
	expectErr bool
}

func (j *c18Judge) add(key, format string, a ...any) {
	j.viols = append(j.viols, c18Viol{key, fmt.Sprintf("run %d: ", j.run) + fmt.Sprintf(format, a...)})
}

func (j *c18Judge) count(k string, n int64) { j.stats[k] += n }

func c18In(l []string, s string) bool {
	for _, x := range l {
		if x == s {
			return true
		}
	}
	return false
}

func c18Judgement(w *c18World, run int, pre, post c18Snap, err error, log []*modelreg.Entry, evts []c18PutEvt) *c18Judge {
	j := &c18Judge{w: w, run: run, pre: pre, post: post, err: err, log: log, evts: evts, stats: map[string]int64{}}
	c := w.c

	// clause: the source is unchanged
	for _, rn := range c18UnionKeys(pre[c18SrcHost], post[c18SrcHost]) {
		j.count("clause.source_unchanged.repos_compared", 1)
		if d := c18DiffRepo(pre[c18SrcHost][rn], post[c18SrcHost][rn]); d != "" {
			j.add("source/changed", "source repository %s changed: %s", rn, d)
		}
	}
	for _, e := range log {
		if e.Host == c18SrcHost && e.Mutating() {
			j.add("source/mutating-request", "state-changing request sent to the source: %s", e)
			break
		}
	}

	// clause: a check-only run writes nothing
	if c.Action == "check" {
		j.count("clause.check.runs_judged", 1)
		j.count("clause.check.requests_inspected", int64(len(log)))
		for _, e := range log {
			if e.Mutating() {
				j.add("check/mutating-request", "check-only run sent %s (request %d of %d)", e, e.Seq, len(log))
				break
			}
		}
	}

	// lanes: (source repository → target repository) pairs the configuration selects
	var lanes []c18Lane
	altRepoDiff := map[string]bool{} // repositories on which strict and pasted-anchor repo filters disagree
	for _, e := range c.Entries {
		switch e.Type {
		case "registry":
			for _, rn := range c18SortedKeys(pre[c18SrcHost]) {
				strict := c18Selected(e.RepoAllow, e.RepoDeny, rn, c18FullMatch)
				if c18AnyTopAlt(e.RepoAllow, e.RepoDeny) && strict != c18Selected(e.RepoAllow, e.RepoDeny, rn, c18NaiveMatch) {
					altRepoDiff[rn] = true
				}
				if strict {
					lanes = append(lanes, c18Lane{E: e, SrcRepo: rn, TgtRepo: rn, AltRepo: altRepoDiff[rn]})
				}
			}
		default:
			lanes = append(lanes, c18Lane{E: e, SrcRepo: e.srcRepo(), TgtRepo: e.tgtRepo()})
		}
	}
	laneRepo := map[string]bool{}
	backupRepo := map[string]*c18Lane{}
	for i := range lanes {
		laneRepo[lanes[i].TgtRepo] = true
	}
	for i := range lanes {
		if lanes[i].E.Backup == "repo" {
			br, _ := c18BackupName("repo", lanes[i].TgtRepo, "x")
			if !laneRepo[br] {
				backupRepo[br] = &lanes[i]
			}
		}
	}
	for i := range lanes {
		j.lane(&lanes[i])
	}

	// clause: other repositories are left exactly as they were
	if err == nil {
		for _, rn := range c18UnionKeys(pre[c18TgtHost], post[c18TgtHost]) {
			if laneRepo[rn] || backupRepo[rn] != nil {
				continue
			}
			j.count("clause.untouched.other_repos_compared", 1)
			if d := c18DiffRepo(pre[c18TgtHost][rn], post[c18TgtHost][rn]); d != "" {
				if altRepoDiff[rn] {
					j.add(c18AltKey, "repository %s is excluded by the repos filters read as full matches, yet the target changed: %s", rn, d)
				} else {
					j.add("untouched/other-repository-changed", "target repository %s is not selected by the configuration, yet: %s", rn, d)
				}
			}
		}
	}
	if err != nil {
		j.count("runs.error", 1)
		if !j.expectErr {
			j.count("runs.error_not_predicted", 1)
		}
	}
	return j
}

func c18UnionKeys(a, b map[string]*c18RepoSnap) []string {
	m := map[string]bool{}
	for k := range a {
		m[k] = true
	}
	for k := range b {
		m[k] = true
	}
	return c18SortedKeys(m)
}

func c18Tags(r *c18RepoSnap) map[string]string {
	if r == nil {
		return map[string]string{}
	}
	return r.Tags
}

func (j *c18Judge) lane(l *c18Lane) {
	c := j.w.c
	e := l.E
	srcSnap := j.pre[c18SrcHost][l.SrcRepo]
	srcRaw := j.w.net.Hosts[c18SrcHost].Repos[l.SrcRepo]
	tgtPre, tgtPost := j.pre[c18TgtHost][l.TgtRepo], j.post[c18TgtHost][l.TgtRepo]
	preT, postT := c18Tags(tgtPre), c18Tags(tgtPost)
	tgtRaw := j.w.net.Hosts[c18TgtHost].Repos[l.TgtRepo]
	if srcSnap == nil || srcRaw == nil {
		j.expectErr = true
		srcSnap = &c18RepoSnap{Tags: map[string]string{}}
	}
	hasAlt := e.Type != "image" && c18AnyTopAlt(e.Allow, e.Deny)
	altDiff := func(t string) bool {
		return hasAlt && c18Selected(e.Allow, e.Deny, t, c18FullMatch) != c18Selected(e.Allow, e.Deny, t, c18NaiveMatch)
	}
	if hasAlt {
		j.count("clause.altfilter.lanes", 1)
		for t := range srcSnap.Tags {
			if altDiff(t) {
				j.count("clause.altfilter.discriminating_tags", 1)
			}
		}
	}

	// reference selection
	want := map[string]c18Want{} // target tag → what it must mirror
	excluded := map[string]string{}
	addWant := func(srcTag, tgtTag string) {
		d := srcSnap.Tags[srcTag]
		exp, skip, nochild := c18Expected(e, srcRaw, d)
		if nochild {
			j.expectErr = true
			return
		}
		if skip {
			excluded[tgtTag] = "media type not in mediaTypes"
			j.count("ref.tags_excluded_by_mediatype", 1)
			return
		}
		wn := c18Want{SrcTag: srcTag, Src: d, Accept: []string{exp}}
		if exp != d && preT[tgtTag] == d {
			// platform configured, and the target tag already equals the source index: statement accepts
			// "the same digest as at the source"
			wn.Accept = append(wn.Accept, d)
			j.count("ref.platform_preexisting_index_accepted", 1)
		}
		want[tgtTag] = wn
	}
	switch e.Type {
	case "image":
		if _, ok := srcSnap.Tags[e.SrcTag]; ok {
			addWant(e.SrcTag, e.TgtTag)
		} else {
			j.expectErr = true
		}
	default:
		for _, t := range c18SortedKeys(srcSnap.Tags) {
			if c18Selected(e.Allow, e.Deny, t, c18FullMatch) {
				addWant(t, t)
			} else {
				excluded[t] = "excluded by the tag filters"
				j.count("ref.tags_excluded_by_filter", 1)
			}
		}
	}
	j.count("ref.tags_selected", int64(len(want)))

	closure := func(d string) []audit.Problem {
		_, probs := audit.Closure(audit.RepoStore{R: tgtRaw}, d, audit.ClosureOpts{})
		return probs
	}

	// clause: every selected tag is mirrored and complete
	overwritten := map[string]string{} // target tag → previous digest, for tags that changed
	for _, t := range c18SortedKeys(want) {
		wn := want[t]
		preD, postD := preT[t], postT[t]
		label := func(k string) string {
			if l.AltRepo || (e.Type != "image" && altDiff(wn.SrcTag)) {
				return c18AltKey
			}
			return k
		}
		if preD != "" && postD != preD {
			overwritten[t] = preD
		}
		mustMirror := false
		switch c.Action {
		case "copy":
			mustMirror = true
			if !c18In(wn.Accept, preD) {
				j.nontrivial = true
				j.count("ref.tag_writes_due", 1)
			}
		case "missing":
			if preD == "" {
				mustMirror = true
				j.nontrivial = true
				j.count("ref.tag_writes_due", 1)
			} else if j.err == nil {
				j.count("clause.missing.existing_tags_compared", 1)
				if postD != preD {
					j.add(label("missing/existing-tag-overwritten"), "--missing run changed %s:%s, which existed at the target (%s → %s)", l.TgtRepo, t, c18Short(preD), c18Short(postD))
				}
			}
		case "check":
			if !c18In(wn.Accept, preD) {
				j.nontrivial = true
				j.count("ref.check_sync_needed", 1)
			}
			if postD != preD {
				j.add("check/state-changed", "check-only run changed %s:%s (%s → %s)", l.TgtRepo, t, c18Short(preD), c18Short(postD))
			}
		}
		if mustMirror && j.err == nil {
			j.count("clause.mirrored.tags_judged", 1)
			switch {
			case postD == "":
				j.add(label("mirror/selected-tag-missing"), "source tag %s:%s (%s) passes the filters but %s:%s does not exist after a successful run", l.SrcRepo, wn.SrcTag, c18Short(wn.Src), l.TgtRepo, t)
			case !c18In(wn.Accept, postD):
				k := "mirror/selected-tag-wrong-digest"
				if e.Platform != "" && wn.Accept[0] != wn.Src {
					k = "mirror/platform-digest-wrong"
				}
				j.add(label(k), "source tag %s:%s passes the filters; target %s:%s is %s after a successful run, expected %v (was %s before)", l.SrcRepo, wn.SrcTag, l.TgtRepo, t, c18Short(postD), c18ShortAll(wn.Accept), c18Short(preD))
			default:
				j.count("clause.closure.images_walked", 1)
				if probs := closure(postD); len(probs) > 0 {
					j.add("mirror/closure-incomplete", "%s:%s → %s is incomplete at the target: %v", l.TgtRepo, t, c18Short(postD), probs)
				}
				// requested company of the image: its referrers (recursively) and its digest tags. Judged for
				// whole-image mirrors written or refreshed by this run (no platform narrowing, no media-type
				// restriction; with fastCheck a target that already matched is not refreshed)
				refreshed := preD != postD || !e.has("fastCheck")
				if postD == wn.Src && e.Platform == "" && e.MediaTypes == "" && c.Action == "copy" && refreshed && srcRaw != nil && tgtRaw != nil {
					if e.has("referrers") {
						var walkRef func(subj string, depth int)
						walkRef = func(subj string, depth int) {
							for _, rd := range srcRaw.Referrers(subj) {
								j.count("clause.company.referrers_judged", 1)
								var present bool
								j.w.net.With(func() { _, present = tgtRaw.Manifests[rd.Digest] })
								if !present {
									j.add("mirror/referrer-missing", "referrers are requested; %s (%s) refers to %s:%s at the source but is not at the target after a successful run", c18Short(rd.Digest), rd.ArtifactType, l.SrcRepo, wn.SrcTag)
								} else if depth < 3 {
									walkRef(rd.Digest, depth+1)
								}
							}
						}
						walkRef(wn.Src, 0)
					}
					if e.has("digestTags") {
						pfx := strings.Replace(wn.Src, ":", "-", 1)
						for st, sd := range srcSnap.Tags {
							if strings.HasPrefix(st, pfx) && st != pfx {
								j.count("clause.company.digest_tags_judged", 1)
								if postT[st] != sd {
									j.add("mirror/digest-tag-missing", "digest tags are requested; source tag %s → %s belongs to %s:%s but the target has %q after a successful run", st, c18Short(sd), l.SrcRepo, wn.SrcTag, c18Short(postT[st]))
								}
							}
						}
					}
				}
			}
		}
	}

	// clause: backup before overwrite (judged whenever an overwrite of a selected tag was observed)
	legitBackup := map[string]string{} // backup tag (in its repository) → digest it legitimately holds
	if e.Backup != "" {
		for _, ev := range j.evts {
			if ev.Repo != l.TgtRepo || ev.Prev == "" || ev.Prev == ev.New {
				continue
			}
			wn, ok := want[ev.Tag]
			if !ok {
				continue
			}
			_ = wn
			j.count("clause.backup.overwrites_judged", 1)
			br, bt := c18BackupName(e.Backup, ev.Repo, ev.Tag)
			legitBackup[bt] = ev.Prev
			at := ev.BackupAt[e.Backup]
			switch {
			case at != ev.Prev:
				later := false
				for _, le := range j.log {
					if le.Seq > ev.Seq && le.Host == c18TgtHost && le.Kind == "manifest-put" && le.Repo == br && le.Ref == bt && le.Status == 201 {
						later = true
					}
				}
				k := "backup/not-available-at-overwrite"
				if later {
					k = "backup/written-after-overwrite"
				}
				// own key for one recognisable situation: the target tag equalled the source index and it is
				// the platform narrowing that replaces it
				if !later && e.Platform != "" && ev.Prev == wn.Src && wn.Accept[0] != wn.Src && ev.New == wn.Accept[0] {
					k = c18PlatBackupKey
				}
				j.add(k, "backup %q configured; %s:%s was overwritten (%s → %s, request %d) while %s:%s held %s instead of the previous image", c18BackupTemplate(e.Backup), ev.Repo, ev.Tag, c18Short(ev.Prev), c18Short(ev.New), ev.Seq, br, bt, c18Short(at))
			case !ev.BackupOK[e.Backup]:
				j.add("backup/incomplete-at-overwrite", "backup %s:%s pointed at the previous image %s when %s:%s was overwritten, but the image was incomplete there", br, bt, c18Short(ev.Prev), ev.Repo, ev.Tag)
			default:
				// still there after the run
				post := c18Tags(j.post[c18TgtHost][br])[bt]
				if post != ev.Prev {
					j.add("backup/lost-after-run", "backup %s:%s held %s at the overwrite but is %s after the run", br, bt, c18Short(ev.Prev), c18Short(post))
				}
			}
		}
	}

	// clause: everything else in the target repository is as before
	if j.err == nil {
		for _, u := range c18UnionKeys2(preT, postT) {
			if _, ok := want[u]; ok {
				continue
			}
			preD, postD := preT[u], postT[u]
			j.count("clause.untouched.tags_compared", 1)
			if preD == postD {
				continue
			}
			if e.Backup == "tag" {
				if d, ok := legitBackup[u]; ok && postD == d {
					j.count("tolerated.backup_tag_written", 1)
					continue
				}
			}
			// oracle caution: digest tags (sha256-<hex><suffix>, switch digestTags) and referrers fallback tags
			// (exactly sha256-<hex>, switch referrers) of content that is at the target are not "untouched" violations
			if m := c18DigestTagRe.FindStringSubmatch(u); m != nil && (e.has("digestTags") || (e.has("referrers") && m[3] == "")) && tgtPost != nil && tgtPost.Manifests[m[1]+":"+m[2]] {
				if sd, isSrc := srcSnap.Tags[u]; !isSrc || sd == postD {
					j.count("tolerated.digest_or_fallback_tag_written", 1)
					continue
				}
			}
			_, isSrc := srcSnap.Tags[u]
			if e.Backup == "tag" && strings.HasPrefix(u, "bkup-") {
				// the backup of a tag that only the pasted-anchor reading of an alternation selects
				if _, ok := srcSnap.Tags[u[5:]]; ok && e.Type != "image" && altDiff(u[5:]) && postD == preT[u[5:]] {
					j.add(c18AltKey, "source tag %s:%s is excluded by the filters allow=%v deny=%v read as full matches, yet its target tag was overwritten and backed up as %s:%s", l.SrcRepo, u[5:], e.Allow, e.Deny, l.TgtRepo, u)
					continue
				}
			}
			switch {
			case isSrc && e.Type != "image" && altDiff(u):
				j.add(c18AltKey, "source tag %s:%s is excluded by the filters allow=%v deny=%v read as full matches, yet target %s:%s changed %s → %s", l.SrcRepo, u, e.Allow, e.Deny, l.TgtRepo, u, c18Short(preD), c18Short(postD))
			case isSrc:
				why := excluded[u]
				if why == "" {
					why = "not the entry's tag"
				}
				j.add("untouched/excluded-source-tag-written", "source tag %s:%s is not selected (%s; allow=%v deny=%v), yet target %s:%s changed %s → %s", l.SrcRepo, u, why, e.Allow, e.Deny, l.TgtRepo, u, c18Short(preD), c18Short(postD))
			case postD == "":
				j.add("untouched/target-tag-removed", "target tag %s:%s (no source counterpart) was removed (was %s)", l.TgtRepo, u, c18Short(preD))
			case preD == "":
				j.add("untouched/unexpected-tag-created", "target tag %s:%s (no source counterpart, not a configured backup/digest/referrer tag) was created → %s", l.TgtRepo, u, c18Short(postD))
			default:
				j.add("untouched/foreign-target-tag-moved", "target tag %s:%s (no source counterpart) moved %s → %s", l.TgtRepo, u, c18Short(preD), c18Short(postD))
			}
		}
		if tgtPre != nil {
			for d := range tgtPre.Manifests {
				if tgtPost == nil || !tgtPost.Manifests[d] {
					j.add("untouched/content-removed", "manifest %s was removed from %s", c18Short(d), l.TgtRepo)
				}
			}
			for d := range tgtPre.Blobs {
				if tgtPost == nil || !tgtPost.Blobs[d] {
					j.add("untouched/content-removed", "blob %s was removed from %s", c18Short(d), l.TgtRepo)
				}
			}
		}
		// the separate backup repository: only the legitimate backup tags may change, nothing is removed
		if e.Backup == "repo" {
			br, _ := c18BackupName("repo", l.TgtRepo, "x")
			bPre, bPost := j.pre[c18TgtHost][br], j.post[c18TgtHost][br]
			bp, bq := c18Tags(bPre), c18Tags(bPost)
			for _, u := range c18UnionKeys2(bp, bq) {
				j.count("clause.untouched.tags_compared", 1)
				if bp[u] == bq[u] {
					continue
				}
				if d, ok := legitBackup[u]; ok && bq[u] == d {
					j.count("tolerated.backup_tag_written", 1)
					continue
				}
				if _, ok := srcSnap.Tags[u]; ok && e.Type != "image" && altDiff(u) && bq[u] == preT[u] {
					j.add(c18AltKey, "source tag %s:%s is excluded by the filters allow=%v deny=%v read as full matches, yet its target tag was overwritten and backed up as %s:%s", l.SrcRepo, u, e.Allow, e.Deny, br, u)
					continue
				}
				j.add("untouched/backup-repository-tag-changed", "tag %s:%s in the backup repository changed %s → %s although no selected tag with that name was overwritten", br, u, c18Short(bp[u]), c18Short(bq[u]))
			}
			if bPre != nil {
				for d := range bPre.Manifests {
					if bPost == nil || !bPost.Manifests[d] {
						j.add("untouched/content-removed", "manifest %s was removed from %s", c18Short(d), br)
					}
				}
			}
		}
	}
}

func c18UnionKeys2(a, b map[string]string) []string {
	m := map[string]bool{}
	for k := range a {
		m[k] = true
	}
	for k := range b {
		m[k] = true
	}
	ks := make([]string, 0, len(m))
	for k := range m {
		ks = append(ks, k)
	}
	sort.Strings(ks)
	return ks
}

func c18ShortAll(l []string) []string {
	var out []string
	for _, d := range l {
		out = append(out, c18Short(d))
	}
	return out
}
