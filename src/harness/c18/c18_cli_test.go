package main

// C18 secondary route — the command line entry point: NewRootCmd().Execute() with
// `once [--missing] -c <file>` / `check -c <file>`, so that the sub-command and flag wiring, loadConf
// (client built from the `creds` of the generated file) and the real runOnce / runCheck loops are
// part of what is checked. The command builds its own regclient; its transport is a clone of
// http.DefaultTransport, whose DialContext this harness points at in-memory net.Pipe connections
// served by an http.Server in this process (no sockets) that forwards every request to the same
// modelreg.Net the primary route uses.

import (
	"context"
	"errors"
	"fmt"
	"io"
	"net"
	"net/http"
	"os"
	"path/filepath"
	"sync"

	"github.com/regclient/regclient/internal/verif/modelreg"
)

type c18Pipe struct {
	conns chan net.Conn
	mu    sync.Mutex
	cur   *modelreg.Net
}

var (
	c18PipeOnce sync.Once
	c18PipeInst *c18Pipe
	c18PipeErr  error
)

func (p *c18Pipe) Accept() (net.Conn, error) {
	c, ok := <-p.conns
	if !ok {
		return nil, errors.New("closed")
	}
	return c, nil
}
func (p *c18Pipe) Close() error   { return nil }
func (p *c18Pipe) Addr() net.Addr { return &net.TCPAddr{IP: net.IPv4(192, 0, 2, 1), Port: 80} }

func (p *c18Pipe) dial(ctx context.Context, network, addr string) (net.Conn, error) {
	host, _, _ := net.SplitHostPort(addr)
	if host != c18SrcHost && host != c18TgtHost {
		return nil, fmt.Errorf("c18: dial %s: no such host", addr)
	}
	a, b := net.Pipe()
	p.conns <- b
	return a, nil
}

func (p *c18Pipe) ServeHTTP(rw http.ResponseWriter, req *http.Request) {
	p.mu.Lock()
	n := p.cur
	p.mu.Unlock()
	host := req.Host
	if h, _, err := net.SplitHostPort(host); err == nil {
		host = h
	}
	r2 := req.Clone(req.Context())
	u := *req.URL
	u.Scheme, u.Host = "http", host
	r2.URL, r2.RequestURI, r2.Host = &u, "", host
	resp, err := n.RoundTrip(r2)
	if err != nil {
		http.Error(rw, err.Error(), http.StatusBadGateway)
		return
	}
	for k, v := range resp.Header {
		rw.Header()[k] = v
	}
	rw.WriteHeader(resp.StatusCode)
	if resp.Body != nil {
		io.Copy(rw, resp.Body)
		resp.Body.Close()
	}
}

func c18GetPipe() (*c18Pipe, error) {
	c18PipeOnce.Do(func() {
		t, ok := http.DefaultTransport.(*http.Transport)
		if !ok {
			c18PipeErr = errors.New("http.DefaultTransport is not *http.Transport")
			return
		}
		p := &c18Pipe{conns: make(chan net.Conn, 64)}
		t.DialContext = p.dial
		t.Proxy = nil
		srv := &http.Server{Handler: p}
		srv.SetKeepAlivesEnabled(false)
		go srv.Serve(p)
		c18PipeInst = p
	})
	return c18PipeInst, c18PipeErr
}

// runCLI is the command-line counterpart of run.
func (w *c18World) runCLI(scratch string) (err error, log []*modelreg.Entry, evts []c18PutEvt) {
	p, perr := c18GetPipe()
	if perr != nil {
		return fmt.Errorf("c18 harness: %w", perr), nil, nil
	}
	p.mu.Lock()
	p.cur = w.net
	p.mu.Unlock()
	file := filepath.Join(scratch, "c18-regsync.yml")
	if werr := os.WriteFile(file, []byte(w.yaml), 0o644); werr != nil {
		return fmt.Errorf("c18 harness: %w", werr), nil, nil
	}
	var args []string
	switch w.c.Action {
	case "check":
		args = []string{"check", "-c", file}
	case "missing":
		args = []string{"once", "--missing", "-c", file}
	default:
		args = []string{"once", "-c", file}
	}
	args = append(args, "-v", "error")
	start := w.net.LogLen()
	w.mu.Lock()
	w.events = nil
	w.mu.Unlock()
	cmd, _ := NewRootCmd()
	cmd.SetArgs(args)
	cmd.SetOut(io.Discard)
	cmd.SetErr(io.Discard)
	err = cmd.ExecuteContext(context.Background())
	w.mu.Lock()
	evts = append([]c18PutEvt{}, w.events...)
	w.mu.Unlock()
	return err, w.net.LogSince(start), evts
}
