package hc05

// C05 — a blob upload commits exactly the caller's bytes under their digest, or fails.
//
// The real RegClient.BlobPut is run against the model registry (and an OCI layout) for every
// configuration of a bounded grid, and for the registry every sequence of at most k server
// deviations (partial chunk acceptance, early 201, lost replies, 416 re-sync, transient 5xx /
// resets, rejected monolithic PUT) injected at the upload requests.

import (
	"bytes"
	"context"
	"encoding/json"
	"errors"
	"fmt"
	"io"
	"net/http"
	"net/url"
	"os"
	"path/filepath"
	"strings"
	"testing"

	"github.com/regclient/regclient"
	"github.com/regclient/regclient/config"
	"github.com/regclient/regclient/internal/verif/ev"
	"github.com/regclient/regclient/internal/verif/explore"
	"github.com/regclient/regclient/internal/verif/modelreg"
	"github.com/regclient/regclient/internal/verif/qsched"
	"github.com/regclient/regclient/internal/verif/rcenv"
	"github.com/regclient/regclient/types/descriptor"
	"github.com/regclient/regclient/types/ref"
	"github.com/opencontainers/go-digest"
)

type Cfg struct {
	Len     int    `json:"len"`
	Chunk   int    `json:"chunk"`
	Max     int    `json:"max"`  // host BlobMax: -1 never chunk by size, n>0 chunk when larger
	Desc    string `json:"desc"` // absent, right, wrong-digest, size+1, size-1, size-only, digest-only
	Algo    string `json:"algo"`
	Reader  string `json:"reader"` // seek, noseek, onebyte
	// Flaky: a front end answers the PATCH of the chunk that starts at offset 0 ("first") or at the
	// chunk size ("second") with 502 (not forwarded) until the client has asked the session for its
	// status, and is transparent afterwards; the registry states an empty session as "0--1"
	Flaky string `json:"flaky,omitempty"`
	Loc     string `json:"loc"`    // "", abs, query
	MinCh   int    `json:"chunk_min"`
	Target  string `json:"target"` // reg, dir
	Preload bool   `json:"preload,omitempty"`
	// Via: "" chunk and limit are per-host settings; "client" they are the client-wide settings
	// (regclient.WithBlobSize); "both" the client-wide chunk is Chunk and the host's is 2*Chunk
	Via string `json:"via,omitempty"`
	// Mount: "anon" the registry accepts a mount without a source repository and another
	// repository already holds content under the DECLARED digest (the stream's bytes when the
	// declaration is right, other bytes when the declared digest is wrong)
	Mount string `json:"mount,omitempty"`
}

func (c Cfg) String() string {
	return fmt.Sprintf("len=%d chunk=%d max=%d desc=%s/%s reader=%s loc=%q minchunk=%d tgt=%s via=%q", c.Len, c.Chunk, c.Max, c.Desc, c.Algo, c.Reader, c.Loc, c.MinCh, c.Target, c.Via) + map[bool]string{true: " mount=" + c.Mount}[c.Mount != ""] + map[bool]string{true: " flaky-chunk=" + c.Flaky}[c.Flaky != ""]
}

func content(n int) []byte {
	b := make([]byte, n)
	for i := range b {
		b[i] = "abcdefghijklmnopqrstuvwxyz"[i%26]
	}
	return b
}

type noSeek struct{ r io.Reader }

func (n noSeek) Read(p []byte) (int, error) { return n.r.Read(p) }

type oneByte struct{ r *bytes.Reader }

func (o oneByte) Read(p []byte) (int, error) {
	if len(p) > 1 {
		p = p[:1]
	}
	return o.r.Read(p)
}
func (o oneByte) Seek(off int64, wh int) (int64, error) { return o.r.Seek(off, wh) }

// failMid delivers the first half of the content and then fails, like a source connection that
// drops during a copy; it fails again after every rewind.
type failMid struct {
	b   []byte
	pos int
}

var errSource = errors.New("source stream failed")

func (f *failMid) Read(p []byte) (int, error) {
	if f.pos >= len(f.b)/2 {
		return 0, errSource
	}
	n := copy(p, f.b[f.pos:len(f.b)/2])
	f.pos += n
	return n, nil
}

type failMidSeek struct{ failMid }

func (f *failMidSeek) Seek(off int64, wh int) (int64, error) {
	if wh != io.SeekStart || off != 0 {
		return 0, errors.New("unsupported seek")
	}
	f.pos = 0
	return 0, nil
}

// reads counts what was actually consumed from the caller's stream
type countRd struct {
	r    io.Reader
	seen []byte
}

const host = "up.example"
const repo = "proj/up"

type result struct {
	cfg      Cfg
	err      error
	ret      descriptor.Descriptor
	net      *modelreg.Net
	dir      string
	faults   []string
	hostile  bool
	nreq     int
	declared descriptor.Descriptor
	data     []byte
}

// cutUnit is the chunk size of the configuration being run (cut points are placed around it)
var cutUnit = 2

// deviations offered at one request; the first entry of every list is the conforming answer.
func deviations(e *modelreg.Entry, n *modelreg.Net) []string {
	switch e.Kind {
	case "upload-post":
		return []string{"ok", "500", "reset"}
	case "upload-put":
		if len(e.Body) > 0 {
			d := []string{"ok", "500", "reset", "413", "applied-reset"}
			if e.Query.Get("_moved") == "" {
				d = append(d, "redir-307")
			}
			// the connection is lost in the middle of the body: the session keeps the prefix it received
			if h := n.Hosts[e.Host]; h != nil {
				if up := h.Repo(e.Repo).Uploads[e.Ref]; up != nil && len(up.Data) == 0 && e.Header.Get("Content-Range") == "" {
					seen := map[int]bool{}
					for _, k := range []int{1, cutUnit, cutUnit + 1, 2*cutUnit + 1, len(e.Body) - 1} {
						if k > 0 && k < len(e.Body) && !seen[k] {
							seen[k] = true
							d = append(d, fmt.Sprintf("cut-%d", k))
						}
					}
				}
			}
			return d
		}
		return []string{"ok", "500", "reset", "applied-reset"}
	case "upload-patch":
		// acceptance deviations only make sense for a chunk the server would accept: one that
		// starts where the session stands
		valid := false
		if h := n.Hosts[e.Host]; h != nil {
			if up := h.Repo(e.Repo).Uploads[e.Ref]; up != nil {
				var a, b int
				if cr := e.Header.Get("Content-Range"); cr == "" {
					valid = true
				} else if _, err := fmt.Sscanf(cr, "%d-%d", &a, &b); err == nil && a == len(up.Data) {
					valid = true
				}
			}
		}
		if !valid {
			return []string{"ok", "500", "reset"}
		}
		d := []string{"ok", "500", "reset", "applied-reset", "early-201", "416-resync", "no-range"}
		if len(e.Body) > 0 && e.Query.Get("_moved") == "" {
			d = append(d, "redir-307")
		}
		for k := 1; k < len(e.Body) && k <= 3; k++ {
			d = append(d, fmt.Sprintf("partial-%d", k))
		}
		return d
	case "upload-get", "upload-delete":
		return []string{"ok", "500"}
	}
	return []string{"ok"}
}

func relocate(e *modelreg.Entry) *modelreg.Answer {
	q := url.Values{}
	for k, v := range e.Query {
		q[k] = v
	}
	q.Set("_moved", "1")
	a := &modelreg.Answer{Status: 307, Header: http.Header{}, Note: "dev-redir-307"}
	a.Header.Set("Location", e.Path+"?"+q.Encode())
	return a
}

func run(t *testing.T, c *explore.Ctx, cfg Cfg, scratch string) *result {
	res := &result{cfg: cfg, data: content(cfg.Len)}
	algo := digest.SHA256
	if cfg.Algo == "sha512" {
		algo = digest.SHA512
	}
	right := descriptor.Descriptor{Digest: algo.FromBytes(res.data), Size: int64(cfg.Len)}
	d := descriptor.Descriptor{}
	switch cfg.Desc {
	case "right":
		d = right
	case "wrong-digest":
		d = descriptor.Descriptor{Digest: algo.FromBytes(append([]byte("x"), res.data...)), Size: int64(cfg.Len)}
	case "size+1":
		d = descriptor.Descriptor{Digest: right.Digest, Size: int64(cfg.Len) + 1}
	case "size-1":
		d = descriptor.Descriptor{Digest: right.Digest, Size: int64(cfg.Len) - 1}
	case "size-only":
		d = descriptor.Descriptor{Size: int64(cfg.Len)}
	case "digest-only":
		d = descriptor.Descriptor{Digest: right.Digest}
	case "absent":
		if cfg.Algo == "sha512" {
			// the only way to ask for sha512 without a digest is the descriptor's algorithm hint
			d = descriptor.Descriptor{}
		}
	}
	res.declared = d
	var rdr io.Reader
	br := bytes.NewReader(res.data)
	switch cfg.Reader {
	case "seek":
		rdr = br
	case "noseek":
		rdr = noSeek{br}
	case "onebyte":
		rdr = oneByte{br}
	case "failmid":
		rdr = &failMid{b: res.data}
	case "failmid-seek":
		rdr = &failMidSeek{failMid{b: res.data}}
	}
	_, other := qsched.Bubble(t, func() {
		ctx := context.Background()
		if cfg.Target == "dir" {
			res.dir = filepath.Join(scratch, "lay")
			rc := rcenv.New(modelreg.NewNet(), nil, rcenv.Opts{})
			r, err := ref.New("ocidir://" + res.dir + ":t")
			if err != nil {
				t.Fatal(err)
			}
			res.ret, res.err = rc.BlobPut(ctx, r, d, rdr)
			return
		}
		net := modelreg.NewNet()
		res.net = net
		f := modelreg.Full()
		if cfg.Loc != "redir" {
			f.Location = cfg.Loc
		}
		f.ChunkMin = cfg.MinCh
		f.AnonMount = cfg.Mount == "anon"
		if cfg.Flaky != "" {
			f.EmptyRange = "minus1"
		}
		statusAsked := false
		h := net.AddHost(host, f)
		if cfg.Preload {
			h.Repo("other/repo").Blobs[right.Digest.String()] = res.data
		}
		if cfg.Mount == "anon" {
			if cfg.Desc == "wrong-digest" {
				h.Repo("other/repo").Blobs[d.Digest.String()] = append([]byte("x"), res.data...)
			} else if d.Digest != "" {
				h.Repo("other/repo").Blobs[d.Digest.String()] = res.data
			}
		}
		net.Decide = func(e *modelreg.Entry) *modelreg.Answer {
			res.nreq++
			if res.nreq > 400 {
				return &modelreg.Answer{Err: errors.New("harness: request horizon")}
			}
			cutUnit = cfg.Chunk
			if cfg.Flaky != "" {
				// configuration, not a deviation (the failures outlast the request-level retries)
				if e.Kind == "upload-get" {
					statusAsked = true
				}
				if e.Kind == "upload-patch" && !statusAsked {
					want := 0
					if cfg.Flaky == "second" {
						want = cfg.Chunk
					}
					var a, b int
					if cr := e.Header.Get("Content-Range"); cr != "" {
						fmt.Sscanf(cr, "%d-%d", &a, &b)
					}
					if a == want {
						return &modelreg.Answer{Status: 502, Header: http.Header{}, Body: []byte("bad gateway"), Note: "flaky-502"}
					}
				}
				return nil
			}
			if cfg.Loc == "redir" && len(e.Body) > 0 && e.Query.Get("_moved") == "" && (e.Kind == "upload-put" || e.Kind == "upload-patch") {
				// configuration, not a deviation: a front end that relocates every data-carrying
				// request of the session (307: same method, same body, other URL)
				return relocate(e)
			}
			devs := deviations(e, net)
			ch := c.Choose(e.Kind, len(devs), nil)
			if ch == 0 {
				return nil
			}
			dv := devs[ch]
			res.faults = append(res.faults, fmt.Sprintf("%s@%d(%s)", dv, e.Seq, e.Kind))
			// Liveness is demanded against conforming server behaviour and transient failures in
			// which the request was NOT processed. A 416 in answer to a valid chunk is not
			// conforming, and a reply lost after a committing PUT was processed leaves the client
			// without a session to continue: both stay in the alphabet for the safety and
			// termination clauses only.
			if dv == "416-resync" || dv == "no-range" || (dv == "applied-reset" && e.Kind == "upload-put") {
				res.hostile = true
			}
			switch {
			case dv == "500":
				return &modelreg.Answer{Status: 500, Header: http.Header{}, Body: []byte("{}"), Note: "fault-500"}
			case dv == "reset":
				return &modelreg.Answer{Err: errors.New("connection reset by peer"), Note: "fault-reset"}
			case dv == "redir-307":
				// a front end relocates the data-carrying request itself (307: same method, same
				// body, other URL); net/http follows it and asks the request for a fresh body
				return relocate(e)
			case dv == "413":
				return &modelreg.Answer{Status: 413, Header: http.Header{}, Body: []byte("{}"), Note: "fault-413"}
			case dv == "applied-reset":
				return &modelreg.Answer{Apply: true, Err: errors.New("connection reset by peer"), Note: "fault-applied-reset"}
			case dv == "early-201":
				// the chunk is stored and acknowledged with 201 instead of 202 (lenient form: the
				// closing PUT is still accepted)
				var a *modelreg.Answer
				up := h.Repo(e.Repo).Uploads[e.Ref]
				if up == nil {
					return nil
				}
				up.Data = append(up.Data, e.Body...)
				a = &modelreg.Answer{Status: 201, Header: http.Header{}, Note: "dev-early-201"}
				a.Header.Set("Location", "/v2/"+e.Repo+"/blobs/uploads/"+up.ID)
				a.Header.Set("Range", fmt.Sprintf("0-%d", max(len(up.Data)-1, 0)))
				return a
			case dv == "no-range":
				// the chunk is stored and acknowledged, but the 202 carries no Range header (older
				// registries): outside the spec, so only the safety clauses apply
				up := h.Repo(e.Repo).Uploads[e.Ref]
				if up == nil {
					return nil
				}
				a := &modelreg.Answer{Apply: true, Status: 202, Header: http.Header{}, Note: "dev-no-range"}
				a.Header.Set("Location", "/v2/"+e.Repo+"/blobs/uploads/"+up.ID)
				return a
			case dv == "416-resync":
				up := h.Repo(e.Repo).Uploads[e.Ref]
				if up == nil {
					return nil
				}
				a := &modelreg.Answer{Status: 416, Header: http.Header{}, Note: "dev-416"}
				a.Header.Set("Location", "/v2/"+e.Repo+"/blobs/uploads/"+up.ID)
				a.Header.Set("Range", fmt.Sprintf("0-%d", max(len(up.Data)-1, 0)))
				return a
			case strings.HasPrefix(dv, "cut-"):
				var k int
				fmt.Sscanf(dv, "cut-%d", &k)
				up := h.Repo(e.Repo).Uploads[e.Ref]
				if up == nil {
					return nil
				}
				up.Data = append(up.Data, e.Body[:k]...)
				return &modelreg.Answer{Err: errors.New("connection reset by peer"), Note: "dev-" + dv}
			case strings.HasPrefix(dv, "partial-"):
				var k int
				fmt.Sscanf(dv, "partial-%d", &k)
				up := h.Repo(e.Repo).Uploads[e.Ref]
				if up == nil {
					return nil
				}
				up.Data = append(up.Data, e.Body[:k]...)
				a := &modelreg.Answer{Status: 202, Header: http.Header{}, Note: "dev-" + dv}
				a.Header.Set("Location", "/v2/"+e.Repo+"/blobs/uploads/"+up.ID)
				a.Header.Set("Range", fmt.Sprintf("0-%d", len(up.Data)-1))
				return a
			}
			return nil
		}
		hc := config.Host{Name: host, Hostname: host, TLS: config.TLSDisabled, BlobChunk: int64(cfg.Chunk), BlobMax: int64(cfg.Max)}
		ro := rcenv.Opts{}
		switch cfg.Via {
		case "client":
			hc.BlobChunk, hc.BlobMax = 0, 0
			ro.Extra = []regclient.Opt{regclient.WithBlobSize(int64(cfg.Chunk), int64(cfg.Max))}
		case "both":
			hc.BlobChunk = int64(2 * cfg.Chunk)
			ro.Extra = []regclient.Opt{regclient.WithBlobSize(int64(cfg.Chunk), int64(cfg.Max))}
		}
		ro.Hosts = []config.Host{hc}
		rc := rcenv.New(net, nil, ro)
		r, err := ref.New(host + "/" + repo + ":t")
		if err != nil {
			t.Fatal(err)
		}
		res.ret, res.err = rc.BlobPut(ctx, r, d, rdr)
	})
	if other != nil {
		res.err = fmt.Errorf("PANIC: %v", other)
	}
	return res
}

func (r *result) stored(dig string) ([]byte, bool) {
	if r.cfg.Target == "dir" {
		sp := strings.SplitN(dig, ":", 2)
		if len(sp) != 2 {
			return nil, false
		}
		b, err := os.ReadFile(filepath.Join(r.dir, "blobs", sp[0], sp[1]))
		return b, err == nil
	}
	b, ok := r.net.Hosts[host].Repo(repo).Blobs[dig]
	return b, ok
}

// judge returns a violation key and message, or "".
func judge(r *result) (string, string) {
	cfg := r.cfg
	algo := cfg.Algo
	actual := modelreg.Digest(algo, r.data)
	mismatch := cfg.Desc == "wrong-digest" || cfg.Desc == "size+1" || cfg.Desc == "size-1"
	if r.err != nil && strings.HasPrefix(r.err.Error(), "PANIC") {
		return "panic", r.err.Error()
	}
	if r.nreq > 400 {
		return "no-termination", "upload exceeded 400 requests"
	}
	if strings.HasPrefix(cfg.Reader, "failmid") && !(cfg.Mount == "anon" && r.net != nil && len(r.net.Log) == 1) {
		// the caller's stream fails half way: nothing may be reported or committed as this blob
		if r.err == nil {
			return "source-error-swallowed", fmt.Sprintf("the source stream failed after %d of %d bytes but BlobPut returned nil (%s)", len(r.data)/2, len(r.data), r.ret.Digest)
		}
		for _, dd := range []string{r.declared.Digest.String(), actual, modelreg.Digest(algo, r.data[:len(r.data)/2])} {
			if dd == "" || (dd != actual && dd != r.declared.Digest.String() && len(r.data)/2 == 0) {
				continue
			}
			if got, ok := r.stored(dd); ok && !(dd == modelreg.Digest(algo, r.data[:len(r.data)/2]) && cfg.Mount == "anon") {
				return "committed-after-source-error", fmt.Sprintf("the source stream failed after %d of %d bytes, BlobPut returned %v, but %q is stored under %s", len(r.data)/2, len(r.data), r.err, got, dd)
			}
		}
		return "", ""
	}
	if r.err == nil && mismatch && cfg.Mount == "anon" && len(r.net.Log) == 1 {
		// the registry accepted the anonymous mount of the declared digest: the stream was never read
		return "mismatch-accepted via-anonymous-mount!", fmt.Sprintf("descriptor %s does not match the stream (digest %s, len %d) but BlobPut succeeded after the registry mounted the declared digest from another repository; the stream was not read", cfg.Desc, actual, len(r.data))
	}
	if r.err == nil {
		// success: destination holds under the returned digest exactly the stream's bytes
		got, ok := r.stored(r.ret.Digest.String())
		if !ok {
			return "success-without-content", fmt.Sprintf("BlobPut returned %s but nothing is stored under it", r.ret.Digest)
		}
		if !bytes.Equal(got, r.data) {
			return "committed-wrong-bytes", fmt.Sprintf("BlobPut returned nil; stored %q, stream was %q", got, r.data)
		}
		if r.ret.Size != int64(len(r.data)) {
			return "wrong-size-returned", fmt.Sprintf("returned size %d, stream length %d", r.ret.Size, len(r.data))
		}
		if mismatch {
			return "mismatch-accepted", fmt.Sprintf("descriptor %s does not match the stream (digest %s, len %d) but BlobPut succeeded", cfg.Desc, actual, len(r.data))
		}
		if r.ret.Digest.String() != actual && !(cfg.Algo == "sha512" && cfg.Desc != "right" && cfg.Desc != "digest-only") {
			return "wrong-digest-returned", fmt.Sprintf("returned %s, content digest %s", r.ret.Digest, actual)
		}
		return "", ""
	}
	// failure
	if mismatch {
		if dd := r.declared.Digest.String(); dd != "" {
			if got, ok := r.stored(dd); ok && cfg.Desc == "wrong-digest" {
				return "committed-under-wrong-digest", fmt.Sprintf("content %q committed under the declared but wrong digest %s", got, dd)
			} else if ok && !bytes.Equal(got, r.data) {
				return "committed-wrong-bytes", fmt.Sprintf("stored %q under %s, stream was %q", got, dd, r.data)
			}
		}
		return "", ""
	}
	// well-formed input: liveness against conforming behaviour
	if r.hostile {
		return "", ""
	}
	// a source that cannot be rewound cannot be sent a second time: after a transient failure or a
	// relocation of the data-carrying request no client can complete it (safety clauses still apply)
	live := cfg.Reader != "noseek" || (len(r.faults) == 0 && cfg.Loc != "redir")
	if cfg.Flaky != "" {
		// chunks are buffered by the client, so a chunk can be sent again whatever the source is
		live = true
	}
	if cfg.Target == "dir" {
		live = true
	}
	if live {
		return "wellformed-upload-failed", fmt.Sprintf("well-formed upload failed against conforming server behaviour: %v (deviations %v)", r.err, r.faults)
	}
	return "", ""
}

func lengths(c, mx int) []int {
	set := map[int]bool{}
	add := func(v int) {
		if v >= 0 && v <= 14 {
			set[v] = true
		}
	}
	for _, v := range []int{0, 1, c - 1, c, c + 1, 2*c - 1, 2 * c, 2*c + 1, 3 * c} {
		add(v)
	}
	if mx > 0 {
		add(mx - 1)
		add(mx)
		add(mx + 1)
	}
	var out []int
	for v := 0; v <= 14; v++ {
		if set[v] {
			out = append(out, v)
		}
	}
	return out
}

type item struct {
	cfg   Cfg
	bound int
}

func grid(thorough bool) []item {
	var out []item
	descs := []string{"absent", "right", "wrong-digest", "size+1", "size-1", "size-only", "digest-only"}
	readers := []string{"seek", "noseek", "onebyte", "failmid", "failmid-seek"}
	// 1. configuration grid at 0 deviations (registry and layout)
	for _, c := range []int{1, 2, 3, 4} {
		for _, mx := range []int{-1, 1, 2 * c} {
			for _, n := range lengths(c, mx) {
				for _, d := range descs {
					if d == "size-1" && n <= 1 {
						continue // a declared size of 0 means "unknown", not a mismatch
					}
					for _, a := range []string{"sha256", "sha512"} {
						for _, rd := range readers {
							for _, loc := range []string{"", "abs", "query", "redir"} {
								for _, mc := range []int{0, c + 1, 3 * c} {
									if (loc != "" || mc != 0) && (a == "sha512" || rd == "onebyte" || strings.HasPrefix(rd, "failmid")) {
										continue
									}
									if strings.HasPrefix(rd, "failmid") && (n == 0 || strings.HasPrefix(d, "size") || d == "wrong-digest") {
										continue
									}
									out = append(out, item{Cfg{Len: n, Chunk: c, Max: mx, Desc: d, Algo: a, Reader: rd, Loc: loc, MinCh: mc, Target: "reg"}, 0})
									if loc == "" && (mc != 0 || d == "right" || d == "absent") {
										out = append(out, item{Cfg{Len: n, Chunk: c, Max: mx, Desc: d, Algo: a, Reader: rd, MinCh: mc, Target: "reg", Via: "client"}, 0})
										if mc != 0 {
											out = append(out, item{Cfg{Len: n, Chunk: c, Max: mx, Desc: d, Algo: a, Reader: rd, MinCh: mc, Target: "reg", Via: "both"}, 0})
										}
									}
								}
							}
							if strings.HasPrefix(rd, "failmid") && (n == 0 || strings.HasPrefix(d, "size") || d == "wrong-digest") {
								continue
							}
							if mx == -1 {
								out = append(out, item{Cfg{Len: n, Chunk: c, Max: mx, Desc: d, Algo: a, Reader: rd, Target: "dir"}, 0})
							}
							if d != "absent" && d != "size-only" && !strings.HasPrefix(rd, "failmid") {
								out = append(out, item{Cfg{Len: n, Chunk: c, Max: mx, Desc: d, Algo: a, Reader: rd, Target: "reg", Mount: "anon"}, 0})
							}
						}
					}
				}
			}
		}
	}
	// 1b. a front end that fails one chunk until the client asks the session where it stands
	for _, c := range []int{1, 2, 3} {
		for _, n := range []int{1, c, c + 1, 2*c + 1, 3 * c} {
			for _, d := range []string{"absent", "right"} {
				for _, rd := range []string{"seek", "noseek"} {
					for _, fl := range []string{"first", "second"} {
						mx := -1
						if d == "right" {
							mx = 1 // declared and over the single-request limit: chunked
						}
						out = append(out, item{Cfg{Len: n, Chunk: c, Max: mx, Desc: d, Algo: "sha256", Reader: rd, Target: "reg", Flaky: fl}, 0})
					}
				}
			}
		}
	}
	// 2. server deviations
	b := 2
	if thorough {
		b = 3
	}
	for _, c := range []int{2, 3} {
		for _, mx := range []int{-1, 2 * c} {
			for _, n := range lengths(c, mx) {
				for _, d := range []string{"right", "absent", "wrong-digest", "size-1"} {
					if d == "size-1" && n <= 1 {
						continue
					}
					for _, rd := range []string{"seek", "noseek"} {
						for _, loc := range []string{"", "query", "redir"} {
							if loc == "query" && (d != "right" || rd != "seek") {
								continue
							}
							if loc == "redir" && d != "right" && d != "absent" {
								continue
							}
							bb := b
							if n > 2*c+1 && !thorough {
								bb = 1
							}
							out = append(out, item{Cfg{Len: n, Chunk: c, Max: mx, Desc: d, Algo: "sha256", Reader: rd, Loc: loc, Target: "reg"}, bb})
							if loc == "" && d == "right" {
								out = append(out, item{Cfg{Len: n, Chunk: c, Max: mx, Desc: d, Algo: "sha256", Reader: rd, Target: "reg", Mount: "anon"}, bb})
							}
						}
					}
				}
			}
		}
	}
	return out
}

type replay struct {
	Cfg     Cfg   `json:"cfg"`
	Choices []int `json:"choices"`
}

func TestVerifC05(t *testing.T) {
	rec := ev.New()
	defer rec.Flush(t)
	rec.Rule("configuration grid = blob length around every chunk/max boundary × chunk size × single-request limit × declared descriptor {absent, right, wrong digest, size±1, size only, digest only} × {sha256, sha512} × reader {seekable, non-seekable, one byte at a time, failing half way (plain and rewindable)} × a front end failing the first / the second chunk with 502 until the client asks the session for its status (registry stating an empty session as 0--1) × upload Location style {relative, absolute, with query, every data-carrying request relocated by a 307} × server minimum chunk × anonymous mount declined / accepted (another repository holds the declared digest) × destination {registry model, OCI layout}; " +
		"for the registry additionally every sequence of at most k deviations at the upload requests {500, connection reset, reply lost after the server applied the request, connection lost in the middle of the single PUT's body with the received prefix kept by the session (cut after 1, chunk, chunk+1, 2·chunk+1, all-but-one bytes), 413 on the single PUT, early 201, 416 re-sync, 202 without Range, partial acceptance of 1..3 bytes of a chunk}, k=2 quick / 3 thorough. " +
		"Oracle: committed bytes under the returned digest = stream; a failing source ⇒ error and nothing committed under the declared, the full or the prefix digest; declared≠actual ⇒ error and nothing under the declared digest; well-formed input against conforming behaviour succeeds. distinct_nontrivial = distinct (configuration, deviation list, outcome)")
	rec.Assume("the in-memory transport reproduces net/http's Content-Length enforcement; all deviations offered are behaviours a conforming registry or a flaky network may show")
	if rd := rec.ReplayData(); rd != nil {
		var rp replay
		if err := json.Unmarshal(rd, &rp); err != nil {
			rec.HarnessError("replay: %v", err)
			return
		}
		c := explore.NewCtx(rp.Choices)
		r := run(t, c, rp.Cfg, rec.Scratch)
		k, m := judge(r)
		fmt.Printf("replay %s choices=%v\nerr=%v ret=%+v deviations=%v\n", rp.Cfg, rp.Choices, r.err, r.ret, r.faults)
		if r.net != nil {
			for _, e := range r.net.Log {
				fmt.Printf("  %s range=%q len=%d\n", e, e.Header.Get("Content-Range"), len(e.Body))
			}
		}
		fmt.Printf("verdict: %s %s\n", k, m)
		rec.Eval(1)
		if k != "" {
			rec.Violation(strings.TrimSuffix(k, "!")+" "+rp.Cfg.String(), m, rp)
		}
		return
	}
	items := grid(rec.Thorough())
	nErrOnMismatch, nMismatch := int64(0), int64(0)
	for i, it := range items {
		if !rec.Mine(i) {
			continue
		}
		if rec.Expired() {
			rec.NotExhaustive("budget reached")
			break
		}
		cfg := it.cfg
		runOne := func(c *explore.Ctx) explore.Result {
			dir, _ := os.MkdirTemp(rec.Scratch, "c05")
			defer os.RemoveAll(dir)
			r := run(t, c, cfg, dir)
			k, m := judge(r)
			out := "ok"
			if r.err != nil {
				out = "err"
			}
			c.Logf("%s %v", strings.ReplaceAll(fmt.Sprint(r.err), dir, "$DIR"), r.faults)
			if r.net != nil {
				for _, e := range r.net.Log {
					c.Logf("%s", e)
				}
			}
			mis := cfg.Desc == "wrong-digest" || cfg.Desc == "size+1" || cfg.Desc == "size-1"
			if mis {
				nMismatch++
				if r.err != nil {
					nErrOnMismatch++
				}
			}
			return explore.Result{Outcome: out + " " + strings.Join(r.faults, ","), VKey: k, Violation: m}
		}
		ex := &explore.Explorer{Bound: it.bound, Run: runOne, Stop: rec.Expired, DetCheckEvery: 503}
		ex.OnExec = func(c *explore.Ctx, r explore.Result) {
			if r.Violation != "" {
				r2 := runOne(explore.NewCtx(c.Choices()))
				if r2.VKey != r.VKey {
					rec.HarnessError("violation %q of %s not reproduced", r.VKey, cfg)
					return
				}
				// one key per defect class and descriptor/reader kind, not per length
				key := fmt.Sprintf("%s desc=%s reader=%s tgt=%s dev=%s", r.VKey, cfg.Desc, cfg.Reader, cfg.Target, devKinds(r.Outcome))
				if strings.HasSuffix(r.VKey, "!") {
					key = strings.TrimSuffix(r.VKey, "!") // a class of failing inputs
				}
				rec.Violation(key, r.Violation+"\nconfig: "+cfg.String(), replay{cfg, explore.Trim(c.Choices())})
			}
			rec.Distinct(cfg.String() + "#" + r.Outcome)
		}
		func() {
			defer func() {
				if p := recover(); p != nil {
					rec.HarnessError("config %s: %v", cfg, p)
				}
			}()
			ex.Explore()
		}()
		rec.Eval(ex.Stats.Executions)
		rec.Count(fmt.Sprintf("executions_bound%d", it.bound), ex.Stats.Executions)
		rec.Count("deviating_executions", ex.Stats.Deviating)
		rec.Count("configurations", 1)
		if ex.Stats.Capped {
			rec.NotExhaustive("budget reached inside " + cfg.String())
		}
		if i%997 == 0 {
			rec.Sample(map[string]any{"config": cfg.String(), "deviation_bound": it.bound, "executions": ex.Stats.Executions})
		}
	}
	rec.Count("mismatch_cases", nMismatch)
	rec.Count("mismatch_cases_rejected", nErrOnMismatch)
	if nMismatch > 0 && nErrOnMismatch == 0 {
		rec.HarnessError("vacuous: no mismatching descriptor was ever rejected")
	}
}

// devKinds reduces a deviation list to its kinds (without request positions) for violation keys.
func devKinds(outcome string) string {
	i := strings.IndexByte(outcome, ' ')
	if i < 0 || i+1 >= len(outcome) {
		return "none"
	}
	var ks []string
	for _, f := range strings.Split(outcome[i+1:], ",") {
		if j := strings.IndexByte(f, '@'); j > 0 {
			f = f[:j]
		}
		if strings.HasPrefix(f, "partial-") {
			f = "partial"
		}
		ks = append(ks, f)
	}
	return strings.Join(ks, "+")
}
