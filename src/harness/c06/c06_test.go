package hc06

// C06 — tags behave as a name->digest map; deleting a tag removes only that tag.
//
// Part 1 (histories): breadth-first search over operation histories on the real client against a
// model registry / an OCI layout; a state is the history reaching it (replayed on a fresh world plus
// one operation), deduplicated by the canonical raw store; after every operation the client's
// answers (tag list, head, get for every tag and digest of the pool) are compared with a reference
// map[tag]digest + set[digest].
// Part 2 (schedules): 2-3 goroutines issue operations on colliding tags through one client under the
// controlled scheduler; every interleaving within the bound is checked for linearizability w.r.t.
// the reference map.

import (
	"context"
	"encoding/json"
	"errors"
	"fmt"
	"os"
	"path/filepath"
	"sort"
	"strings"
	"testing"
	"time"

	"github.com/regclient/regclient"
	"github.com/regclient/regclient/internal/verif/audit"
	"github.com/regclient/regclient/internal/verif/ev"
	"github.com/regclient/regclient/internal/verif/explore"
	"github.com/regclient/regclient/internal/verif/graphs"
	"github.com/regclient/regclient/internal/verif/modelreg"
	"github.com/regclient/regclient/internal/verif/qsched"
	"github.com/regclient/regclient/internal/verif/rcenv"
	"github.com/regclient/regclient/scheme"
	"github.com/regclient/regclient/scheme/reg"
	"github.com/regclient/regclient/types/manifest"
	"github.com/regclient/regclient/types/ref"
)

const (
	host = "reg.example"
	repo = "proj/tags"
)

// the three tag names are related on purpose: tags[0] is a proper suffix of tags[1], tags[1] a proper
// prefix of tags[2] (a name->digest map compares whole names)
var tags = []string{"1", "v1", "v1.0"}

// pool of manifests: two OCI images and one Docker image, plus a sha512 variant
var pool = func() []*graphs.Graph {
	g0 := graphs.New("m0", "sha256")
	g0.Top = g0.SimpleImage(false, "amd64", "m0-layer").Digest
	g1 := graphs.New("m1", "sha256")
	g1.Top = g1.SimpleImage(false, "amd64", "m1-layer").Digest
	g2 := graphs.New("m2", "sha256")
	g2.Top = g2.SimpleImage(true, "amd64", "m2-layer").Digest
	return []*graphs.Graph{g0, g1, g2}
}()

type Cfg struct {
	Kind      string `json:"kind"`    // reg, dir, foreign-<name>
	Feat      string `json:"feat"`    // full, no-tag-delete, no-delete
	TagPage   int    `json:"tag_page"`
	Limit     int    `json:"limit"` // page limit requested by the client
	// Cache: the client's manifest cache is on (as regctl and regsync configure it). The cache is
	// state the raw store does not show, so these configurations are explored WITHOUT merging
	// states, every history up to the stated length, observing after every step.
	Cache bool `json:"cache,omitempty"`
	// Link: how the registry announces the next page ("" one header, split, combined)
	Link string `json:"link,omitempty"`
	Part  int  `json:"part,omitempty"` // work split of a cache configuration by first operation
	Parts int  `json:"parts,omitempty"`
}

func (c Cfg) String() string {
	s := fmt.Sprintf("%s feat=%s page=%d limit=%d", c.Kind, c.Feat, c.TagPage, c.Limit)
	if c.Cache {
		s += " cache=on"
	}
	if c.Link != "" {
		s += " link=" + c.Link
	}
	return s
}

type Op struct {
	K string `json:"k"` // put, putd, tagdel, mandel, mandel-ref
	M int    `json:"m"`
	T int    `json:"t"`
}

func (o Op) String() string {
	switch o.K {
	case "put":
		return fmt.Sprintf("put(m%d,%s)", o.M, tags[o.T])
	case "putd":
		return fmt.Sprintf("put(m%d@digest)", o.M)
	case "tagdel":
		return fmt.Sprintf("tagDelete(%s)", tags[o.T])
	case "mandel":
		return fmt.Sprintf("manifestDelete(m%d)", o.M)
	case "mandel-ref":
		return fmt.Sprintf("manifestDelete(m%d,checkReferrers)", o.M)
	case "mandel-td":
		return fmt.Sprintf("manifestDelete(%s@m%d)", tags[o.T], o.M)
	}
	return o.K
}

func alphabet() []Op {
	var ops []Op
	for m := range pool {
		for t := range tags {
			ops = append(ops, Op{"put", m, t})
		}
	}
	for m := range pool {
		ops = append(ops, Op{"putd", m, 0})
	}
	for t := range tags {
		ops = append(ops, Op{"tagdel", 0, t})
	}
	for m := range pool {
		ops = append(ops, Op{"mandel", m, 0})
	}
	ops = append(ops, Op{"mandel-ref", 0, 0})
	// delete through a reference that carries a tag as well as the digest (the digest decides)
	for m := range pool {
		ops = append(ops, Op{"mandel-td", m, m % len(tags)})
	}
	return ops
}

// ---- reference model ---------------------------------------------------------------------------

type Model struct {
	Tags map[string]string
	Set  map[string]bool
}

func newModel() *Model { return &Model{Tags: map[string]string{}, Set: map[string]bool{}} }

func (m *Model) clone() *Model {
	n := newModel()
	for k, v := range m.Tags {
		n.Tags[k] = v
	}
	for k := range m.Set {
		n.Set[k] = true
	}
	return n
}

// apply returns whether the reference expects the operation to take effect
func (m *Model) apply(o Op) bool {
	d := pool[o.M].Top
	switch o.K {
	case "put":
		m.Tags[tags[o.T]] = d
		m.Set[d] = true
		return true
	case "putd":
		m.Set[d] = true
		return true
	case "tagdel":
		if _, ok := m.Tags[tags[o.T]]; !ok {
			return false
		}
		delete(m.Tags, tags[o.T])
		return true
	case "mandel", "mandel-ref", "mandel-td":
		if !m.Set[d] {
			return false
		}
		delete(m.Set, d)
		for t, td := range m.Tags {
			if td == d {
				delete(m.Tags, t)
			}
		}
		return true
	}
	return false
}

func (m *Model) String() string {
	var ks []string
	for t, d := range m.Tags {
		ks = append(ks, t+"="+name(d))
	}
	for d := range m.Set {
		ks = append(ks, "has:"+name(d))
	}
	sort.Strings(ks)
	return strings.Join(ks, ",")
}

func name(d string) string {
	for i, g := range pool {
		if g.Top == d {
			return fmt.Sprintf("m%d", i)
		}
	}
	if len(d) > 15 {
		return d[:15]
	}
	return d
}

// ---- world -------------------------------------------------------------------------------------

type World struct {
	cfg   Cfg
	net   *modelreg.Net
	rr    *modelreg.Repo
	dir   string
	rc    *regclient.RegClient
	base  ref.Ref
	model *Model
	// foreign layouts start with entries the reference must know about
	foreignNote string
	dupBefore   []string
	lastPutTag  string
}

func features(cfg Cfg) modelreg.Features {
	f := modelreg.Full()
	f.TagPage = cfg.TagPage
	f.LinkStyle = cfg.Link
	switch cfg.Feat {
	case "no-tag-delete":
		f.TagDelete = false
	case "no-delete":
		f.TagDelete = false
		f.ManifestDelete = false
	}
	return f
}

func newWorld(t *testing.T, cfg Cfg, scratch string) *World {
	w := &World{cfg: cfg, model: newModel()}
	w.net = modelreg.NewNet()
	var err error
	if cfg.Kind == "reg" {
		h := w.net.AddHost(host, features(cfg))
		w.rr = h.Repo(repo)
		for _, g := range pool {
			for d, b := range g.Blobs {
				w.rr.Blobs[d] = b
			}
		}
		w.base, err = ref.New(host + "/" + repo)
	} else {
		w.dir = filepath.Join(scratch, "lay")
		// blobs of the pool are present, index empty (or foreign)
		sub := graphs.New("pool", "sha256")
		for _, g := range pool {
			for d, b := range g.Blobs {
				sub.Blobs[d] = b
			}
		}
		if err := graphs.WriteLayout(w.dir, []*graphs.Graph{sub}, [][]string{nil}); err != nil {
			t.Fatal(err)
		}
		if strings.HasPrefix(cfg.Kind, "foreign-") {
			w.foreign(t, strings.TrimPrefix(cfg.Kind, "foreign-"))
		}
		w.base, err = ref.New("ocidir://" + w.dir)
	}
	if err != nil {
		t.Fatal(err)
	}
	ro := rcenv.Opts{}
	if cfg.Cache {
		ro.RegOpts = []reg.Opts{reg.WithCache(5*time.Minute, 500)}
	}
	w.rc = rcenv.New(w.net, []string{host}, ro)
	return w
}

// foreign writes an index.json as another tool might, and primes the reference model accordingly.
func (w *World) foreign(t *testing.T, kind string) {
	type ent struct {
		MediaType   string            `json:"mediaType,omitempty"`
		Digest      string            `json:"digest"`
		Size        int64             `json:"size"`
		Annotations map[string]string `json:"annotations,omitempty"`
	}
	put := func(g *graphs.Graph) {
		for d, m := range g.Manifests {
			sp := strings.SplitN(d, ":", 2)
			os.WriteFile(filepath.Join(w.dir, "blobs", sp[0], sp[1]), m.Body, 0o644)
			w.model.Set[d] = true
		}
	}
	e := func(g *graphs.Graph, refname string, mt bool) ent {
		m := g.Manifests[g.Top]
		x := ent{Digest: g.Top, Size: int64(len(m.Body))}
		if mt {
			x.MediaType = m.MediaType
		}
		if refname != "" {
			x.Annotations = map[string]string{"org.opencontainers.image.ref.name": refname}
		}
		return x
	}
	var ents []ent
	switch kind {
	case "dup": // the same tag listed twice, adjacent, pointing at the same manifest
		put(pool[0])
		ents = []ent{e(pool[0], tags[0], true), e(pool[0], tags[0], true)}
		w.model.Tags[tags[0]] = pool[0].Top
	case "dup-moved": // the tag listed twice, the later entry is the current one
		put(pool[0])
		put(pool[1])
		ents = []ent{e(pool[0], tags[0], true), e(pool[1], tags[0], true)}
		// the image-layout spec does not say which of two entries with one name is current; the
		// client consistently takes the first, and so does the reference
		w.model.Tags[tags[0]] = pool[0].Top
	case "untagged": // an untagged entry next to a tagged one
		put(pool[0])
		put(pool[1])
		ents = []ent{e(pool[0], "", true), e(pool[1], tags[1], true)}
		w.model.Tags[tags[1]] = pool[1].Top
	case "fullname": // ref.name holds a full image name as containerd writes it
		put(pool[0])
		ents = []ent{e(pool[0], "registry.example/proj/img:"+tags[0], true)}
		w.model.Tags[tags[0]] = pool[0].Top
		w.foreignNote = "fullname"
	case "fullname-port": // the same with a registry port (a second colon) and two names on one manifest
		put(pool[0])
		put(pool[1])
		ents = []ent{e(pool[0], "localhost:5000/proj/img:"+tags[0], true), e(pool[0], "localhost:5000/proj/img:"+tags[1], true), e(pool[1], "registry.example/proj/img:"+tags[2], true)}
		w.model.Tags[tags[0]] = pool[0].Top
		w.model.Tags[tags[1]] = pool[0].Top
		w.model.Tags[tags[2]] = pool[1].Top
		w.foreignNote = "fullname"
	case "nomediatype": // entry without media type
		put(pool[0])
		ents = []ent{e(pool[0], tags[0], false)}
		w.model.Tags[tags[0]] = pool[0].Top
	}
	b, _ := json.Marshal(map[string]any{"schemaVersion": 2, "manifests": ents})
	if err := os.WriteFile(filepath.Join(w.dir, "index.json"), b, 0o644); err != nil {
		t.Fatal(err)
	}
}

func (w *World) rtag(tg string) ref.Ref    { return w.base.SetTag(tg) }
func (w *World) rdig(d string) ref.Ref     { return w.base.SetDigest(d) }
func (w *World) man(i int) manifest.Manifest {
	g := pool[i]
	m, err := manifest.New(manifest.WithRaw(g.Manifests[g.Top].Body))
	if err != nil {
		panic(err)
	}
	return m
}

func (w *World) do(ctx context.Context, o Op) error {
	switch o.K {
	case "put":
		return w.rc.ManifestPut(ctx, w.rtag(tags[o.T]), w.man(o.M))
	case "putd":
		return w.rc.ManifestPut(ctx, w.rdig(pool[o.M].Top), w.man(o.M))
	case "tagdel":
		return w.rc.TagDelete(ctx, w.rtag(tags[o.T]))
	case "mandel":
		return w.rc.ManifestDelete(ctx, w.rdig(pool[o.M].Top))
	case "mandel-ref":
		return w.rc.ManifestDelete(ctx, w.rdig(pool[o.M].Top), regclient.WithManifestCheckReferrers())
	case "mandel-td":
		return w.rc.ManifestDelete(ctx, w.rtag(tags[o.T]).AddDigest(pool[o.M].Top))
	}
	return errors.New("unknown op")
}

// raw returns the canonical raw state: tag map and the pool manifests stored.
func (w *World) raw() (map[string]string, map[string]bool, string) {
	tg := map[string]string{}
	set := map[string]bool{}
	extra := ""
	if w.rr != nil {
		for t, d := range w.rr.Tags {
			tg[t] = d
		}
		for d := range w.rr.Manifests {
			set[d] = true
		}
	} else {
		idx, _, untagged, _, err := audit.ReadLayout(w.dir)
		if err != nil {
			return tg, set, "layout-invalid: " + err.Error()
		}
		var dup []string
		for _, m := range idx.Manifests {
			t := m.Annotations["org.opencontainers.image.ref.name"]
			if t == "" {
				continue
			}
			if i := strings.LastIndex(t, ":"); i >= 0 {
				t = t[i+1:] // a full image name as other tools write it
			}
			if _, ok := tg[t]; ok {
				if !contains(dup, t) {
					dup = append(dup, t)
				}
				continue // first entry wins
			}
			tg[t] = m.Digest
		}
		sort.Strings(dup)
		if len(dup) > 0 {
			extra = "dup:" + strings.Join(dup, ",")
		}
		sort.Strings(untagged)
		extra += " untagged:" + fmt.Sprint(len(untagged))
		for _, g := range pool {
			if _, ok := (audit.DirStore{Dir: w.dir}).Manifest(g.Top); ok {
				set[g.Top] = true
			}
		}
	}
	return tg, set, extra
}

func (w *World) canon() string {
	tg, set, extra := w.raw()
	var ks []string
	for t, d := range tg {
		ks = append(ks, t+"="+name(d))
	}
	for d := range set {
		ks = append(ks, "has:"+name(d))
	}
	sort.Strings(ks)
	return strings.Join(ks, ",") + " " + extra
}

// observe compares everything the client reports with the reference model.
func (w *World) observe(ctx context.Context) (string, string) {
	m := w.model
	// tag listing, complete however it is paged
	var topts []scheme.TagOpts
	if w.cfg.Limit > 0 {
		topts = append(topts, scheme.WithTagLimit(w.cfg.Limit))
	}
	var got []string
	if w.cfg.Limit > 0 {
		// a client that asks for pages walks them with "last"
		last := ""
		for i := 0; i < 20; i++ {
			o := append([]scheme.TagOpts{}, topts...)
			if last != "" {
				o = append(o, scheme.WithTagLast(last))
			}
			tl, err := w.rc.TagList(ctx, w.rtag(tags[0]), o...)
			if err != nil {
				if len(m.Tags) == 0 && len(m.Set) == 0 {
					break
				}
				return "taglist-error", fmt.Sprintf("TagList failed: %v", err)
			}
			ts, _ := tl.GetTags()
			if len(ts) == 0 {
				break
			}
			got = append(got, ts...)
			if len(ts) < w.cfg.Limit {
				break
			}
			last = ts[len(ts)-1]
		}
	} else {
		tl, err := w.rc.TagList(ctx, w.rtag(tags[0]))
		if err != nil {
			if !(len(m.Tags) == 0) {
				return "taglist-error", fmt.Sprintf("TagList failed: %v (model %s)", err, m)
			}
		} else {
			got, _ = tl.GetTags()
		}
	}
	sort.Strings(got)
	var want []string
	for t := range m.Tags {
		want = append(want, t)
	}
	sort.Strings(want)
	if strings.Join(uniq(got), ",") != strings.Join(want, ",") {
		return "taglist-differs", fmt.Sprintf("TagList = %v, reference map has %v", got, want)
	}
	if len(uniq(got)) != len(got) {
		return "taglist-duplicates", fmt.Sprintf("TagList = %v", got)
	}
	// head / get by tag
	for _, tg := range tags {
		wantD, ok := m.Tags[tg]
		mh, errH := w.rc.ManifestHead(ctx, w.rtag(tg))
		mg, errG := w.rc.ManifestGet(ctx, w.rtag(tg))
		if ok {
			if errG != nil {
				return "tag-unresolvable", fmt.Sprintf("tag %s should resolve to %s but ManifestGet failed: %v", tg, name(wantD), errG)
			}
			if mg.GetDescriptor().Digest.String() != wantD {
				return "tag-wrong-digest", fmt.Sprintf("tag %s resolves to %s, reference says %s", tg, name(mg.GetDescriptor().Digest.String()), name(wantD))
			}
			if errH == nil && mh.GetDescriptor().Digest.String() != wantD {
				return "tag-wrong-digest", fmt.Sprintf("head of tag %s gives %s, reference says %s", tg, name(mh.GetDescriptor().Digest.String()), name(wantD))
			}
		} else {
			if errG == nil {
				return "tag-should-be-absent", fmt.Sprintf("tag %s should not exist but resolves to %s", tg, name(mg.GetDescriptor().Digest.String()))
			}
		}
	}
	// head by digest, head / get through a reference with tag and digest (the digest decides)
	for i, g := range pool {
		for _, r := range []ref.Ref{w.rdig(g.Top), w.rtag(tags[i%len(tags)]).AddDigest(g.Top)} {
			mh, errH := w.rc.ManifestHead(ctx, r)
			if m.Set[g.Top] {
				if errH == nil && mh.GetDescriptor().Digest.String() != g.Top {
					return "manifest-wrong-digest", fmt.Sprintf("head of %s gives %s", r.CommonName(), name(mh.GetDescriptor().Digest.String()))
				}
			} else if errH == nil {
				return "manifest-should-be-absent", fmt.Sprintf("manifest m%d should be gone but head of %s succeeds", i, r.CommonName())
			}
			if r.Tag != "" {
				mg, errG := w.rc.ManifestGet(ctx, r)
				if m.Set[g.Top] && errG == nil && mg.GetDescriptor().Digest.String() != g.Top {
					return "manifest-wrong-digest", fmt.Sprintf("get of %s gives %s", r.CommonName(), name(mg.GetDescriptor().Digest.String()))
				}
				if !m.Set[g.Top] && errG == nil {
					return "manifest-should-be-absent", fmt.Sprintf("manifest m%d should be gone but get of %s succeeds", i, r.CommonName())
				}
			}
		}
	}
	// get by digest
	for i, g := range pool {
		mg, errG := w.rc.ManifestGet(ctx, w.rdig(g.Top))
		if m.Set[g.Top] {
			if errG != nil {
				return "manifest-lost", fmt.Sprintf("manifest m%d should be stored but ManifestGet by digest failed: %v", i, errG)
			}
			b, _ := mg.RawBody()
			if string(b) != string(g.Manifests[g.Top].Body) {
				return "manifest-bytes-differ", fmt.Sprintf("manifest m%d returned different bytes", i)
			}
		} else if errG == nil {
			return "manifest-should-be-absent", fmt.Sprintf("manifest m%d should be gone but is still served", i)
		}
	}
	// raw state
	tg, set, extra := w.raw()
	if strings.HasPrefix(extra, "layout-invalid") {
		return "layout-invalid", extra
	}
	if i := strings.Index(extra, "dup:"); i >= 0 {
		now := strings.Split(strings.Fields(extra[i+4:])[0], ",")
		for _, d := range now {
			// a foreign index may come with duplicates; the client must not add any and must
			// collapse those of a tag it writes
			if !contains(w.dupBefore, d) || d == w.lastPutTag {
				return "index-duplicate-tag", "index.json has more than one entry for tag " + d + ": " + extra
			}
		}
		w.dupBefore = now
	} else {
		w.dupBefore = nil
	}
	for t, d := range m.Tags {
		if tg[t] != d {
			return "raw-tag-differs", fmt.Sprintf("raw store has %s=%s, reference %s", t, name(tg[t]), name(d))
		}
	}
	for t := range tg {
		if _, ok := m.Tags[t]; !ok && contains(tags, t) {
			return "raw-tag-differs", fmt.Sprintf("raw store still has tag %s", t)
		}
	}
	for _, g := range pool {
		if m.Set[g.Top] != set[g.Top] {
			return "raw-manifest-set-differs", fmt.Sprintf("raw store has %s: %v, reference: %v", name(g.Top), set[g.Top], m.Set[g.Top])
		}
	}
	return "", ""
}

func uniq(l []string) []string {
	var out []string
	for i, s := range l {
		if i == 0 || l[i-1] != s {
			out = append(out, s)
		}
	}
	return out
}

func contains(l []string, s string) bool {
	for _, x := range l {
		if x == s {
			return true
		}
	}
	return false
}

// mayFail: operations that may legitimately return an error while the reference would apply them
func mayFail(cfg Cfg, o Op, w *World) bool {
	switch cfg.Feat {
	case "no-delete":
		return o.K == "tagdel" || o.K == "mandel" || o.K == "mandel-ref" || o.K == "mandel-td"
	}
	if w.foreignNote == "fullname" && o.K == "tagdel" {
		return true // a foreign repo:tag entry may be refused, it must then change nothing
	}
	return false
}

// step applies one op to world and model and judges it.
func (w *World) step(ctx context.Context, o Op) (string, string) {
	w.lastPutTag = ""
	if o.K == "put" {
		w.lastPutTag = tags[o.T]
	}
	before := w.model.clone()
	err := w.do(ctx, o)
	expect := w.model.apply(o)
	if err != nil {
		// an operation that returns an error must leave everything as it was
		if expect && !mayFail(w.cfg, o, w) {
			return "observed:op-failed", fmt.Sprintf("%s failed although the reference applies it: %v", o, err)
		}
		w.model = before
	} else if !expect {
		// succeeded although the reference has nothing to do (e.g. deleting an absent tag): state
		// must be unchanged, which the observation checks
		w.model = before
	}
	return w.observe(ctx)
}

// ---- part 1: BFS over histories ---------------------------------------------------------------

type replay struct {
	Part    string `json:"part"`
	Cfg     Cfg    `json:"cfg"`
	Hist    []Op   `json:"history"`
	Threads [][]Op `json:"threads,omitempty"`
	Choices []int  `json:"choices,omitempty"`
}

// runHist replays a history on a fresh world; returns the world, or a violation.
func runHist(t *testing.T, cfg Cfg, hist []Op, scratch string) (canon string, model string, vk, vm string) {
	dir, _ := os.MkdirTemp(scratch, "h")
	defer os.RemoveAll(dir)
	_, other := qsched.Bubble(t, func() {
		w := newWorld(t, cfg, dir)
		ctx := context.Background()
		if _, _, extra := w.raw(); strings.Contains(extra, "dup:") {
			w.dupBefore = strings.Split(strings.Fields(extra[strings.Index(extra, "dup:")+4:])[0], ",")
		}
		if len(hist) == 0 {
			vk, vm = w.observe(ctx)
		}
		for i, o := range hist {
			if i == len(hist)-1 {
				vk, vm = w.step(ctx, o)
			} else {
				// prefix already judged when it was the frontier
				err := w.do(ctx, o)
				before := w.model.clone()
				if !w.model.apply(o) || err != nil {
					w.model = before
				}
				if cfg.Cache {
					// the reads of the observation fill the cache exactly as they did when this prefix
					// was judged
					w.observe(ctx)
				}
			}
			if vk != "" {
				break
			}
		}
		canon = w.canon()
		if cfg.Cache {
			canon = histStr(hist) // never merged: the cache is hidden state
		}
		model = w.model.String()
	})
	if other != nil {
		vk, vm = "panic", fmt.Sprint(other)
	}
	return
}

func histStr(h []Op) string {
	var s []string
	for _, o := range h {
		s = append(s, o.String())
	}
	return strings.Join(s, " ; ")
}

func configs(thorough bool) []Cfg {
	cs := []Cfg{
		{Kind: "reg", Feat: "full"},
		{Kind: "reg", Feat: "no-tag-delete"},
		{Kind: "reg", Feat: "no-delete"},
		{Kind: "reg", Feat: "full", TagPage: 1},
		{Kind: "reg", Feat: "full", TagPage: 2},
		{Kind: "reg", Feat: "full", TagPage: 1, Link: "split"},
		{Kind: "reg", Feat: "full", TagPage: 2, Link: "combined"},
		{Kind: "reg", Feat: "full", Limit: 1},
		{Kind: "reg", Feat: "full", Limit: 2, TagPage: 1},
		{Kind: "dir"},
		{Kind: "foreign-dup"}, {Kind: "foreign-untagged"}, {Kind: "foreign-fullname"}, {Kind: "foreign-fullname-port"}, {Kind: "foreign-nomediatype"},
	}
	for p := 0; p < 4; p++ {
		cs = append(cs, Cfg{Kind: "reg", Feat: "full", Cache: true, Part: p, Parts: 4})
	}
	for p := 0; p < 2; p++ {
		cs = append(cs, Cfg{Kind: "reg", Feat: "no-tag-delete", Cache: true, Part: p, Parts: 2})
	}
	return cs
}

func bfs(t *testing.T, rec *ev.Rec, cfg Cfg, maxDepth int) {
	ops := alphabet()
	type node struct{ hist []Op }
	seen := map[string]bool{}
	c0, _, vk, vm := runHist(t, cfg, nil, rec.Scratch)
	rec.Eval(1)
	if vk != "" {
		rec.Violation(vkey(vk, cfg, nil), vm+"\nhistory: (initial state) on "+cfg.String(), replay{Part: "hist", Cfg: cfg})
		// a layout that is already misread initially is still explored
	}
	seen[c0] = true
	frontier := []node{{nil}}
	var states, trans int64 = 1, 0
	for depth := 1; depth <= maxDepth && len(frontier) > 0; depth++ {
		var next []node
		for _, n := range frontier {
			for oi, o := range ops {
				if cfg.Parts > 0 && depth == 1 && oi%cfg.Parts != cfg.Part {
					continue
				}
				if rec.Expired() {
					rec.NotExhaustive("budget reached in BFS of " + cfg.String())
					rec.States(states)
					rec.Transitions(trans)
					return
				}
				h := append(append([]Op{}, n.hist...), o)
				c, _, vk, vm := runHist(t, cfg, h, rec.Scratch)
				rec.Eval(1)
				trans++
				rec.Distinct(cfg.String() + "#" + c + "#" + o.String())
				if vk != "" {
					rec.Violation(vkey(vk, cfg, h), vm+"\nhistory: "+histStr(h)+"\nconfig: "+cfg.String(), replay{Part: "hist", Cfg: cfg, Hist: h})
					continue // do not expand beyond a violating state
				}
				if !seen[c] {
					seen[c] = true
					states++
					next = append(next, node{h})
				}
			}
		}
		frontier = next
	}
	if len(frontier) > 0 {
		rec.Note(fmt.Sprintf("%s: depth bound %d reached with %d unexpanded states", cfg, maxDepth, len(frontier)))
		rec.Count("configs_cut_at_depth_bound", 1)
	} else {
		rec.Count("configs_explored_to_closure", 1)
	}
	rec.States(states)
	rec.Transitions(trans)
}

// vkey: clause + kind of store + last operation kind — not the whole history
func vkey(k string, cfg Cfg, h []Op) string {
	last := "initial"
	if len(h) > 0 {
		last = h[len(h)-1].K
	}
	if strings.HasPrefix(cfg.Kind, "foreign-fullname") {
		// one finding: entries named repo:tag are understood when reading but not when writing; the
		// key names the clause and the operation, so that another failure in such a layout (a wrong
		// listing of the layout as found, say) is not taken for the recorded one
		return fmt.Sprintf("foreign-fullname-entries-read-but-not-written %s %s after=%s", k, cfg.Kind, last)
	}
	return fmt.Sprintf("%s %s feat=%s after=%s", k, cfg.Kind, cfg.Feat, last)
}

// ---- part 2: concurrent operations, linearizability --------------------------------------------

type callRec struct {
	op       Op
	thread   int
	inv, ret int
	err      error
}

// linearizable: is there an order of the calls, consistent with real time (a call that returned
// before another was invoked comes first), in which every successful call takes effect and every
// failed call is a no-op, ending in the observed final state?
func linearizable(init *Model, calls []callRec, final string) bool {
	n := len(calls)
	used := make([]bool, n)
	var rec func(m *Model, k int) bool
	rec = func(m *Model, k int) bool {
		if k == n {
			return m.String() == final
		}
		for i := 0; i < n; i++ {
			if used[i] {
				continue
			}
			// real-time order: no unused call j returned before i was invoked
			ok := true
			for j := 0; j < n; j++ {
				if j != i && !used[j] && calls[j].ret < calls[i].inv {
					ok = false
				}
			}
			if !ok {
				continue
			}
			m2 := m.clone()
			if calls[i].err == nil {
				if !m2.apply(calls[i].op) {
					// success of an operation the reference cannot apply (delete of something absent)
					// is only acceptable as a no-op
					m2 = m.clone()
				}
			}
			used[i] = true
			if rec(m2, k+1) {
				used[i] = false
				return true
			}
			used[i] = false
		}
		return false
	}
	return rec(init, 0)
}

type concScen struct {
	Cfg     Cfg
	Init    []Op
	Threads [][]Op
}

func (s concScen) String() string {
	var ts []string
	for _, th := range s.Threads {
		ts = append(ts, histStr(th))
	}
	return fmt.Sprintf("%s init=[%s] threads=[%s]", s.Cfg, histStr(s.Init), strings.Join(ts, " || "))
}

func concScenarios(thorough bool) []concScen {
	var out []concScen
	put := func(m, t int) Op { return Op{"put", m, t} }
	td := func(t int) Op { return Op{"tagdel", 0, t} }
	md := func(m int) Op { return Op{"mandel", m, 0} }
	cfgs := []Cfg{{Kind: "reg", Feat: "full"}, {Kind: "reg", Feat: "no-tag-delete"}, {Kind: "dir"}}
	for _, c := range cfgs {
		init := []Op{put(0, 0), put(0, 1)} // a and b share m0
		pairs := [][2]Op{
			{put(1, 0), put(2, 0)},   // two pushes to one tag
			{put(1, 0), td(0)},       // push vs delete of the same tag
			{td(0), td(1)},           // deleting two tags that share a manifest
			{td(0), put(1, 2)},       // delete vs unrelated push
			{md(0), put(0, 2)},       // manifest delete vs re-push of the same manifest
			{td(0), md(0)},           // tag delete vs delete of its manifest
			{put(1, 2), put(2, 1)},   // pushes to different tags (index read-modify-write in layouts)
		}
		for _, p := range pairs {
			out = append(out, concScen{c, init, [][]Op{{p[0]}, {p[1]}}})
		}
		out = append(out, concScen{c, init, [][]Op{{put(1, 0), td(1)}, {put(2, 0)}}})
		if thorough {
			out = append(out, concScen{c, init, [][]Op{{put(1, 0)}, {td(0)}, {put(2, 1)}}})
			out = append(out, concScen{c, init, [][]Op{{td(0)}, {td(1)}, {md(0)}}})
			out = append(out, concScen{c, init, [][]Op{{put(1, 0), put(2, 0)}, {td(0), put(0, 0)}}})
		}
	}
	return out
}

func runConc(t *testing.T, c *explore.Ctx, sc concScen, scratch string, trace bool) explore.Result {
	dir, _ := os.MkdirTemp(scratch, "c")
	defer os.RemoveAll(dir)
	var res explore.Result
	_, other := qsched.Bubble(t, func() {
		w := newWorld(t, sc.Cfg, dir)
		ctx := context.Background()
		for _, o := range sc.Init {
			if err := w.do(ctx, o); err != nil {
				res = explore.Result{Outcome: "init-failed", VKey: "harness", Violation: "init failed: " + err.Error()}
				return
			}
			w.model.apply(o)
		}
		init := w.model.clone()
		var calls []callRec
		clock := 0
		var sched *qsched.Sched
		w.net.OnArrive = func(e *modelreg.Entry) {
			if sched != nil {
				sched.Point(qsched.KHTTP, "")
			}
		}
		threads := map[string]func(*qsched.Sched){}
		var names []string
		for ti, prog := range sc.Threads {
			n := fmt.Sprintf("t%d", ti)
			names = append(names, n)
			threads[n] = func(s *qsched.Sched) {
				sched = s
				for _, o := range prog {
					s.Yield("op")
					clock++
					cr := callRec{op: o, thread: ti, inv: clock}
					err := w.do(ctx, o)
					clock++
					cr.ret, cr.err = clock, err
					calls = append(calls, cr)
				}
			}
		}
		cfg := qsched.Config{Mode: qsched.Preemption, Horizon: 4000, Trace: trace}
		if sc.Cfg.Kind == "reg" {
			cfg.Branch = map[qsched.Kind]bool{qsched.KHTTP: true, qsched.KYield: true, qsched.KStart: true}
		} else {
			// layouts: every file operation of the scheme is a scheduling point too, so that a window of an
			// index read-modify-write that the scheme's mutex does not cover can be entered by the other caller
			cfg.FS = true
		}
		out := qsched.Run(c, cfg, threads, names)
		sched = nil
		w.net.OnArrive = nil
		if out.Deadlock {
			res = explore.Result{Outcome: "deadlock", VKey: "deadlock", Violation: "deadlock: " + out.DeadlockAt}
			return
		}
		if out.Panic != nil {
			res = explore.Result{Outcome: "panic", VKey: "panic", Violation: fmt.Sprint(out.Panic)}
			return
		}
		// final raw state as a model string
		tg, set, extra := w.raw()
		fm := newModel()
		for tname, d := range tg {
			if contains(tags, tname) {
				fm.Tags[tname] = d
			}
		}
		for d := range set {
			fm.Set[d] = true
		}
		final := fm.String()
		var cs []string
		for _, cr := range calls {
			e := "ok"
			if cr.err != nil {
				e = "err"
			}
			cs = append(cs, fmt.Sprintf("%s[%d,%d]=%s", cr.op, cr.inv, cr.ret, e))
		}
		sort.Strings(cs)
		res.Outcome = final + " | " + strings.Join(cs, " ")
		c.Logf("%s", res.Outcome)
		if strings.HasPrefix(extra, "layout-invalid") || strings.Contains(extra, "dup:") {
			res.VKey, res.Violation = "index-invalid", "after concurrent operations: "+extra
			return
		}
		if !linearizable(init, calls, final) {
			res.VKey = "not-linearizable"
			res.Violation = fmt.Sprintf("no linearization of the calls explains the final state %q (initial %q): %s", final, init, strings.Join(cs, " "))
			return
		}
		// the quiescent state must also be what the client reports
		w.model = fm
		if k, m := w.observe(ctx); k != "" {
			res.VKey, res.Violation = "after-quiescence-"+k, m
		}
	})
	if other != nil {
		res.VKey, res.Violation = "panic", fmt.Sprint(other)
	}
	return res
}

func TestVerifC06(t *testing.T) {
	rec := ev.New()
	defer rec.Flush(t)
	rec.Rule("part 1: per configuration (registry with/without tag-delete API / without any delete, tag-list page sizes, client page limits, regclient-written layout, six foreign layouts; registry with the client's manifest cache on) breadth-first search over histories of {push m->tag (3x3), push by digest (3), tag delete (3), manifest delete by digest (3), by tag+digest reference (3), with referrer check} on the real client; states deduplicated by the canonical raw store and explored to closure (or the stated depth); after every operation tag list / head / get of every tag, every digest and every tag+digest reference of the pool are compared with a reference map. " +
		"part 2: 2-3 goroutines x 1-2 operations on colliding tags through one client, every interleaving within the pre-emption bound at request arrivals (every mutex acquisition for layouts), judged by brute-force linearizability against the reference map. distinct_nontrivial = distinct (configuration, raw state, operation) transitions and distinct concurrent outcomes")
	rec.Assume("deduplication by raw store state is sound where the client keeps no state of its own; the configurations with the manifest cache on are explored without any merging (every history of length <= 3, thorough 4, observing after every step)")
	if rd := rec.ReplayData(); rd != nil {
		var rp replay
		if err := json.Unmarshal(rd, &rp); err != nil {
			rec.HarnessError("replay: %v", err)
			return
		}
		if rp.Part == "conc" {
			sc := concScen{rp.Cfg, rp.Hist, rp.Threads}
			c := explore.NewCtx(rp.Choices)
			r := runConc(t, c, sc, rec.Scratch, true)
			fmt.Printf("replay %s choices=%v\n%s\nverdict: %s %s\n", sc, rp.Choices, strings.Join(c.Log(), "\n"), r.VKey, r.Violation)
			rec.Eval(1)
			if r.VKey != "" {
				rec.Violation(r.VKey+" conc "+sc.Cfg.Kind+" feat="+sc.Cfg.Feat+" "+concKinds(sc), r.Violation, rp)
			}
			return
		}
		c, m, vk, vm := runHist(t, rp.Cfg, rp.Hist, rec.Scratch)
		fmt.Printf("replay %s history=%s\nraw=%s\nmodel=%s\nverdict: %s %s\n", rp.Cfg, histStr(rp.Hist), c, m, vk, vm)
		rec.Eval(1)
		if vk != "" {
			rec.Violation(vkey(vk, rp.Cfg, rp.Hist), vm, rp)
		}
		return
	}
	depth := 6
	if rec.Thorough() {
		depth = 12
	}
	rec.Info("bfs_depth_bound", depth)
	i := 0
	for _, cfg := range configs(rec.Thorough()) {
		i++
		if !rec.Mine(i - 1) {
			continue
		}
		d := depth
		if cfg.Cache {
			d = 3 // every history of this length, unmerged
			if rec.Thorough() {
				d = 4
			}
		}
		bfs(t, rec, cfg, d)
		rec.Sample(map[string]any{"config": cfg.String(), "part": "histories"})
	}
	// part 2
	bound := 3
	if rec.Thorough() {
		bound = 4
	}
	rec.Info("preemption_bound", bound)
	for _, sc := range concScenarios(rec.Thorough()) {
		i++
		if !rec.Mine(i - 1) {
			continue
		}
		if rec.Expired() {
			rec.NotExhaustive("budget reached in concurrent scenarios")
			break
		}
		b := bound
		if sc.Cfg.Kind != "reg" {
			b = 1 // layouts branch at every mutex acquisition
			if rec.Thorough() {
				b = 2
			}
		}
		run := func(c *explore.Ctx) explore.Result { return runConc(t, c, sc, rec.Scratch, false) }
		ex := &explore.Explorer{Bound: b, Run: run, Stop: rec.Expired, DetCheckEvery: 199}
		ex.OnExec = func(c *explore.Ctx, r explore.Result) {
			if r.VKey == "harness" {
				rec.HarnessError("%s: %s", sc, r.Violation)
				return
			}
			if r.Violation != "" {
				for k := 0; k < 3; k++ {
					r2 := run(explore.NewCtx(c.Choices()))
					if r2.VKey != r.VKey {
						rec.HarnessError("violation %q of %s not reproduced", r.VKey, sc)
						return
					}
				}
				rec.Violation(r.VKey+" conc "+sc.Cfg.Kind+" feat="+sc.Cfg.Feat+" "+concKinds(sc), r.Violation+"\nscenario: "+sc.String()+"\nschedule: "+c.Describe(),
					replay{Part: "conc", Cfg: sc.Cfg, Hist: sc.Init, Threads: sc.Threads, Choices: explore.Trim(c.Choices())})
			}
			rec.Distinct(sc.String() + "#" + r.Outcome)
		}
		func() {
			defer func() {
				if p := recover(); p != nil {
					rec.HarnessError("scenario %s: %v", sc, p)
				}
			}()
			ex.Explore()
		}()
		rec.Eval(ex.Stats.Executions)
		rec.Count("concurrent.executions", ex.Stats.Executions)
		rec.Count("concurrent.distinct_outcomes", int64(len(ex.Stats.Outcomes)))
		rec.Count("concurrent.scenarios", 1)
		if ex.Stats.Capped {
			rec.NotExhaustive("budget reached inside " + sc.String())
		}
		if i%5 == 0 {
			rec.Sample(map[string]any{"scenario": sc.String(), "part": "schedules", "executions": ex.Stats.Executions, "distinct_outcomes": len(ex.Stats.Outcomes)})
		}
	}
	rec.Validated(0)
}

func concKinds(sc concScen) string {
	var ks []string
	for _, th := range sc.Threads {
		var k []string
		for _, o := range th {
			k = append(k, o.K)
		}
		ks = append(ks, strings.Join(k, "."))
	}
	sort.Strings(ks)
	return strings.Join(ks, "||")
}
