package hc10

// C10 — the referrers of a subject are exactly the live manifests that name it.
//
// Part 1 (histories): breadth-first search / exhaustive sequences of put and referrer-aware delete of
// four artifacts on the real client; after every operation ReferrerList of every subject (unfiltered,
// by artifact type, by annotation) is compared with a reference multimap, and the raw fallback tag is
// audited where the client maintains it.
// Part 2 (schedules): 2-4 concurrent updates of one subject through one client under the controlled
// scheduler; after quiescence the lists must equal the multimap implied by the completed updates.

import (
	"net/http"
	"context"
	"encoding/json"
	"fmt"
	"os"
	"path/filepath"
	"sort"
	"strings"
	"testing"
	"time"

	"github.com/regclient/regclient"
	"github.com/regclient/regclient/internal/verif/audit"
	"github.com/regclient/regclient/internal/verif/ev"
	"github.com/regclient/regclient/internal/verif/explore"
	"github.com/regclient/regclient/internal/verif/graphs"
	"github.com/regclient/regclient/internal/verif/modelreg"
	"github.com/regclient/regclient/internal/verif/qsched"
	"github.com/regclient/regclient/internal/verif/rcenv"
	"github.com/regclient/regclient/scheme"
	"github.com/regclient/regclient/scheme/reg"
	"github.com/regclient/regclient/types/descriptor"
	"github.com/regclient/regclient/types/manifest"
	"github.com/regclient/regclient/types/ref"
)

const (
	host   = "reg.example"
	repo   = "proj/refs"
	atSig  = "application/vnd.example.sig"
	atSbom = "application/vnd.example.sbom"
)

type artifact struct {
	name    string
	digest  string
	subject string
	atype   string
	annot   map[string]string
}

var (
	g        = graphs.New("refs", "sha256")
	subj0    modelreg.Desc
	subjMiss = modelreg.Desc{MediaType: graphs.MTOCIManifest, Digest: "sha256:" + strings.Repeat("ab", 32), Size: 123}
	arts     []artifact
	subjects []string
)

func init() {
	subj0 = g.SimpleImage(false, "amd64", "subject-layer")
	a0 := g.Artifact(atSig, "sig-0", &subj0, map[string]string{"k": "a", "v": "x"})
	a1 := g.Artifact(atSbom, "sbom-1", &subj0, map[string]string{"k": "b"})
	a2 := g.Artifact(atSig, "sig-of-a0", &a0, nil)
	a3 := g.Artifact(atSig, "sig-of-missing", &subjMiss, map[string]string{"k": "a"})
	// a referrer that is an index, and one that is a plain image manifest without artifactType (its
	// config media type stands in)
	// (annotated, but without the key "k": for the filter "key k is set")
	a4 := g.Index(false, []modelreg.Desc{a0}, &subj0, map[string]string{"w": "c"})
	cfg5 := g.Blob("application/vnd.example.cfgtype", `{"kind":"a5"}`)
	a5 := g.Image(false, cfg5, []modelreg.Desc{g.Blob(graphs.MTOCILayer, "a5-layer")}, &subj0, "", map[string]string{"k": "a"})
	arts = []artifact{
		{"A0", a0.Digest, subj0.Digest, atSig, map[string]string{"k": "a", "v": "x"}},
		{"A1", a1.Digest, subj0.Digest, atSbom, map[string]string{"k": "b"}},
		{"A2", a2.Digest, a0.Digest, atSig, nil},
		{"A3", a3.Digest, subjMiss.Digest, atSig, map[string]string{"k": "a"}},
		{"A4", a4.Digest, subj0.Digest, "", map[string]string{"w": "c"}},
		{"A5", a5.Digest, subj0.Digest, "application/vnd.example.cfgtype", map[string]string{"k": "a"}},
	}
	subjects = []string{subj0.Digest, subjMiss.Digest, a0.Digest}
}

type Cfg struct {
	Kind  string `json:"kind"` // reg, dir
	Feat  string `json:"feat"` // api, api-page1, api-nohdr, noapi, noapi-notagdel
	Cache bool   `json:"cache"`
	// Tag: every artifact is pushed to a tag of its own (repo:art-<name>) instead of by digest
	Tag bool `json:"tag,omitempty"`
}

func (c Cfg) String() string {
	s := fmt.Sprintf("%s feat=%s cache=%v", c.Kind, c.Feat, c.Cache)
	if c.Tag {
		s += " push=by-tag"
	}
	return s
}

type Op struct {
	K string `json:"k"` // put, del
	A int    `json:"a"`
}

func (o Op) String() string { return fmt.Sprintf("%s(%s)", o.K, arts[o.A].name) }

func alphabet() []Op {
	var ops []Op
	for i := range arts {
		ops = append(ops, Op{"put", i})
	}
	for i := range arts {
		ops = append(ops, Op{"del", i})
	}
	return ops
}

type World struct {
	cfg     Cfg
	net     *modelreg.Net
	rr      *modelreg.Repo
	dir     string
	rc      *regclient.RegClient
	base    ref.Ref
	present map[int]bool
	failed  int
}

func features(cfg Cfg) modelreg.Features {
	f := modelreg.Full()
	switch cfg.Feat {
	case "api-page1":
		f.ReferrersPage = 1
	case "api-nohdr":
		f.OCISubject = false
	case "noapi":
		f.Referrers, f.OCISubject = false, false
	case "noapi-notagdel":
		f.Referrers, f.OCISubject = false, false
		f.TagDelete = false
	}
	return f
}

func clientOpts(cfg Cfg) rcenv.Opts {
	o := rcenv.Opts{}
	if cfg.Cache {
		o.RegOpts = []reg.Opts{reg.WithCache(5*time.Minute, 100)}
	}
	return o
}

func newWorld(t *testing.T, cfg Cfg, scratch string) *World {
	w := &World{cfg: cfg, present: map[int]bool{}}
	w.net = modelreg.NewNet()
	var err error
	if cfg.Kind == "reg" {
		h := w.net.AddHost(host, features(cfg))
		w.rr = h.Repo(repo)
		for d, b := range g.Blobs {
			w.rr.Blobs[d] = b
		}
		m := g.Manifests[subj0.Digest]
		w.rr.Manifests[subj0.Digest] = &modelreg.Manifest{Body: m.Body, MediaType: m.MediaType}
		w.rr.Tags["subject"] = subj0.Digest
		w.base, err = ref.New(host + "/" + repo)
	} else {
		w.dir = filepath.Join(scratch, "lay")
		sub := graphs.New("pool", "sha256")
		for d, b := range g.Blobs {
			sub.Blobs[d] = b
		}
		sub.Manifests[subj0.Digest] = g.Manifests[subj0.Digest]
		sub.Top = subj0.Digest
		if err := graphs.WriteLayout(w.dir, []*graphs.Graph{sub}, [][]string{{"subject"}}); err != nil {
			t.Fatal(err)
		}
		w.base, err = ref.New("ocidir://" + w.dir)
	}
	if err != nil {
		t.Fatal(err)
	}
	w.rc = rcenv.New(w.net, []string{host}, clientOpts(cfg))
	return w
}

func (w *World) man(i int) manifest.Manifest {
	m, err := manifest.New(manifest.WithRaw(g.Manifests[arts[i].digest].Body))
	if err != nil {
		panic(err)
	}
	return m
}

func (w *World) do(ctx context.Context, o Op) error {
	r := w.base.SetDigest(arts[o.A].digest)
	if o.K == "put" {
		if w.cfg.Tag {
			return w.rc.ManifestPut(ctx, w.base.SetTag("art-"+strings.ToLower(arts[o.A].name)), w.man(o.A))
		}
		return w.rc.ManifestPut(ctx, r, w.man(o.A))
	}
	return w.rc.ManifestDelete(ctx, r, regclient.WithManifestCheckReferrers())
}

// stored reports which artifacts are in raw storage.
func (w *World) stored() map[int]bool {
	out := map[int]bool{}
	for i, a := range arts {
		if w.rr != nil {
			if _, ok := w.rr.Manifests[a.digest]; ok {
				out[i] = true
			}
		} else if _, ok := (audit.DirStore{Dir: w.dir}).Manifest(a.digest); ok {
			out[i] = true
		}
	}
	return out
}

func (w *World) fallbackTag(subject string) (string, []string, bool) {
	tag := strings.Replace(subject, ":", "-", 1)
	var body []byte
	if w.rr != nil {
		d, ok := w.rr.Tags[tag]
		if !ok {
			return tag, nil, false
		}
		body = w.rr.Manifests[d].Body
	} else {
		_, tags, _, _, err := audit.ReadLayout(w.dir)
		if err != nil {
			return tag, nil, false
		}
		d, ok := tags[tag]
		if !ok {
			return tag, nil, false
		}
		body, _ = (audit.DirStore{Dir: w.dir}).Manifest(d)
	}
	var doc modelreg.ManDoc
	json.Unmarshal(body, &doc)
	var ds []string
	for _, m := range doc.Manifests {
		ds = append(ds, m.Digest)
	}
	sort.Strings(ds)
	return tag, ds, true
}

func (w *World) canon() string {
	var ks []string
	for i := range w.stored() {
		ks = append(ks, arts[i].name)
	}
	for _, s := range subjects {
		if _, ds, ok := w.fallbackTag(s); ok {
			ks = append(ks, "fb:"+s[7:13]+"="+fmt.Sprint(len(ds))+":"+strings.Join(shorts(ds), "+"))
		}
	}
	sort.Strings(ks)
	return strings.Join(ks, ",")
}

func shorts(l []string) []string {
	var o []string
	for _, d := range l {
		o = append(o, nameOf(d))
	}
	return o
}

func nameOf(d string) string {
	for _, a := range arts {
		if a.digest == d {
			return a.name
		}
	}
	if len(d) > 13 {
		return d[7:13]
	}
	return d
}

// expected referrers of a subject given the artifacts present
func expected(present map[int]bool, subject string, filt func(a artifact) bool) []string {
	var out []string
	for i, a := range arts {
		if present[i] && a.subject == subject && (filt == nil || filt(a)) {
			out = append(out, a.name)
		}
	}
	sort.Strings(out)
	return out
}

func (w *World) list(ctx context.Context, rc *regclient.RegClient, subject string, opts ...scheme.ReferrerOpts) ([]string, []descriptor.Descriptor, error) {
	rl, err := rc.ReferrerList(ctx, w.base.SetDigest(subject), opts...)
	if err != nil {
		return nil, nil, err
	}
	var names []string
	for _, d := range rl.Descriptors {
		names = append(names, nameOf(d.Digest.String()))
	}
	sort.Strings(names)
	return names, rl.Descriptors, nil
}

// observe compares every listing with the reference; rc may be a fresh client.
func (w *World) observe(ctx context.Context, rc *regclient.RegClient, present map[int]bool, who string) (string, string) {
	for _, s := range subjects {
		names, descs, err := w.list(ctx, rc, s)
		if err != nil {
			return "list-error", fmt.Sprintf("%s: ReferrerList(%s) failed: %v", who, nameOf(s), err)
		}
		want := expected(present, s, nil)
		if strings.Join(names, ",") != strings.Join(want, ",") {
			k := "list-differs"
			if len(names) > len(want) {
				k = "list-has-extra"
				for i := 1; i < len(names); i++ {
					if names[i] == names[i-1] {
						k = "list-duplicate"
					}
				}
			} else if len(names) < len(want) {
				k = "list-lost-entry"
			}
			return k, fmt.Sprintf("%s: ReferrerList(%s) = %v, live manifests naming it: %v", who, nameOf(s), names, want)
		}
		// artifact type and annotations of each entry
		for _, d := range descs {
			for _, a := range arts {
				if a.digest != d.Digest.String() {
					continue
				}
				if d.ArtifactType != a.atype {
					return "entry-artifacttype", fmt.Sprintf("%s: entry %s has artifactType %q, manifest says %q", who, a.name, d.ArtifactType, a.atype)
				}
				for k, v := range a.annot {
					if d.Annotations[k] != v {
						return "entry-annotations", fmt.Sprintf("%s: entry %s lacks annotation %s=%s (has %v)", who, a.name, k, v, d.Annotations)
					}
				}
			}
		}
		// the same question asked with a reference that carries a tag next to the digest
		// (repo:tag@sha256:..., the pinned-tag form) must give the same answer
		if s == subj0.Digest {
			rl, err := rc.ReferrerList(ctx, w.base.SetTag("subject").AddDigest(s))
			if err != nil {
				return "list-error", fmt.Sprintf("%s: ReferrerList(tag+digest form) failed: %v", who, err)
			}
			var tn []string
			for _, d := range rl.Descriptors {
				tn = append(tn, nameOf(d.Digest.String()))
			}
			sort.Strings(tn)
			if strings.Join(tn, ",") != strings.Join(want, ",") {
				return "list-differs-for-tag+digest-reference", fmt.Sprintf("%s: ReferrerList(%s as repo:tag@digest) = %v, live manifests naming it: %v", who, nameOf(s), tn, want)
			}
		}
		// filters select exactly the matching ones
		fn, _, err := w.list(ctx, rc, s, scheme.WithReferrerMatchOpt(descriptor.MatchOpt{ArtifactType: atSig}))
		if err != nil {
			return "list-error", fmt.Sprintf("%s: filtered ReferrerList failed: %v", who, err)
		}
		wf := expected(present, s, func(a artifact) bool { return a.atype == atSig })
		if strings.Join(fn, ",") != strings.Join(wf, ",") {
			return "filter-artifacttype", fmt.Sprintf("%s: ReferrerList(%s, artifactType=sig) = %v, want %v", who, nameOf(s), fn, wf)
		}
		an, _, err := w.list(ctx, rc, s, scheme.WithReferrerMatchOpt(descriptor.MatchOpt{Annotations: map[string]string{"k": "a"}}))
		if err != nil {
			return "list-error", fmt.Sprintf("%s: annotation filtered ReferrerList failed: %v", who, err)
		}
		wa := expected(present, s, func(a artifact) bool { return a.annot["k"] == "a" })
		if strings.Join(an, ",") != strings.Join(wa, ",") {
			return "filter-annotation", fmt.Sprintf("%s: ReferrerList(%s, k=a) = %v, want %v", who, nameOf(s), an, wa)
		}
		// an empty value asks that the key is set (documented on descriptor.MatchOpt)
		for _, key := range []string{"k", "v"} {
			en, _, err := w.list(ctx, rc, s, scheme.WithReferrerMatchOpt(descriptor.MatchOpt{Annotations: map[string]string{key: ""}}))
			if err != nil {
				return "list-error", fmt.Sprintf("%s: annotation filtered ReferrerList failed: %v", who, err)
			}
			we := expected(present, s, func(a artifact) bool { _, ok := a.annot[key]; return ok })
			if strings.Join(en, ",") != strings.Join(we, ",") {
				return "filter-annotation-key-set", fmt.Sprintf("%s: ReferrerList(%s, annotation %s is set) = %v, want %v", who, nameOf(s), key, en, we)
			}
		}
	}
	return "", ""
}

// rawAudit: where the client maintains the fallback tag it must list exactly the live referrers
func (w *World) rawAudit(present map[int]bool) (string, string) {
	maintained := w.cfg.Kind == "dir" || strings.HasPrefix(w.cfg.Feat, "noapi")
	if !maintained {
		return "", ""
	}
	for _, s := range subjects {
		tag, ds, ok := w.fallbackTag(s)
		want := expected(present, s, nil)
		got := shorts(ds)
		sort.Strings(got)
		if !ok {
			if len(want) > 0 {
				return "fallback-tag-missing", fmt.Sprintf("fallback tag %s absent, live referrers %v", tag, want)
			}
			continue
		}
		if strings.Join(got, ",") != strings.Join(want, ",") {
			return "fallback-tag-differs", fmt.Sprintf("fallback tag %s lists %v, live referrers %v", tag, got, want)
		}
	}
	return "", ""
}

func (w *World) step(ctx context.Context, o Op) (string, string) {
	err := w.do(ctx, o)
	// The statement is about listings versus what is stored: the reference is recomputed from raw
	// storage after every operation. Whether the operation itself reported success is recorded
	// (w.failed) but is not part of this property, except that a successful put must store the
	// artifact and a successful delete must remove it.
	st := w.stored()
	if err != nil {
		w.failed++
	} else if o.K == "put" && !st[o.A] {
		return "put-not-stored", fmt.Sprintf("%s returned nil but the artifact is not stored", o)
	} else if o.K == "del" && st[o.A] {
		return "delete-not-removed", fmt.Sprintf("%s returned nil but the artifact is still stored", o)
	}
	w.present = st
	if k, m := w.observe(ctx, w.rc, w.present, "same client"); k != "" {
		return k, m
	}
	return w.rawAudit(w.present)
}

type replay struct {
	Part    string `json:"part"`
	Cfg     Cfg    `json:"cfg"`
	Hist    []Op   `json:"history"`
	Threads [][]Op `json:"threads,omitempty"`
	Choices []int  `json:"choices,omitempty"`
	Fault   *fault `json:"fault,omitempty"`
}

// fault: the K-th read of a fallback referrers tag during the last operation of the history (or
// during the listings that follow it, Op "list") is answered once with Status
type fault struct {
	Status int    `json:"status"`
	K      int    `json:"k"`
	Op     string `json:"op"` // last, list
}

// runFault: the history runs undisturbed up to its last operation. What reports success under the
// fault is held to the statement (the reference is what is stored afterwards); what reports an error
// is not judged here (a failed push may have stored its manifest without recording it).
func runFault(t *testing.T, cfg Cfg, hist []Op, f fault, scratch string) (used bool, outcome, vk, vm string) {
	dir, _ := os.MkdirTemp(scratch, "f")
	defer os.RemoveAll(dir)
	_, other := qsched.Bubble(t, func() {
		w := newWorld(t, cfg, dir)
		ctx := context.Background()
		n := len(hist)
		if f.Op == "list" {
			n++
		}
		for _, o := range hist[:min(n-1, len(hist))] {
			_ = w.do(ctx, o)
		}
		w.present = w.stored()
		seen := 0
		w.net.Decide = func(e *modelreg.Entry) *modelreg.Answer {
			if used || e.Method != "GET" || !strings.Contains(e.Path, "/manifests/sha256-") {
				return nil
			}
			seen++
			if seen-1 != f.K {
				return nil
			}
			used = true
			return &modelreg.Answer{Status: f.Status, Header: http.Header{}, Body: []byte(`{"errors":[{"code":"INJECTED"}]}`), Note: fmt.Sprintf("fault-%d", f.Status)}
		}
		if f.Op == "list" {
			for _, s := range subjects {
				names, _, err := w.list(ctx, w.rc, s)
				if err != nil {
					outcome += "list-err "
					continue
				}
				outcome += "list-ok "
				want := expected(w.present, s, nil)
				if strings.Join(names, ",") != strings.Join(want, ",") && vk == "" {
					vk, vm = "fault/list-wrong-under-fault", fmt.Sprintf("ReferrerList(%s) reported success with %v while a read of the fallback tag was answered %d; live manifests naming it: %v", nameOf(s), names, f.Status, want)
				}
			}
		} else {
			o := hist[len(hist)-1]
			err := w.do(ctx, o)
			st := w.stored()
			if err != nil {
				outcome = "op-err"
				w.net.Decide = nil
				return
			}
			outcome = "op-ok"
			if o.K == "put" && !st[o.A] {
				vk, vm = "fault/put-not-stored", fmt.Sprintf("%s returned nil but the artifact is not stored", o)
			} else if o.K == "del" && st[o.A] {
				vk, vm = "fault/delete-not-removed", fmt.Sprintf("%s returned nil but the artifact is still stored", o)
			}
			w.present = st
		}
		w.net.Decide = nil
		if vk != "" || !used {
			return
		}
		// the fault is over: the same client (its cache) and the raw tag must agree with what is stored
		if k, m := w.observe(ctx, w.rc, w.present, "same client, after the fault"); k != "" {
			vk, vm = "fault/"+k, m
			return
		}
		if k, m := w.rawAudit(w.present); k != "" {
			vk, vm = "fault/"+k, m
		}
	})
	if other != nil {
		vk, vm = "panic", fmt.Sprint(other)
	}
	return
}

func faultBlock(t *testing.T, rec *ev.Rec, mine func() bool) {
	ops := alphabet()
	for _, cfg := range []Cfg{{Kind: "reg", Feat: "noapi"}, {Kind: "reg", Feat: "noapi", Cache: true}} {
		var hists [][]Op
		for _, a := range ops {
			for _, b := range ops {
				hists = append(hists, []Op{a, b})
				for _, c := range ops {
					if a.K == "put" {
						hists = append(hists, []Op{a, b, c})
					}
				}
			}
		}
		for _, h := range hists {
			if !mine() {
				continue
			}
			if rec.Expired() {
				rec.NotExhaustive("budget reached in the fault block")
				return
			}
			for _, st := range []int{403, 503} {
				for _, fop := range []string{"last", "list"} {
					for k := 0; k < 4; k++ {
						f := fault{Status: st, K: k, Op: fop}
						used, out, vk, vm := runFault(t, cfg, h, f, rec.Scratch)
						if !used {
							break
						}
						rec.Eval(1)
						rec.Count("fault_block.executions", 1)
						rec.Count("fault_block."+strings.Fields(out + " none")[0], 1)
						rec.Distinct(fmt.Sprintf("fault %s#%s#%v#%s", cfg, histStr(h), f, out))
						if vk != "" {
							_, _, vk2, _ := runFault(t, cfg, h, f, rec.Scratch)
							if vk2 != vk {
								rec.HarnessError("fault block: %q of %s / %s not reproduced (%q)", vk, cfg, histStr(h), vk2)
								continue
							}
							rec.Violation(fmt.Sprintf("%s %s feat=%s cache=%v status=%d during=%s", vk, cfg.Kind, cfg.Feat, cfg.Cache, st, fop), vm+"\nhistory: "+histStr(h)+fmt.Sprintf("\nfault: read %d of a fallback tag answered %d during %s", k, st, fop)+"\nconfig: "+cfg.String(), replay{Part: "fault", Cfg: cfg, Hist: h, Fault: &f})
						}
					}
				}
			}
		}
	}
}

func runHist(t *testing.T, cfg Cfg, hist []Op, scratch string, judgeAll bool) (canon string, vk, vm string) {
	dir, _ := os.MkdirTemp(scratch, "h")
	defer os.RemoveAll(dir)
	_, other := qsched.Bubble(t, func() {
		w := newWorld(t, cfg, dir)
		ctx := context.Background()
		if len(hist) == 0 {
			vk, vm = w.observe(ctx, w.rc, w.present, "same client")
		}
		for i, o := range hist {
			if judgeAll || i == len(hist)-1 {
				vk, vm = w.step(ctx, o)
			} else {
				_ = w.do(ctx, o)
				w.present = w.stored()
			}
			if vk != "" {
				vm += fmt.Sprintf(" (at step %d)", i+1)
				break
			}
		}
		canon = w.canon()
	})
	if other != nil {
		vk, vm = "panic", fmt.Sprint(other)
	}
	return
}

func histStr(h []Op) string {
	var s []string
	for _, o := range h {
		s = append(s, o.String())
	}
	return strings.Join(s, " ; ")
}

func configs() []Cfg {
	return []Cfg{
		{Kind: "reg", Feat: "api"}, {Kind: "reg", Feat: "api-page1"}, {Kind: "reg", Feat: "api-nohdr"},
		{Kind: "reg", Feat: "noapi"}, {Kind: "reg", Feat: "noapi-notagdel"},
		{Kind: "reg", Feat: "api", Cache: true}, {Kind: "reg", Feat: "noapi", Cache: true}, {Kind: "reg", Feat: "api-page1", Cache: true},
		{Kind: "dir"},
		{Kind: "reg", Feat: "api", Cache: true, Tag: true}, {Kind: "reg", Feat: "noapi", Cache: true, Tag: true}, {Kind: "reg", Feat: "api-page1", Cache: true, Tag: true},
		{Kind: "reg", Feat: "api", Tag: true}, {Kind: "reg", Feat: "noapi", Tag: true}, {Kind: "dir", Tag: true},
	}
}

func vkey(k string, cfg Cfg, h []Op) string {
	last := "initial"
	if len(h) > 0 {
		last = h[len(h)-1].K
	}
	by := ""
	if cfg.Tag {
		by = " push=by-tag"
	}
	return fmt.Sprintf("%s %s feat=%s cache=%v%s after=%s", k, cfg.Kind, cfg.Feat, cfg.Cache, by, last)
}

// sequences without deduplication (the client cache is hidden state)
func allSeqs(t *testing.T, rec *ev.Rec, cfg Cfg, depth int, mine func() bool) {
	ops := alphabet()
	var recur func(h []Op)
	recur = func(h []Op) {
		if len(h) == depth {
			if !mine() {
				return
			}
			if rec.Expired() {
				rec.NotExhaustive("budget reached in sequences of " + cfg.String())
				return
			}
			_, vk, vm := runHist(t, cfg, h, rec.Scratch, true)
			rec.Eval(1)
			rec.Transitions(int64(len(h)))
			rec.Distinct(cfg.String() + "#" + histStr(h))
			if vk != "" {
				rec.Violation(vkey(vk, cfg, h), vm+"\nhistory: "+histStr(h)+"\nconfig: "+cfg.String(), replay{Part: "seq", Cfg: cfg, Hist: h})
			}
			return
		}
		for _, o := range ops {
			recur(append(append([]Op{}, h...), o))
		}
	}
	recur(nil)
}

func bfs(t *testing.T, rec *ev.Rec, cfg Cfg) {
	ops := alphabet()
	seen := map[string]bool{}
	c0, vk, vm := runHist(t, cfg, nil, rec.Scratch, false)
	rec.Eval(1)
	if vk != "" {
		rec.Violation(vkey(vk, cfg, nil), vm, replay{Part: "hist", Cfg: cfg})
	}
	seen[c0] = true
	frontier := [][]Op{nil}
	var states, trans int64 = 1, 0
	for depth := 1; depth <= 12 && len(frontier) > 0; depth++ {
		var next [][]Op
		for _, n := range frontier {
			for _, o := range ops {
				if rec.Expired() {
					rec.NotExhaustive("budget reached in BFS of " + cfg.String())
					return
				}
				h := append(append([]Op{}, n...), o)
				c, vk, vm := runHist(t, cfg, h, rec.Scratch, false)
				rec.Eval(1)
				trans++
				rec.Distinct(cfg.String() + "#" + c + "#" + o.String())
				if vk != "" {
					rec.Violation(vkey(vk, cfg, h), vm+"\nhistory: "+histStr(h)+"\nconfig: "+cfg.String(), replay{Part: "hist", Cfg: cfg, Hist: h})
					continue
				}
				if !seen[c] {
					seen[c] = true
					states++
					next = append(next, h)
				}
			}
		}
		frontier = next
	}
	if len(frontier) == 0 {
		rec.Count("configs_explored_to_closure", 1)
	}
	rec.States(states)
	rec.Transitions(trans)
}

// ---- part 2 -----------------------------------------------------------------------------------

type concScen struct {
	Cfg     Cfg
	Init    []Op
	Threads [][]Op // an op with K "list" lists the referrers of subject 0 (warms the cache)
}

func (s concScen) String() string {
	var ts []string
	for _, th := range s.Threads {
		ts = append(ts, histStr(th))
	}
	return fmt.Sprintf("%s init=[%s] threads=[%s]", s.Cfg, histStr(s.Init), strings.Join(ts, " || "))
}

func concScenarios(thorough bool) []concScen {
	var out []concScen
	put := func(a int) Op { return Op{"put", a} }
	del := func(a int) Op { return Op{"del", a} }
	list := Op{"list", 0}
	cfgs := []Cfg{{Kind: "reg", Feat: "noapi"}, {Kind: "reg", Feat: "noapi-notagdel"}, {Kind: "reg", Feat: "api-nohdr"}, {Kind: "reg", Feat: "api", Cache: true}, {Kind: "reg", Feat: "noapi", Cache: true}, {Kind: "dir"}}
	for _, c := range cfgs {
		out = append(out,
			concScen{c, nil, [][]Op{{put(0)}, {put(1)}}},
			concScen{c, []Op{put(0)}, [][]Op{{put(1)}, {del(0)}}},
			concScen{c, []Op{put(0), put(1)}, [][]Op{{del(0)}, {del(1)}}},
			concScen{c, []Op{put(0)}, [][]Op{{list}, {put(1)}}},
			concScen{c, []Op{put(0), put(1)}, [][]Op{{list}, {del(1)}}},
		)
		if thorough || c.Feat == "noapi" {
			out = append(out,
				concScen{c, []Op{put(0)}, [][]Op{{put(1)}, {del(0)}, {list}}},
				concScen{c, nil, [][]Op{{put(0)}, {put(1)}, {put(3)}}},
			)
		}
		if thorough {
			out = append(out, concScen{c, []Op{put(0)}, [][]Op{{put(1)}, {del(0)}, {put(2)}, {list}}})
		}
	}
	return out
}

func runConc(t *testing.T, c *explore.Ctx, sc concScen, scratch string, trace bool) explore.Result {
	dir, _ := os.MkdirTemp(scratch, "c")
	defer os.RemoveAll(dir)
	var res explore.Result
	_, other := qsched.Bubble(t, func() {
		w := newWorld(t, sc.Cfg, dir)
		ctx := context.Background()
		for _, o := range sc.Init {
			if err := w.do(ctx, o); err != nil {
				res = explore.Result{Outcome: "init-failed", VKey: "harness", Violation: "init failed: " + err.Error()}
				return
			}
			w.present[o.A] = o.K == "put"
			if o.K == "del" {
				delete(w.present, o.A)
			}
		}
		final := map[int]bool{}
		for k, v := range w.present {
			final[k] = v
		}
		var errs []string
		var sched *qsched.Sched
		w.net.OnArrive = func(e *modelreg.Entry) {
			if sched != nil {
				sched.Point(qsched.KHTTP, "")
			}
		}
		threads := map[string]func(*qsched.Sched){}
		var names []string
		for ti, prog := range sc.Threads {
			n := fmt.Sprintf("t%d", ti)
			names = append(names, n)
			threads[n] = func(s *qsched.Sched) {
				sched = s
				for _, o := range prog {
					s.Yield("op")
					if o.K == "list" {
						if _, _, err := w.list(ctx, w.rc, subj0.Digest); err != nil {
							errs = append(errs, "list: "+err.Error())
						}
						continue
					}
					if err := w.do(ctx, o); err != nil {
						errs = append(errs, o.String()+": "+err.Error())
					}
				}
			}
			for _, o := range prog {
				if o.K == "put" {
					final[o.A] = true
				} else if o.K == "del" {
					delete(final, o.A)
				}
			}
		}
		cfg := qsched.Config{Mode: qsched.Preemption, Horizon: 6000, Trace: trace}
		if sc.Cfg.Kind == "reg" {
			cfg.Branch = map[qsched.Kind]bool{qsched.KHTTP: true, qsched.KYield: true, qsched.KStart: true}
		}
		out := qsched.Run(c, cfg, threads, names)
		sched = nil
		w.net.OnArrive = nil
		if out.Deadlock {
			res = explore.Result{Outcome: "deadlock", VKey: "deadlock", Violation: "deadlock: " + out.DeadlockAt}
			return
		}
		if out.Panic != nil {
			res = explore.Result{Outcome: "panic", VKey: "panic", Violation: fmt.Sprint(out.Panic)}
			return
		}
		res.Outcome = w.canon() + " errs=" + fmt.Sprint(len(errs))
		c.Logf("%s", res.Outcome)
		// what is stored after quiescence is the reference; operations that reported an error are
		// only counted (the statement is about listings versus storage)
		st := w.stored()
		if len(errs) == 0 {
			for i := range arts {
				if st[i] != final[i] {
					res.VKey, res.Violation = "store-differs", fmt.Sprintf("all updates returned nil but artifact %s stored=%v expected=%v", arts[i].name, st[i], final[i])
					return
				}
			}
		}
		final = st
		// after quiescence: a fresh client, then the same client (its cache must not be stale)
		fresh := rcenv.New(w.net, []string{host}, rcenv.Opts{})
		if k, m := w.observe(ctx, fresh, final, "fresh client after quiescence"); k != "" {
			res.VKey, res.Violation = "quiescent-"+k, m
			return
		}
		if k, m := w.observe(ctx, w.rc, final, "same client after quiescence"); k != "" {
			res.VKey, res.Violation = "quiescent-same-client-"+k, m
			return
		}
		if k, m := w.rawAudit(final); k != "" {
			res.VKey, res.Violation = "quiescent-"+k, m
		}
	})
	if other != nil {
		res.VKey, res.Violation = "panic", fmt.Sprint(other)
	}
	return res
}

func concKinds(sc concScen) string {
	var ks []string
	for _, th := range sc.Threads {
		var k []string
		for _, o := range th {
			k = append(k, o.K)
		}
		ks = append(ks, strings.Join(k, "."))
	}
	sort.Strings(ks)
	return strings.Join(ks, "||")
}

func TestVerifC10(t *testing.T) {
	rec := ev.New()
	defer rec.Flush(t)
	rec.Rule("part 1: per configuration (registry with the referrers API unpaged / paged by 1 / without OCI-Subject acknowledgement, without the API (fallback tag), without API and tag delete, response cache on for three of them, OCI layout; six of these again with every artifact pushed to a tag of its own instead of by digest) breadth-first search to closure over histories of put / referrer-aware delete of six artifacts (two types, one referrer of a referrer, one with a non-existent subject, one index-typed, one config-typed), states deduplicated by raw store (artifacts + fallback tags); plus every sequence of length 3 (thorough 4) WITHOUT deduplication, because the client cache is hidden state. After every operation ReferrerList of every subject (plain, artifactType filter, annotation filter) is compared with the reference multimap and the raw fallback tag is audited. " +
		"fault block (the statement has no faults; a reported success is still held to it): registries without the API, cache off/on, every history of two operations and every one of three that starts with a push, with the k-th read (k<4) of a fallback tag during the last operation, or during the listings after it, answered once with 403 or 503: an operation or listing that reports success must leave / return exactly the live referrers, also for the same client afterwards. " +
		"part 2: 2-4 concurrent updates/lists of one subject through one client, every interleaving within a pre-emption bound at request arrivals (every mutex acquisition for layouts); after quiescence a fresh client and the same client must list exactly the multimap implied by the completed updates. distinct_nontrivial = distinct transitions / sequences / concurrent outcomes")
	if rd := rec.ReplayData(); rd != nil {
		var rp replay
		if err := json.Unmarshal(rd, &rp); err != nil {
			rec.HarnessError("replay: %v", err)
			return
		}
		if rp.Part == "conc" {
			sc := concScen{rp.Cfg, rp.Hist, rp.Threads}
			c := explore.NewCtx(rp.Choices)
			r := runConc(t, c, sc, rec.Scratch, true)
			fmt.Printf("replay %s choices=%v\n%s\nverdict: %s %s\n", sc, rp.Choices, strings.Join(c.Log(), "\n"), r.VKey, r.Violation)
			rec.Eval(1)
			if r.VKey != "" {
				rec.Violation(r.VKey+" conc "+sc.Cfg.String()+" "+concKinds(sc), r.Violation, rp)
			}
			return
		}
		if rp.Part == "fault" && rp.Fault != nil {
			used, out, vk, vm := runFault(t, rp.Cfg, rp.Hist, *rp.Fault, rec.Scratch)
			fmt.Printf("replay %s history=%s fault=%+v used=%v outcome=%s\nverdict: %s %s\n", rp.Cfg, histStr(rp.Hist), *rp.Fault, used, out, vk, vm)
			rec.Eval(1)
			if vk != "" {
				rec.Violation(fmt.Sprintf("%s %s feat=%s cache=%v status=%d during=%s", vk, rp.Cfg.Kind, rp.Cfg.Feat, rp.Cfg.Cache, rp.Fault.Status, rp.Fault.Op), vm, rp)
			}
			return
		}
		c, vk, vm := runHist(t, rp.Cfg, rp.Hist, rec.Scratch, rp.Part == "seq")
		fmt.Printf("replay %s history=%s\nraw=%s\nverdict: %s %s\n", rp.Cfg, histStr(rp.Hist), c, vk, vm)
		rec.Eval(1)
		if vk != "" {
			rec.Violation(vkey(vk, rp.Cfg, rp.Hist), vm, rp)
		}
		return
	}
	i := 0
	mine := func() bool { i++; return rec.Mine(i - 1) }
	for _, cfg := range configs() {
		if mine() {
			bfs(t, rec, cfg)
			rec.Sample(map[string]any{"config": cfg.String(), "part": "bfs"})
		}
	}
	depth := 3
	if rec.Thorough() {
		depth = 4
	}
	rec.Info("undeduplicated_sequence_length", depth)
	for _, cfg := range configs() {
		allSeqs(t, rec, cfg, depth, mine)
	}
	faultBlock(t, rec, mine)
	bound := 2
	if rec.Thorough() {
		bound = 3
	}
	rec.Info("preemption_bound", bound)
	for _, sc := range concScenarios(rec.Thorough()) {
		if !mine() {
			continue
		}
		if rec.Expired() {
			rec.NotExhaustive("budget reached in concurrent scenarios")
			break
		}
		b := bound
		if sc.Cfg.Kind != "reg" {
			b = 1
			if rec.Thorough() {
				b = 2
			}
		}
		run := func(c *explore.Ctx) explore.Result { return runConc(t, c, sc, rec.Scratch, false) }
		ex := &explore.Explorer{Bound: b, Run: run, Stop: rec.Expired, DetCheckEvery: 199}
		ex.OnExec = func(c *explore.Ctx, r explore.Result) {
			if r.VKey == "harness" {
				rec.HarnessError("%s: %s", sc, r.Violation)
				return
			}
			if r.Violation != "" {
				for k := 0; k < 3; k++ {
					r2 := run(explore.NewCtx(c.Choices()))
					if r2.VKey != r.VKey {
						rec.HarnessError("violation %q of %s not reproduced", r.VKey, sc)
						return
					}
				}
				rec.Violation(r.VKey+" conc "+sc.Cfg.String()+" "+concKinds(sc), r.Violation+"\nscenario: "+sc.String()+"\nschedule: "+c.Describe(),
					replay{Part: "conc", Cfg: sc.Cfg, Hist: sc.Init, Threads: sc.Threads, Choices: explore.Trim(c.Choices())})
			}
			rec.Distinct(sc.String() + "#" + r.Outcome)
		}
		func() {
			defer func() {
				if p := recover(); p != nil {
					rec.HarnessError("scenario %s: %v", sc, p)
				}
			}()
			ex.Explore()
		}()
		rec.Eval(ex.Stats.Executions)
		rec.Count("concurrent.executions", ex.Stats.Executions)
		rec.Count("concurrent.distinct_outcomes", int64(len(ex.Stats.Outcomes)))
		rec.Count("concurrent.scenarios", 1)
		if ex.Stats.Capped {
			rec.NotExhaustive("budget reached inside " + sc.String())
		}
		if i%7 == 0 {
			rec.Sample(map[string]any{"scenario": sc.String(), "part": "schedules", "executions": ex.Stats.Executions})
		}
	}
	rec.Validated(0)
}
