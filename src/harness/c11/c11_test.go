package hc11

// C11 — credentials go only to their own registry, over its configured transport.
//
// Real client operations run against a small network of in-memory hosts (registries with their own
// credentials, a mirror, a token endpoint per registry, a CDN that blob GETs are redirected to, an
// external layer host, a hostile host). Every request received by any host, and the client's trace
// log, is scanned for every secret in raw, base64 and URL-encoded form. The explorer enumerates
// every sequence of at most k deviations: any host answering 401 with any kind of challenge at any
// request position.

import (
	"bytes"
	"context"
	"encoding/base64"
	"encoding/json"
	"errors"
	"fmt"
	"io"
	"log/slog"
	"net/http"
	"net/url"
	"sort"
	"strings"
	"testing"

	"github.com/regclient/regclient"
	"github.com/regclient/regclient/config"
	"github.com/regclient/regclient/internal/verif/ev"
	"github.com/regclient/regclient/internal/verif/explore"
	"github.com/regclient/regclient/internal/verif/graphs"
	"github.com/regclient/regclient/internal/verif/modelreg"
	"github.com/regclient/regclient/internal/verif/qsched"
	"github.com/regclient/regclient/internal/verif/rcenv"
	"github.com/regclient/regclient/types"
	"github.com/regclient/regclient/types/descriptor"
	"github.com/regclient/regclient/types/ref"
	"github.com/opencontainers/go-digest"
)

const (
	hA, hB, hM = "a.example", "b.example", "m.example"
	hEvil      = "evil.example"
	repo       = "proj/app"
	// the external layer host of the sibling topology: another service on registry A's own machine
	// name, told apart by the port only
	hExtSibling = hA + ":9000"
	hCDNSibling = hA + ":8443"
)

// hCDN is the redirect target of the world being run (set by newWorld)
var hCDN = "cdn.example"

// hExt is the external layer host of the world being run (set by newWorld; executions are sequential)
var hExt = "external.example"

type Cfg struct {
	Op       string `json:"op"`
	SchemeA  string `json:"scheme_a"` // basic, bearer, bearer-idtoken
	RepoAuth bool   `json:"repo_auth"`
	TLS      bool   `json:"tls"` // A (and its mirror/second registry) configured for TLS
	Mirror   bool   `json:"mirror"` // A is configured with mirror M (own credentials, same content)
	// Alias: "mirror" the mirror's configuration entry is named m-alias.example and reached at
	// m.example; "upstream" registry A is named a-alias.example (references use that name) and reached
	// at a.example
	Alias string `json:"alias,omitempty"`
	// Sibling: the external layer URLs point at another port of registry A's machine name
	Sibling bool `json:"sibling,omitempty"`
}

func (c Cfg) String() string {
	s := fmt.Sprintf("%s authA=%s repoAuth=%v tls=%v", c.Op, c.SchemeA, c.RepoAuth, c.TLS)
	if c.Mirror {
		s += " mirror=true"
	}
	if c.Alias != "" {
		s += " alias=" + c.Alias
	}
	if c.Sibling {
		s += " external-host=other-port-of-a"
	}
	return s
}

var ops = []string{"ping", "manifest-get", "manifest-put", "blob-get-redirect", "blob-put", "tag-list", "referrers", "mirror-read", "copy-a-to-b", "copy-external",
	"manifest-head", "blob-head", "blob-put-stream", "blob-put-chunked", "blob-mount", "tag-list-paged", "referrers-paged", "tag-delete", "manifest-delete", "blob-delete"}

type secret struct {
	val   string
	owner string // registry host the secret belongs to
	kind  string // user, password, idtoken, bearer, refresh
}

type reqLog struct {
	Scheme, Host, Method, Path string
	Status                     int
	Note                       string
}

type world struct {
	cfg     Cfg
	c       *explore.Ctx
	net     *modelreg.Net
	secrets []secret
	named   map[string]map[string]bool // registry -> hosts it named as realm in its own challenges
	asked   map[string]bool            // hosts that answered 401 themselves, or were named as realm by such a host
	leaks   []string
	leakKey string
	log     []reqLog
	nreq    int
	ntok    int
	devs    []string
	logBuf  bytes.Buffer
	sched   *qsched.Sched
}

var creds = map[string][3]string{ // user, password, identity token
	hA: {"usrA-1", "p@ss+A/1", "idtok=A/1+"},
	hB: {"usrB-2", "p@ss+B/2", ""},
	hM: {"usrM-3", "p@ss+M/3", ""},
}

func tokenHost(reg string) string { return "auth-" + reg }

func (w *world) schemeOf(host string) string {
	switch host {
	case hA:
		return w.cfg.SchemeA
	case hB, hM:
		return "basic"
	}
	return "none"
}

func (w *world) forms(s string) []string {
	out := []string{s, url.QueryEscape(s), base64.StdEncoding.EncodeToString([]byte(s)), base64.URLEncoding.EncodeToString([]byte(s))}
	return out
}

// scan looks for every secret in one piece of text received by host (or "" for the log).
func (w *world) scan(where, scheme, host string, text string) {
	for _, s := range w.secrets {
		found := false
		for _, f := range w.forms(s.val) {
			if f != "" && strings.Contains(text, f) {
				found = true
			}
		}
		if s.kind == "password" {
			u := creds[s.owner][0]
			b := base64.StdEncoding.EncodeToString([]byte(u + ":" + s.val))
			if strings.Contains(text, b) {
				found = true
			}
		}
		if !found {
			continue
		}
		if host == "" {
			if s.kind == "user" {
				continue // account names are routinely logged; the log clause is about secrets
			}
			w.leak("secret-in-log kind="+s.kind, fmt.Sprintf("%s of %s appears in the client's log output", s.kind, s.owner))
			continue
		}
		allowed := host == s.owner
		if !allowed && s.kind != "bearer" && w.named[s.owner][host] {
			allowed = true // the token endpoint the registry itself named
		}
		if s.kind == "user" && strings.HasPrefix(host, "auth-") && w.named[s.owner][host] {
			allowed = true
		}
		if !allowed {
			how := "unsolicited" // the receiver never asked for credentials
			if w.asked[host] {
				how = "after-its-challenge" // the receiver (or a host that challenged) asked for them
			}
			// the key names receiver, secret kind and owner: a recorded finding about the password does
			// not cover a token that starts to travel the same way
			w.leak(fmt.Sprintf("credential-sent-elsewhere to=%s %s kind=%s of=%s", role(host), how, s.kind, role(s.owner)), fmt.Sprintf("%s of %s was sent to %s (%s)", s.kind, s.owner, host, where))
			continue
		}
		if scheme == "http" && w.cfg.TLS && (host == hA || host == hB || host == hM) {
			w.leak("credential-in-clear-text kind="+s.kind+" of="+role(s.owner), fmt.Sprintf("%s of %s was sent over plain http to %s, a host configured for TLS (%s)", s.kind, s.owner, host, where))
		}
	}
}

func role(host string) string {
	switch host {
	case hA:
		return "registry-a"
	case hB:
		return "registry-b"
	case hM:
		return "mirror"
	case hCDN:
		return "redirect-target"
	case hExt:
		return "external-layer-host"
	case hEvil:
		return "foreign-host"
	}
	if strings.HasPrefix(host, "auth-") {
		return "token-endpoint-of-" + strings.TrimPrefix(host, "auth-")
	}
	return host
}

func (w *world) leak(key, msg string) {
	w.leaks = append(w.leaks, msg)
	if w.leakKey == "" || key < w.leakKey {
		w.leakKey = key
	}
}

var deviations = []string{"ok", "401-basic", "401-bearer-own", "401-bearer-foreign", "401-bearer-http-self", "401-two", "401-malformed", "401-none", "conn-reset"}

func (w *world) name(reg, realmHost string) {
	if w.named[reg] == nil {
		w.named[reg] = map[string]bool{}
	}
	w.named[reg][realmHost] = true
}

func (w *world) resp(req *http.Request, code int, hdr http.Header, body []byte) *http.Response {
	if hdr == nil {
		hdr = http.Header{}
	}
	if req.Method == "HEAD" {
		body = nil
	}
	return &http.Response{StatusCode: code, Status: fmt.Sprint(code), Header: hdr, Body: io.NopCloser(bytes.NewReader(body)), Request: req, Proto: "HTTP/1.1", ProtoMajor: 1, ProtoMinor: 1, ContentLength: int64(len(body))}
}

func (w *world) RoundTrip(req *http.Request) (*http.Response, error) {
	if w.sched != nil {
		w.sched.Point(qsched.KHTTP, "")
	}
	w.nreq++
	if w.nreq > 300 {
		return nil, errors.New("harness: request horizon")
	}
	var body []byte
	if req.Body != nil {
		body, _ = io.ReadAll(req.Body)
		req.Body.Close()
		req.Body = io.NopCloser(bytes.NewReader(body))
	}
	host, sch := req.URL.Host, req.URL.Scheme
	// everything the receiving host sees
	var sb strings.Builder
	sb.WriteString(req.URL.String() + "\n")
	for k, vs := range req.Header {
		sb.WriteString(k + ": " + strings.Join(vs, ",") + "\n")
	}
	sb.Write(body)
	w.scan(req.Method+" "+req.URL.Path, sch, host, sb.String())
	l := reqLog{Scheme: sch, Host: host, Method: req.Method, Path: req.URL.Path}
	defer func() { w.log = append(w.log, l) }()

	ch := w.c.Choose("challenge", len(deviations), nil)
	if ch > 0 {
		d := deviations[ch]
		w.devs = append(w.devs, fmt.Sprintf("%s@%d(%s)", d, w.nreq-1, role(host)))
		if d == "conn-reset" {
			// the round trip fails at transport level (whatever the request carried was sent)
			l.Note = d
			return nil, errors.New("read: connection reset by peer")
		}
		l.Note, l.Status = d, 401
		w.asked[host] = true
		if d == "401-bearer-foreign" || d == "401-two" {
			w.asked[hEvil] = true
		}
		h := http.Header{}
		isReg := host == hA || host == hB || host == hM
		switch d {
		case "401-basic":
			h.Add("WWW-Authenticate", `Basic realm="deviation"`)
		case "401-bearer-own":
			own := tokenHost(host)
			if !isReg {
				own = host
			}
			h.Add("WWW-Authenticate", fmt.Sprintf(`Bearer realm="https://%s/token",service="%s",scope="repository:%s:pull"`, own, host, repo))
			if isReg {
				w.name(host, own)
			}
		case "401-bearer-foreign":
			h.Add("WWW-Authenticate", fmt.Sprintf(`Bearer realm="https://%s/token",service="%s"`, hEvil, host))
			if isReg {
				w.name(host, hEvil)
			}
		case "401-bearer-http-self":
			// a realm on the challenged host itself, over plain http
			h.Add("WWW-Authenticate", fmt.Sprintf(`Bearer realm="http://%s/token",service="%s"`, host, host))
			if isReg {
				w.name(host, host)
			}
		case "401-two":
			h.Add("WWW-Authenticate", `Basic realm="deviation"`)
			h.Add("WWW-Authenticate", fmt.Sprintf(`Bearer realm="https://%s/token",service="%s"`, hEvil, host))
			if isReg {
				w.name(host, hEvil)
			}
		case "401-malformed":
			h.Add("WWW-Authenticate", `Bearer realm="https://unterminated`)
		case "401-none":
		}
		return w.resp(req, 401, h, []byte(`{"errors":[{"code":"UNAUTHORIZED"}]}`)), nil
	}
	r, err := w.serve(req, body)
	if r != nil {
		l.Status = r.StatusCode
	}
	return r, err
}

func (w *world) issue(reg string, refresh bool) []byte {
	w.ntok++
	tok := fmt.Sprintf("tok-%s-%d+/=", reg, w.ntok)
	w.secrets = append(w.secrets, secret{tok, reg, "bearer"})
	out := map[string]any{"token": tok, "expires_in": 3600, "issued_at": "2000-01-01T00:00:00Z"}
	if refresh {
		rt := fmt.Sprintf("refresh-%s-%d+/=", reg, w.ntok)
		w.secrets = append(w.secrets, secret{rt, reg, "refresh"})
		out["refresh_token"] = rt
	}
	b, _ := json.Marshal(out)
	return b
}

func (w *world) serve(req *http.Request, body []byte) (*http.Response, error) {
	host := req.URL.Host
	switch {
	case strings.HasPrefix(host, "auth-"):
		reg := strings.TrimPrefix(host, "auth-")
		c := creds[reg]
		if req.Method == "GET" {
			u, p, ok := req.BasicAuth()
			if ok && u == c[0] && p == c[1] {
				return w.resp(req, 200, http.Header{"Content-Type": {"application/json"}}, w.issue(reg, false)), nil
			}
			return w.resp(req, 401, nil, []byte("{}")), nil
		}
		form, _ := url.ParseQuery(string(body))
		switch form.Get("grant_type") {
		case "password":
			if form.Get("username") == c[0] && form.Get("password") == c[1] {
				return w.resp(req, 200, nil, w.issue(reg, true)), nil
			}
		case "refresh_token":
			rt := form.Get("refresh_token")
			ok := rt == c[2] && rt != ""
			for _, s := range w.secrets {
				if s.kind == "refresh" && s.owner == reg && s.val == rt {
					ok = true
				}
			}
			if ok {
				return w.resp(req, 200, nil, w.issue(reg, true)), nil
			}
		}
		return w.resp(req, 401, nil, []byte("{}")), nil
	case host == hEvil:
		return w.resp(req, 200, nil, []byte(`{"token":"evil-token","expires_in":3600,"issued_at":"2000-01-01T00:00:00Z"}`)), nil
	case host == hCDN:
		d := strings.TrimPrefix(req.URL.Path, "/blob/")
		if b, ok := w.net.Hosts[hA].Repo(repo).Blobs[d]; ok {
			return w.resp(req, 200, http.Header{"Content-Length": {fmt.Sprint(len(b))}}, b), nil
		}
		return w.resp(req, 404, nil, nil), nil
	case host == hExt:
		return w.net.RoundTrip(req)
	case host == hA || host == hB || host == hM:
		sch := w.schemeOf(host)
		c := creds[host]
		ok := false
		ah := req.Header.Get("Authorization")
		switch sch {
		case "basic":
			u, p, has := req.BasicAuth()
			ok = has && u == c[0] && p == c[1]
		default:
			if strings.HasPrefix(ah, "Bearer ") {
				t := strings.TrimPrefix(ah, "Bearer ")
				for _, s := range w.secrets {
					if s.kind == "bearer" && s.owner == host && s.val == t {
						ok = true
					}
				}
			}
		}
		if !ok {
			h := http.Header{}
			if sch == "basic" {
				h.Add("WWW-Authenticate", fmt.Sprintf(`Basic realm="%s"`, host))
			} else {
				th := tokenHost(host)
				w.name(host, th)
				scope := "repository:" + repo + ":pull,push"
				h.Add("WWW-Authenticate", fmt.Sprintf(`Bearer realm="https://%s/token",service="%s",scope="%s"`, th, host, scope))
			}
			return w.resp(req, 401, h, []byte(`{"errors":[{"code":"UNAUTHORIZED"}]}`)), nil
		}
		if host == hA && w.cfg.Op == "blob-get-redirect" && req.Method == "GET" && strings.Contains(req.URL.Path, "/blobs/sha256:") {
			d := req.URL.Path[strings.LastIndex(req.URL.Path, "/")+1:]
			return w.resp(req, 307, http.Header{"Location": {"https://" + hCDN + "/blob/" + d}}, nil), nil
		}
		return w.net.RoundTrip(req)
	}
	return nil, fmt.Errorf("dial %s: no such host", host)
}

var g1 = graphs.Build("G1")
var g9 = graphs.Build("G9")
var g9s = func() *graphs.Graph {
	graphs.ExternalHost = hExtSibling
	defer func() { graphs.ExternalHost = "external.example" }()
	return graphs.Build("G9")
}()
var g13 = graphs.Build("G13")

func newWorld(c *explore.Ctx, cfg Cfg) *world {
	w := &world{cfg: cfg, c: c, named: map[string]map[string]bool{}, asked: map[string]bool{}}
	w.net = modelreg.NewNet()
	f := modelreg.Full()
	fa := f
	switch cfg.Op {
	case "tag-list-paged":
		fa.TagPage = 1
	case "referrers-paged":
		fa.ReferrersPage = 1
	}
	hExt, hCDN = "external.example", "cdn.example"
	g9 := g9
	if cfg.Sibling {
		hExt, hCDN, g9 = hExtSibling, hCDNSibling, g9s
	}
	a := w.net.AddHost(hA, fa)
	g1.Load(a.Repo(repo), "v1")
	g9.Load(a.Repo(repo), "ext")
	g13.Load(a.Repo(repo), "sub")
	w.net.AddHost(hB, f)
	m := w.net.AddHost(hM, fa)
	g1.Load(m.Repo(repo), "v1")
	if cfg.Mirror {
		g9.Load(m.Repo(repo), "ext")
		g13.Load(m.Repo(repo), "sub")
	}
	e := w.net.AddHost(hExt, modelreg.Features{})
	e.Static = map[string][]byte{}
	for d := range g9.External {
		e.Static["/"+d] = []byte("foreign-content")
	}
	for h, c := range creds {
		w.secrets = append(w.secrets, secret{c[0], h, "user"}, secret{c[1], h, "password"})
		if c[2] != "" {
			w.secrets = append(w.secrets, secret{c[2], h, "idtoken"})
		}
	}
	return w
}

func (w *world) client() *regclient.RegClient {
	tls := config.TLSDisabled
	if w.cfg.TLS {
		tls = config.TLSEnabled
	}
	ha := config.Host{Name: hA, Hostname: hA, TLS: tls, User: creds[hA][0], Pass: creds[hA][1], RepoAuth: w.cfg.RepoAuth}
	if w.cfg.SchemeA == "bearer-idtoken" {
		ha.User, ha.Pass, ha.Token = "", "", creds[hA][2]
	}
	mirrorName := hM
	if w.cfg.Alias == "mirror" {
		mirrorName = "m-alias.example"
	}
	if w.cfg.Alias == "upstream" {
		ha.Name = "a-alias.example"
	}
	if w.cfg.Op == "mirror-read" || w.cfg.Mirror {
		ha.Mirrors = []string{mirrorName}
	}
	if w.cfg.Op == "blob-put-chunked" {
		ha.BlobChunk, ha.BlobMax = 3, 4
	}
	hb := config.Host{Name: hB, Hostname: hB, TLS: tls, User: creds[hB][0], Pass: creds[hB][1]}
	hm := config.Host{Name: mirrorName, Hostname: hM, TLS: tls, User: creds[hM][0], Pass: creds[hM][1]}
	lg := slog.New(slog.NewTextHandler(&w.logBuf, &slog.HandlerOptions{Level: types.LevelTrace}))
	return rcenv.New(w, nil, rcenv.Opts{Hosts: []config.Host{ha, hb, hm}, Slog: lg, RetryLimit: 3})
}

func doOp(rc *regclient.RegClient, op string, nameA string) error {
	ctx := context.Background()
	rA, _ := ref.New(nameA + "/" + repo + ":v1")
	var ld string
	for d := range g1.Blobs {
		if ld == "" || d < ld {
			ld = d
		}
	}
	ldesc := descriptor.Descriptor{Digest: digest.Digest(ld), Size: int64(len(g1.Blobs[ld]))}
	switch op {
	case "ping":
		_, err := rc.Ping(ctx, rA)
		return err
	case "manifest-get":
		_, err := rc.ManifestGet(ctx, rA)
		return err
	case "manifest-put":
		m, err := rc.ManifestGet(ctx, rA)
		if err != nil {
			return err
		}
		return rc.ManifestPut(ctx, rA.SetTag("again"), m)
	case "blob-get-redirect", "mirror-read":
		b, err := rc.BlobGet(ctx, rA, ldesc)
		if err != nil {
			return err
		}
		_, err = io.ReadAll(b)
		b.Close()
		return err
	case "blob-put":
		data := []byte("new blob")
		_, err := rc.BlobPut(ctx, rA, descriptor.Descriptor{Digest: digest.FromBytes(data), Size: int64(len(data))}, bytes.NewReader(data))
		return err
	case "blob-put-stream":
		// descriptor unknown: the upload takes the streaming (chunked) path
		_, err := rc.BlobPut(ctx, rA, descriptor.Descriptor{}, bytes.NewReader([]byte("new blob, streamed")))
		return err
	case "blob-put-chunked":
		data := []byte("new blob in chunks")
		_, err := rc.BlobPut(ctx, rA, descriptor.Descriptor{Digest: digest.FromBytes(data), Size: int64(len(data))}, bytes.NewReader(data))
		return err
	case "blob-mount":
		rT, _ := ref.New(nameA + "/proj/other:v1")
		return rc.BlobMount(ctx, rA, rT, ldesc)
	case "manifest-head":
		_, err := rc.ManifestHead(ctx, rA)
		return err
	case "blob-head":
		b, err := rc.BlobHead(ctx, rA, ldesc)
		if err == nil {
			b.Close()
		}
		return err
	case "tag-delete":
		return rc.TagDelete(ctx, rA)
	case "manifest-delete":
		return rc.ManifestDelete(ctx, rA.SetDigest(g1.Top))
	case "blob-delete":
		return rc.BlobDelete(ctx, rA, ldesc)
	case "tag-list", "tag-list-paged":
		tl, err := rc.TagList(ctx, rA)
		if err != nil {
			return err
		}
		if tags, _ := tl.GetTags(); op == "tag-list-paged" && len(tags) < 3 {
			return fmt.Errorf("harness: paged tag list returned %v", tags)
		}
		return nil
	case "referrers", "referrers-paged":
		_, err := rc.ReferrerList(ctx, rA.SetDigest(g13.Top))
		return err
	case "copy-a-to-b":
		rB, _ := ref.New(hB + "/proj/copy:v1")
		return rc.ImageCopy(ctx, rA, rB)
	case "copy-external":
		rB, _ := ref.New(hB + "/proj/copy:ext")
		return rc.ImageCopy(ctx, rA.SetTag("ext"), rB, regclient.ImageWithIncludeExternal())
	}
	return fmt.Errorf("unknown op")
}

type result struct {
	err   error
	w     *world
	panic any
}

func run(t *testing.T, c *explore.Ctx, cfg Cfg) *result {
	res := &result{}
	_, other := qsched.Bubble(t, func() {
		w := newWorld(c, cfg)
		res.w = w
		rc := w.client()
		// the operation runs under the scheduler with no branching at all: request arrivals of the
		// goroutines of a copy are granted one at a time in goroutine-creation order, so an
		// execution is a function of the deviation choices only
		out := qsched.Run(c, qsched.Config{Branch: map[qsched.Kind]bool{}}, map[string]func(*qsched.Sched){"op": func(s *qsched.Sched) {
			w.sched = s
			nameA := hA
			if cfg.Alias == "upstream" {
				nameA = "a-alias.example"
			}
			res.err = doOp(rc, cfg.Op, nameA)
		}}, []string{"op"})
		w.sched = nil
		if out.Panic != nil {
			res.panic = out.Panic
		}
		if out.Deadlock || out.Horizon {
			res.panic = fmt.Sprintf("scheduler: deadlock=%v horizon=%v %s", out.Deadlock, out.Horizon, out.DeadlockAt)
		}
		w.scan("log", "", "", w.logBuf.String())
	})
	if other != nil {
		res.panic = other
	}
	return res
}

func judge(cfg Cfg, r *result) (string, string) {
	if r.panic != nil {
		return "panic", fmt.Sprint(r.panic)
	}
	if r.w.nreq > 300 {
		return "observed:no-termination", "more than 300 requests"
	}
	if len(r.w.leaks) > 0 {
		var lg []string
		for _, l := range r.w.log {
			lg = append(lg, fmt.Sprintf("%s %s://%s%s->%d %s", l.Method, l.Scheme, l.Host, l.Path, l.Status, l.Note))
		}
		return r.w.leakKey, strings.Join(uniq(r.w.leaks), "; ") + "\nrequests: " + strings.Join(lg, " | ")
	}
	return "", ""
}

func uniq(l []string) []string {
	sort.Strings(l)
	var o []string
	for i, s := range l {
		if i == 0 || l[i-1] != s {
			o = append(o, s)
		}
	}
	return o
}

type replay struct {
	Cfg     Cfg   `json:"cfg"`
	Choices []int `json:"choices"`
}

func TestVerifC11(t *testing.T) {
	rec := ev.New()
	defer rec.Flush(t)
	rec.Rule("scenario = operation {ping, manifest get/head/put/delete, blob get through a redirect to a CDN host, blob head/put (single request, streamed with unknown digest, chunked)/mount/delete, tag list (one page, three pages), tag delete, referrers (one page, paged), read through a mirror, cross-registry copy, copy of an image with an external layer URL (on a host of its own, or on another port of the registry's own machine name)} x registry alone / with a mirror that has its own credentials and the same content x configuration names equal to the host names / the upstream or the mirror configured under an alias name x auth scheme of the registry {basic, bearer via its token endpoint, bearer with an identity token (POST/refresh flow)} x per-repository auth on/off x TLS configured or not; every host has its own distinctive credentials. " +
		"Per scenario every sequence of at most k deviations (k=2 quick, 3 thorough; 1 for the copies in quick): any host — registry, mirror, token endpoint, redirect target, external layer host — answers 401 at any request position with {Basic, Bearer naming its own endpoint, Bearer naming a foreign host, Bearer naming an http:// realm on itself, two challenges, malformed, none} or drops the connection. " +
		"Oracle: every URL, header and body received by every host and the client's trace-level log are scanned for every secret (user, password, identity token, issued bearer and refresh tokens) raw, URL-encoded, base64 and as base64(user:pass): a secret of registry Y may appear only at Y and at a token endpoint named by a challenge Y itself sent, never over http to a host configured for TLS, never in the log. distinct_nontrivial = distinct (scenario, deviation list, requests seen)")
	rec.Assume("credential helpers are replaced by static credentials; TLS is represented by the URL scheme")
	if rd := rec.ReplayData(); rd != nil {
		var rp replay
		if err := json.Unmarshal(rd, &rp); err != nil {
			rec.HarnessError("replay: %v", err)
			return
		}
		r := run(t, explore.NewCtx(rp.Choices), rp.Cfg)
		k, m := judge(rp.Cfg, r)
		fmt.Printf("replay %s choices=%v err=%v deviations=%v\n", rp.Cfg, rp.Choices, r.err, r.w.devs)
		for _, l := range r.w.log {
			fmt.Printf("  %s %s://%s%s -> %d %s\n", l.Method, l.Scheme, l.Host, l.Path, l.Status, l.Note)
		}
		fmt.Printf("verdict: %s %s\n", k, m)
		rec.Eval(1)
		if k != "" {
			rec.Violation(k, m, rp)
		}
		return
	}
	var items []Cfg
	for _, op := range ops {
		for _, sa := range []string{"basic", "bearer", "bearer-idtoken"} {
			for _, ra := range []bool{false, true} {
				if ra && sa == "basic" {
					continue
				}
				for _, tls := range []bool{true, false} {
					if !tls && (sa != "basic" || ra) {
						continue
					}
					items = append(items, Cfg{Op: op, SchemeA: sa, RepoAuth: ra, TLS: tls})
					if op == "copy-external" || op == "blob-get-redirect" {
						items = append(items, Cfg{Op: op, SchemeA: sa, RepoAuth: ra, TLS: tls, Sibling: true})
					}
					if op != "mirror-read" && op != "ping" {
						items = append(items, Cfg{Op: op, SchemeA: sa, RepoAuth: ra, TLS: tls, Mirror: true})
					}
					if tls && !ra {
						// configuration entries whose name is not the host they are reached at
						items = append(items, Cfg{Op: op, SchemeA: sa, RepoAuth: ra, TLS: tls, Mirror: op != "ping", Alias: "upstream"})
						if op != "ping" {
							items = append(items, Cfg{Op: op, SchemeA: sa, RepoAuth: ra, TLS: tls, Mirror: true, Alias: "mirror"})
						}
					}
				}
			}
		}
	}
	var okBase int64
	for i, cfg := range items {
		if !rec.Mine(i) {
			continue
		}
		if rec.Expired() {
			rec.NotExhaustive("budget reached")
			break
		}
		base := run(t, explore.NewCtx(nil), cfg)
		if base.err != nil {
			rec.HarnessError("fault-free %s failed: %v", cfg, base.err)
			continue
		}
		okBase++
		bound := 2
		if strings.HasPrefix(cfg.Op, "copy") {
			bound = 1
		}
		if rec.Thorough() {
			bound++
		}
		runOne := func(c *explore.Ctx) explore.Result {
			r := run(t, c, cfg)
			k, m := judge(cfg, r)
			var lg []string
			for _, l := range r.w.log {
				lg = append(lg, fmt.Sprintf("%s %s%s %d", l.Method, l.Host, l.Path, l.Status))
			}
			c.Logf("%s", strings.Join(lg, "|"))
			o := "ok"
			if r.err != nil {
				o = "err"
			}
			vk := ""
			if k != "" {
				vk = k
			}
			return explore.Result{Outcome: o + " " + strings.Join(r.w.devs, ",") + " n=" + fmt.Sprint(len(r.w.log)), VKey: vk, Violation: m}
		}
		ex := &explore.Explorer{Bound: bound, Run: runOne, Stop: rec.Expired, DetCheckEvery: 257}
		ex.OnExec = func(c *explore.Ctx, r explore.Result) {
			if r.Violation != "" {
				// the copies run real goroutines outside the scheduler: the request order of one choice
				// list can vary between runs, so a leak counts once it has been seen again on a replay
				again := false
				for i := 0; i < 5 && !again; i++ {
					again = runOne(explore.NewCtx(c.Choices())).VKey == r.VKey
				}
				if !again {
					rec.HarnessError("violation %q of %s not reproduced in 5 replays", r.VKey, cfg)
					return
				}
				rec.Violation(r.VKey, r.Violation+"\nscenario: "+cfg.String()+"\ndeviations: "+c.Describe(), replay{cfg, explore.Trim(c.Choices())})
			}
			rec.Distinct(cfg.String() + "#" + r.Outcome)
		}
		func() {
			defer func() {
				if p := recover(); p != nil {
					rec.HarnessError("scenario %s: %v", cfg, p)
				}
			}()
			ex.Explore()
		}()
		rec.Eval(ex.Stats.Executions)
		rec.Count("executions", ex.Stats.Executions)
		rec.Count("scenarios", 1)
		rec.Count("requests_scanned_fault_free", int64(base.w.nreq))
		if ex.Stats.Capped {
			rec.NotExhaustive("budget reached inside " + cfg.String())
		}
		if i%11 == 0 {
			rec.Sample(map[string]any{"scenario": cfg.String(), "deviation_bound": bound, "executions": ex.Stats.Executions, "requests_fault_free": base.w.nreq})
		}
	}
	rec.Count("scenarios_succeeding_fault_free", okBase)
}
