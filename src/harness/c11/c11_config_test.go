package hc11

// C11, configuration routes: the same flow oracle (every secret only to its own host, never in the
// log), but with the credentials reaching the client the way users supply them: a list of host
// entries (one of them without a name, which the client must drop without printing its secrets), a
// Docker configuration file (auths keyed by plain host names, by URLs, identity tokens), and a
// credential helper program.

import (
	"context"
	"encoding/base64"
	"encoding/json"
	"fmt"
	"log/slog"
	"net/http"
	"os"
	"path/filepath"
	"strings"
	"testing"
	"time"

	"github.com/regclient/regclient"
	"github.com/regclient/regclient/config"
	"github.com/regclient/regclient/internal/verif/ev"
	"github.com/regclient/regclient/internal/verif/explore"
	"github.com/regclient/regclient/scheme/reg"
	"github.com/regclient/regclient/types"
	"github.com/regclient/regclient/types/ref"
)

type cfgCase struct {
	Route   string `json:"route"`   // hosts, docker-file, cred-helper
	Variant string `json:"variant"` // see cfgCases
	Handler string `json:"handler"` // text, json
}

func (c cfgCase) String() string { return c.Route + "/" + c.Variant + "/" + c.Handler }

// secrets that belong to no reachable host: they may not be sent anywhere and not be logged
var strays = [][3]string{{"usrN-9", "p@ss+N/9", "idtok=N/9+"}}

func cfgCases() []cfgCase {
	var out []cfgCase
	for _, h := range []string{"text", "json"} {
		for _, v := range []string{"nameless-userpass", "nameless-token", "nameless-both", "nameless-only-hostname", "all-named"} {
			out = append(out, cfgCase{"hosts", v, h})
		}
		for _, v := range []string{"plain-names", "url-keys", "identity-token", "stray-entry", "hub-entry"} {
			out = append(out, cfgCase{"docker-file", v, h})
		}
		for _, v := range []string{"helper-for-a", "helper-fails", "helper-other-server-url"} {
			out = append(out, cfgCase{"cred-helper", v, h})
		}
		// two configuration sources that disagree about one registry (a rotated secret updated in one
		// place only): the later one wins, the replaced secret goes nowhere, neither is logged
		for _, v := range []string{"file-then-hosts-password", "listed-twice-password", "listed-twice-token", "listed-twice-user"} {
			out = append(out, cfgCase{"merge", v, h})
		}
	}
	return out
}

func b64(u, p string) string { return base64.StdEncoding.EncodeToString([]byte(u + ":" + p)) }

func runCfg(t *testing.T, c *explore.Ctx, cc cfgCase, scratch string) (*world, error, string) {
	w := newWorld(c, Cfg{Op: "manifest-get", SchemeA: "basic", TLS: false})
	if cc.Route == "docker-file" && cc.Variant == "identity-token" {
		w = newWorld(c, Cfg{Op: "manifest-get", SchemeA: "bearer-idtoken", TLS: false})
	}
	for _, s := range strays {
		w.secrets = append(w.secrets, secret{s[0], "nobody", "user"}, secret{s[1], "nobody", "password"}, secret{s[2], "nobody", "idtoken"})
	}
	var lg *slog.Logger
	if cc.Handler == "json" {
		lg = slog.New(slog.NewJSONHandler(&w.logBuf, &slog.HandlerOptions{Level: types.LevelTrace}))
	} else {
		lg = slog.New(slog.NewTextHandler(&w.logBuf, &slog.HandlerOptions{Level: types.LevelTrace}))
	}
	dir, err := os.MkdirTemp(scratch, "cfg")
	if err != nil {
		return w, err, ""
	}
	defer os.RemoveAll(dir)
	plain := func(h string) config.Host { return config.Host{Name: h, Hostname: h, TLS: config.TLSDisabled} }
	withCred := func(h string) config.Host {
		x := plain(h)
		x.User, x.Pass = creds[h][0], creds[h][1]
		return x
	}
	opts := []regclient.Opt{regclient.WithSlog(lg), regclient.WithRegOpts(reg.WithHTTPClient(&http.Client{Transport: w}), reg.WithDelay(time.Millisecond, 4*time.Millisecond), reg.WithRetryLimit(3))}
	switch cc.Route {
	case "hosts":
		hosts := []config.Host{withCred(hA), withCred(hB)}
		n := config.Host{Hostname: "nameless.example", TLS: config.TLSDisabled}
		switch cc.Variant {
		case "nameless-userpass":
			n.User, n.Pass = strays[0][0], strays[0][1]
		case "nameless-token":
			n.Token = strays[0][2]
		case "nameless-both":
			n.User, n.Pass, n.Token = strays[0][0], strays[0][1], strays[0][2]
		case "nameless-only-hostname":
			n.Hostname = hB // names no registry, but points at a reachable host
			n.User, n.Pass, n.Token = strays[0][0], strays[0][1], strays[0][2]
		}
		if cc.Variant != "all-named" {
			hosts = append([]config.Host{n}, hosts...)
		}
		opts = append(opts, regclient.WithConfigHost(hosts...))
	case "docker-file":
		auths := map[string]map[string]string{}
		switch cc.Variant {
		case "plain-names":
			auths[hA] = map[string]string{"auth": b64(creds[hA][0], creds[hA][1])}
			auths[hB] = map[string]string{"auth": b64(creds[hB][0], creds[hB][1])}
		case "url-keys":
			auths["http://"+hA] = map[string]string{"auth": b64(creds[hA][0], creds[hA][1])}
			auths["http://"+hB+"/v2/"] = map[string]string{"auth": b64(creds[hB][0], creds[hB][1])}
		case "identity-token":
			auths[hA] = map[string]string{"auth": b64("ignored-user", ""), "identitytoken": creds[hA][2]}
			auths[hB] = map[string]string{"auth": b64(creds[hB][0], creds[hB][1])}
		case "stray-entry":
			auths[hA] = map[string]string{"auth": b64(creds[hA][0], creds[hA][1])}
			auths[hB] = map[string]string{"auth": b64(creds[hB][0], creds[hB][1])}
			auths["elsewhere.example"] = map[string]string{"auth": b64(strays[0][0], strays[0][1]), "identitytoken": strays[0][2]}
		case "hub-entry":
			auths[hA] = map[string]string{"auth": b64(creds[hA][0], creds[hA][1])}
			auths[hB] = map[string]string{"auth": b64(creds[hB][0], creds[hB][1])}
			auths["https://index.docker.io/v1/"] = map[string]string{"auth": b64(strays[0][0], strays[0][1])}
		}
		b, _ := json.Marshal(map[string]any{"auths": auths})
		fn := filepath.Join(dir, "config.json")
		if err := os.WriteFile(fn, b, 0o600); err != nil {
			return w, err, ""
		}
		// the transport is plain http in this harness: the entries loaded from the file are completed
		// by host entries that only say so
		opts = append(opts, regclient.WithDockerCredsFile(fn), regclient.WithConfigHost(plain(hA), plain(hB)))
	case "merge":
		stale := withCred(hA)
		switch cc.Variant {
		case "file-then-hosts-password":
			b, _ := json.Marshal(map[string]any{"auths": map[string]map[string]string{hA: {"auth": b64(creds[hA][0], strays[0][1])}}})
			fn := filepath.Join(dir, "config.json")
			if err := os.WriteFile(fn, b, 0o600); err != nil {
				return w, err, ""
			}
			opts = append(opts, regclient.WithDockerCredsFile(fn), regclient.WithConfigHost(withCred(hA), withCred(hB)))
		case "listed-twice-password":
			stale.Pass = strays[0][1]
			opts = append(opts, regclient.WithConfigHost(stale, withCred(hA), withCred(hB)))
		case "listed-twice-token":
			stale.Token = strays[0][2]
			cur := withCred(hA)
			cur.Token = creds[hA][2]
			opts = append(opts, regclient.WithConfigHost(stale, cur, withCred(hB)))
		case "listed-twice-user":
			stale.User, stale.Pass = strays[0][0], strays[0][1]
			opts = append(opts, regclient.WithConfigHost(stale, withCred(hA), withCred(hB)))
		}
	case "cred-helper":
		bin := filepath.Join(dir, "bin")
		os.MkdirAll(bin, 0o755)
		script := "#!/bin/sh\nread host\n"
		switch cc.Variant {
		case "helper-for-a":
			script += fmt.Sprintf("printf '{\"ServerURL\":\"%%s\",\"Username\":\"%s\",\"Secret\":\"%s\"}' \"$host\"\n", creds[hA][0], creds[hA][1])
		case "helper-fails":
			script += fmt.Sprintf("echo 'helper broke for %s' >&2\nexit 3\n", creds[hA][0])
		case "helper-other-server-url":
			script += fmt.Sprintf("printf '{\"ServerURL\":\"https://elsewhere.example\",\"Username\":\"%s\",\"Secret\":\"%s\"}'\n", creds[hA][0], creds[hA][1])
		}
		prog := filepath.Join(bin, "docker-credential-c11")
		if err := os.WriteFile(prog, []byte(script), 0o755); err != nil {
			return w, err, ""
		}
		ha := plain(hA)
		ha.CredHelper = prog
		opts = append(opts, regclient.WithConfigHost(ha, withCred(hB)))
	}
	rc := regclient.New(opts...)
	ctx := context.Background()
	rA, _ := ref.New(hA + "/" + repo + ":v1")
	_, errA := rc.ManifestGet(ctx, rA)
	rB, _ := ref.New(hB + "/" + repo + ":v1")
	_, _ = rc.ManifestHead(ctx, rB)
	_, _ = rc.Ping(ctx, rB)
	if nr, err := ref.New("nameless.example/x/y:v1"); err == nil {
		_, _ = rc.Ping(ctx, nr)
	}
	w.scan("log", "", "", w.logBuf.String())
	return w, errA, w.logBuf.String()
}

func TestVerifC11Config(t *testing.T) {
	rec := ev.New()
	defer rec.Flush(t)
	rec.Rule("configuration routes: credentials supplied as a host list (with an entry that has no name and carries user/password, an identity token, both, or the host name of a reachable registry), as a Docker configuration file (auths keyed by host names, by URLs, with an identity token, with an entry for a host that is never used, with a Docker Hub entry) or through a credential helper program (answers, fails, answers for another server URL), or by two sources that disagree about one registry (a Docker file then a host entry with another password; one host listed twice with another password / identity token / user) x text / JSON log handler at trace level; per case every sequence of at most k challenge deviations as in the flow step (k=1 quick, 2 thorough). Oracle: the flow oracle of the other step (every secret only at its own host), secrets of dropped or unused entries are sent nowhere, no secret in the log. distinct_nontrivial = distinct (case, deviations, requests seen)")
	rec.Assume("the credential helper is a shell script written by the harness; plain http transport")
	if rd := rec.ReplayData(); rd != nil {
		var rp struct {
			Case    cfgCase `json:"case"`
			Choices []int   `json:"choices"`
		}
		if err := json.Unmarshal(rd, &rp); err != nil {
			rec.HarnessError("replay: %v", err)
			return
		}
		w, err, logs := runCfg(t, explore.NewCtx(rp.Choices), rp.Case, rec.Scratch)
		fmt.Printf("replay %s choices=%v err=%v leaks=%v\n%s\n", rp.Case, rp.Choices, err, w.leaks, logs)
		rec.Eval(1)
		if w.leakKey != "" {
			rec.Violation(w.leakKey, strings.Join(uniq(w.leaks), "; "), rp)
		}
		return
	}
	bound := 1
	if rec.Thorough() {
		bound = 2
	}
	for i, cc := range cfgCases() {
		if !rec.Mine(i) {
			continue
		}
		base, err, _ := runCfg(t, explore.NewCtx(nil), cc, rec.Scratch)
		if err != nil && cc.Variant != "helper-fails" && cc.Variant != "helper-other-server-url" {
			rec.HarnessError("fault-free %s: manifest get from the first registry failed: %v (leaks %v)", cc, err, base.leaks)
			continue
		}
		runOne := func(c *explore.Ctx) explore.Result {
			w, err, _ := runCfg(t, c, cc, rec.Scratch)
			o := "ok"
			if err != nil {
				o = "err"
			}
			var lg []string
			for _, l := range w.log {
				lg = append(lg, fmt.Sprintf("%s %s%s %d", l.Method, l.Host, l.Path, l.Status))
			}
			c.Logf("%s", strings.Join(lg, "|"))
			return explore.Result{Outcome: o + " " + strings.Join(w.devs, ",") + " n=" + fmt.Sprint(len(w.log)), VKey: w.leakKey, Violation: strings.Join(uniq(w.leaks), "; ")}
		}
		ex := &explore.Explorer{Bound: bound, Run: runOne, Stop: rec.Expired}
		ex.OnExec = func(c *explore.Ctx, r explore.Result) {
			if r.VKey != "" {
				rec.Violation(r.VKey+" route="+cc.Route, r.Violation+"\ncase: "+cc.String()+"\ndeviations: "+c.Describe(), map[string]any{"case": cc, "choices": explore.Trim(c.Choices())})
			}
			rec.Distinct(cc.String() + "#" + r.Outcome)
		}
		func() {
			defer func() {
				if p := recover(); p != nil {
					rec.HarnessError("case %s: %v", cc, p)
				}
			}()
			ex.Explore()
		}()
		rec.Eval(ex.Stats.Executions)
		rec.Count("executions", ex.Stats.Executions)
		rec.Count("cases", 1)
		if ex.Stats.Capped {
			rec.NotExhaustive("budget reached inside " + cc.String())
		}
		if i%5 == 0 {
			rec.Sample(map[string]any{"case": cc.String(), "deviation_bound": bound, "executions": ex.Stats.Executions})
		}
	}
}
