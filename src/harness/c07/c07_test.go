package hc07

// C07 — an OCI layout survives a crash at any point of any write.
//
// For every scenario (a start state and one or two interrupted operations) the operations are run by
// a separate driver process under the crashmc ptrace supervisor, which snapshots the layout directory
// before every mutating system call. Every snapshot — exactly what a process killed at that instant
// leaves behind — is judged by an independent audit, by a fresh client, and by re-running the
// interrupted operation on it.

import (
	"context"
	"encoding/json"
	"fmt"
	"os"
	"os/exec"
	"path/filepath"
	"regexp"
	"sort"
	"strconv"
	"strings"
	"testing"

	"github.com/regclient/regclient/internal/verif/audit"
	"github.com/regclient/regclient/internal/verif/ev"
	"github.com/regclient/regclient/internal/verif/layoutops"
	"github.com/regclient/regclient/internal/verif/modelreg"
)

type Scen struct {
	Name string   `json:"name"`
	Pre  []string `json:"pre"` // builds the start state (not traced)
	Ops  []string `json:"ops"` // traced: crash points are enumerated inside these
}

func (s Scen) String() string {
	return fmt.Sprintf("%s pre=[%s] ops=[%s]", s.Name, strings.Join(s.Pre, ";"), strings.Join(s.Ops, ";"))
}

var populated = []string{"push:G1:a", "push:G3:b", "refput:a"}

func scenarios(thorough bool, tarDir string) []Scen {
	var out []Scen
	starts := map[string][]string{"empty": nil, "populated": populated, "untagged-child": {"pushd:G4", "push:G1:a"}}
	ops := []string{"blobput:hello", "push:G1:c", "push:G3:c", "push:G4:c", "pushd:G10", "refput:a", "refdel:a", "tagdel:a", "tagdel:b", "mandel:G1", "mandel:G3",
		"copy:G1:c", "copy:G3:c", "copy:G4:c", "copy:G13:c", "copy:G3:a", "import:" + filepath.Join(tarDir, "g1.tar") + ":c", "import:" + filepath.Join(tarDir, "g3.tar") + ":a"}
	for sn, pre := range starts {
		for _, op := range ops {
			k := strings.Split(op, ":")[0]
			if sn != "populated" && (k == "refput" || k == "refdel" || k == "tagdel" || k == "mandel") {
				if !(sn == "untagged-child" && (op == "tagdel:a" || op == "mandel:G1")) {
					continue
				}
			}
			out = append(out, Scen{Name: sn + "/" + opName(op), Pre: pre, Ops: []string{op}})
		}
	}
	// GC on close after deletions
	out = append(out, Scen{Name: "populated/tagdel+close", Pre: populated, Ops: []string{"tagdel:b", "close"}})
	out = append(out, Scen{Name: "populated/mandel+close", Pre: populated, Ops: []string{"mandel:G3", "close"}})
	out = append(out, Scen{Name: "populated/refdel+close", Pre: populated, Ops: []string{"refdel:a", "close"}})
	// an index whose entries are blobs (BuildKit cache style): entries that do not load as manifests
	// are reachable content too, for the collection and for every crash state of it
	bi := append(append([]string{}, populated...), "push:G11:d")
	out = append(out, Scen{Name: "blob-index/tagdel+close", Pre: bi, Ops: []string{"tagdel:b", "close"}})
	out = append(out, Scen{Name: "populated/copy-blob-index+close", Pre: populated, Ops: []string{"copy:G11:c", "close"}})
	// a subject with two referrers: the list is rewritten, not removed
	two := append(append([]string{}, populated...), "refput2:a")
	out = append(out, Scen{Name: "two-referrers/refdel", Pre: two, Ops: []string{"refdel:a"}})
	out = append(out, Scen{Name: "two-referrers/refdel2", Pre: two, Ops: []string{"refdel2:a"}})
	out = append(out, Scen{Name: "two-referrers/refdel+close", Pre: two, Ops: []string{"refdel:a", "close"}})
	out = append(out, Scen{Name: "populated/refput2", Pre: populated, Ops: []string{"refput2:a"}})
	if thorough {
		two := []string{"push:G1:c", "tagdel:a", "copy:G3:c", "refput:a", "mandel:G3", "push:G3:a"}
		for _, a := range two {
			for _, b := range two {
				if a == "tagdel:a" && b == "refput:a" {
					continue // the second operation has no subject left: not a history of the alphabet
				}
				if a != b {
					out = append(out, Scen{Name: "populated/" + opName(a) + "+" + opName(b), Pre: populated, Ops: []string{a, b}})
				}
			}
		}
	}
	sort.Slice(out, func(i, j int) bool { return out[i].Name < out[j].Name })
	return out
}

func opName(op string) string {
	f := strings.Split(op, ":")
	if f[0] == "import" {
		return "import-" + strings.TrimSuffix(filepath.Base(f[1]), ".tar") + "-" + f[2]
	}
	return strings.Join(f, "-")
}

// ---- state description -------------------------------------------------------------------------

type State struct {
	Valid bool              // oci-layout and index.json parse
	Tags  map[string]string // tag -> digest
	Reach map[string]bool   // digests reachable from the index and present
	Lists map[string][]string // index manifest digest -> sorted digests it lists
	Err   string
}

func (s State) Canon() string {
	var ks []string
	fallback := map[string]bool{}
	for t, d := range s.Tags {
		if strings.HasPrefix(t, "sha256-") || strings.HasPrefix(t, "sha512-") {
			// a fallback referrers tag: what matters is the SET of referrers it lists, not the digest
			// of the index (concurrent copies list them in either order)
			fallback[d] = true
			ks = append(ks, t[:14]+"={"+strings.Join(s.Lists[d], "+")+"}")
			continue
		}
		ks = append(ks, t+"="+d[7:15])
	}
	for d := range s.Reach {
		if !fallback[d] {
			ks = append(ks, d[7:13])
		}
	}
	sort.Strings(ks)
	return strings.Join(ks, ",")
}

var hexName = regexp.MustCompile(`^[0-9a-f]{64}$|^[0-9a-f]{128}$`)

// describe audits a directory independently; problems lists violations of clauses a, b, d.
func describe(dir string) (State, []string) {
	st := State{Tags: map[string]string{}, Reach: map[string]bool{}, Lists: map[string][]string{}}
	var probs []string
	// (a) every file under a digest name holds that digest
	algs, _ := os.ReadDir(filepath.Join(dir, "blobs"))
	for _, a := range algs {
		fs, _ := os.ReadDir(filepath.Join(dir, "blobs", a.Name()))
		for _, f := range fs {
			if !hexName.MatchString(f.Name()) {
				continue // temp names are not digest names
			}
			b, err := os.ReadFile(filepath.Join(dir, "blobs", a.Name(), f.Name()))
			if err != nil {
				continue
			}
			if modelreg.Digest(a.Name(), b) != a.Name()+":"+f.Name() {
				probs = append(probs, fmt.Sprintf("content-under-wrong-digest: blobs/%s/%s holds %d bytes with another digest", a.Name(), f.Name()[:12], len(b)))
			}
		}
	}
	idx, tags, _, _, err := audit.ReadLayout(dir)
	if err != nil {
		st.Err = err.Error()
		return st, probs
	}
	st.Valid = true
	st.Tags = tags
	store := audit.DirStore{Dir: dir}
	for _, m := range idx.Manifests {
		if body, ok := store.Manifest(m.Digest); ok {
			var l []string
			for _, r := range audit.References(body, true) {
				l = append(l, r[7:13])
			}
			sort.Strings(l)
			st.Lists[m.Digest] = l
		}
		seen, ps := audit.Closure(store, m.Digest, audit.ClosureOpts{})
		for d := range seen {
			st.Reach[d] = true
		}
		for _, p := range ps {
			probs = append(probs, fmt.Sprintf("incomplete-image: index entry %s: %s", m.Annotations["org.opencontainers.image.ref.name"], p))
		}
	}
	return st, probs
}

func copyDir(src, dst string) error {
	if _, err := os.Stat(src); err != nil {
		return os.MkdirAll(dst, 0o755)
	}
	return exec.Command("cp", "-a", src, dst).Run()
}

func readAcks(file string) map[int]bool {
	out := map[int]bool{}
	b, err := os.ReadFile(file)
	if err != nil {
		return out
	}
	for _, l := range strings.Split(string(b), "\n") {
		if strings.HasPrefix(l, "ACK ") {
			if i, err := strconv.Atoi(strings.TrimPrefix(l, "ACK ")); err == nil {
				out[i] = true
			}
		}
	}
	return out
}

func targets(ops []string) map[string]bool {
	t := map[string]bool{}
	for _, op := range ops {
		f := strings.Split(op, ":")
		switch f[0] {
		case "push", "copy", "import":
			t[f[len(f)-1]] = true
		case "tagdel":
			t[f[1]] = true
		}
	}
	return t
}

type judged struct {
	key, msg string
}

// judge evaluates one crash state. snap is consumed (the re-run happens in a copy).
func judge(sc Scen, base State, final State, snap string, acks map[int]bool, work string) *judged {
	st, probs := describe(snap)
	for _, p := range probs {
		k := strings.SplitN(p, ":", 2)[0]
		return &judged{k, p}
	}
	if base.Valid && !st.Valid {
		return &judged{"layout-unreadable", "the directory was a valid layout before the operation and is not one now: " + st.Err}
	}
	tg := targets(sc.Ops)
	affected := map[string]bool{} // digests whose deletion is the operation's purpose
	for _, op := range sc.Ops {
		f := strings.Split(op, ":")
		if f[0] == "mandel" {
			affected[layoutops.Graph(f[1]).Top] = true
		}
	}
	if st.Valid {
		for t, d := range base.Tags {
			if tg[t] || affected[d] || strings.HasPrefix(t, "sha256-") {
				continue
			}
			if st.Tags[t] != d {
				return &judged{"unrelated-tag-changed", fmt.Sprintf("tag %s resolved to %s before the interrupted operation and to %q now", t, d[7:15], st.Tags[t])}
			}
		}
	}
	// a fresh client must be able to read what is there
	if st.Valid {
		e := layoutops.New(snap)
		ctx := context.Background()
		if _, err := e.RC.TagList(ctx, mustRef(snap)); err != nil {
			return &judged{"fresh-client-cannot-list", "a fresh client cannot list the tags of the crash state: " + err.Error()}
		}
		for t, d := range st.Tags {
			m, err := e.RC.ManifestGet(ctx, mustRef(snap).SetTag(t))
			if err != nil {
				return &judged{"fresh-client-cannot-read", fmt.Sprintf("a fresh client cannot read tag %s of the crash state: %v", t, err)}
			}
			if m.GetDescriptor().Digest.String() != d {
				return &judged{"fresh-client-disagrees", fmt.Sprintf("tag %s: client says %s, index.json says %s", t, m.GetDescriptor().Digest, d)}
			}
		}
	}
	// (f) repeating the interrupted operation(s) brings the layout to the intended state
	re := filepath.Join(work, "rerun")
	os.RemoveAll(re)
	if err := copyDir(snap, re); err != nil {
		return &judged{"harness", "copy: " + err.Error()}
	}
	defer os.RemoveAll(re)
	e := layoutops.New(re)
	ctx := context.Background()
	for i, op := range sc.Ops {
		if acks[i] {
			continue
		}
		if err := e.Do(ctx, op); err != nil && !layoutops.Benign(op, err) {
			return &judged{"rerun-fails", fmt.Sprintf("repeating %s on the crash state fails: %v", op, err)}
		}
	}
	after, probs2 := describe(re)
	if len(probs2) > 0 {
		return &judged{"rerun-" + strings.SplitN(probs2[0], ":", 2)[0], "after repeating the operation: " + probs2[0]}
	}
	// intended state: the operation's target tags, the tags that existed before, and the referrer
	// (fallback) tags as in the uninterrupted run, each with complete content. Other tags that an
	// operation creates as a side effect (an import also records the archive's own ref name) are
	// not part of what repeating the operation must reproduce.
	for t, d := range final.Tags {
		fb := strings.HasPrefix(t, "sha256-") || strings.HasPrefix(t, "sha512-")
		_, wasThere := base.Tags[t]
		if !tg[t] && !wasThere && !fb {
			continue
		}
		ad, ok := after.Tags[t]
		if !ok && fb {
			return &judged{"rerun-differs-referrers none-recorded", fmt.Sprintf("after repeating the interrupted operation the referrers tag %s is absent, the uninterrupted run records {%s} under it", t[:14], strings.Join(final.Lists[d], "+"))}
		}
		if !ok {
			return &judged{"rerun-differs", fmt.Sprintf("after repeating the interrupted operation tag %s is absent, the uninterrupted run has it [%s vs %s]", t, after.Canon(), final.Canon())}
		}
		if fb {
			if strings.Join(after.Lists[ad], "+") != strings.Join(final.Lists[d], "+") {
				// the key tells a referrer left unrecorded (the recorded finding) from one recorded that the
				// uninterrupted run does not have
				kind := "fewer-recorded"
				have := map[string]bool{}
				for _, x := range final.Lists[d] {
					have[x] = true
				}
				for _, x := range after.Lists[ad] {
					if !have[x] {
						kind = "other-recorded"
					}
				}
				return &judged{"rerun-differs-referrers " + kind, fmt.Sprintf("after repeating the interrupted operation the referrers recorded under %s are {%s}, the uninterrupted run records {%s}", t[:14], strings.Join(after.Lists[ad], "+"), strings.Join(final.Lists[d], "+"))}
			}
		} else if ad != d {
			return &judged{"rerun-differs", fmt.Sprintf("after repeating the interrupted operation tag %s resolves to %s, the uninterrupted run gives %s", t, ad[7:15], d[7:15])}
		}
	}
	for t := range after.Tags {
		if _, ok := final.Tags[t]; !ok && (tg[t] || strings.HasPrefix(t, "sha256-")) {
			return &judged{"rerun-differs", fmt.Sprintf("after repeating the interrupted operation tag %s exists, the uninterrupted run does not have it", t)}
		}
	}
	return nil
}

type replay struct {
	Scen Scen `json:"scenario"`
	K    int  `json:"k"`
}

func runScenario(t *testing.T, rec *ev.Rec, sc Scen, onlyK int, verbose bool) {
	work, _ := os.MkdirTemp(rec.Scratch, "s")
	defer os.RemoveAll(work)
	ctx := context.Background()
	// start state
	baseDir := filepath.Join(work, "base", "lay")
	os.MkdirAll(filepath.Dir(baseDir), 0o755)
	if len(sc.Pre) > 0 {
		e := layoutops.New(baseDir)
		for _, op := range sc.Pre {
			if err := e.Do(ctx, op); err != nil {
				rec.HarnessError("%s: start state op %s: %v", sc.Name, op, err)
				return
			}
		}
	}
	base, bp := describe(baseDir)
	if len(bp) > 0 {
		rec.HarnessError("%s: start state is not clean: %v", sc.Name, bp)
		return
	}
	// uninterrupted reference
	refDir := filepath.Join(work, "ref", "lay")
	os.MkdirAll(filepath.Dir(refDir), 0o755)
	copyDir(baseDir, refDir)
	{
		e := layoutops.New(refDir)
		for _, op := range sc.Ops {
			if err := e.Do(ctx, op); err != nil {
				rec.HarnessError("%s: uninterrupted %s: %v", sc.Name, op, err)
				return
			}
		}
	}
	final, fp := describe(refDir)
	if len(fp) > 0 {
		rec.Violation("uninterrupted-run-incomplete "+kinds(sc), fmt.Sprintf("%s: the uninterrupted run leaves: %s", sc, fp[0]), replay{sc, 0})
		return
	}
	// traced run
	runDir := filepath.Join(work, "run", "lay")
	os.MkdirAll(filepath.Dir(runDir), 0o755)
	copyDir(baseDir, runDir)
	snap := filepath.Join(work, "snap")
	ack := filepath.Join(work, "acks")
	crashmc := filepath.Join(rec.VerifDir, ".work", "crashmc")
	driver := filepath.Join(os.Getenv("VERIF_BIN_DIR"), "layoutdrv")
	cmd := exec.Command(crashmc, "--root", runDir, "--snap", snap, "--ack", ack, "--", driver, "-dir", runDir, "-ack", ack, "-ops", strings.Join(sc.Ops, ";"))
	out, err := cmd.CombinedOutput()
	if err != nil {
		rec.HarnessError("%s: traced run failed: %v: %s", sc.Name, err, out)
		return
	}
	kb, _ := os.ReadFile(filepath.Join(snap, "K"))
	K, _ := strconv.Atoi(strings.TrimSpace(string(kb)))
	if K == 0 {
		rec.HarnessError("%s: no mutating call observed", sc.Name)
		return
	}
	traceLines := strings.Split(strings.TrimSpace(readFile(filepath.Join(snap, "trace"))), "\n")
	rec.Count("crash_points", int64(K))
	// the state after completion is judged like a crash state too
	for k := 1; k <= K+1; k++ {
		if onlyK > 0 && k != onlyK {
			continue
		}
		sd := filepath.Join(snap, strconv.Itoa(k))
		acks := readAcks(filepath.Join(snap, strconv.Itoa(k)+".ack"))
		if k == K+1 {
			sd = runDir
			acks = readAcks(ack)
		}
		j := judge(sc, base, final, sd, acks, work)
		rec.Eval(1)
		call := "after completion"
		if k <= K && k-1 < len(traceLines) {
			call = "before call " + traceLines[k-1]
		}
		rec.Distinct(sc.Name + "#" + strconv.Itoa(k))
		if verbose {
			fmt.Printf("k=%d %s: %v\n", k, call, j)
		}
		if j != nil {
			if j.key == "harness" {
				rec.HarnessError("%s k=%d: %s", sc.Name, k, j.msg)
				continue
			}
			rec.Violation(j.key+" "+opKinds(sc), fmt.Sprintf("%s\ncrash point %d of %d (%s; %s)\nscenario: %s", j.msg, k, K, strings.ReplaceAll(call, work, ""), callKind(call), sc), replay{sc, k})
		}
		if k <= K {
			os.RemoveAll(sd)
		}
	}
	// conformance of the snapshot method: really kill the driver at call k and compare
	if onlyK == 0 && deterministic(sc) {
		stride := 7
		if rec.Thorough() {
			stride = 1
		}
		for k := 1 + len(sc.Name)%stride; k <= K; k += stride {
			kd := filepath.Join(work, "kill", "lay")
			os.RemoveAll(filepath.Dir(kd))
			os.MkdirAll(filepath.Dir(kd), 0o755)
			copyDir(baseDir, kd)
			ksnap := filepath.Join(work, "ksnap")
			os.RemoveAll(ksnap)
			c2 := exec.Command(crashmc, "--root", kd, "--snap", ksnap, "--kill", strconv.Itoa(k), "--", driver, "-dir", kd, "-ops", strings.Join(sc.Ops, ";"))
			c2.Run()
			// snapshot k was consumed above; re-create it by a second traced run is too costly: compare
			// against the oracle instead, and against the recorded call list
			st, probs := describe(kd)
			j := judge(sc, base, final, kd, map[int]bool{}, work)
			rec.Validated(1)
			rec.Count("really_killed_runs", 1)
			_ = st
			_ = probs
			if j != nil && j.key != "harness" {
				// the same oracle on the really killed directory: a difference to the snapshot verdict
				// would show up as a violation key that the snapshot sweep did not produce
				rec.Violation(j.key+" "+opKinds(sc), fmt.Sprintf("%s\nprocess really killed with SIGKILL at call %d\nscenario: %s", j.msg, k, sc), replay{sc, k})
			}
		}
	}
}

func deterministic(sc Scen) bool {
	for _, op := range sc.Ops {
		if strings.HasPrefix(op, "copy:") {
			return false
		}
	}
	return true
}

func readFile(p string) string {
	b, _ := os.ReadFile(p)
	return string(b)
}

func opKinds(sc Scen) string {
	var ks []string
	for _, op := range sc.Ops {
		k := strings.Split(op, ":")[0]
		if k == "copy" && strings.Contains(op, "G13") {
			k = "copy-with-referrers"
		}
		ks = append(ks, k)
	}
	return "ops=" + strings.Join(ks, "+")
}

func kinds(sc Scen) string {
	var ks []string
	for _, op := range sc.Ops {
		ks = append(ks, strings.Split(op, ":")[0])
	}
	start := strings.SplitN(sc.Name, "/", 2)[0]
	return "start=" + start + " ops=" + strings.Join(ks, "+")
}

var tmpNum = regexp.MustCompile(`[0-9]{5,}`)

// callKind reduces "before call 12 write /path/oci-layout" to "write oci-layout"
func callKind(call string) string {
	f := strings.Fields(call)
	if len(f) < 4 || f[0] != "before" {
		return strings.ReplaceAll(call, " ", "-")
	}
	name := filepath.Base(f[len(f)-1])
	if hexName.MatchString(name) {
		name = "<digest>"
	} else if i := strings.IndexByte(name, '.'); i > 0 && hexName.MatchString(name[:i]) {
		name = "<digest>.tmp"
	} else {
		name = tmpNum.ReplaceAllString(name, "N")
	}
	return f[3] + "-" + name
}

func TestVerifC07(t *testing.T) {
	rec := ev.New()
	defer rec.Flush(t)
	rec.Rule("scenario = start state {empty directory, populated layout (two tags, an index, a referrer), layout with an untagged child} x interrupted operation {blob put, push of an image / index / nested index (blob puts, child manifests by digest, tagged manifest), untagged push, referrer put / delete, tag delete, manifest delete, image copy of four graphs from a registry, tar import, deletions followed by Close (GC)} (thorough: all ordered pairs of six operations). " +
		"The operations run in a separate driver process under a ptrace supervisor that copies the directory before EVERY mutating system call (creating/truncating open, write, rename, unlink, mkdir, ...): each copy is exactly what SIGKILL at that instant leaves. Every crash state is judged: files under digest names hold that digest; a directory that was a layout still is one; unrelated tags unmoved; every index entry complete; a fresh client lists and reads every tag; repeating the unacknowledged operations succeeds and yields the state of the uninterrupted run. distinct_nontrivial = crash states judged")
	rec.Assume("process death only (no power loss, no torn or reordered writes); mutating calls of different threads are serialised by the supervisor")
	tarDir := filepath.Join(rec.Scratch, "tars")
	os.MkdirAll(tarDir, 0o755)
	{
		e := layoutops.New(filepath.Join(rec.Scratch, "unused"))
		ctx := context.Background()
		if err := e.ExportTar(ctx, "G1", filepath.Join(tarDir, "g1.tar")); err != nil {
			rec.HarnessError("export: %v", err)
			return
		}
		if err := e.ExportTar(ctx, "G3", filepath.Join(tarDir, "g3.tar")); err != nil {
			rec.HarnessError("export: %v", err)
			return
		}
	}
	if rd := rec.ReplayData(); rd != nil {
		var rp replay
		if err := json.Unmarshal(rd, &rp); err != nil {
			rec.HarnessError("replay: %v", err)
			return
		}
		// tar paths of the recorded scenario point into another scratch directory
		for i, op := range rp.Scen.Ops {
			if strings.HasPrefix(op, "import:") {
				f := strings.Split(op, ":")
				rp.Scen.Ops[i] = "import:" + filepath.Join(tarDir, filepath.Base(f[1])) + ":" + f[2]
			}
		}
		runScenario(t, rec, rp.Scen, rp.K, true)
		return
	}
	scs := scenarios(rec.Thorough(), tarDir)
	rec.Info("scenarios_total", len(scs))
	for i, sc := range scs {
		if !rec.Mine(i) {
			continue
		}
		if rec.Expired() {
			rec.NotExhaustive("budget reached")
			break
		}
		runScenario(t, rec, sc, 0, false)
		rec.Count("scenarios", 1)
		if i%9 == 0 {
			rec.Sample(map[string]any{"scenario": strings.ReplaceAll(sc.String(), tarDir, "")})
		}
	}
}
