package hc07

import "github.com/regclient/regclient/types/ref"

func mustRef(dir string) ref.Ref {
	r, err := ref.New("ocidir://" + dir)
	if err != nil {
		panic(err)
	}
	return r
}
