package hc16

// Clause (c) of C16: platform strings.

import (
	"fmt"
	"strings"

	"github.com/regclient/regclient/types/platform"
)

type pstring struct {
	s                 string
	os, arch, variant string // lower-cased components the string was assembled from ("" = absent)
	osver             string
}

func parseStrings() []pstring {
	oss := []string{"linux", "windows", "darwin", "freebsd", "macos", "Linux", "WINDOWS"}
	archs := append(append([]string{}, uArch...), "AMD64", "Aarch64")
	vars := append(append([]string{}, uVariant...), "V7")
	args := []struct{ text, ver string }{{"", ""}, {",osver=10.0.17763.1", "10.0.17763.1"}, {",osversion=10.0.20348.1", "10.0.20348.1"}}
	var out []pstring
	lc := strings.ToLower
	for _, a := range args {
		for _, o := range oss {
			out = append(out, pstring{s: o + a.text, os: lc(o), osver: a.ver})
			for _, ar := range archs {
				for _, v := range vars {
					s := o + "/" + ar
					if v != "" {
						s += "/" + v
					}
					out = append(out, pstring{s: s + a.text, os: lc(o), arch: lc(ar), variant: lc(v), osver: a.ver})
				}
			}
		}
		for _, ar := range archs {
			out = append(out, pstring{s: ar + a.text, arch: lc(ar), osver: a.ver})
		}
	}
	out = append(out, pstring{s: "local"})
	return out
}

func canonArchName(a string) string { return canon(plat{Architecture: a}).Architecture }

func (k *checker) parseAll(U []plat, local plat) {
	var n int64
	for i, ps := range parseStrings() {
		if !k.rec.Mine(i) {
			continue
		}
		k.parseCase(ps, local, false)
		n++
	}
	// struct → string → struct for every canonical platform with an OS
	for i, p := range U {
		if !k.rec.Mine(i) || p.OS == "" {
			continue
		}
		n++
		k.count("parse.struct-string-struct", 1)
		s := p.String()
		q, err := platform.Parse(s)
		if err != nil {
			k.viol("parse/printed-platform-rejected", fmt.Sprintf("%s prints as %q which Parse rejects: %v", pstr(p), s, err), replayData{Kind: "parse", S: s})
		} else if q.OS != p.OS || q.Architecture != p.Architecture || q.Variant != p.Variant {
			k.viol("parse/struct-string-struct-differs", fmt.Sprintf("%s prints as %q which parses to %s", pstr(p), s, pstr(q)), replayData{Kind: "parse", S: s})
		}
	}
	k.rec.Eval(n)
}

func (k *checker) parseOne(s string, local plat, verbose bool) {
	for _, ps := range parseStrings() {
		if ps.s == s {
			k.parseCase(ps, local, verbose)
			return
		}
	}
	// a string outside the generated set: laws only
	k.parseCase(pstring{s: s, os: "?"}, local, verbose)
}

func (k *checker) parseCase(ps pstring, local plat, verbose bool) {
	rp := replayData{Kind: "parse", S: ps.s}
	p, err := platform.Parse(ps.s)
	if verbose {
		fmt.Printf("Parse(%q) = %+v, err=%v (local %s)\n", ps.s, p, err, pstr(local))
	}
	k.count("parse.strings", 1)
	if err != nil {
		if ps.os != "?" {
			k.viol("parse/rejected", fmt.Sprintf("platform string %q assembled from known components is rejected: %v", ps.s, err), rp)
		}
		return
	}
	k.rec.Distinct("parse\x00" + ps.s)
	// fixed point of String∘Parse
	s1 := p.String()
	p1, err := platform.Parse(s1)
	if verbose {
		fmt.Printf("String() = %q; Parse(%q) = %+v, err=%v\n", s1, s1, p1, err)
	}
	k.count("parse.fixed-point", 1)
	if err != nil {
		k.viol("parse/normal-form-rejected", fmt.Sprintf("%q parses to %s, printed %q, which Parse rejects: %v", ps.s, pstr(p), s1, err), rp)
	} else if s2 := p1.String(); s2 != s1 {
		k.viol("parse/not-a-fixed-point", fmt.Sprintf("%q prints as %q, which prints as %q after re-parsing", ps.s, s1, s2), rp)
	} else if p1.OS != p.OS || p1.Architecture != p.Architecture || p1.Variant != p.Variant {
		k.viol("parse/normal-form-reparses-differently", fmt.Sprintf("%q parses to %s, printed %q re-parses to %s", ps.s, pstr(p), s1, pstr(p1)), rp)
	}
	if !k.sampledParse && k.rec.ShardI%3 == 2 && ps.arch != "" && canonArchName(ps.arch) != ps.arch {
		k.sampledParse = true
		k.rec.Sample(map[string]any{"layer": "Parse/String", "input": ps.s, "parsed": pstr(p), "printed": s1})
	}
	if ps.os == "?" {
		return
	}
	if ps.s == "local" {
		if pkey(p) != pkey(local) {
			k.viol("parse/local-differs", fmt.Sprintf("Parse(\"local\") = %s, Local() = %s", pstr(p), pstr(local)), rp)
		}
		return
	}
	osverJudged := ps.osver != "" || local.OS != "windows"
	switch {
	case ps.os != "" && ps.arch != "":
		// full form: no local expansion; must be the documented canonical value
		k.count("parse.by-construction", 1)
		want := canon(plat{OS: ps.os, Architecture: ps.arch, Variant: ps.variant, OSVersion: ps.osver})
		if p.OS != want.OS || p.Architecture != want.Architecture || p.Variant != want.Variant || (osverJudged && p.OSVersion != want.OSVersion) {
			k.viol("parse/components-differ arch="+ps.arch, fmt.Sprintf("%q parses to %s, assembled from %s", ps.s, pstr(p), pstr(want)), rp)
		}
		// aliases map to one value
		ca := canonArchName(ps.arch)
		if ca != ps.arch {
			alt := ""
			switch ps.arch {
			case "x86_64", "x86-64", "aarch64":
				alt = ps.os + "/" + ca
				if ps.variant != "" {
					alt += "/" + ps.variant
				}
			case "i386":
				if ps.variant == "" {
					alt = ps.os + "/386"
				}
			case "armhf":
				if ps.variant == "" {
					alt = ps.os + "/arm/v7"
				}
			case "armel":
				if ps.variant == "" {
					alt = ps.os + "/arm/v6"
				}
			}
			if alt != "" {
				if ps.osver != "" {
					alt += ",osver=" + ps.osver
				}
				k.count("parse.alias-pairs", 1)
				q, err := platform.Parse(alt)
				if err != nil || pkey(q) != pkey(p) {
					k.viol("parse/alias-differs arch="+ps.arch, fmt.Sprintf("alias spelling %q parses to %s, canonical spelling %q to %s (err=%v)", ps.s, pstr(p), alt, pstr(q), err), rp)
				}
			}
		}
	case ps.os != "":
		// OS only: the local platform's own OS expands to the local platform
		k.count("parse.os-only", 1)
		co := canon(plat{OS: ps.os}).OS
		if p.OS != co {
			k.viol("parse/components-differ os-only", fmt.Sprintf("%q parses to %s", ps.s, pstr(p)), rp)
		} else if co == local.OS && (p.Architecture != local.Architecture || p.Variant != local.Variant) {
			k.viol("parse/local-os-not-expanded", fmt.Sprintf("%q parses to %s, local platform is %s", ps.s, pstr(p), pstr(local)), rp)
		}
	default:
		// architecture only: local OS
		k.count("parse.arch-only", 1)
		want := canon(plat{OS: local.OS, Architecture: ps.arch})
		if p.OS != local.OS || p.Architecture != want.Architecture {
			k.viol("parse/components-differ arch-only", fmt.Sprintf("%q parses to %s, local platform is %s", ps.s, pstr(p), pstr(local)), rp)
		} else if p.Variant != want.Variant && !(want.Architecture == local.Architecture && p.Variant == local.Variant) {
			k.viol("parse/components-differ arch-only", fmt.Sprintf("%q parses to %s (variant), local platform is %s", ps.s, pstr(p), pstr(local)), rp)
		}
	}
}
