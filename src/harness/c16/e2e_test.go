package hc16

// End-to-end layers of C16: lists of descriptors through DescriptorListSearch, GetPlatformDesc and
// ManifestGet(WithManifestPlatform) with an in-memory registry behind regclient's HTTP client.

import (
	"context"
	"encoding/json"
	"fmt"
	"net/http"
	"strings"
	"sync"
	"time"

	"github.com/opencontainers/go-digest"

	"github.com/regclient/regclient"
	"github.com/regclient/regclient/config"
	"github.com/regclient/regclient/internal/verif/ev"
	"github.com/regclient/regclient/internal/verif/modelreg"
	"github.com/regclient/regclient/scheme/reg"
	"github.com/regclient/regclient/types/descriptor"
	"github.com/regclient/regclient/types/docker/schema2"
	"github.com/regclient/regclient/types/manifest"
	"github.com/regclient/regclient/types/mediatype"
	v1 "github.com/regclient/regclient/types/oci/v1"
	"github.com/regclient/regclient/types/ref"
)

const maxPos = 4

type memReg struct {
	mu  sync.Mutex
	man map[string]memMan // by digest or tag
}

type memMan struct {
	body []byte
	mt   string
	dig  string
}

func (s *memReg) ServeHTTP(w http.ResponseWriter, r *http.Request) {
	if r.URL.Path == "/v2/" || r.URL.Path == "/v2" {
		w.WriteHeader(200)
		w.Write([]byte("{}"))
		return
	}
	const pfx = "/v2/repo/manifests/"
	if strings.HasPrefix(r.URL.Path, pfx) && (r.Method == http.MethodGet || r.Method == http.MethodHead) {
		s.mu.Lock()
		m, ok := s.man[r.URL.Path[len(pfx):]]
		s.mu.Unlock()
		if ok {
			w.Header().Set("Content-Type", m.mt)
			w.Header().Set("Docker-Content-Digest", m.dig)
			w.Header().Set("Content-Length", fmt.Sprint(len(m.body)))
			w.WriteHeader(200)
			if r.Method == http.MethodGet {
				w.Write(m.body)
			}
			return
		}
	}
	w.Header().Set("Content-Type", "application/json")
	w.WriteHeader(404)
	w.Write([]byte(`{"errors":[{"code":"MANIFEST_UNKNOWN","message":"manifest unknown"}]}`))
}

type e2eEnv struct {
	childBody [maxPos][]byte
	childDig  [maxPos]digest.Digest
	posOf     map[digest.Digest]int
	reg       *memReg
	rt        *modelreg.HandlerRT
	rc        *regclient.RegClient
	nreq      int
}

func newE2E(rec *ev.Rec) (*e2eEnv, error) {
	e := &e2eEnv{posOf: map[digest.Digest]int{}, reg: &memReg{man: map[string]memMan{}}}
	for i := 0; i < maxPos; i++ {
		body := []byte(fmt.Sprintf(`{"schemaVersion":2,"mediaType":"application/vnd.oci.image.manifest.v1+json","config":{"mediaType":"application/vnd.oci.empty.v1+json","digest":"sha256:44136fa355b3678a1146ad16f7e8649e94fb4fc21fe77e8310c060f61caaff8a","size":2},"layers":[],"annotations":{"position":"%d"}}`, i))
		e.childBody[i] = body
		e.childDig[i] = digest.FromBytes(body)
		e.posOf[e.childDig[i]] = i
		e.reg.man[e.childDig[i].String()] = memMan{body: body, mt: mediatype.OCI1Manifest, dig: e.childDig[i].String()}
	}
	e.rt = modelreg.NewHandlerRT()
	e.rt.Hosts["reg.example"] = e.reg
	e.rc = regclient.New(
		regclient.WithConfigHost(config.Host{Name: "reg.example", Hostname: "reg.example", TLS: config.TLSDisabled}),
		regclient.WithRegOpts(reg.WithHTTPClient(&http.Client{Transport: e.rt}), reg.WithDelay(time.Millisecond, time.Millisecond)),
	)
	return e, nil
}

// descTable builds, for every list position, one descriptor per pool entry (+ one without platform).
func (e *e2eEnv) descTable(ht *hostTables) [][]descriptor.Descriptor {
	n := len(ht.pool)
	out := make([][]descriptor.Descriptor, maxPos)
	for pos := 0; pos < maxPos; pos++ {
		out[pos] = make([]descriptor.Descriptor, n+1)
		for i := 0; i <= n; i++ {
			d := descriptor.Descriptor{MediaType: mediatype.OCI1Manifest, Digest: e.childDig[pos], Size: int64(len(e.childBody[pos]))}
			if i < n {
				p := ht.pool[i]
				d.Platform = &p
			}
			out[pos][i] = d
		}
	}
	return out
}

func (k *checker) posOf(d descriptor.Descriptor, layer string, ht *hostTables, list []int) int {
	p, ok := k.e2e.posOf[d.Digest]
	if !ok || p >= len(list) {
		k.rec.HarnessError("%s returned a descriptor that is not in the list: %+v", layer, d)
		return -1
	}
	return p
}

// searchAll enumerates every ordered list over the pool (+ the entry without platform) of length
// 1..maxLen and judges DescriptorListSearch on it; lists of length ≤ descLen also go through
// GetPlatformDesc on both index media types. Lists shorter than minLen are only traversed.
func (k *checker) searchAll(ht *hostTables, maxLen, descLen int) { k.searchRange(ht, 1, maxLen, descLen) }

func (k *checker) searchRange(ht *hostTables, minLen, maxLen, descLen int) {
	if maxLen > maxPos {
		maxLen = maxPos
	}
	dt := k.e2e.descTable(ht)
	n := len(ht.pool) + 1
	list := make([]int, 0, maxLen)
	dl := make([]descriptor.Descriptor, 0, maxLen)
	h := ht.h
	var nEval, nFound, nNot, nChoice, nDesc, nFilt int64
	var rec func()
	rec = func() {
		if l := len(list); l >= minLen {
			hh := h
			d, err := descriptor.DescriptorListSearch(dl, descriptor.MatchOpt{Platform: &hh})
			got := -1
			if err == nil {
				got = k.posOf(d, "DescriptorListSearch", ht, list)
				nFound++
			} else if notFound(err) {
				nNot++
			} else {
				k.viol("e2e/search/unexpected-error", fmt.Sprintf("requested %s: DescriptorListSearch: %v", pstr(h), err), replayData{Kind: "host", Host: h})
			}
			if err == nil && got < 0 {
				return
			}
			k.judgeSelection(ht, "search", list, got)
			nEval++
			// a list in which the selection had to choose between different runnable entries
			first := -1
			for _, i := range list {
				if i < n-1 && ht.compat[i] {
					if first >= 0 && i != first {
						nChoice++
						if l == 2 {
							a, b := first, i
							if a > b {
								a, b = b, a
							}
							k.rec.Distinct("pair\x00" + pkey(h) + "\x00" + pkey(ht.pool[a]) + "\x00" + pkey(ht.pool[b]))
						}
						break
					}
					first = i
				}
			}
			if l <= descLen {
				k.descLayer(ht, list, dl, got, false)
				nDesc++
				// the same search combined with an option that narrows the list first (a sort annotation no
				// entry carries keeps every entry): the platform test of that narrowing step must not lose a
				// runnable entry
				hs := h
				ds, errS := descriptor.DescriptorListSearch(dl, descriptor.MatchOpt{Platform: &hs, SortAnnotation: "org.example.verif.absent"})
				gotS := -1
				if errS == nil {
					gotS = k.posOf(ds, "DescriptorListSearch+sort", ht, list)
				} else if !notFound(errS) {
					k.viol("e2e/search-filtered/unexpected-error", fmt.Sprintf("requested %s: DescriptorListSearch with a sort annotation: %v", pstr(h), errS), replayData{Kind: "host", Host: h})
				}
				if errS != nil || gotS >= 0 {
					k.judgeSelection(ht, "search-filtered", list, gotS)
					nFilt++
				}
			}
			if !k.sampledList && k.rec.ShardI%3 == 1 && l == maxLen && l >= 2 && got > 0 && first >= 0 && list[0] != list[got] && ht.compat[list[0]%(n-1)] && list[0] < n-1 {
				k.sampledList = true
				var ls []string
				for _, i := range list {
					if i == n-1 {
						ls = append(ls, "(no platform)")
					} else {
						ls = append(ls, pstr(ht.pool[i]))
					}
				}
				k.rec.Sample(map[string]any{"layer": "DescriptorListSearch", "requested": pstr(h), "list": ls, "selected_position": got, "selected": ls[got]})
			}
		}
		if len(list) == maxLen {
			return
		}
		pos := len(list)
		for i := 0; i < n; i++ {
			list = append(list, i)
			dl = append(dl, dt[pos][i])
			rec()
			list = list[:pos]
			dl = dl[:pos]
		}
	}
	// the empty list
	if minLen <= 1 {
		hh := h
		if _, err := descriptor.DescriptorListSearch(nil, descriptor.MatchOpt{Platform: &hh}); err == nil {
			k.viol("e2e/search/found-in-empty-list", fmt.Sprintf("requested %s: DescriptorListSearch on an empty list succeeded", pstr(h)), replayData{Kind: "host", Host: h})
		}
		nEval++
	}
	rec()
	k.rec.Eval(nEval + 2*nDesc + nFilt)
	k.count("e2e.search-filtered.lists", nFilt)
	k.count("e2e.search.lists", nEval)
	k.count("e2e.search.found", nFound)
	k.count("e2e.search.not-found", nNot)
	k.count("e2e.search.choice-exercised", nChoice)
	k.count("e2e.desc.lists", 2*nDesc)
}

// descLayer: manifest.GetPlatformDesc on an OCI index and a Docker manifest list built from dl must
// select the same position as the judged search result (and is judged itself when it differs).
func (k *checker) descLayer(ht *hostTables, list []int, dl []descriptor.Descriptor, searchGot int, verbose bool) {
	h := ht.h
	cp := append([]descriptor.Descriptor{}, dl...)
	for _, kind := range []string{"desc-oci", "desc-docker"} {
		var m manifest.Manifest
		var err error
		if kind == "desc-oci" {
			m, err = manifest.New(manifest.WithOrig(v1.Index{Versioned: v1.IndexSchemaVersion, MediaType: mediatype.OCI1ManifestList, Manifests: cp}))
		} else {
			m, err = manifest.New(manifest.WithOrig(schema2.ManifestList{Versioned: schema2.ManifestListSchemaVersion, Manifests: cp}))
		}
		if err != nil {
			k.rec.HarnessError("manifest.New(%s): %v", kind, err)
			return
		}
		hh := h
		d, err := manifest.GetPlatformDesc(m, &hh)
		got := -1
		if err == nil && d != nil {
			got = k.posOf(*d, kind, ht, list)
			if got < 0 {
				return
			}
		} else if !notFound(err) {
			k.viol("e2e/"+kind+"/unexpected-error", fmt.Sprintf("requested %s: GetPlatformDesc: %v", pstr(h), err), replayData{Kind: "host", Host: h})
			continue
		}
		if verbose {
			fmt.Printf("  %s: selected position %d (err=%v)\n", kind, got, err)
		}
		if got != searchGot || verbose {
			k.judgeSelection(ht, kind, list, got)
		}
	}
}

// getAll: every ordered list of length 1..maxLen over the pool through
// RegClient.ManifestGet(WithManifestPlatform) against the in-memory registry.
func (k *checker) getAll(ht *hostTables, maxLen int) {
	if maxLen > maxPos {
		maxLen = maxPos
	}
	dt := k.e2e.descTable(ht)
	n := len(ht.pool) + 1
	list := make([]int, 0, maxLen)
	dl := make([]descriptor.Descriptor, 0, maxLen)
	var nEval int64
	var rec func()
	rec = func() {
		if len(list) >= 1 {
			k.getLayer(ht, list, dl, len(list)%2 == 0 && len(list) <= 2, false)
			nEval++
		}
		if len(list) == maxLen {
			return
		}
		pos := len(list)
		for i := 0; i < n; i++ {
			list = append(list, i)
			dl = append(dl, dt[pos][i])
			rec()
			list = list[:pos]
			dl = dl[:pos]
		}
	}
	rec()
	k.rec.Eval(nEval)
	k.count("e2e.get.lists", nEval)
}

func (k *checker) getLayer(ht *hostTables, list []int, dl []descriptor.Descriptor, docker bool, verbose bool) {
	h := ht.h
	e := k.e2e
	cp := append([]descriptor.Descriptor{}, dl...)
	var m manifest.Manifest
	var err error
	if docker {
		m, err = manifest.New(manifest.WithOrig(schema2.ManifestList{Versioned: schema2.ManifestListSchemaVersion, Manifests: cp}))
	} else {
		m, err = manifest.New(manifest.WithOrig(v1.Index{Versioned: v1.IndexSchemaVersion, MediaType: mediatype.OCI1ManifestList, Manifests: cp}))
	}
	if err != nil {
		k.rec.HarnessError("manifest.New: %v", err)
		return
	}
	body, err := m.RawBody()
	if err != nil {
		k.rec.HarnessError("RawBody: %v", err)
		return
	}
	dig := m.GetDescriptor().Digest.String()
	e.reg.mu.Lock()
	e.reg.man["idx"] = memMan{body: body, mt: m.GetDescriptor().MediaType, dig: dig}
	e.reg.man[dig] = memMan{body: body, mt: m.GetDescriptor().MediaType, dig: dig}
	e.reg.mu.Unlock()
	defer func() {
		e.reg.mu.Lock()
		delete(e.reg.man, dig)
		e.reg.mu.Unlock()
		e.nreq++
		if e.nreq%256 == 0 {
			e.rt.ResetLog()
		}
	}()
	// the same list one level down: an outer index whose only entry carries exactly the requested
	// platform and names the index above (platform resolution "loops to handle a nested index")
	outer, err := manifest.New(manifest.WithOrig(v1.Index{Versioned: v1.IndexSchemaVersion, MediaType: mediatype.OCI1ManifestList,
		Manifests: []descriptor.Descriptor{{MediaType: m.GetDescriptor().MediaType, Digest: m.GetDescriptor().Digest, Size: int64(len(body)), Platform: &h}}}))
	if err != nil {
		k.rec.HarnessError("manifest.New(outer): %v", err)
		return
	}
	obody, _ := outer.RawBody()
	odig := outer.GetDescriptor().Digest.String()
	e.reg.mu.Lock()
	e.reg.man[odig] = memMan{body: obody, mt: outer.GetDescriptor().MediaType, dig: odig}
	e.reg.mu.Unlock()
	defer func() {
		e.reg.mu.Lock()
		delete(e.reg.man, odig)
		e.reg.mu.Unlock()
	}()
	for _, how := range []string{"get", "head", "get-nested", "head-nested"} {
		d := dig
		if strings.HasSuffix(how, "-nested") {
			d = odig
		}
		r, err := ref.New("reg.example/repo@" + d)
		if err != nil {
			k.rec.HarnessError("ref: %v", err)
			return
		}
		var res manifest.Manifest
		if strings.HasPrefix(how, "get") {
			res, err = e.rc.ManifestGet(context.Background(), r, regclient.WithManifestPlatform(h))
		} else {
			res, err = e.rc.ManifestHead(context.Background(), r, regclient.WithManifestPlatform(h))
		}
		got := -1
		if err == nil {
			p, ok := e.posOf[res.GetDescriptor().Digest]
			if !ok || p >= len(list) {
				k.viol("e2e/"+how+"/returned-the-index "+osClass(h), fmt.Sprintf("requested %s: Manifest%s with a platform returned %s (%s), not one of the entries", pstr(h), how, res.GetDescriptor().Digest, res.GetDescriptor().MediaType), k.replayOf(ht, list))
				return
			}
			got = p
			k.count("e2e."+how+".found", 1)
		} else if notFound(err) {
			k.count("e2e."+how+".not-found", 1)
		} else {
			k.viol("e2e/"+how+"/unexpected-error", fmt.Sprintf("requested %s: Manifest%s: %v", pstr(h), how, err), k.replayOf(ht, list))
			return
		}
		if verbose {
			fmt.Printf("  %s (docker list=%v): selected position %d (err=%v)\n", how, docker, got, err)
		}
		k.judgeSelection(ht, how, list, got)
	}
}

func (k *checker) replayOf(ht *hostTables, list []int) replayData {
	rp := replayData{Kind: "host", Host: ht.h}
	for _, i := range list {
		if i == len(ht.pool) {
			rp.List = append(rp.List, nil)
		} else {
			p := ht.pool[i]
			rp.List = append(rp.List, &p)
		}
	}
	return rp
}

// oneList runs one list through every layer (replay).
func (k *checker) oneList(ht *hostTables, list []int, allLayers, verbose bool) {
	dt := k.e2e.descTable(ht)
	var dl []descriptor.Descriptor
	for pos, i := range list {
		dl = append(dl, dt[pos][i])
	}
	hh := ht.h
	d, err := descriptor.DescriptorListSearch(dl, descriptor.MatchOpt{Platform: &hh})
	got := -1
	if err == nil {
		got = k.posOf(d, "DescriptorListSearch", ht, list)
	}
	if verbose {
		b, _ := json.Marshal(k.replayOf(ht, list).List)
		fmt.Printf("  list %s\n  search: selected position %d (err=%v)\n", b, got, err)
	}
	k.judgeSelection(ht, "search", list, got)
	if allLayers {
		k.descLayer(ht, list, dl, got, verbose)
		k.getLayer(ht, list, dl, false, verbose)
		k.getLayer(ht, list, dl, true, verbose)
	}
}
