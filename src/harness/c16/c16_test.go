package hc16

// C16 — platform selection returns a runnable image and the best one available.
//
// (a) order laws, complete over the universe: for every requested platform h and all entries the
//     real Compatible admits, the real Better is irreflexive, asymmetric and transitive (which is
//     what makes a linear scan return a maximal element for any list in any order), every
//     compatible entry beats "nothing found yet", no incompatible entry ever ranks; the real
//     Compatible lies between two independently written tables (surely runnable ⊆ Compatible ⊆
//     possibly runnable); the independent preference table is honoured; aliases behave exactly
//     like their canonical value, as entry and as requested platform.
// (b) end to end: every ordered list (so every permutation of every multiset) up to a length bound
//     through descriptor.DescriptorListSearch, manifest.GetPlatformDesc (OCI index and Docker
//     manifest list) and RegClient.ManifestGet(WithManifestPlatform) against an in-memory registry.
// (c) platform strings: String∘Parse fixed point, aliases map to one value, struct→string→struct.

import (
	"encoding/json"
	"errors"
	"fmt"
	"os"
	"sort"
	"strings"
	"syscall"
	"testing"

	"github.com/regclient/regclient/internal/verif/ev"
	"github.com/regclient/regclient/types/errs"
	"github.com/regclient/regclient/types/platform"
)

type replayData struct {
	Kind  string  `json:"kind"` // host | parse
	Host  plat    `json:"host"`
	Plats []plat  `json:"platforms,omitempty"` // mini universe for the law/table clauses
	Raw   []plat  `json:"raw,omitempty"`       // alias forms to compare with their canonical value
	List  []*plat `json:"list,omitempty"`      // end-to-end list (null = entry without platform)
	S     string  `json:"s,omitempty"`
}

type checker struct {
	rec     *ev.Rec
	verbose bool
	n       map[string]int64
	e2e     *e2eEnv

	sampledList, sampledParse bool
}

func (k *checker) count(name string, d int64) { k.n[name] += d }

func (k *checker) viol(key, msg string, rp replayData) {
	if k.verbose {
		fmt.Println("VIOLATION", key, "\n  ", msg)
	}
	k.rec.Violation(key, msg, rp)
}

func pstr(p plat) string {
	s := fmt.Sprintf("%s/%s", p.OS, p.Architecture)
	if p.OS == "" {
		s = "(no os)/" + p.Architecture
	}
	if p.Variant != "" {
		s += "/" + p.Variant
	}
	if p.OSVersion != "" {
		s += ",osver=" + p.OSVersion
	}
	return s
}

func osClass(h plat) string {
	if h.OS == "" {
		return "host-os=none"
	}
	return "host-os=" + h.OS
}

// hostTables holds everything computed for one requested platform over a pool of entries.
type hostTables struct {
	h      plat
	pool   []plat   // canonical entries: possibly-runnable set ∪ real-compatible set ∪ witnesses
	compat []bool   // real platform.Compatible(h, pool[i])
	sure   []bool   // independent lower bound
	maybe  []bool   // independent upper bound
	exact  []bool   // same canonical platform
	better [][]bool // real NewCompare(h).Better(pool[a], pool[b])
	c      []int    // indices with compat
	nwit   int
}

// witnesses picks up to three entries of u that h certainly cannot run: a variant/OS-version near
// miss, the same architecture under an OS h does not run, and another architecture under h's OS.
func witnesses(h plat, u []plat) []plat {
	var w []plat
	pick := func(f func(t plat) bool) {
		for _, t := range u {
			if !maybe(h, t) && f(t) {
				w = append(w, t)
				return
			}
		}
	}
	pick(func(t plat) bool { return t.OS == h.OS && t.Architecture == h.Architecture })
	pick(func(t plat) bool { return t.OS != h.OS && t.Architecture == h.Architecture && t.Variant == h.Variant })
	pick(func(t plat) bool { return t.OS == h.OS && t.Architecture != h.Architecture })
	return w
}

func (k *checker) tables(h plat, u []plat, withWitnesses bool) *hostTables {
	ht := &hostTables{h: h}
	comp := platform.NewCompare(h)
	inPool := map[string]bool{}
	for _, t := range u {
		c := platform.Compatible(h, t)
		k.count("calls.Compatible", 1)
		s, m := sure(h, t), maybe(h, t)
		// (a) band: sure ⇒ Compatible ⇒ maybe
		k.count("laws.band.pairs", 1)
		if s && !c {
			k.viol("band/surely-runnable-but-incompatible "+osClass(h), fmt.Sprintf("requested %s, entry %s: the documented rules say the host runs this entry, platform.Compatible says no", pstr(h), pstr(t)),
				replayData{Kind: "host", Host: h, Plats: []plat{t}})
		}
		if c && !m {
			k.viol("band/compatible-but-not-runnable "+osClass(h), fmt.Sprintf("requested %s, entry %s: platform.Compatible says yes, no documented rule lets the host run this entry", pstr(h), pstr(t)),
				replayData{Kind: "host", Host: h, Plats: []plat{t}})
		}
		if c || m {
			ht.pool = append(ht.pool, t)
			inPool[pkey(t)] = true
		}
	}
	if withWitnesses {
		for _, w := range witnesses(h, u) {
			if !inPool[pkey(w)] {
				ht.pool = append(ht.pool, w)
				inPool[pkey(w)] = true
				ht.nwit++
			}
		}
	}
	n := len(ht.pool)
	ht.compat, ht.sure, ht.maybe, ht.exact = make([]bool, n), make([]bool, n), make([]bool, n), make([]bool, n)
	ht.better = make([][]bool, n)
	for i, t := range ht.pool {
		ht.compat[i] = platform.Compatible(h, t)
		ht.sure[i], ht.maybe[i], ht.exact[i] = sure(h, t), maybe(h, t), exact(h, t)
		if ht.compat[i] {
			ht.c = append(ht.c, i)
		}
		ht.better[i] = make([]bool, n)
		for j, p := range ht.pool {
			ht.better[i][j] = comp.Better(t, p)
		}
	}
	k.count("calls.Better", int64(n*n))
	return ht
}

// laws evaluates the order laws and the table clauses for one requested platform.
func (k *checker) laws(ht *hostTables, u []plat) {
	h := ht.h
	comp := platform.NewCompare(h)
	hc := osClass(h)
	rp := func(ps ...plat) replayData { return replayData{Kind: "host", Host: h, Plats: ps} }
	B := ht.better
	P := ht.pool
	// every compatible entry beats the empty start value of the scan; nothing incompatible ranks
	for _, t := range u {
		b := comp.Better(t, plat{})
		c := platform.Compatible(h, t)
		k.count("laws.vs-nothing.cases", 1)
		if c && !b {
			k.viol("law/compatible-entry-does-not-beat-nothing "+hc, fmt.Sprintf("requested %s: entry %s is compatible but Better(entry, zero value) is false, so a scan starting from nothing never selects it", pstr(h), pstr(t)), rp(t))
		}
		if !c && b {
			k.viol("law/incompatible-entry-ranks "+hc, fmt.Sprintf("requested %s: entry %s is not compatible but Better(entry, zero value) is true", pstr(h), pstr(t)), rp(t))
		}
	}
	k.count("calls.Better", int64(len(u)))
	for i := range P {
		if ht.compat[i] {
			continue
		}
		for j := range P {
			k.count("laws.incompatible-never-better.cases", 1)
			if B[i][j] {
				k.viol("law/incompatible-entry-ranks "+hc, fmt.Sprintf("requested %s: %s is not compatible but Better(it, %s) is true", pstr(h), pstr(P[i]), pstr(P[j])), rp(P[i], P[j]))
			}
		}
	}
	// strict partial order on the compatible entries
	C := ht.c
	var triples, incomp int64
	for _, a := range C {
		if B[a][a] {
			k.viol("law/not-irreflexive "+hc, fmt.Sprintf("requested %s: Better(%s, itself) is true", pstr(h), pstr(P[a])), rp(P[a]))
		}
		for _, b := range C {
			if a < b && B[a][b] && B[b][a] {
				k.viol("law/not-asymmetric "+hc, fmt.Sprintf("requested %s: %s and %s are each better than the other", pstr(h), pstr(P[a]), pstr(P[b])), rp(P[a], P[b]))
			}
			ab := B[a][b]
			abInc := !ab && !B[b][a]
			for _, c := range C {
				triples++
				if ab && B[b][c] && !B[a][c] {
					k.viol("law/not-transitive "+hc, fmt.Sprintf("requested %s: %s better than %s, %s better than %s, but %s not better than %s", pstr(h), pstr(P[a]), pstr(P[b]), pstr(P[b]), pstr(P[c]), pstr(P[a]), pstr(P[c])), rp(P[a], P[b], P[c]))
				}
				// incomparability need not be transitive for a scan to return a maximal element
				// (DESIGN 4b: "a maximal element, not a particular one among equals"); it is
				// measured and reported, not judged
				if abInc && !B[b][c] && !B[c][b] && (B[a][c] || B[c][a]) {
					incomp++
					if k.n["laws.incomparability-not-transitive.triples"]+incomp == 1 || k.verbose {
						k.rec.Info("incomparability_not_transitive_example", fmt.Sprintf("requested %s: %s ~ %s and %s ~ %s, but %s and %s are ordered", pstr(h), pstr(P[a]), pstr(P[b]), pstr(P[b]), pstr(P[c]), pstr(P[a]), pstr(P[c])))
						if k.verbose {
							fmt.Println("note: incomparability not transitive:", pstr(P[a]), "~", pstr(P[b]), "~", pstr(P[c]))
						}
					}
				}
			}
		}
	}
	k.count("laws.order.triples", triples)
	k.count("laws.order.pairs", int64(len(C)*len(C)))
	k.count("laws.incomparability-not-transitive.triples", incomp)
	// independent preference table
	for a := range P {
		if !ht.sure[a] {
			continue
		}
		for b := range P {
			if a == b || !ht.compat[b] {
				continue
			}
			if ok, why := pref(h, P[a], P[b]); ok {
				k.count("laws.pref."+why, 1)
				if !B[a][b] || B[b][a] {
					k.viol("pref/"+why+"-not-honoured "+hc, fmt.Sprintf("requested %s: %s must be preferred over %s (%s), Better says %v / reverse %v", pstr(h), pstr(P[a]), pstr(P[b]), why, B[a][b], B[b][a]), rp(P[a], P[b]))
				}
			}
		}
	}
}

// aliases: every alias spelling behaves like its canonical value, as an entry and as the request.
func (k *checker) aliases(ht *hostTables, raws []plat, rawHosts []plat, u []plat) {
	h := ht.h
	comp := platform.NewCompare(h)
	idx := map[string]int{}
	for i, p := range ht.pool {
		idx[pkey(p)] = i
	}
	for _, r := range raws {
		cr := canon(r)
		if pkey(cr) == pkey(r) {
			continue
		}
		ci, ok := idx[pkey(cr)]
		if !ok {
			// canonical value outside the pool: only compatibility is compared
			k.count("alias.entry.compat-only", 1)
			if platform.Compatible(h, r) != platform.Compatible(h, cr) {
				k.viol("alias/entry-compatibility-differs", fmt.Sprintf("requested %s: alias entry %s and its canonical value %s differ in Compatible", pstr(h), pstr(r), pstr(cr)), replayData{Kind: "host", Host: h, Plats: []plat{cr}, Raw: []plat{r}})
			}
			continue
		}
		k.count("alias.entry.cases", 1)
		if platform.Compatible(h, r) != ht.compat[ci] {
			k.viol("alias/entry-compatibility-differs", fmt.Sprintf("requested %s: alias entry %s and its canonical value %s differ in Compatible", pstr(h), pstr(r), pstr(cr)), replayData{Kind: "host", Host: h, Plats: []plat{cr}, Raw: []plat{r}})
			continue
		}
		if comp.Better(r, plat{}) != comp.Better(cr, plat{}) {
			k.viol("alias/entry-ranking-differs", fmt.Sprintf("requested %s: alias entry %s and canonical %s differ against the empty start value", pstr(h), pstr(r), pstr(cr)), replayData{Kind: "host", Host: h, Plats: []plat{cr}, Raw: []plat{r}})
		}
		for _, b := range ht.c {
			k.count("alias.entry.better-pairs", 2)
			if comp.Better(r, ht.pool[b]) != ht.better[ci][b] || comp.Better(ht.pool[b], r) != ht.better[b][ci] {
				k.viol("alias/entry-ranking-differs", fmt.Sprintf("requested %s: alias entry %s ranks differently from its canonical value %s against %s", pstr(h), pstr(r), pstr(cr), pstr(ht.pool[b])), replayData{Kind: "host", Host: h, Plats: []plat{cr, ht.pool[b]}, Raw: []plat{r}})
				break
			}
		}
	}
	for _, rh := range rawHosts {
		if pkey(rh) == pkey(h) {
			continue
		}
		k.count("alias.host.cases", 1)
		rc := platform.NewCompare(rh)
		bad := false
		for _, t := range u {
			if platform.Compatible(rh, t) != platform.Compatible(h, t) {
				k.viol("alias/host-compatibility-differs", fmt.Sprintf("requested alias %s and canonical %s differ in Compatible for entry %s", pstr(rh), pstr(h), pstr(t)), replayData{Kind: "host", Host: h, Plats: []plat{t}, Raw: []plat{rh}})
				bad = true
				break
			}
		}
		if bad {
			continue
		}
		for _, a := range ht.c {
			for _, b := range ht.c {
				k.count("alias.host.better-pairs", 1)
				if rc.Better(ht.pool[a], ht.pool[b]) != ht.better[a][b] {
					k.viol("alias/host-ranking-differs", fmt.Sprintf("requested alias %s and canonical %s rank %s against %s differently", pstr(rh), pstr(h), pstr(ht.pool[a]), pstr(ht.pool[b])), replayData{Kind: "host", Host: h, Plats: []plat{ht.pool[a], ht.pool[b]}, Raw: []plat{rh}})
					bad = true
					break
				}
			}
			if bad {
				break
			}
		}
	}
}

// judgeSelection applies the end-to-end oracle to one selection result.
// list holds pool indices (len(pool) = entry without platform); got is the selected position or -1
// when nothing was found.
func (k *checker) judgeSelection(ht *hostTables, layer string, list []int, got int) {
	h := ht.h
	nilIdx := len(ht.pool)
	hc := osClass(h)
	mk := func() replayData {
		rp := replayData{Kind: "host", Host: h}
		for _, i := range list {
			if i == nilIdx {
				rp.List = append(rp.List, nil)
			} else {
				p := ht.pool[i]
				rp.List = append(rp.List, &p)
			}
		}
		return rp
	}
	ls := func() string {
		var s []string
		for _, i := range list {
			if i == nilIdx {
				s = append(s, "(no platform)")
			} else {
				s = append(s, pstr(ht.pool[i]))
			}
		}
		return "[" + strings.Join(s, ", ") + "]"
	}
	anyCompat, anySure, anyExact := false, false, false
	for _, i := range list {
		if i == nilIdx {
			continue
		}
		anyCompat = anyCompat || ht.compat[i]
		anySure = anySure || ht.sure[i]
		anyExact = anyExact || ht.exact[i]
	}
	if got < 0 {
		if anySure {
			k.viol("e2e/"+layer+"/runnable-entry-not-found "+hc, fmt.Sprintf("requested %s, list %s: nothing found although the host surely runs an entry", pstr(h), ls()), mk())
		} else if anyCompat {
			k.viol("e2e/"+layer+"/compatible-entry-not-found "+hc, fmt.Sprintf("requested %s, list %s: nothing found although platform.Compatible admits an entry", pstr(h), ls()), mk())
		}
		return
	}
	r := list[got]
	if r == nilIdx {
		k.viol("e2e/"+layer+"/selected-entry-without-platform "+hc, fmt.Sprintf("requested %s, list %s: position %d selected", pstr(h), ls(), got), mk())
		return
	}
	if !ht.maybe[r] {
		k.viol("e2e/"+layer+"/selected-not-runnable "+hc, fmt.Sprintf("requested %s, list %s: selected %s, which no documented rule lets the host run", pstr(h), ls(), pstr(ht.pool[r])), mk())
		return
	}
	if !ht.compat[r] {
		k.viol("e2e/"+layer+"/selected-incompatible "+hc, fmt.Sprintf("requested %s, list %s: selected %s, which platform.Compatible rejects", pstr(h), ls(), pstr(ht.pool[r])), mk())
		return
	}
	if anyExact && !ht.exact[r] {
		k.viol("e2e/"+layer+"/exact-match-passed-over "+hc, fmt.Sprintf("requested %s, list %s: selected %s although the list holds an exact match", pstr(h), ls(), pstr(ht.pool[r])), mk())
		return
	}
	for _, j := range list {
		if j == nilIdx || j == r || !ht.compat[j] {
			continue
		}
		if ht.better[j][r] {
			k.viol("e2e/"+layer+"/better-entry-passed-over "+hc, fmt.Sprintf("requested %s, list %s: selected %s although Better ranks %s strictly higher", pstr(h), ls(), pstr(ht.pool[r]), pstr(ht.pool[j])), mk())
			return
		}
		if ht.sure[j] {
			if ok, why := pref(h, ht.pool[j], ht.pool[r]); ok {
				k.viol("e2e/"+layer+"/preferred-entry-passed-over "+hc, fmt.Sprintf("requested %s, list %s: selected %s although %s is to be preferred (%s)", pstr(h), ls(), pstr(ht.pool[r]), pstr(ht.pool[j]), why), mk())
				return
			}
		}
	}
}

func notFound(err error) bool { return errors.Is(err, errs.ErrNotFound) }

// subsets of the universe used by the more expensive layers (stated in the rule)
func inCore(p plat) bool {
	switch p.OSVersion {
	case "", "10.0.17763.1":
	default:
		return false
	}
	switch p.Variant {
	case "", "v3", "v7", "5":
		return true
	}
	return false
}

func inMini(p plat) bool {
	if p.OS == "freebsd" {
		return false
	}
	switch p.OSVersion {
	case "", "10.0.17763.1":
	default:
		return false
	}
	switch p.Architecture {
	case "amd64", "arm", "arm64":
	default:
		return false
	}
	switch p.Variant {
	case "", "v2", "v3", "v6", "v7", "v9":
		return true
	}
	return false
}

func TestVerifC16(t *testing.T) {
	rec := ev.New()
	defer rec.Flush(t)
	thorough := rec.Thorough()
	U := canonUniverse()
	raws := rawUniverse(true)
	k := &checker{rec: rec, n: map[string]int64{}}
	defer func() {
		for name, v := range k.n {
			rec.Count(name, v)
		}
		var ru syscall.Rusage
		if syscall.Getrusage(syscall.RUSAGE_SELF, &ru) == nil {
			rec.Count("cpu_ms", (ru.Utime.Sec+ru.Stime.Sec)*1000+int64(ru.Utime.Usec+ru.Stime.Usec)/1000)
		}
	}()
	env, err := newE2E(rec)
	if err != nil {
		rec.HarnessError("e2e setup: %v", err)
		return
	}
	k.e2e = env
	local := platform.Local()
	rec.Info("platform_local", pstr(local))
	rec.Info("universe_canonical_platforms", len(U))
	rec.Info("universe_raw_platforms", len(raws))

	lenAll, lenCore, lenMini := 2, 3, 3
	descAll, descCore, getLen := 1, 2, 2
	if thorough {
		lenAll, lenCore, lenMini = 3, 3, 4
		descAll, descCore, getLen = 2, 3, 3
	}
	if v := os.Getenv("VERIF_C16_LENALL"); v != "" {
		fmt.Sscan(v, &lenAll)
	}
	rec.Rule(fmt.Sprintf("universe U = OS %q × arch %q × variant %q × os.version %q = %d raw platforms (+ the macos alias = %d), %d after the documented alias table, plus entries without a platform. "+
		"(a) for EVERY requested platform h ∈ U (canonical) and every alias spelling of h: real Compatible(h,t) for every t ∈ U against two independent tables; the real Better on all pairs and all triples of compat(h) (irreflexive, asymmetric, transitive; beats-nothing; incompatible never ranks; independent preference table); alias entries against their canonical value. "+
		"(b) for every h ∈ U, pool(h) = {t ∈ U possibly runnable or Compatible} ∪ ≤3 incompatible witnesses ∪ {entry without platform}: every ordered list with repetition (= every permutation of every multiset) of length ≤ %d through descriptor.DescriptorListSearch; length ≤ %d for h in the core sub-universe (os.version ∈ {none, 10.0.17763.1}, variant ∈ {none,v3,v7,5}; every OS and architecture; pool unrestricted); length ≤ %d for h and pool in the mini sub-universe (no freebsd; arch amd64/arm/arm64; variant ∈ {none,v2,v3,v6,v7,v9}; os.version ∈ {none,10.0.17763.1}); "+
		"manifest.GetPlatformDesc on an OCI index and on a Docker manifest list for every list of length ≤ %d for every h and ≤ %d for core h; RegClient.ManifestGet and ManifestHead (WithManifestPlatform) over HTTP against an in-memory registry, on the index itself and on an outer index whose single entry (carrying exactly h) names it, for every list of length ≤ %d with h and pool in the mini sub-universe. "+
		"(c) every platform string os[/arch[/variant]][,osver=…] and arch-only string built from U's components (plus upper-case spellings, macos, local). "+
		"evaluations = judged cases (pairs for the table clauses, triples for the order laws, lists for (b), strings for (c)); distinct_nontrivial = distinct (requested platform, list) cases whose list holds at least two different entries the host can run (so that the choice between them is exercised) plus distinct requested platforms with ≥ 2 compatible entries in (a) plus distinct accepted platform strings in (c)",
		uOS, uArch, uVariant, uOSVer, len(rawUniverse(false)), len(raws), len(U), lenAll, lenCore, lenMini, descAll, descCore, getLen))
	rec.Assume("the independent tables in harness/c16/univ_test.go (alias table, surely/possibly runnable, preference) transcribe the documented conventions correctly; they are checked against the repository's own TestCompare expectations by construction of the band clause")
	rec.Assume("Platform.Features and OSFeatures are outside the universe (always empty)")
	rec.Assume(fmt.Sprintf("platform.Parse consults the local platform; expectations are computed relative to platform.Local() = %s on the machine running the check", pstr(local)))

	if rd := rec.ReplayData(); rd != nil {
		var rp replayData
		if err := json.Unmarshal(rd, &rp); err != nil {
			rec.HarnessError("replay: %v", err)
			return
		}
		k.verbose = true
		k.replay(rp)
		fmt.Printf("replay: %d violation(s) reproduced\n", rec.NViolations())
		return
	}

	// raw alias spellings grouped by canonical value
	rawByCanon := map[string][]plat{}
	for _, r := range raws {
		rawByCanon[pkey(canon(r))] = append(rawByCanon[pkey(canon(r))], r)
	}
	var core, mini []plat
	for _, p := range U {
		if inCore(p) {
			core = append(core, p)
		}
		if inMini(p) {
			mini = append(mini, p)
		}
	}
	rec.Info("universe_core_hosts", len(core))
	rec.Info("universe_mini_platforms", len(mini))

	sampled := 0
	for hi, h := range U {
		if !rec.Mine(hi) {
			continue
		}
		if rec.Expired() {
			rec.NotExhaustive(fmt.Sprintf("wall-clock budget reached in shard %d at requested platform %d of %d", rec.ShardI, hi, len(U)))
			break
		}
		ht := k.tables(h, U, true)
		before := k.n["laws.order.triples"] + k.n["laws.band.pairs"] + k.n["laws.vs-nothing.cases"] + k.n["laws.incompatible-never-better.cases"] + k.n["alias.entry.cases"] + k.n["alias.entry.compat-only"] + k.n["alias.host.cases"]
		k.laws(ht, U)
		var rw []plat
		for _, p := range ht.pool {
			rw = append(rw, rawByCanon[pkey(p)]...)
		}
		k.aliases(ht, rw, rawByCanon[pkey(h)], U)
		after := k.n["laws.order.triples"] + k.n["laws.band.pairs"] + k.n["laws.vs-nothing.cases"] + k.n["laws.incompatible-never-better.cases"] + k.n["alias.entry.cases"] + k.n["alias.entry.compat-only"] + k.n["alias.host.cases"]
		rec.Eval(after - before)
		k.count("hosts", 1)
		if len(ht.c) >= 2 {
			rec.Distinct("laws\x00" + pkey(h))
		}
		// (b) end to end
		maxLen, descLen := lenAll, descAll
		if inCore(h) {
			if lenCore > maxLen {
				maxLen = lenCore
			}
			descLen = descCore
		}
		k.searchAll(ht, maxLen, descLen)
		if inMini(h) {
			// mini sub-universe: restricted pool, longer lists, and the HTTP layer
			hm := k.tables(h, mini, true)
			if lenMini > maxLen {
				k.searchRange(hm, maxLen+1, lenMini, 0)
			}
			k.getAll(hm, getLen)
		}
		if sampled < 1 && len(ht.c) >= 3 && hi%5 == 0 && rec.ShardI%3 == 0 {
			sampled++
			var cs []string
			for _, i := range ht.c {
				cs = append(cs, pstr(ht.pool[i]))
			}
			if len(cs) > 6 {
				cs = append(cs[:6], fmt.Sprintf("… %d more", len(cs)-6))
			}
			rec.Sample(map[string]any{"requested": pstr(h), "compatible_entries": len(ht.c), "pool": len(ht.pool) + 1, "witnesses": ht.nwit, "max_list_length": maxLen, "some_compatible": cs})
		}
	}

	if k.n["laws.incomparability-not-transitive.triples"] > 0 {
		rec.Note("measured, not judged: under the real Better, incomparability is not transitive when OS versions have different numbers of components (semverCmp(\"10.0\", \"10.0.17763.1\") = 0 but 10.0.17763.1 < 10.0.20348.1; counter laws.incomparability-not-transitive.triples, example in incomparability_not_transitive_example). Better is still a strict partial order, so a linear scan returns a maximal element for every list and order; WHICH of several incomparable entries is returned then depends on the list order, which DESIGN 4b explicitly allows")
	}
	// (c) platform strings, sharded by string number
	k.parseAll(U, local)

	// vacuity
	if k.n["hosts"] > 0 {
		if k.n["e2e.search.found"] == 0 || k.n["e2e.search.not-found"] == 0 {
			rec.HarnessError("vacuous: DescriptorListSearch found=%d not-found=%d in shard %d", k.n["e2e.search.found"], k.n["e2e.search.not-found"], rec.ShardI)
		}
		if k.n["e2e.search.choice-exercised"] == 0 {
			rec.HarnessError("vacuous: no list with two different runnable entries in shard %d", rec.ShardI)
		}
	}
}

// replay re-runs one recorded case: the table and law clauses on the recorded mini universe, the
// alias clauses on the recorded raw spellings, every end-to-end layer on the recorded list, the
// string clause on the recorded string.
func (k *checker) replay(rp replayData) {
	rec := k.rec
	if rp.Kind == "parse" {
		k.parseOne(rp.S, platform.Local(), true)
		rec.Eval(1)
		return
	}
	h := rp.Host
	fmt.Printf("replay: requested %s\n", pstr(h))
	u := append([]plat{}, rp.Plats...)
	for _, p := range rp.List {
		if p != nil {
			u = append(u, *p)
		}
	}
	for _, r := range rp.Raw {
		u = append(u, canon(r))
	}
	// dedupe
	seen := map[string]bool{}
	var uu []plat
	for _, p := range u {
		if !seen[pkey(p)] {
			seen[pkey(p)] = true
			uu = append(uu, p)
		}
	}
	sort.SliceStable(uu, func(i, j int) bool { return pkey(uu[i]) < pkey(uu[j]) })
	ht := k.tables(h, uu, false)
	// entries of the recorded list must be in the pool even when incompatible
	idx := map[string]int{}
	for i, p := range ht.pool {
		idx[pkey(p)] = i
	}
	for _, p := range uu {
		if _, ok := idx[pkey(p)]; !ok {
			ht = k.tablesForced(h, uu)
			break
		}
	}
	idx = map[string]int{}
	for i, p := range ht.pool {
		idx[pkey(p)] = i
		fmt.Printf("  entry %-40s Compatible=%v sure=%v maybe=%v exact=%v Better(entry, nothing)=%v\n", pstr(p), ht.compat[i], ht.sure[i], ht.maybe[i], ht.exact[i], platform.NewCompare(h).Better(p, plat{}))
	}
	for i, a := range ht.pool {
		for j, b := range ht.pool {
			if i != j {
				fmt.Printf("  Better(%s, %s) = %v\n", pstr(a), pstr(b), ht.better[i][j])
			}
		}
	}
	k.laws(ht, uu)
	var rawHosts, rawEntries []plat
	for _, r := range rp.Raw {
		if pkey(canon(r)) == pkey(h) {
			rawHosts = append(rawHosts, r)
		} else {
			rawEntries = append(rawEntries, r)
		}
	}
	k.aliases(ht, rawEntries, rawHosts, uu)
	if len(rp.List) > 0 {
		var list []int
		for _, p := range rp.List {
			if p == nil {
				list = append(list, len(ht.pool))
			} else {
				list = append(list, idx[pkey(*p)])
			}
		}
		k.oneList(ht, list, true, true)
	}
	rec.Eval(1)
}

// tablesForced builds host tables whose pool is exactly u (used by replay).
func (k *checker) tablesForced(h plat, u []plat) *hostTables {
	ht := &hostTables{h: h, pool: u}
	comp := platform.NewCompare(h)
	n := len(u)
	ht.compat, ht.sure, ht.maybe, ht.exact = make([]bool, n), make([]bool, n), make([]bool, n), make([]bool, n)
	ht.better = make([][]bool, n)
	for i, t := range u {
		ht.compat[i] = platform.Compatible(h, t)
		ht.sure[i], ht.maybe[i], ht.exact[i] = sure(h, t), maybe(h, t), exact(h, t)
		if ht.compat[i] {
			ht.c = append(ht.c, i)
		}
		ht.better[i] = make([]bool, n)
		for j, p := range u {
			ht.better[i][j] = comp.Better(t, p)
		}
	}
	return ht
}

