package hc16

// Universe and independent tables for C16. Nothing in this file calls into types/platform except to
// use the Platform struct as a container: the alias table, the "can run" tables and the preference
// table are written from the documentation (doc comments of types/platform and types/descriptor,
// the containerd platform conventions they cite, and the repository's TestCompare table), not from
// compare.go.

import (
	"strconv"
	"strings"

	"github.com/regclient/regclient/types/platform"
)

type plat = platform.Platform

var (
	uOS      = []string{"linux", "windows", "darwin", "freebsd", ""}
	uArch    = []string{"amd64", "386", "arm", "arm64", "ppc64le", "riscv64", "x86_64", "x86-64", "i386", "aarch64", "armhf", "armel"}
	uVariant = []string{"", "v1", "v2", "v3", "v4", "v5", "v6", "v7", "v8", "v9", "5", "6", "7", "8"}
	uOSVer   = []string{"", "10.0.17763.1", "10.0.17763.999", "10.0.20348.1", "10.0"}
)

func pkey(p plat) string { return p.OS + "|" + p.Architecture + "|" + p.Variant + "|" + p.OSVersion }

// canon is the documented alias table (containerd conventions): macos→darwin; i386→386 without
// variant; x86_64/x86-64→amd64 and amd64/v1→amd64; aarch64→arm64 and arm64/v8|8→arm64;
// armhf→arm/v7; armel→arm/v6; arm without variant→arm/v7; arm/5|6|7|8→arm/v5|v6|v7|v8.
func canon(p plat) plat {
	if p.OS == "macos" {
		p.OS = "darwin"
	}
	switch p.Architecture {
	case "i386":
		p.Architecture, p.Variant = "386", ""
	case "x86_64", "x86-64", "amd64":
		p.Architecture = "amd64"
		if p.Variant == "v1" {
			p.Variant = ""
		}
	case "aarch64", "arm64":
		p.Architecture = "arm64"
		if p.Variant == "v8" || p.Variant == "8" {
			p.Variant = ""
		}
	case "armhf":
		p.Architecture, p.Variant = "arm", "v7"
	case "armel":
		p.Architecture, p.Variant = "arm", "v6"
	case "arm":
		switch p.Variant {
		case "", "7":
			p.Variant = "v7"
		case "5", "6", "8":
			p.Variant = "v" + p.Variant
		}
	}
	return p
}

// rawUniverse is the full cross product (aliases included); withMacos adds the macos alias of darwin.
func rawUniverse(withMacos bool) []plat {
	oss := uOS
	if withMacos {
		oss = append(append([]string{}, uOS...), "macos")
	}
	var out []plat
	for _, o := range oss {
		for _, a := range uArch {
			for _, v := range uVariant {
				for _, w := range uOSVer {
					out = append(out, plat{OS: o, Architecture: a, Variant: v, OSVersion: w})
				}
			}
		}
	}
	return out
}

// canonUniverse is the raw universe reduced by the documented alias table, in first-seen order.
func canonUniverse() []plat {
	seen := map[string]bool{}
	var out []plat
	for _, p := range rawUniverse(false) {
		c := canon(p)
		if k := pkey(c); !seen[k] {
			seen[k] = true
			out = append(out, c)
		}
	}
	return out
}

func vnum(v string) int {
	n, err := strconv.Atoi(strings.TrimPrefix(v, "v"))
	if err != nil {
		return 0
	}
	return n
}

// level returns the position of a variant in the well-known ordered family of its architecture
// (x86-64 micro-architecture levels, 32-bit ARM versions, 64-bit ARM versions); ok=false for
// variants without an agreed meaning.
func level(arch, v string) (int, bool) {
	switch arch {
	case "amd64":
		switch v {
		case "":
			return 1, true
		case "v2", "v3", "v4":
			return vnum(v), true
		}
	case "arm":
		switch v {
		case "v5", "v6", "v7", "v8":
			return vnum(v), true
		}
	case "arm64":
		switch v {
		case "":
			return 8, true
		case "v9":
			return 9, true
		}
	}
	return 0, false
}

// osRuns: a host runs images of its own OS; Windows and macOS hosts also run Linux images
// ("This accounts for Docker Desktop for Mac and Windows using a Linux VM").
func osRuns(h, t string) bool {
	return h == t || ((h == "windows" || h == "darwin") && t == "linux")
}

func variantSure(arch, h, t string) bool {
	if h == t {
		return true
	}
	lh, okh := level(arch, h)
	lt, okt := level(arch, t)
	return okh && okt && lh >= lt
}

func variantMaybe(arch, h, t string) bool {
	if variantSure(arch, h, t) || vnum(h) >= vnum(t) {
		return true
	}
	if h == "" && (vnum(t) <= 1 || (arch == "arm64" && vnum(t) <= 8)) {
		return true
	}
	return false
}

func verParts(v string) []string {
	if v == "" {
		return nil
	}
	return strings.Split(v, ".")
}

func sameBuild(a, b string) bool {
	pa, pb := verParts(a), verParts(b)
	return len(pa) >= 4 && len(pb) >= 4 && pa[0] == pb[0] && pa[1] == pb[1] && pa[2] == pb[2]
}

func dottedPrefix(a, b string) bool {
	return a != "" && (b == a || strings.HasPrefix(b, a+"."))
}

func osverSure(h, t plat) bool {
	if h.OS == "windows" && t.OS == "windows" {
		return h.OSVersion == "" || h.OSVersion == t.OSVersion || sameBuild(h.OSVersion, t.OSVersion)
	}
	switch h.OS {
	case "linux", "darwin", "windows":
		return t.OSVersion == "" || t.OSVersion == h.OSVersion
	}
	return h.OSVersion == t.OSVersion
}

func osverMaybe(h, t plat) bool {
	if osverSure(h, t) {
		return true
	}
	if h.OS == "windows" && t.OS == "windows" {
		return t.OSVersion == "" || dottedPrefix(h.OSVersion, t.OSVersion) || dottedPrefix(t.OSVersion, h.OSVersion)
	}
	switch h.OS {
	case "linux", "darwin", "windows":
		return true
	}
	return h.OSVersion == "" || t.OSVersion == ""
}

// sure: the requested platform h definitely runs entry t (both canonical).
func sure(h, t plat) bool {
	return osRuns(h.OS, t.OS) && h.Architecture == t.Architecture && variantSure(h.Architecture, h.Variant, t.Variant) && osverSure(h, t)
}

// maybe: t is not ruled out as runnable on h by any documented rule (upper bound).
func maybe(h, t plat) bool {
	return osRuns(h.OS, t.OS) && h.Architecture == t.Architecture && variantMaybe(h.Architecture, h.Variant, t.Variant) && osverMaybe(h, t)
}

// exact: same canonical platform.
func exact(h, t plat) bool {
	return h.OS == t.OS && h.Architecture == t.Architecture && h.Variant == t.Variant && h.OSVersion == t.OSVersion
}

func rev(v string) (int, bool) {
	p := verParts(v)
	if len(p) < 4 {
		return 0, false
	}
	n, err := strconv.Atoi(p[3])
	return n, err == nil
}

// pref: entry a is to be preferred over entry b for host h beyond doubt:
// P1 exact over non-exact; P2 the host's own OS over the VM-hosted Linux; P3 within one OS and OS
// version the higher member of a well-known variant family; P4 on Windows within one build and
// variant the higher revision, when neither is the host's own version (TestCompare "windows patch").
// Only defined for entries the host surely runs.
func pref(h, a, b plat) (bool, string) {
	if !sure(h, a) || !maybe(h, b) {
		return false, ""
	}
	if exact(h, a) && !exact(h, b) {
		return true, "exact-over-compatible"
	}
	if !sure(h, b) || exact(h, b) {
		return false, ""
	}
	if a.OS == h.OS && b.OS != h.OS {
		return true, "own-os-over-linux-vm"
	}
	if a.OS != b.OS {
		return false, ""
	}
	if a.OSVersion == b.OSVersion && a.Variant != b.Variant && a.Variant != h.Variant && b.Variant != h.Variant {
		la, oka := level(h.Architecture, a.Variant)
		lb, okb := level(h.Architecture, b.Variant)
		if oka && okb && la > lb {
			return true, "higher-variant"
		}
	}
	if a.OS == "windows" && h.OS == "windows" && a.Variant == b.Variant && sameBuild(a.OSVersion, b.OSVersion) &&
		a.OSVersion != h.OSVersion && b.OSVersion != h.OSVersion {
		ra, oka := rev(a.OSVersion)
		rb, okb := rev(b.OSVersion)
		if oka && okb && ra > rb {
			return true, "higher-windows-revision"
		}
	}
	return false, ""
}
