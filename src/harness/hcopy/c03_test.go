package hcopy

import (
	"os"
	"encoding/json"
	"fmt"
	"sort"
	"strings"
	"testing"

	"github.com/regclient/regclient/internal/verif/audit"
	"github.com/regclient/regclient/internal/verif/ev"
	"github.com/regclient/regclient/internal/verif/explore"
	"github.com/regclient/regclient/internal/verif/modelreg"
	"github.com/regclient/regclient/internal/verif/qsched"
)

// ---- C03 oracle -------------------------------------------------------------------------------

// expectedReferrers returns the referrer manifests the copy must bring along (transitively).
func expectedReferrers(x *Exec) []string {
	if x.Sc.Opt != "referrers" && x.Sc.Opt != "referrers-filter" {
		return nil
	}
	want := map[string]bool{}
	frontier := []string{x.G.Top}
	for len(frontier) > 0 {
		s := frontier[0]
		frontier = frontier[1:]
		for _, rd := range x.G.Referrers {
			m := x.G.Manifests[rd]
			if audit.Subject(m.Body) != s || want[rd] {
				continue
			}
			if x.Sc.Opt == "referrers-filter" {
				var doc modelreg.ManDoc
				json.Unmarshal(m.Body, &doc)
				if doc.ArtifactType != "application/vnd.example.sig" {
					continue
				}
			}
			want[rd] = true
			frontier = append(frontier, rd)
		}
	}
	return sortedKeys(want)
}

// judgeC03 checks the end state after a copy that returned nil.
func judgeC03(x *Exec) (key, msg string) {
	if x.Err != nil {
		return "", ""
	}
	g := x.G
	if got := x.tgtResolve(); got != g.Top {
		return "tag-not-source-digest", fmt.Sprintf("copy returned nil but target resolves to %q, source is %s", got, g.Top)
	}
	recursive := x.Sc.Opt == "recursive"
	// a manifest that was at the target before the copy is trusted to be complete unless recursive;
	// the top-level manifest only when the target reference already resolved to it
	trust := func(d string) bool {
		if recursive {
			return false
		}
		return x.preHad(d)
	}
	// external layers are demanded only when requested and only where a transfer takes place at all:
	// a retag inside one repository copies no blobs, the repository holds what it held before
	o := audit.ClosureOpts{IncludeExternal: x.Sc.Opt == "external" && x.Sc.Pair != "same-repo", TrustManifest: trust}
	topTrusted := !recursive && x.PreTag == g.Top && x.preHad(g.Top)
	check := func(top, what string) (string, string) {
		if topTrusted && top == g.Top {
			if _, ok := x.TgtStore.Manifest(top); !ok {
				return "missing-content", fmt.Sprintf("%s: top manifest %s absent", what, short(top))
			}
			return "", ""
		}
		_, probs := audit.Closure(x.TgtStore, top, o)
		if len(probs) > 0 {
			var ps []string
			for _, p := range probs {
				ps = append(ps, p.String())
			}
			return "missing-content", fmt.Sprintf("%s: copy returned nil but the target closure of %s is incomplete: %s", what, short(top), strings.Join(ps, "; "))
		}
		return "", ""
	}
	if k, m := check(g.Top, "image"); k != "" {
		return k, m
	}
	// referrers
	for _, rd := range expectedReferrers(x) {
		if trust(rd) {
			continue
		}
		if k, m := check(rd, "referrer"); k != "" {
			return "referrer-" + k, m
		}
		// the referrer must be discoverable at the target: registries with the API derive it from
		// the stored manifest; otherwise the fallback tag of its subject must list it
		subj := audit.Subject(g.Manifests[rd].Body)
		if x.TgtRepo == nil || !x.Net.Hosts[hostOf(x)].Feat.Referrers {
			ft := strings.Replace(subj, ":", "-", 1)
			fd := x.tagResolve(ft)
			if fd == "" {
				return "referrer-not-listed", fmt.Sprintf("referrer %s copied but fallback tag %s is absent at the target", short(rd), ft)
			}
			body, ok := x.TgtStore.Manifest(fd)
			if !ok || !strings.Contains(string(body), rd) {
				return "referrer-not-listed", fmt.Sprintf("fallback tag %s at the target does not list referrer %s", ft, short(rd))
			}
		}
	}
	// digest tags
	if x.Sc.Opt == "digest-tags" {
		var ts []string
		for t := range g.Tags {
			ts = append(ts, t)
		}
		sort.Strings(ts)
		for _, tname := range ts {
			d := g.Tags[tname]
			if got := x.tagResolve(tname); got != d {
				return "digest-tag-missing", fmt.Sprintf("digest tag %s resolves to %q at the target, source has %s", tname, got, short(d))
			}
			if trust(d) {
				continue
			}
			if k, m := check(d, "digest-tag "+tname); k != "" {
				return "digest-tag-" + k, m
			}
		}
	}
	return "", ""
}

func hostOf(x *Exec) string {
	switch x.Sc.Pair {
	case "two-reg", "dir-reg":
		return tgtHost
	}
	return srcHost
}

func (x *Exec) preHad(d string) bool {
	if x.PreTgt[d] {
		return true
	}
	// layout pre-states are recorded as alg:hex file names
	return x.PreTgt[strings.Replace(d, ":", ":", 1)]
}

func (x *Exec) tagResolve(tag string) string {
	if x.TgtRepo != nil {
		return x.TgtRepo.Tags[tag]
	}
	_, tags, _, _, err := audit.ReadLayout(x.TgtDir)
	if err != nil {
		return ""
	}
	return tags[tag]
}

// outcome string used to count distinct observable outcomes
func (x *Exec) outcome() string {
	e := "ok"
	if x.Err != nil {
		e = "err"
	}
	n := 0
	for _, l := range x.Net.Log {
		if l.Mutating() {
			n++
		}
	}
	return fmt.Sprintf("%s resolve=%s reqs=%d mut=%d", e, short(x.tgtResolve()), len(x.Net.Log), n)
}

// ---- scenario enumeration ---------------------------------------------------------------------

var allPairs = []string{"same-repo", "same-reg-grant", "same-reg-refuse", "two-reg", "reg-dir", "dir-reg", "dir-dir"}

func optsFor(g string) []string {
	o := []string{"default", "recursive", "fast"}
	switch strings.TrimSuffix(g, "-512") {
	case "G13", "G23":
		o = append(o, "referrers", "referrers-filter")
	case "G14", "G21":
		o = append(o, "digest-tags")
	case "G9":
		o = append(o, "external")
	}
	return o
}

func featsFor(sc Scen) []string {
	if strings.HasPrefix(sc.Pair, "dir-") && strings.HasSuffix(sc.Pair, "-dir") {
		return []string{"full"}
	}
	f := []string{"full"}
	if sc.Opt == "referrers" || sc.Opt == "referrers-filter" {
		f = append(f, "noref")
		if sc.Pair == "two-reg" {
			// the source has the API, the target keeps the fallback tag: nothing is copied over it
			f = append(f, "noref-tgt")
		}
	}
	if sc.Opt == "default" && (sc.Graph == "G3" || sc.Graph == "G1") {
		f = append(f, "nohead")
	}
	return f
}

// breadth: every graph × pairing × option × feature set × {empty, complete, stale}
func breadthScenarios() []Scen {
	var out []Scen
	for _, g := range graphsAll() {
		for _, p := range allPairs {
			for _, o := range optsFor(g) {
				base := Scen{Graph: g, Pair: p, Opt: o}
				for _, f := range featsFor(base) {
					for _, pre := range []string{"empty", "complete", "stale"} {
						sc := base
						sc.Feat, sc.Pre = f, pre
						out = append(out, sc)
					}
				}
			}
		}
	}
	for _, p := range allPairs {
		if p != "same-repo" {
			out = append(out, Scen{Graph: "G21", Pair: p, Opt: "digest-tags", Feat: "full", Pre: "empty", ByDigest: true})
			out = append(out, Scen{Graph: "G14", Pair: p, Opt: "digest-tags", Feat: "full", Pre: "empty", ByDigest: true})
		}
	}
	// by-digest targets
	for _, g := range []string{"G1", "G3", "G4"} {
		for _, p := range []string{"two-reg", "reg-dir", "same-reg-grant"} {
			out = append(out, Scen{Graph: g, Pair: p, Opt: "default", Feat: "full", Pre: "empty", ByDigest: true})
		}
	}
	return out
}

func graphsAll() []string {
	return []string{"G1", "G2", "G3", "G4", "G5", "G6", "G7", "G8", "G9", "G10", "G11", "G12", "G13", "G14", "G15", "G16", "G17", "G18", "G19", "G20", "G21", "G22", "G1-512", "G3-512"}
}

// masks: every subset of the source closure pre-existing at the target
func maskScenarios(thorough bool) []Scen {
	var out []Scen
	gs := []string{"G1", "G3", "G5", "G6", "G10"}
	pairs := []string{"two-reg", "same-reg-grant"}
	opts := []string{"default", "recursive"}
	if thorough {
		gs = append(gs, "G4", "G11", "G15", "G2")
		pairs = append(pairs, "same-reg-refuse", "reg-dir")
	}
	for _, gname := range gs {
		n := len(getGraph(gname).AllDigests())
		if n > 9 && !thorough {
			continue
		}
		if n > 11 {
			continue
		}
		for m := 1; m < (1<<n)-1; m++ {
			bits := make([]byte, n)
			for i := range bits {
				bits[i] = '0'
				if m&(1<<i) != 0 {
					bits[i] = '1'
				}
			}
			for _, p := range pairs {
				for _, o := range opts {
					out = append(out, Scen{Graph: gname, Pair: p, Opt: o, Feat: "full", Pre: "mask:" + string(bits)})
				}
			}
		}
	}
	return out
}

func halfMask(gname string) string {
	n := len(getGraph(gname).AllDigests())
	b := make([]byte, n)
	for i := range b {
		b[i] = '0'
		if i%2 == 0 {
			b[i] = '1'
		}
	}
	return "mask:" + string(b)
}

type schedItem struct {
	Sc        Scen
	Bound     int
	BranchAll bool // branch at every point (mutex acquisitions too), not only at request arrivals
}

// schedScenarios are explored with departures from the default schedule
func schedScenarios(thorough bool) []schedItem {
	var out []schedItem
	regPairs := []string{"two-reg", "same-reg-refuse", "same-reg-grant", "dir-reg"}
	dirPairs := []string{"reg-dir", "dir-dir"}
	// bound 1 everywhere
	for _, g := range graphsAll() {
		for _, p := range append(append([]string{}, regPairs...), dirPairs...) {
			for _, pre := range []string{"empty", halfMask(g)} {
				if strings.HasSuffix(p, "-dir") && pre != "empty" {
					continue
				}
				opt := "default"
				switch g {
				case "G13":
					opt = "referrers"
				case "G14", "G21":
					opt = "digest-tags"
				case "G9":
					opt = "external"
				}
				b := 1
				if thorough && !strings.HasSuffix(p, "-dir") {
					b = 2
				}
				out = append(out, schedItem{Scen{Graph: g, Pair: p, Opt: opt, Feat: "full", Pre: pre}, b, false})
			}
		}
	}
	out = append(out, schedItem{Scen{Graph: "G13", Pair: "two-reg", Opt: "referrers", Feat: "noref", Pre: "empty"}, 1, false})
	out = append(out, schedItem{Scen{Graph: "G13", Pair: "reg-dir", Opt: "referrers", Feat: "noref", Pre: "empty"}, 1, false})
	out = append(out, schedItem{Scen{Graph: "G13", Pair: "two-reg", Opt: "referrers", Feat: "noref-tgt", Pre: "empty"}, 2, false})
	// sibling referrers of one subject: every registration in the target's fallback tag must survive
	for _, f := range []string{"noref-tgt", "noref", "full"} {
		out = append(out, schedItem{Scen{Graph: "G23", Pair: "two-reg", Opt: "referrers", Feat: f, Pre: "empty"}, 1, false})
		out = append(out, schedItem{Scen{Graph: "G23", Pair: "two-reg", Opt: "referrers", Feat: f, Pre: "empty", Stall: true}, 1, false})
	}
	out = append(out, schedItem{Scen{Graph: "G23", Pair: "reg-dir", Opt: "referrers", Feat: "full", Pre: "empty"}, 1, false})
	// a client that has been used before the copy (response cache on)
	for _, g := range []string{"G13", "G23"} {
		for _, p := range []string{"two-reg", "reg-dir", "same-reg-grant"} {
			for _, opt := range []string{"referrers", "referrers-filter"} {
				for _, wm := range []string{"list-filtered", "list", "head"} {
					out = append(out, schedItem{Scen{Graph: g, Pair: p, Opt: opt, Feat: "full", Pre: "empty", Warm: wm}, 0, false})
				}
			}
		}
	}
	// one persistent delay (a goroutine stalled while all its siblings run on) on the graphs with
	// shared or attached content
	for _, g := range []string{"G3", "G4", "G5", "G13", "G14", "G15", "G19", "G21"} {
		opt := "default"
		switch g {
		case "G13":
			opt = "referrers"
		case "G14", "G21":
			opt = "digest-tags"
		}
		for _, p := range []string{"two-reg", "same-reg-refuse"} {
			out = append(out, schedItem{Scen{Graph: g, Pair: p, Opt: opt, Feat: "full", Pre: "empty", Stall: true}, 1, false})
		}
	}
	out = append(out, schedItem{Scen{Graph: "G13", Pair: "two-reg", Opt: "referrers", Feat: "noref-tgt", Pre: "empty", Stall: true}, 1, false})
	out = append(out, schedItem{Scen{Graph: "G15", Pair: "two-reg", Opt: "recursive", Feat: "full", Pre: halfMask("G15")}, 1, false})
	// bound 2 on the graphs with shared content
	if !thorough {
		for _, g := range []string{"G3", "G4", "G5", "G15"} {
			for _, p := range []string{"two-reg", "same-reg-refuse"} {
				for _, pre := range []string{"empty", halfMask(g)} {
					out = append(out, schedItem{Scen{Graph: g, Pair: p, Opt: "default", Feat: "full", Pre: pre}, 2, false})
				}
			}
		}
		out = append(out, schedItem{Scen{Graph: "G13", Pair: "two-reg", Opt: "referrers", Feat: "full", Pre: "empty"}, 2, false})
	}
	// every point (mutex acquisitions of the seen-map, throttles, host table ...) with one departure
	all := []string{"G3", "G5", "G15"}
	if thorough {
		all = []string{"G3", "G4", "G5", "G13", "G15", "G18"}
	}
	for _, g := range all {
		opt := "default"
		if g == "G13" {
			opt = "referrers"
		}
		out = append(out, schedItem{Scen{Graph: g, Pair: "two-reg", Opt: opt, Feat: "full", Pre: "empty"}, 1, true})
	}
	return out
}

func schedCfg(sc Scen, branchAll bool) qsched.Config {
	cfg := qsched.Config{Mode: qsched.Delay, Horizon: 6000}
	if sc.Stall {
		cfg.Mode = qsched.Demote
	}
	if branchAll || strings.HasSuffix(sc.Pair, "-dir") || strings.HasPrefix(sc.Pair, "dir-") {
		// layouts have no request stream to branch on: branch at every mutex acquisition too
		cfg.Branch = nil
	} else {
		cfg.Branch = map[qsched.Kind]bool{qsched.KHTTP: true, qsched.KStart: true}
		if sc.LogPoints {
			cfg.Branch[qsched.KYield] = true
		}
		if sc.CopyLocks {
			cfg.Branch[qsched.KLock] = true
			cfg.BranchCaller = func(fn string) bool { return strings.HasPrefix(fn, "github.com/regclient/regclient.") }
		}
	}
	return cfg
}

type copyReplay struct {
	Check   string `json:"check"`
	Scen    Scen   `json:"scenario"`
	Bound   int    `json:"bound"`
	All     bool   `json:"branch_all,omitempty"`
	Choices []int  `json:"choices"`
}

// exploreScen runs the explorer for one scenario and feeds the recorder.
func exploreScen(t *testing.T, rec *ev.Rec, check string, sc Scen, bound int, branchAll bool, judge func(x *Exec) (string, string), states map[string]struct{}, trans *int64) {
	p := Params{CancelAt: -1, Sched: schedCfg(sc, branchAll)}
	run := func(c *explore.Ctx) explore.Result {
		x, cl := Run(t, c, sc, p, rec.Scratch)
		defer cl()
		r := explore.Result{Outcome: x.outcome()}
		k, m := schedProblems(x)
		if k == "" {
			k, m = judge(x)
		}
		if k != "" {
			r.VKey, r.Violation = k, m
		}
		for _, l := range x.LogSummary() {
			c.Logf("%s", l)
		}
		c.Logf("err=%s", errText(x))
		if states != nil {
			states[x.Net.Snapshot()+"|"+strings.Join(audit.BlobFiles(x.TgtDir), ",")] = struct{}{}
			*trans += int64(len(x.Net.Log))
		}
		return r
	}
	ex := &explore.Explorer{Bound: bound, Run: run, Stop: rec.Expired, DetCheckEvery: 211}
	ex.OnExec = func(c *explore.Ctx, r explore.Result) {
		if r.Violation != "" {
			for i := 0; i < 3; i++ {
				c2 := explore.NewCtx(c.Choices())
				r2 := run(c2)
				if r2.VKey != r.VKey {
					rec.HarnessError("%s: violation %q of %s not reproduced on replay (got %q)", check, r.VKey, sc, r2.VKey)
					return
				}
			}
			rec.Violation(r.VKey+" "+sc.String(), r.Violation+"\nschedule: "+c.Describe(), copyReplay{Check: check, Scen: sc, Bound: bound, All: branchAll, Choices: explore.Trim(c.Choices())})
		}
		rec.Distinct(sc.String() + "#" + r.Outcome + "#" + fmt.Sprint(c.Cost > 0))
		if c.Cost == 0 && strings.HasPrefix(r.Outcome, "err") {
			// vacuity guard: a scenario whose default execution already fails exercises nothing
			rec.Count("scenarios_failing_on_the_default_schedule", 1)
			rec.Note("fails on the default schedule: " + sc.String())
		}
	}
	func() {
		defer func() {
			if r := recover(); r != nil {
				rec.HarnessError("%s scenario %s: %v", check, sc, r)
			}
		}()
		ex.Explore()
	}()
	rec.Eval(ex.Stats.Executions)
	rec.Count("executions_bound"+fmt.Sprint(bound), ex.Stats.Executions)
	rec.Count("choice_points", ex.Stats.Branching)
	rec.Count("deviating_executions", ex.Stats.Deviating)
	rec.Count("distinct_outcomes", int64(len(ex.Stats.Outcomes)))
	rec.Count("scenarios", 1)
	if ex.Stats.Capped {
		rec.NotExhaustive(fmt.Sprintf("budget reached inside scenario %s (bound %d)", sc, bound))
	}
}

func schedProblems(x *Exec) (string, string) {
	if x.Out.Panic != nil {
		return "panic", fmt.Sprintf("panic during copy: %v", x.Out.Panic)
	}
	if x.Out.Deadlock {
		return "observed:deadlock", "copy deadlocked: " + x.Out.DeadlockAt
	}
	if x.Out.Horizon {
		return "observed:no-termination", "copy did not finish within the step horizon"
	}
	return "", ""
}

func runReplay(t *testing.T, rec *ev.Rec, judge func(x *Exec) (string, string)) bool {
	rd := rec.ReplayData()
	if rd == nil {
		return false
	}
	var rp copyReplay
	if err := json.Unmarshal(rd, &rp); err != nil {
		rec.HarnessError("replay: %v", err)
		return true
	}
	c := explore.NewCtx(rp.Choices)
	p := Params{CancelAt: -1, Sched: schedCfg(rp.Scen, rp.All)}
	p.Sched.Trace = true
	x, cl := Run(t, c, rp.Scen, p, rec.Scratch)
	defer cl()
	k, m := schedProblems(x)
	if k == "" {
		k, m = judge(x)
	}
	if os.Getenv("VERIF_SCHEDTRACE") != "" {
		fmt.Println(strings.Join(c.Log(), "\n"))
	}
	fmt.Printf("replay %s choices=%v err=%v\n%s\nverdict: %s %s\n", rp.Scen, rp.Choices, x.Err, strings.Join(x.LogSummary(), "\n"), k, m)
	rec.Eval(1)
	if k != "" {
		rec.Violation(k+" "+rp.Scen.String(), m, rp)
	}
	return true
}

func TestVerifC03(t *testing.T) {
	rec := ev.New()
	defer rec.Flush(t)
	rec.Rule("scenario = image graph × endpoint pairing × copy options × registry features × target pre-state (empty / complete / stale tag / every subset of the source closure); " +
		"each scenario is executed on the real regclient.ImageCopy under the controlled scheduler: bound 0 = the default schedule, bound k = every schedule with at most k departures from it at request arrivals (and mutex acquisitions for layouts). " +
		"Oracle: independent closure walk of the raw target store. distinct_nontrivial = distinct (scenario, outcome, deviating?) triples")
	rec.Assume("blob contents are a few bytes; the model registry (validated against olareg in C06/C10 conformance) defines a conforming destination")
	if runReplay(t, rec, judgeC03) {
		return
	}
	states := map[string]struct{}{}
	var trans int64
	i := 0
	next := func() bool { i++; return rec.Mine(i - 1) }
	// 1. breadth at the default schedule
	for _, sc := range breadthScenarios() {
		if !next() {
			continue
		}
		if rec.Expired() {
			rec.NotExhaustive("budget reached in breadth scenarios")
			break
		}
		exploreScen(t, rec, "C03", sc, 0, false, judgeC03, states, &trans)
	}
	// 2. every subset of the closure pre-existing
	for _, sc := range maskScenarios(rec.Thorough()) {
		if !next() {
			continue
		}
		if rec.Expired() {
			rec.NotExhaustive("budget reached in pre-state subset scenarios")
			break
		}
		exploreScen(t, rec, "C03", sc, 0, false, judgeC03, states, &trans)
	}
	// 3. schedules
	items := schedScenarios(rec.Thorough())
	// most expensive first so that the round-robin shard assignment balances
	sort.SliceStable(items, func(a, b int) bool {
		wa, wb := items[a].Bound*2, items[b].Bound*2
		if items[a].BranchAll {
			wa += 3
		}
		if items[b].BranchAll {
			wb += 3
		}
		return wa > wb
	})
	for _, it := range items {
		if !next() {
			continue
		}
		if rec.Expired() {
			rec.NotExhaustive("budget reached in schedule scenarios")
			break
		}
		exploreScen(t, rec, "C03", it.Sc, it.Bound, it.BranchAll, judgeC03, states, &trans)
	}
	rec.States(int64(len(states)))
	rec.Transitions(trans)
	rec.Sample(map[string]any{"scenario": Scen{Graph: "G15", Pair: "two-reg", Opt: "recursive", Feat: "full", Pre: halfMask("G15")}.String(), "explored_with_bound": 1})
}
