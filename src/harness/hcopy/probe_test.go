package hcopy

import (
	"fmt"
	"os"
	"testing"
	"time"

	"github.com/regclient/regclient/internal/verif/explore"
	"github.com/regclient/regclient/internal/verif/qsched"
)

func TestProbeCopy(t *testing.T) {
	if os.Getenv("VERIF_PROBE") == "" {
		t.Skip()
	}
	for _, sc := range []Scen{
		{Graph: "G1", Pair: "two-reg", Opt: "default", Feat: "full", Pre: "empty"},
		{Graph: "G3", Pair: "two-reg", Opt: "default", Feat: "full", Pre: "empty"},
		{Graph: "G3", Pair: "same-reg-grant", Opt: "default", Feat: "full", Pre: "empty"},
		{Graph: "G3", Pair: "reg-dir", Opt: "default", Feat: "full", Pre: "empty"},
		{Graph: "G13", Pair: "two-reg", Opt: "referrers", Feat: "noref", Pre: "empty"},
		{Graph: "G3", Pair: "dir-dir", Opt: "default", Feat: "full", Pre: "empty"},
	} {
		start := time.Now()
		c := explore.NewCtx(nil)
		x, cl := Run(t, c, sc, Params{CancelAt: -1, Sched: qsched.Config{Mode: qsched.Delay, Branch: map[qsched.Kind]bool{qsched.KHTTP: true}}}, os.TempDir())
		fmt.Printf("%s: err=%v points=%d grants=%d reqs=%d leaked=%v deadlock=%v monitor=%v took=%v resolve=%s\n", sc, x.Err, len(c.Points), x.Out.Grants, len(x.Net.Log), x.Leaked, x.Out.Deadlock, x.Monitor, time.Since(start), x.tgtResolve())
		if os.Getenv("VERIF_PROBE") == "2" {
			for _, l := range x.LogSummary() {
				fmt.Println("   ", l)
			}
		}
		cl()
	}
}
