package hcopy

// Shared execution harness for C03 (complete copy), C04 (ordering / failure atomicity) and C14
// (transfer minimality): one real regclient.ImageCopy between model registries and/or OCI layout
// directories, run under the controlled scheduler inside a synctest bubble.

import (
	"net/http"
	"context"
	"encoding/json"
	"errors"
	"fmt"
	"log/slog"
	"os"
	"path/filepath"
	"sort"
	"strings"
	"testing"
	"time"

	"github.com/regclient/regclient"
	"github.com/regclient/regclient/config"
	"github.com/regclient/regclient/internal/verif/audit"
	"github.com/regclient/regclient/internal/verif/explore"
	"github.com/regclient/regclient/internal/verif/graphs"
	"github.com/regclient/regclient/internal/verif/modelreg"
	"github.com/regclient/regclient/internal/verif/qsched"
	"github.com/regclient/regclient/internal/verif/rcenv"
	"github.com/regclient/regclient/scheme"
	"github.com/regclient/regclient/scheme/reg"
	"github.com/regclient/regclient/types/descriptor"
	"github.com/regclient/regclient/types/ref"
)

type Scen struct {
	Graph    string `json:"graph"`
	Pair     string `json:"pair"` // same-repo, same-reg-grant, same-reg-refuse, two-reg, reg-dir, dir-reg, dir-dir
	Opt      string `json:"opt"`  // default, recursive, referrers, referrers-filter, digest-tags, external, fast
	Feat     string `json:"feat"` // full, noref (no referrers API), noref-tgt (only the target registry lacks it), nohead (no digest header), novalidate
	Pre      string `json:"pre"`  // empty, complete, stale, mask:<bits>
	ByDigest bool   `json:"by_digest,omitempty"`
	// Retry: the client's manifest cache is on (as regctl configures it) and a copy that failed is
	// repeated once through the same client, without faults
	Retry bool `json:"retry,omitempty"`
	// Mirrors: the client's configuration names a mirror for the source and another for the target
	// registry; both mirrors are reachable and hold nothing
	Mirrors bool `json:"mirrors,omitempty"`
	// Stall: schedules are enumerated by persistent delays (qsched.Demote): a delayed goroutine
	// stays behind all others, so one departure stalls it while its siblings run on
	Stall bool `json:"stall,omitempty"`
	// CopyLocks: besides request arrivals, schedules also branch at every mutex acquisition made by
	// the copy's own bookkeeping (functions of the root package: the seen-map, the final-function list)
	CopyLocks bool `json:"copy_locks,omitempty"`
	// Warm: the client (response cache on, as the command line tools configure it) was used before the
	// copy: "list-filtered" = the referrers of the source image were listed with an artifact-type
	// filter, "list" = without one, "head" = the source manifest was looked at
	Warm string `json:"warm,omitempty"`
	// FailShared: the source never serves the blobs that more than one manifest of the image names
	// (GET answered 404 every time): the environment of the scenario, not a deviation. LogPoints:
	// every log record of warning level or above that the client emits is a scheduling point, so that
	// a goroutine can be held between publishing a result and acting on it (goroutines woken through a
	// channel otherwise run on in an order the scheduler does not choose)
	FailShared bool `json:"fail_shared,omitempty"`
	LogPoints  bool `json:"log_points,omitempty"`
}

func (s Scen) String() string {
	d := ""
	if s.ByDigest {
		d = " by-digest"
	}
	if s.Retry {
		d += " cache+retry"
	}
	if s.Mirrors {
		d += " empty-mirrors"
	}
	if s.Stall {
		d += " stalls"
	}
	if s.CopyLocks {
		d += " copy-locks"
	}
	if s.Warm != "" {
		d += " warm=" + s.Warm
	}
	if s.FailShared {
		d += " shared-blobs-unservable"
	}
	if s.LogPoints {
		d += " log-points"
	}
	return fmt.Sprintf("%s %s opt=%s feat=%s pre=%s%s", s.Graph, s.Pair, s.Opt, s.Feat, s.Pre, d)
}

const (
	srcHost = "src.example"
	tgtHost = "tgt.example"
	srcRepo = "proj/src"
	tgtRepo = "proj/tgt"
	srcTag  = "v1"
	tgtTag  = "copy"
)

var graphCache = map[string]*graphs.Graph{}

func getGraph(name string) *graphs.Graph {
	if g, ok := graphCache[name]; ok {
		return g
	}
	g := graphs.Build(name)
	graphCache[name] = g
	return g
}

// staleGraph is what a "stale" target tag points to before the copy.
func staleGraph() *graphs.Graph {
	if g, ok := graphCache["_stale"]; ok {
		return g
	}
	g := graphs.New("stale", "sha256")
	g.Top = g.SimpleImage(false, "amd64", "stale-layer").Digest
	graphCache["_stale"] = g
	return g
}

type Params struct {
	Sched qsched.Config
	// Decide is consulted for every request (after the monitor); may inject a fault.
	Decide func(x *Exec, e *modelreg.Entry) *modelreg.Answer
	// CancelAt >= 0 cancels the caller's context when request number CancelAt arrives.
	CancelAt int
	NoSched  bool // run without the scheduler (sequential probes)
}

type Exec struct {
	Sc       Scen
	C        *explore.Ctx
	G        *graphs.Graph
	Net      *modelreg.Net
	Src, Tgt ref.Ref
	SrcStore audit.Store
	TgtStore audit.Store
	TgtRepo  *modelreg.Repo // nil for layout targets
	TgtDir   string
	SrcDir   string
	PreTgt   map[string]bool // digests present at the target before the copy
	PreTag   string          // what the target tag resolved to before ("" = absent)
	Err      error
	Out      qsched.Outcome
	Leaked   bool
	Monitor  []string // ordering violations seen while the copy ran (C04)
	Cancel   context.CancelFunc
	nreq     int
	tmp      string
	Faults []string
	Second bool // the repeated copy of a Retry scenario is running (no faults are offered)
	Err1   error
	// for C04: sequence number of the first request that found the requested reference moved
	// (0 = not seen moved at any request), and of the last injected fault
	TagAt     int
	LastFault int
}

func (x *Exec) tgtIsDir() bool { return strings.HasSuffix(x.Sc.Pair, "-dir") }
func (x *Exec) srcIsDir() bool { return strings.HasPrefix(x.Sc.Pair, "dir-") }

// featuresTgt: the feature set of a target registry that is a host of its own.
func featuresTgt(sc Scen) modelreg.Features {
	if sc.Feat == "noref-tgt" {
		sc.Feat = "noref"
	}
	return features(sc)
}

func features(sc Scen) modelreg.Features {
	f := modelreg.Full()
	switch sc.Feat {
	case "noref":
		f.Referrers = false
		f.OCISubject = false
	case "nohead":
		f.NoHeadDigest = true
	case "novalidate":
		f.ValidateRefs = false
	}
	if sc.Pair == "same-reg-refuse" {
		f.Mount = "refuse"
	}
	if sc.Warm != "" {
		// the registry applies the artifactType filter of a referrers request itself (OCI-Filters-Applied)
		f.ReferrersFilt = true
	}
	return f
}

// tgtTagDigest resolves the target ref in raw storage.
func (x *Exec) tgtResolve() string {
	if x.Sc.ByDigest {
		if _, ok := x.TgtStore.Manifest(x.G.Top); ok {
			return x.G.Top
		}
		return ""
	}
	if x.TgtRepo != nil {
		return x.TgtRepo.Tags[tgtTag]
	}
	_, tags, _, _, err := audit.ReadLayout(x.TgtDir)
	if err != nil {
		return ""
	}
	return tags[tgtTag]
}

func copyOpts(sc Scen) []regclient.ImageOpts {
	switch sc.Opt {
	case "recursive":
		return []regclient.ImageOpts{regclient.ImageWithForceRecursive()}
	case "referrers":
		return []regclient.ImageOpts{regclient.ImageWithReferrers()}
	case "referrers-filter":
		return []regclient.ImageOpts{regclient.ImageWithReferrers(scheme.WithReferrerMatchOpt(descMatchSig()))}
	case "digest-tags":
		return []regclient.ImageOpts{regclient.ImageWithDigestTags()}
	case "external":
		return []regclient.ImageOpts{regclient.ImageWithIncludeExternal()}
	case "fast":
		return []regclient.ImageOpts{regclient.ImageWithFastCheck()}
	}
	return nil
}

// setup builds the world for one execution.
func setup(t *testing.T, c *explore.Ctx, sc Scen, scratch string) *Exec {
	x := &Exec{Sc: sc, C: c, G: getGraph(sc.Graph), PreTgt: map[string]bool{}}
	g := x.G
	x.Net = modelreg.NewNet()
	f := features(sc)
	var err error
	// source
	if x.srcIsDir() {
		x.SrcDir = filepath.Join(scratch, "src")
		gg := g
		if len(g.Referrers) > 0 {
			gg = cloneWithFallback(g)
		}
		if err := gg.WriteLayout(x.SrcDir, srcTag); err != nil {
			t.Fatalf("write layout: %v", err)
		}
		x.SrcStore = audit.DirStore{Dir: x.SrcDir}
		x.Src, err = ref.New("ocidir://" + x.SrcDir + ":" + srcTag)
	} else {
		h := x.Net.AddHost(srcHost, f)
		r := h.Repo(srcRepo)
		gg := g
		if len(g.Referrers) > 0 && !f.Referrers {
			gg = cloneWithFallback(g)
		}
		gg.Load(r, srcTag)
		x.SrcStore = audit.RepoStore{R: r}
		x.Src, err = ref.New(srcHost + "/" + srcRepo + ":" + srcTag)
		if len(g.External) > 0 {
			eh := x.Net.AddHost("external.example", modelreg.Features{})
			eh.Static = map[string][]byte{}
			for d := range g.External {
				eh.Static["/"+d] = externalContent(g, d)
			}
		}
	}
	if err != nil {
		t.Fatalf("src ref: %v", err)
	}
	// target
	var tr *modelreg.Repo
	switch sc.Pair {
	case "same-repo":
		tr = x.Net.Hosts[srcHost].Repo(srcRepo)
		x.Tgt, err = ref.New(srcHost + "/" + srcRepo + ":" + tgtTag)
	case "same-reg-grant", "same-reg-refuse":
		tr = x.Net.Hosts[srcHost].Repo(tgtRepo)
		x.Tgt, err = ref.New(srcHost + "/" + tgtRepo + ":" + tgtTag)
	case "two-reg", "dir-reg":
		h := x.Net.AddHost(tgtHost, featuresTgt(sc))
		tr = h.Repo(tgtRepo)
		x.Tgt, err = ref.New(tgtHost + "/" + tgtRepo + ":" + tgtTag)
	case "reg-dir", "dir-dir":
		x.TgtDir = filepath.Join(scratch, "tgt")
		x.Tgt, err = ref.New("ocidir://" + x.TgtDir + ":" + tgtTag)
	default:
		t.Fatalf("unknown pairing %q", sc.Pair)
	}
	if err != nil {
		t.Fatalf("tgt ref: %v", err)
	}
	if sc.ByDigest {
		x.Src = x.Src.SetDigest(g.Top)
		x.Tgt = x.Tgt.SetDigest(g.Top)
	}
	x.TgtRepo = tr
	// pre-state of the target
	keep := preKeep(g, sc.Pre)
	if tr != nil {
		x.TgtStore = audit.RepoStore{R: tr}
		if sc.Pair != "same-repo" {
			if keep != nil {
				g.LoadSubset(tr, keep)
			}
			switch sc.Pre {
			case "complete":
				tr.Tags[tgtTag] = g.Top
			case "stale":
				staleGraph().Load(tr, tgtTag)
			}
		} else if sc.Pre == "stale" {
			staleGraph().Load(tr, tgtTag)
		} else if sc.Pre == "complete" {
			tr.Tags[tgtTag] = g.Top
		}
		for d := range tr.Blobs {
			x.PreTgt[d] = true
		}
		for d := range tr.Manifests {
			x.PreTgt[d] = true
		}
		x.PreTag = tr.Tags[tgtTag]
	} else {
		x.TgtStore = audit.DirStore{Dir: x.TgtDir}
		switch sc.Pre {
		case "complete":
			if err := g.WriteLayout(x.TgtDir, tgtTag); err != nil {
				t.Fatal(err)
			}
			x.PreTag = g.Top
		case "stale":
			if err := staleGraph().WriteLayout(x.TgtDir, tgtTag); err != nil {
				t.Fatal(err)
			}
			x.PreTag = staleGraph().Top
		case "empty":
		default:
			if keep != nil {
				// partial layout: files present, index empty
				sub := graphs.New("sub", g.Algo)
				for d, b := range g.Blobs {
					if keep(d) {
						sub.Blobs[d] = b
					}
				}
				for d, m := range g.Manifests {
					if keep(d) {
						sub.Manifests[d] = m
					}
				}
				if err := graphs.WriteLayout(x.TgtDir, []*graphs.Graph{sub}, [][]string{nil}); err != nil {
					t.Fatal(err)
				}
			}
		}
		for _, f := range audit.BlobFiles(x.TgtDir) {
			x.PreTgt[f] = true
		}
	}
	return x
}

func externalContent(g *graphs.Graph, d string) []byte {
	// content was recorded when the foreign descriptor was built: recompute from the known strings
	for _, c := range []string{"foreign-content"} {
		if modelreg.Digest(g.Algo, []byte(c)) == d {
			return []byte(c)
		}
	}
	return nil
}

func cloneWithFallback(g *graphs.Graph) *graphs.Graph {
	key := g.Name + "+fallback"
	if c, ok := graphCache[key]; ok {
		return c
	}
	c := graphs.Build(g.Name)
	c.FallbackTags()
	graphCache[key] = c
	return c
}

// preKeep turns a pre-state name into a digest filter (nil = nothing preloaded).
func preKeep(g *graphs.Graph, pre string) func(string) bool {
	switch {
	case pre == "complete":
		return func(string) bool { return true }
	case strings.HasPrefix(pre, "mask:"):
		ds := g.AllDigests()
		bits := pre[len("mask:"):]
		set := map[string]bool{}
		for i, d := range ds {
			if i < len(bits) && bits[i] == '1' {
				set[d] = true
			}
		}
		return func(d string) bool { return set[d] }
	}
	return nil
}

// errText is the error of the run with the per-execution scratch directory name taken out, so that two
// replays of one choice list log the same text.
func errText(x *Exec) string {
	if x.Err == nil {
		return "<nil>"
	}
	s := x.Err.Error()
	if x.tmp != "" {
		s = strings.ReplaceAll(s, x.tmp, "$SCRATCH")
	}
	return s
}

// Run executes one copy. The returned cleanup removes the scratch directory (layout targets must be
// judged before it is called).
func Run(t *testing.T, c *explore.Ctx, sc Scen, p Params, scratchRoot string) (*Exec, func()) {
	scratch, err := os.MkdirTemp(scratchRoot, "x")
	if err != nil {
		t.Fatal(err)
	}
	cleanup := func() { os.RemoveAll(scratch) }
	var x *Exec
	leaked, other := qsched.Bubble(t, func() {
		x = setup(t, c, sc, scratch)
		x.tmp = scratch
		var sched *qsched.Sched
		x.Net.OnArrive = func(e *modelreg.Entry) {
			n := x.nreq
			x.nreq++
			if p.CancelAt >= 0 && n == p.CancelAt && x.Cancel != nil {
				x.Faults = append(x.Faults, fmt.Sprintf("cancel@%d", n))
				x.Cancel()
			}
			if sched != nil {
				l := ""
				if p.Sched.Trace {
					l = e.Method + " " + e.Host + " " + e.Path
				}
				sched.Point(qsched.KHTTP, l)
			}
		}
		shared := map[string]bool{}
		if sc.FailShared {
			cnt := map[string]int{}
			for _, m := range x.G.Manifests {
				seen := map[string]bool{}
				for _, d := range audit.References(m.Body, false) {
					if _, isBlob := x.G.Blobs[d]; isBlob && !seen[d] {
						seen[d] = true
						cnt[d]++
					}
				}
			}
			for d, n := range cnt {
				if n > 1 {
					shared[d] = true
				}
			}
		}
		x.Net.Decide = func(e *modelreg.Entry) *modelreg.Answer {
			x.monitor(e)
			if sc.FailShared && e.Method == "GET" && e.Host == srcHost && e.Kind == "blob-get" && shared[e.Ref] {
				if p.Decide != nil {
					x.invariant("before request " + fmt.Sprint(e.Seq))
				}
				return &modelreg.Answer{Status: 404, Header: http.Header{}, Body: []byte(`{"errors":[{"code":"BLOB_UNKNOWN"}]}`), Note: "env-unservable"}
			}
			if p.Decide != nil {
				return p.Decide(x, e)
			}
			return nil
		}
		hosts := []string{srcHost, tgtHost, "external.example"}
		ro := rcenv.Opts{}
		if os.Getenv("VERIF_TRACE") != "" {
			ro.Slog = slog.New(slog.NewTextHandler(os.Stdout, &slog.HandlerOptions{Level: slog.LevelDebug}))
		}
		if sc.LogPoints {
			ro.Slog = slog.New(&pointLog{at: func() {
				if sched != nil {
					sched.Point(qsched.KYield, "log")
				}
			}})
		}
		if sc.Retry || sc.Warm != "" {
			ro.RegOpts = []reg.Opts{reg.WithCache(5*time.Minute, 500)}
		}
		if sc.Mirrors {
			for _, m := range []string{"srcmirror.example", "tgtmirror.example"} {
				if x.Net.Hosts[m] == nil {
					x.Net.AddHost(m, modelreg.Full())
				}
			}
			for _, h := range hosts {
				hc := config.Host{Name: h, Hostname: h, TLS: config.TLSDisabled}
				switch h {
				case srcHost:
					hc.Mirrors = []string{"srcmirror.example"}
				case tgtHost:
					hc.Mirrors = []string{"tgtmirror.example"}
				}
				ro.Hosts = append(ro.Hosts, hc)
			}
			ro.Hosts = append(ro.Hosts, config.Host{Name: "srcmirror.example", Hostname: "srcmirror.example", TLS: config.TLSDisabled},
				config.Host{Name: "tgtmirror.example", Hostname: "tgtmirror.example", TLS: config.TLSDisabled})
		}
		rc := rcenv.New(x.Net, hosts, ro)
		ctx, cancel := context.WithCancel(context.Background())
		x.Cancel = cancel
		defer cancel()
		body := func() {
			switch sc.Warm {
			case "list-filtered":
				_, _ = rc.ReferrerList(ctx, x.Src, scheme.WithReferrerMatchOpt(descMatchSig()))
			case "list":
				_, _ = rc.ReferrerList(ctx, x.Src)
			case "head":
				_, _ = rc.ManifestHead(ctx, x.Src)
			}
			x.Err = rc.ImageCopy(ctx, x.Src, x.Tgt, copyOpts(sc)...)
			// closing releases layout locks and runs GC if enabled (default off)
			_ = rc.Close(ctx, x.Tgt)
			if sc.Retry && x.Err != nil {
				x.Err1 = x.Err
				x.Second = true
				x.Err = rc.ImageCopy(context.Background(), x.Src, x.Tgt, copyOpts(sc)...)
				_ = rc.Close(context.Background(), x.Tgt)
			}
		}
		if p.NoSched {
			body()
			return
		}
		x.Out = qsched.Run(c, p.Sched, map[string]func(*qsched.Sched){"copy": func(s *qsched.Sched) {
			sched = s
			body()
		}}, []string{"copy"})
		sched = nil
	})
	x.Leaked = leaked
	if other != nil {
		x.Out.Panic = other
	}
	return x, cleanup
}

// what the target looked like afterwards is read while the scratch dir still exists
type PostState struct {
	Resolve  string
	Problems []audit.Problem
	Reach    map[string]bool
}

var _ = errors.Is

// pointLog is a slog handler that emits nothing: a record of warning level or above is a scheduling point
type pointLog struct{ at func() }

func (l *pointLog) Enabled(_ context.Context, lv slog.Level) bool { return lv >= slog.LevelWarn }
func (l *pointLog) Handle(context.Context, slog.Record) error    { l.at(); return nil }
func (l *pointLog) WithAttrs([]slog.Attr) slog.Handler            { return l }
func (l *pointLog) WithGroup(string) slog.Handler                 { return l }

func descMatchSig() descriptor.MatchOpt {
	return descriptor.MatchOpt{ArtifactType: "application/vnd.example.sig"}
}

// monitor implements the C04 write-order clauses on the request stream of registry targets:
// at every manifest PUT each referenced descriptor must already be present in that repository.
func (x *Exec) monitor(e *modelreg.Entry) {
	if e.Kind != "manifest-put" {
		return
	}
	h := x.Net.Hosts[e.Host]
	if h == nil {
		return
	}
	r := h.Repos[e.Repo]
	inclExt := false
	for _, d := range audit.References(e.Body, inclExt) {
		ok := false
		if r != nil {
			if _, ok = r.Blobs[d]; !ok {
				_, ok = r.Manifests[d]
			}
		}
		if !ok {
			x.Monitor = append(x.Monitor, fmt.Sprintf("manifest PUT %s/%s:%s before its reference %s is present", e.Host, e.Repo, shortRef(e.Ref), short(d)))
		}
	}
}

func short(d string) string {
	if i := strings.IndexByte(d, ':'); i > 0 && len(d) > i+13 {
		return d[:i+13]
	}
	return d
}

func shortRef(r string) string { return short(r) }

// LogSummary renders the request log compactly (digests shortened) for observation hashes.
func (x *Exec) LogSummary() []string {
	var out []string
	for _, e := range x.Net.Log {
		out = append(out, fmt.Sprintf("%s %s %s %s -> %d %s", e.Method, e.Host, e.Repo, kindRef(e), e.Status, e.Note))
	}
	return out
}

func kindRef(e *modelreg.Entry) string {
	return strings.TrimPrefix(e.Kind, "") + ":" + short(e.Ref)
}

func sortedKeys(m map[string]bool) []string {
	var ks []string
	for k := range m {
		ks = append(ks, k)
	}
	sort.Strings(ks)
	return ks
}

func jsonStr(v any) string {
	b, _ := json.Marshal(v)
	return string(b)
}

func auditBlobFiles(dir string) []string { return audit.BlobFiles(dir) }

func jsonUnmarshal(b []byte, v any) error { return json.Unmarshal(b, v) }
