package hcopy

import (
	"encoding/json"
	"errors"
	"fmt"
	"io"
	"net/http"
	"os"
	"strings"
	"testing"

	"github.com/regclient/regclient/internal/verif/audit"
	"github.com/regclient/regclient/internal/verif/ev"
	"github.com/regclient/regclient/internal/verif/explore"
	"github.com/regclient/regclient/internal/verif/graphs"
	"github.com/regclient/regclient/internal/verif/modelreg"
	"github.com/regclient/regclient/internal/verif/qsched"
)

// ---- C04: children before parents, tag last, failure never moves the tag ------------------------

type halfBody struct {
	b   []byte
	pos int
}

func (h *halfBody) Read(p []byte) (int, error) {
	if h.pos >= len(h.b) {
		return 0, io.ErrUnexpectedEOF
	}
	n := copy(p, h.b[h.pos:])
	h.pos += n
	return n, nil
}
func (h *halfBody) Close() error { return nil }

var c04Faults = []string{"500", "503", "429", "404", "401", "reset", "trunc", "cancel"}

// c04Decide offers, at every request, the conforming answer (default) or one fault.
func c04Decide(x *Exec, e *modelreg.Entry) *modelreg.Answer {
	// invariant (4): evaluated on the state left by all previous requests
	x.invariant("before request " + fmt.Sprint(e.Seq))
	if x.TagAt == 0 {
		var got string
		x.Net.With(func() { got = x.tgtResolve() })
		if got != x.PreTag && !(x.Sc.ByDigest && x.PreTgt[x.G.Top]) {
			x.TagAt = e.Seq + 1
		}
	}
	if x.Second || x.Sc.FailShared {
		// (scenarios whose environment already contains the failure spend their bound on schedules only)
		return nil
	}
	ch := x.C.Choose("env", 1+len(c04Faults), nil)
	if ch == 0 {
		return nil
	}
	f := c04Faults[ch-1]
	x.LastFault = e.Seq + 1
	x.Faults = append(x.Faults, fmt.Sprintf("%s@%d(%s %s)", f, e.Seq, e.Method, e.Kind))
	switch f {
	case "500", "503", "429", "404":
		code := map[string]int{"500": 500, "503": 503, "429": 429, "404": 404}[f]
		return &modelreg.Answer{Status: code, Header: http.Header{}, Body: []byte(`{"errors":[{"code":"INJECTED"}]}`), Note: "fault-" + f}
	case "401":
		return &modelreg.Answer{Status: 401, Header: http.Header{"Www-Authenticate": {`Basic realm="model"`}}, Note: "fault-401"}
	case "reset":
		return &modelreg.Answer{Err: errors.New("read: connection reset by peer"), Note: "fault-reset"}
	case "trunc":
		// serve half of the body of a successful GET, then drop the connection
		if e.Method != "GET" {
			return &modelreg.Answer{Err: io.ErrUnexpectedEOF, Note: "fault-trunc"}
		}
		var def *modelreg.Answer
		x.Net.With(func() { def = x.Net.Peek(e) })
		if def == nil || def.Status != 200 || len(def.Body) < 2 {
			return &modelreg.Answer{Err: io.ErrUnexpectedEOF, Note: "fault-trunc"}
		}
		h := def.Header.Clone()
		return &modelreg.Answer{Status: def.Status, Header: h, BodyRC: &halfBody{b: def.Body[:len(def.Body)/2]}, Note: "fault-trunc-body"}
	case "cancel":
		x.Cancel()
		return &modelreg.Answer{Err: fmt.Errorf("context canceled"), Note: "fault-cancel"}
	}
	return nil
}

// invariant (4): every tag of the target (registry) / every index entry (layout) resolves to a
// complete closure; manifests that were there before the copy are trusted.
func (x *Exec) invariant(when string) {
	if len(x.Monitor) > 0 {
		return
	}
	trust := func(d string) bool { return x.PreTgt[d] }
	o := audit.ClosureOpts{TrustManifest: trust}
	checkTop := func(name, d string) {
		if x.PreTgt[d] {
			return
		}
		_, probs := audit.Closure(x.TgtStore, d, o)
		if len(probs) > 0 {
			x.Monitor = append(x.Monitor, fmt.Sprintf("incomplete-image: %s: target entry %s -> %s is incomplete: %s", when, name, short(d), probs[0]))
		}
	}
	if x.TgtRepo != nil {
		x.Net.With(func() {
			for t, d := range x.TgtRepo.Tags {
				checkTop(t, d)
			}
		})
		return
	}
	if x.TgtDir == "" {
		return
	}
	idx, _, _, _, err := audit.ReadLayout(x.TgtDir)
	if err != nil {
		return // not (yet) a layout: C07 owns syscall-granularity validity
	}
	for _, m := range idx.Manifests {
		checkTop(m.Annotations["org.opencontainers.image.ref.name"], m.Digest)
	}
}

func judgeC04(x *Exec) (key, msg string) {
	x.invariant("at the end")
	if len(x.Monitor) > 0 {
		m := x.Monitor[0]
		k := "write-order"
		if strings.HasPrefix(m, "incomplete-image") {
			k = "incomplete-image"
		}
		return k, m + " (faults " + strings.Join(x.Faults, ",") + ")"
	}
	// (2) nothing of the image is written after the final write of the requested reference
	if x.TgtRepo != nil {
		last := -1
		tgtH, tgtR := hostOf(x), tgtRepo
		if x.Sc.Pair == "same-repo" {
			tgtR = srcRepo
		}
		want := tgtTag
		if x.Sc.ByDigest {
			want = x.G.Top
		}
		for i, e := range x.Net.Log {
			if e.Kind == "manifest-put" && e.Host == tgtH && e.Repo == tgtR && e.Ref == want && e.Status == 201 {
				last = i
			}
		}
		if last >= 0 {
			own := ownClosure(x.G)
			var first *modelreg.Entry
			outside, inside := 0, 0
			for _, e := range x.Net.Log[last+1:] {
				if e.Mutating() && e.Host == tgtH && e.Status >= 200 && e.Status < 300 && !strings.HasPrefix(e.Note, "fault") {
					if first == nil {
						first = e
					}
					if d := writtenDigest(x.G, e); d != "" {
						if own[d] {
							inside++
						} else {
							outside++
						}
					}
				}
			}
			if first != nil {
				msg := fmt.Sprintf("%s was written after the requested reference (request %d): %s", first.Kind, last, first)
				if inside == 0 && outside > 0 {
					// everything written late lies outside the image the reference names: content that
					// hangs off it (digest tags, referrers) whose copy was deferred
					return "write-after-tag content-outside-the-image opt=" + x.Sc.Opt + "!", msg
				}
				return "write-after-tag", msg
			}
		}
	}
	// (3) failure leaves the reference where it was
	if x.Err != nil {
		if got := x.tgtResolve(); got != x.PreTag && !(x.Sc.ByDigest && got == x.G.Top && x.PreTgt[x.G.Top]) {
			if x.TagAt > 0 && x.LastFault >= x.TagAt {
				// the failure was injected after the reference had been written: the statement speaks
				// of failures "at any point before that final write"; what follows the reference is
				// judged by clause (2)
				return "", ""
			}
			return "failed-copy-moved-tag", fmt.Sprintf("copy returned %q but the target reference now resolves to %q (before: %q); faults %v", x.Err, short(got), short(x.PreTag), x.Faults)
		}
	}
	return "", ""
}

// ownClosure returns the digests of the image the requested reference names: everything reachable
// from the top manifest through config, layers, manifests and blobs (not through subject).
func ownClosure(g *graphs.Graph) map[string]bool {
	own := map[string]bool{}
	var walk func(d string)
	walk = func(d string) {
		if own[d] {
			return
		}
		own[d] = true
		m, ok := g.Manifests[d]
		if !ok {
			return
		}
		var doc struct {
			Config    *modelreg.Desc  `json:"config"`
			Layers    []modelreg.Desc `json:"layers"`
			Manifests []modelreg.Desc `json:"manifests"`
			Blobs     []modelreg.Desc `json:"blobs"`
		}
		if json.Unmarshal(m.Body, &doc) != nil {
			return
		}
		if doc.Config != nil {
			walk(doc.Config.Digest)
		}
		for _, l := range [][]modelreg.Desc{doc.Layers, doc.Manifests, doc.Blobs} {
			for _, e := range l {
				walk(e.Digest)
			}
		}
	}
	walk(g.Top)
	return own
}

// writtenDigest names the content a successful mutating request stored ("" when the request does
// not say: upload start without mount, chunk).
func writtenDigest(g *graphs.Graph, e *modelreg.Entry) string {
	if e.Kind == "manifest-put" {
		if strings.Contains(e.Ref, ":") {
			return e.Ref
		}
		return modelreg.Digest(g.Algo, e.Body)
	}
	if d := e.Query.Get("mount"); d != "" {
		return d
	}
	return e.Query.Get("digest")
}

func c04Scenarios(thorough bool) []schedItem {
	var out []schedItem
	for _, g := range graphsAll() {
		opt := "default"
		switch g {
		case "G13":
			opt = "referrers"
		case "G14", "G21":
			opt = "digest-tags"
		}
		for _, p := range []string{"two-reg", "same-reg-refuse", "same-reg-grant", "reg-dir", "dir-reg", "dir-dir", "same-repo"} {
			for _, pre := range []string{"empty", "stale"} {
				for _, f := range []string{"full", "novalidate"} {
					if f == "novalidate" && (strings.HasSuffix(p, "-dir") || pre == "stale") {
						continue
					}
					out = append(out, schedItem{Scen{Graph: g, Pair: p, Opt: opt, Feat: f, Pre: pre}, 1, false})
				}
			}
		}
	}
	// a failed copy repeated through the same client with the manifest cache on
	for _, g := range []string{"G3", "G4", "G15", "G13"} {
		opt := "default"
		if g == "G13" {
			opt = "referrers"
		}
		for _, p := range []string{"two-reg", "same-reg-grant"} {
			for _, f := range []string{"full", "novalidate"} {
				out = append(out, schedItem{Scen{Graph: g, Pair: p, Opt: opt, Feat: f, Pre: "empty", Retry: true}, 1, false})
			}
		}
	}
	out = append(out, schedItem{Scen{Graph: "G13", Pair: "two-reg", Opt: "referrers", Feat: "noref", Pre: "empty"}, 1, false})
	out = append(out, schedItem{Scen{Graph: "G13", Pair: "reg-dir", Opt: "referrers", Feat: "noref", Pre: "empty"}, 1, false})
	out = append(out, schedItem{Scen{Graph: "G13", Pair: "two-reg", Opt: "referrers", Feat: "noref-tgt", Pre: "empty"}, 1, false})
	out = append(out, schedItem{Scen{Graph: "G23", Pair: "two-reg", Opt: "referrers", Feat: "noref-tgt", Pre: "empty"}, 1, false})
	// one persistent delay: a goroutine stalled while all its siblings run on
	for _, g := range []string{"G3", "G4", "G5", "G13", "G14", "G15", "G19", "G21", "G23"} {
		opt := "default"
		switch g {
		case "G13", "G23":
			opt = "referrers"
		case "G14", "G21":
			opt = "digest-tags"
		}
		for _, f := range []string{"full", "novalidate"} {
			out = append(out, schedItem{Scen{Graph: g, Pair: "two-reg", Opt: opt, Feat: f, Pre: "empty", Stall: true}, 1, false})
		}
	}
	out = append(out, schedItem{Scen{Graph: "G3", Pair: "two-reg", Opt: "default", Feat: "full", Pre: "empty", ByDigest: true}, 1, false})
	out = append(out, schedItem{Scen{Graph: "G3", Pair: "two-reg", Opt: "recursive", Feat: "full", Pre: "complete"}, 1, false})
	// content shared between sibling manifests that the source cannot serve: the sibling that waits for
	// the other's copy of it must learn that the copy failed, whichever of them gets to run first after
	// the failure is published (log records are scheduling points here)
	for _, g := range []string{"G3", "G19"} {
		for _, p := range []string{"two-reg"} {
			for _, f := range []string{"full", "novalidate"} {
				if f == "novalidate" && p == "reg-dir" {
					continue
				}
				for _, st := range []bool{false, true} {
					out = append(out, schedItem{Scen{Graph: g, Pair: p, Opt: "default", Feat: f, Pre: "empty", FailShared: true, LogPoints: true, Stall: st}, 2, false})
				}
			}
		}
	}
	return out
}

func c04Explore(t *testing.T, rec *ev.Rec, it schedItem) {
	sc := it.Sc
	cfg := schedCfg(sc, it.BranchAll)
	dirTgt := strings.HasSuffix(sc.Pair, "-dir")
	var cur *Exec
	if dirTgt {
		cfg.Monitor = func(s *qsched.Sched) {
			if cur != nil {
				cur.invariant("at a scheduling step")
			}
		}
	}
	p := Params{CancelAt: -1, Sched: cfg, Decide: c04Decide}
	run := func(c *explore.Ctx) explore.Result {
		cur = nil
		p2 := p
		p2.Decide = func(x *Exec, e *modelreg.Entry) *modelreg.Answer { cur = x; return c04Decide(x, e) }
		x, cl := Run(t, c, sc, p2, rec.Scratch)
		defer cl()
		r := explore.Result{Outcome: x.outcome() + " faults=" + strings.Join(x.Faults, ",")}
		if x.Leaked {
			// goroutines left blocked after ImageCopy returned: a resource leak, not part of this
			// property's statement; counted, not judged
			rec.Count("executions_leaking_goroutines", 1)
		}
		k, m := schedProblems(x)
		if k == "" {
			k, m = judgeC04(x)
		}
		if k != "" {
			r.VKey, r.Violation = k, m
		}
		for _, l := range x.LogSummary() {
			c.Logf("%s", l)
		}
		c.Logf("err=%s", errText(x))
		return r
	}
	ex := &explore.Explorer{Bound: it.Bound, Run: run, Stop: rec.Expired, DetCheckEvery: 307}
	ex.OnExec = func(c *explore.Ctx, r explore.Result) {
		if r.Violation != "" {
			for i := 0; i < 3; i++ {
				r2 := run(explore.NewCtx(c.Choices()))
				if r2.VKey != r.VKey {
					rec.HarnessError("C04: violation %q of %s not reproduced on replay (got %q)", r.VKey, sc, r2.VKey)
					return
				}
			}
			key := r.VKey + " " + sc.String()
			if strings.HasSuffix(r.VKey, "!") {
				key = strings.TrimSuffix(r.VKey, "!") // a class of failing inputs, not one scenario
			}
			rec.Violation(key, r.Violation+"\nscenario: "+sc.String()+"\nchoices: "+c.Describe(), copyReplay{Check: "C04", Scen: sc, Bound: it.Bound, All: it.BranchAll, Choices: explore.Trim(c.Choices())})
		}
		if c.Cost > 0 {
			rec.Distinct(sc.String() + "#" + r.Outcome)
		}
		if strings.Contains(r.Outcome, "faults=") && !strings.HasSuffix(r.Outcome, "faults=") {
			rec.Count("executions_with_fault", 1)
			if strings.HasPrefix(r.Outcome, "err") {
				rec.Count("faulted_executions_that_failed", 1)
			} else {
				rec.Count("faulted_executions_that_recovered", 1)
			}
		}
	}
	func() {
		defer func() {
			if r := recover(); r != nil {
				rec.HarnessError("C04 scenario %s: %v", sc, r)
			}
		}()
		ex.Explore()
	}()
	rec.Eval(ex.Stats.Executions)
	rec.Count("executions", ex.Stats.Executions)
	rec.Count("choice_points", ex.Stats.Branching)
	rec.Count("scenarios", 1)
	if ex.Stats.Capped {
		rec.NotExhaustive(fmt.Sprintf("budget reached inside scenario %s (bound %d)", sc, it.Bound))
	}
}

func TestVerifC04(t *testing.T) {
	rec := ev.New()
	defer rec.Flush(t)
	rec.Rule("scenario = image graph × endpoint pairing × target pre-state × registry features; per scenario every execution of the real ImageCopy with at most k deviations, a deviation being a departure from the default schedule at a request arrival (every mutex acquisition for layout-only copies) " +
		"or one fault {500, 503, 429, 404, 401, connection reset, truncated body, context cancellation} at one request position; k = 1 quick, 2 thorough. " +
		"Oracle: references-present monitor at every manifest PUT, complete-closure invariant of every target tag/index entry before every request (= process death at every request position) and at every scheduling step for layout targets, nothing written after the requested reference, failed copy leaves the reference unmoved. " +
		"distinct_nontrivial = distinct (scenario, outcome, fault list) of executions with at least one deviation")
	rec.Assume("layout targets are inspected at scheduling-step granularity here; system-call granularity is C07's")
	if rd := rec.ReplayData(); rd != nil {
		var rp copyReplay
		if err := jsonUnmarshal(rd, &rp); err != nil {
			rec.HarnessError("replay: %v", err)
			return
		}
		c := explore.NewCtx(rp.Choices)
		cfg := schedCfg(rp.Scen, rp.All)
		cfg.Trace = true
		x, cl := Run(t, c, rp.Scen, Params{CancelAt: -1, Sched: cfg, Decide: c04Decide}, rec.Scratch)
		defer cl()
		k, m := schedProblems(x)
		if k == "" {
			k, m = judgeC04(x)
		}
		fmt.Printf("replay %s choices=%v err=%v faults=%v\n%s\nverdict: %s %s\n", rp.Scen, rp.Choices, x.Err, x.Faults, strings.Join(x.LogSummary(), "\n"), k, m)
		if os.Getenv("VERIF_TRACE") != "" {
			fmt.Println(strings.Join(c.Log(), "\n"))
		}
		rec.Eval(1)
		if k != "" {
			rec.Violation(k+" "+rp.Scen.String(), m, rp)
		}
		return
	}
	items := c04Scenarios(rec.Thorough())
	if rec.Thorough() {
		for i := range items {
			if !strings.HasSuffix(items[i].Sc.Pair, "-dir") {
				items[i].Bound = 2
			}
		}
	}
	for i, it := range items {
		if !rec.Mine(i) {
			continue
		}
		if rec.Expired() {
			rec.NotExhaustive("budget reached")
			break
		}
		c04Explore(t, rec, it)
	}
	rec.Sample(map[string]any{"scenario": items[0].Sc.String(), "bound": items[0].Bound, "fault_alphabet": c04Faults})
}
