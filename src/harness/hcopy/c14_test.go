package hcopy

import (
	"fmt"
	"strings"
	"testing"

	"github.com/regclient/regclient/internal/verif/ev"
)

// ---- C14 oracle: the request log ---------------------------------------------------------------

func judgeC14(x *Exec) (key, msg string) {
	srcGets := map[string]int{}
	uploadsClosed := map[string]int{}
	uploadBodies := 0
	blobReqs := 0
	manifestPuts := 0
	mutating := 0
	srcR := srcRepo
	tgtH, tgtR := hostOf(x), tgtRepo
	if x.Sc.Pair == "same-repo" {
		tgtR = srcRepo
	}
	for _, e := range x.Net.Log {
		if e.Mutating() {
			mutating++
		}
		switch {
		case e.Kind == "blob-get" && e.Host == srcHost && e.Repo == srcR && (e.Status == 200 || e.Status == 206):
			srcGets[e.Ref]++
		case e.Kind == "upload-put" && e.Host == tgtH && e.Repo == tgtR && e.Status == 201:
			uploadsClosed[e.Query.Get("digest")]++
		}
		if (e.Kind == "upload-patch" || e.Kind == "upload-put") && len(e.Body) > 0 {
			uploadBodies++
		}
		if strings.HasPrefix(e.Kind, "blob-") || strings.HasPrefix(e.Kind, "upload-") {
			blobReqs++
		}
		if e.Kind == "manifest-put" && e.Status == 201 {
			manifestPuts++
		}
	}
	// A: never download a blob the target repository already held
	if !x.srcIsDir() && x.Sc.Pair != "same-repo" {
		for d, n := range srcGets {
			if n > 0 && x.PreTgt[d] {
				return "downloaded-existing-blob", fmt.Sprintf("blob %s was at the target before the copy but was downloaded from the source %d time(s)", short(d), n)
			}
		}
	}
	// B: each distinct blob at most once
	for d, n := range srcGets {
		if n > 1 {
			return "blob-downloaded-twice", fmt.Sprintf("blob %s downloaded %d times from the source", short(d), n)
		}
	}
	for d, n := range uploadsClosed {
		if n > 1 {
			return "blob-uploaded-twice", fmt.Sprintf("blob %s uploaded %d times to the target", short(d), n)
		}
		if x.PreTgt[d] && x.TgtRepo != nil {
			return "uploaded-existing-blob", fmt.Sprintf("blob %s was at the target before the copy but was uploaded again", short(d))
		}
	}
	// C: same registry and mount granted ⇒ no transfer at all
	if x.Sc.Pair == "same-reg-grant" {
		for d, n := range srcGets {
			if n > 0 {
				return "transfer-despite-mount", fmt.Sprintf("blob %s downloaded although the registry grants mounts", short(d))
			}
		}
		if uploadBodies > 0 {
			return "transfer-despite-mount", fmt.Sprintf("%d upload bodies sent although the registry grants mounts", uploadBodies)
		}
	}
	// D: retag within one repository
	if x.Sc.Pair == "same-repo" && x.Err == nil {
		if blobReqs > 0 {
			return "retag-moved-blobs", fmt.Sprintf("retag within one repository issued %d blob requests", blobReqs)
		}
		want := 1
		if x.PreTag == x.G.Top {
			want = 0
		}
		if manifestPuts != want {
			return "retag-manifest-writes", fmt.Sprintf("retag within one repository wrote %d manifests, expected %d", manifestPuts, want)
		}
	}
	// E: identical image already at the target ⇒ nothing written
	if x.Sc.Pre == "complete" && x.Err == nil {
		if mutating > 0 {
			return "wrote-onto-identical-target", fmt.Sprintf("target already held the identical image but %d state-changing requests were sent", mutating)
		}
		if x.TgtRepo == nil {
			// layout: the files must be unchanged
			for _, f := range filesOf(x.TgtDir) {
				if !x.PreTgt[f] {
					return "wrote-onto-identical-target", fmt.Sprintf("layout already held the identical image but file %s was added", f)
				}
			}
		}
	}
	return "", ""
}

func filesOf(dir string) []string {
	if dir == "" {
		return nil
	}
	return auditBlobFiles(dir)
}

func sharingGraphs(thorough bool) []string {
	var out []string
	digits := []string{"0", "1", "2"}
	var pairs []string
	for _, a := range digits {
		for _, b := range digits {
			pairs = append(pairs, a+b)
		}
	}
	for i, p := range pairs {
		for j, q := range pairs {
			if j < i {
				continue
			}
			out = append(out, "SH-"+p+"-"+q)
			if thorough {
				for k, r := range pairs {
					if k < j {
						continue
					}
					out = append(out, "SH-"+p+"-"+q+"-"+r)
				}
			}
		}
	}
	return out
}

func TestVerifC14(t *testing.T) {
	rec := ev.New()
	defer rec.Flush(t)
	rec.Rule("scenario = image graph (alphabet + every sharing pattern of 2 (thorough 3) platform images over a pool of 3 layers) × endpoint pairing × target pre-state (empty / complete / stale / every subset of the closure), default options; five graphs again between two registries that each have an empty mirror configured; " +
		"each executed on the real ImageCopy under the controlled scheduler (default schedule, plus every schedule with 1 departure at request arrivals for the sharing graphs). Oracle: per-digest counts in the model registries' request logs. " +
		"distinct_nontrivial = distinct (scenario, outcome, deviating?) triples")
	if runReplay(t, rec, judgeC14) {
		return
	}
	i := 0
	next := func() bool { i++; return rec.Mine(i - 1) }
	var scs []schedItem
	for _, g := range graphsAll() {
		for _, p := range allPairs {
			for _, pre := range []string{"empty", "complete", "stale"} {
				scs = append(scs, schedItem{Scen{Graph: g, Pair: p, Opt: "default", Feat: "full", Pre: pre}, 0, false})
			}
		}
	}
	for _, sc := range maskScenarios(rec.Thorough()) {
		if sc.Opt == "default" {
			scs = append(scs, schedItem{sc, 0, false})
		}
	}
	for _, g := range sharingGraphs(rec.Thorough()) {
		for _, p := range []string{"two-reg", "same-reg-grant", "same-reg-refuse", "reg-dir", "dir-reg"} {
			b := 1
			if strings.HasSuffix(p, "-dir") || strings.Count(g, "-") > 2 {
				b = 0
			}
			scs = append(scs, schedItem{Scen{Graph: g, Pair: p, Opt: "default", Feat: "full", Pre: "empty"}, b, false})
		}
	}
	for _, g := range []string{"G3", "G5", "G6", "G15", "G18", "G19", "G20", "G7", "G8"} {
		for _, p := range []string{"two-reg", "same-reg-refuse", "same-reg-grant"} {
			for _, pre := range []string{"empty", halfMask(g)} {
				b := 1
				if rec.Thorough() {
					b = 2
				}
				scs = append(scs, schedItem{Scen{Graph: g, Pair: p, Opt: "default", Feat: "full", Pre: pre}, b, false})
			}
		}
	}
	// one persistent delay: a goroutine stalled while all its siblings run on
	for _, g := range []string{"G3", "G5", "G6", "G15", "G18", "G19", "G20", "SH-01-12", "SH-00-00", "SH-01-10"} {
		for _, p := range []string{"two-reg", "same-reg-refuse", "same-reg-grant"} {
			scs = append(scs, schedItem{Scen{Graph: g, Pair: p, Opt: "default", Feat: "full", Pre: "empty", Stall: true}, 1, false})
		}
	}
	// the copy's own bookkeeping locks as scheduling points too (the "seen" record that makes parts
	// sharing a blob wait for one transfer is a check-then-act under a mutex), two departures
	for _, g := range []string{"SH-00-00", "SH-01-10", "G19"} {
		scs = append(scs, schedItem{Scen{Graph: g, Pair: "two-reg", Opt: "default", Feat: "full", Pre: "empty", CopyLocks: true}, 2, false})
	}
	// the same between two registries that each have a (reachable, empty) mirror configured: what the
	// target holds is still decided by the target
	for _, g := range []string{"G1", "G3", "G15", "G18", "G19"} {
		for _, pre := range []string{"empty", "complete", "stale", halfMask(g)} {
			scs = append(scs, schedItem{Scen{Graph: g, Pair: "two-reg", Opt: "default", Feat: "full", Pre: pre, Mirrors: true}, 0, false})
		}
	}
	for _, it := range scs {
		if !next() {
			continue
		}
		if rec.Expired() {
			rec.NotExhaustive("budget reached")
			break
		}
		exploreScen(t, rec, "C14", it.Sc, it.Bound, it.BranchAll, judgeC14, nil, nil)
	}
	rec.Sample(map[string]any{"scenario": Scen{Graph: "SH-01-12", Pair: "two-reg", Opt: "default", Feat: "full", Pre: "empty"}.String(), "bound": 1})
	rec.Sample(map[string]any{"scenario": Scen{Graph: "G15", Pair: "same-reg-grant", Opt: "default", Feat: "full", Pre: halfMask("G15")}.String(), "bound": 1})
}
