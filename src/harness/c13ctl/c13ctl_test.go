package main

// C13, second step — `regctl image mod` as the command line drives mod.Apply.
//
// In-package harness (package main of cmd/regctl). The first step of C13 enumerates option programs
// against mod.Apply with the target reference given explicitly; which reference becomes the target
// is decided here, in runImageMod, from --create and --replace. Every combination and order of the
// two flags × target spellings × modifications × source shapes is run through the real cobra command
// tree on a scratch copy of the repository's own test layout. Oracle, from the statement: the source
// tag is not altered unless it is named as the target; the target the flags name (documented:
// "--replace  Replace tag (ignored when "create" is used)") exists afterwards, complete, and is what
// the command prints; no other tag of the source layout moves; options that change nothing yield the
// original digest; the same command line twice yields the same digest.

import (
	"bytes"
	"encoding/json"
	"fmt"
	"os"
	"path/filepath"
	"sort"
	"strings"
	"testing"

	"github.com/regclient/regclient/internal/verif/audit"
	"github.com/regclient/regclient/internal/verif/ev"
)

type c13Case struct {
	Src    string   `json:"src"`    // tag of the source image in the scratch layout
	Flags  string   `json:"flags"`  // none, replace, create-tag, create-same, create-other, create-tag+replace, replace+create-tag, create-other+replace, replace+create-other
	Mod    []string `json:"mod"`    // modification arguments
	ModKey string   `json:"modkey"` // name of the modification
}

func (c c13Case) String() string { return fmt.Sprintf("src=%s flags=%s mod=%s", c.Src, c.Flags, c.ModKey) }

func c13Run(args ...string) (string, error) {
	buf := new(bytes.Buffer)
	cmd, _ := NewRootCmd()
	cmd.SetOut(buf)
	cmd.SetErr(new(bytes.Buffer))
	cmd.SetArgs(args)
	err := cmd.Execute()
	return buf.String(), err
}

func c13CopyTree(src, dst string) error {
	return filepath.Walk(src, func(p string, fi os.FileInfo, err error) error {
		if err != nil {
			return err
		}
		rel, _ := filepath.Rel(src, p)
		if fi.IsDir() {
			return os.MkdirAll(filepath.Join(dst, rel), 0o755)
		}
		b, err := os.ReadFile(p)
		if err != nil {
			return err
		}
		return os.WriteFile(filepath.Join(dst, rel), b, 0o644)
	})
}

func c13Tags(dir string) map[string]string {
	_, tags, _, _, err := audit.ReadLayout(dir)
	if err != nil {
		return nil
	}
	return tags
}

func c13Cases(thorough bool) []c13Case {
	srcs := []string{"v1", "a1"}
	if thorough {
		srcs = append(srcs, "v2", "a-docker", "ai")
	}
	flags := []string{"none", "replace", "create-tag", "create-same", "create-other", "create-tag+replace", "replace+create-tag", "create-other+replace", "replace+create-other", "create-same+replace"}
	mods := []struct {
		k string
		a []string
	}{
		{"annotation", []string{"--annotation", "org.example.verif=c13"}},
		{"label", []string{"--label", "org.example.verif=c13"}},
		{"noop", nil},
	}
	if thorough {
		mods = append(mods, struct {
			k string
			a []string
		}{"time", []string{"--time", "set=2020-01-01T00:00:00Z"}}, struct {
			k string
			a []string
		}{"label+annotation", []string{"--label", "a=b", "--annotation", "c=d"}})
	}
	var out []c13Case
	for _, s := range srcs {
		for _, f := range flags {
			for _, m := range mods {
				out = append(out, c13Case{Src: s, Flags: f, Mod: m.a, ModKey: m.k})
			}
		}
	}
	return out
}

type c13Result struct {
	out      string
	err      error
	before   map[string]string
	after    map[string]string
	other    map[string]string // tags of the other layout afterwards
	problems []string
	target   string // "src:<tag>", "other:<tag>", "digest-only"
}

func c13Exec(rec *ev.Rec, c c13Case, n int) c13Result {
	var r c13Result
	root, err := os.MkdirTemp(rec.Scratch, "c13ctl")
	if err != nil {
		r.err = err
		return r
	}
	defer os.RemoveAll(root)
	lay := filepath.Join(root, "repo")
	oth := filepath.Join(root, "other")
	if err := c13CopyTree(filepath.Join(rec.RepoDir, "testdata", "testrepo"), lay); err != nil {
		r.err = fmt.Errorf("harness: %v", err)
		return r
	}
	r.before = c13Tags(lay)
	args := []string{"image", "mod", "ocidir://" + lay + ":" + c.Src}
	for _, f := range strings.Split(c.Flags, "+") {
		switch f {
		case "replace":
			args = append(args, "--replace")
		case "create-tag":
			args = append(args, "--create", "verif-new")
			r.target = "src:verif-new"
		case "create-same":
			args = append(args, "--create", c.Src)
			r.target = "src:" + c.Src
		case "create-other":
			args = append(args, "--create", "ocidir://"+oth+":copy")
			r.target = "other:copy"
		}
	}
	if r.target == "" {
		if strings.Contains(c.Flags, "replace") {
			r.target = "src:" + c.Src
		} else {
			r.target = "digest-only"
		}
	}
	args = append(args, c.Mod...)
	for i := 0; i < n; i++ {
		r.out, r.err = c13Run(args...)
	}
	r.after = c13Tags(lay)
	r.other = c13Tags(oth)
	// completeness of what the target names
	check := func(dir, d string) {
		_, probs := audit.Closure(audit.DirStore{Dir: dir}, d, audit.ClosureOpts{})
		for _, p := range probs {
			r.problems = append(r.problems, p.String())
		}
	}
	if r.err == nil {
		switch {
		case strings.HasPrefix(r.target, "src:"):
			if d := r.after[strings.TrimPrefix(r.target, "src:")]; d != "" {
				check(lay, d)
			}
		case strings.HasPrefix(r.target, "other:"):
			if d := r.other[strings.TrimPrefix(r.target, "other:")]; d != "" {
				check(oth, d)
			}
		}
	}
	return r
}

func c13Judge(c c13Case, r c13Result) (string, string) {
	if r.err != nil && strings.HasPrefix(r.err.Error(), "harness:") {
		return "harness", r.err.Error()
	}
	srcNamed := r.target == "src:"+c.Src
	// the source tag and every other tag of the source layout
	var moved []string
	for t, d := range r.before {
		if strings.HasPrefix(t, "sha256-") || strings.HasPrefix(t, "sha512-") {
			// fallback referrers tags are bookkeeping of the pushes: a result that carries a subject is
			// recorded under its subject's tag
			continue
		}
		if r.after[t] != d && !(t == c.Src && srcNamed) {
			moved = append(moved, t)
		}
	}
	sort.Strings(moved)
	for _, t := range moved {
		if t == c.Src {
			return "ctl/source-tag-altered flags=" + c.Flags, fmt.Sprintf("the source tag %s resolved to %s before and to %q afterwards although the flags name %s as the target", t, r.before[t], r.after[t], r.target)
		}
		return "ctl/other-tag-altered flags=" + c.Flags, fmt.Sprintf("tag %s of the source layout moved from %s to %q", t, r.before[t], r.after[t])
	}
	if r.err != nil {
		return "", "" // a refusal alters nothing (checked above); success is not demanded
	}
	out := strings.TrimSpace(r.out)
	var got string
	switch {
	case strings.HasPrefix(r.target, "src:"):
		tg := strings.TrimPrefix(r.target, "src:")
		got = r.after[tg]
		if got == "" {
			return "ctl/target-not-written flags=" + c.Flags, fmt.Sprintf("the command succeeded (printed %q) but tag %s named as the target does not exist", out, tg)
		}
		if !strings.HasSuffix(out, ":"+tg) {
			return "ctl/printed-other-reference flags=" + c.Flags, fmt.Sprintf("target is tag %s, the command printed %q", tg, out)
		}
		for t := range r.after {
			if _, was := r.before[t]; !was && t != tg && !strings.HasPrefix(t, "sha256-") {
				return "ctl/unasked-tag-created flags=" + c.Flags, fmt.Sprintf("tag %s appeared in the source layout, the target is %s", t, tg)
			}
		}
	case strings.HasPrefix(r.target, "other:"):
		tg := strings.TrimPrefix(r.target, "other:")
		got = r.other[tg]
		if got == "" {
			return "ctl/target-not-written flags=" + c.Flags, fmt.Sprintf("the command succeeded (printed %q) but %s in the other layout does not exist", out, tg)
		}
		if !strings.Contains(out, "/other:"+tg) {
			return "ctl/printed-other-reference flags=" + c.Flags, fmt.Sprintf("target is the other layout's tag %s, the command printed %q", tg, out)
		}
		for t := range r.after {
			if _, was := r.before[t]; !was && !strings.HasPrefix(t, "sha256-") {
				return "ctl/unasked-tag-created flags=" + c.Flags, fmt.Sprintf("tag %s appeared in the source layout, the target is in the other layout", t)
			}
		}
	default:
		// no tag asked for: the result is named by digest in the source repository
		i := strings.LastIndex(out, "@")
		if i < 0 {
			return "ctl/printed-other-reference flags=" + c.Flags, fmt.Sprintf("no tag was asked for, the command printed %q (no digest)", out)
		}
		got = out[i+1:]
		for t := range r.after {
			if _, was := r.before[t]; !was && !strings.HasPrefix(t, "sha256-") {
				return "ctl/unasked-tag-created flags=" + c.Flags, fmt.Sprintf("tag %s appeared although neither --create nor --replace was given", t)
			}
		}
	}
	if len(r.problems) > 0 {
		return "ctl/target-incomplete flags=" + c.Flags, fmt.Sprintf("what the target names is not complete: %s", strings.Join(r.problems, "; "))
	}
	if c.ModKey == "noop" && got != r.before[c.Src] {
		return "ctl/noop-changed-digest flags=" + c.Flags, fmt.Sprintf("no modification was asked for, the result is %s, the source is %s", got, r.before[c.Src])
	}
	if c.ModKey == "annotation" && got == r.before[c.Src] {
		return "ctl/modification-not-applied flags=" + c.Flags, fmt.Sprintf("an annotation was asked for, the result %s equals the source", got)
	}
	return "", ""
}

func TestVerifC13Ctl(t *testing.T) {
	rec := ev.New()
	defer rec.Flush(t)
	rec.Rule("`regctl image mod` through the real command tree on a scratch copy of testdata/testrepo: source ∈ {multi-platform index, single image (thorough: + a second index, a Docker-typed image, an index with artifacts)} × flags ∈ every combination and order of --replace and --create {new tag, the source's own tag, a reference in another layout} × modification ∈ {annotation, label, none (thorough: + time, label+annotation)}; each command line run once and, separately, twice. Oracle: the source tag moves only when the flags name it as the target (--replace is ignored when --create is given, as documented); no other tag moves or appears; on success the named target exists, is complete, is what the command prints; no modification ⇒ the source digest; twice ⇒ the same digest as once. distinct_nontrivial = distinct (case, result digest)")
	if rd := rec.ReplayData(); rd != nil {
		var c c13Case
		if err := json.Unmarshal(rd, &c); err != nil {
			rec.HarnessError("replay: %v", err)
			return
		}
		r := c13Exec(rec, c, 1)
		k, m := c13Judge(c, r)
		fmt.Printf("replay %s\n target=%s out=%q err=%v\n before[%s]=%s after=%s\nverdict: %s %s\n", c, r.target, strings.TrimSpace(r.out), r.err, c.Src, r.before[c.Src], r.after[c.Src], k, m)
		rec.Eval(1)
		if k != "" {
			rec.Violation(k, m, c)
		}
		return
	}
	if _, err := os.Stat(filepath.Join(rec.RepoDir, "testdata", "testrepo", "index.json")); err != nil {
		rec.HarnessError("testdata/testrepo not found below %q: %v", rec.RepoDir, err)
		return
	}
	ok := 0
	for i, c := range c13Cases(rec.Thorough()) {
		if !rec.Mine(i) {
			continue
		}
		if rec.Expired() {
			rec.NotExhaustive("budget reached")
			break
		}
		r1 := c13Exec(rec, c, 1)
		k, m := c13Judge(c, r1)
		rec.Eval(1)
		if k == "harness" {
			rec.HarnessError("%s: %s", c, m)
			continue
		}
		if k != "" {
			rec.Violation(k, m+"\ncase: "+c.String(), c)
			continue
		}
		if r1.err == nil {
			ok++
		} else {
			rec.Count("refused", 1)
		}
		// determinism: the same command line twice in a row
		r2 := c13Exec(rec, c, 2)
		rec.Eval(1)
		d1, d2 := c13Digest(r1), c13Digest(r2)
		if r1.err == nil && r2.err == nil && d1 != d2 {
			rec.Violation("ctl/twice-differs flags="+c.Flags, fmt.Sprintf("the command line run once gives %s, run twice %s\ncase: %s", d1, d2, c), c)
		}
		rec.Distinct(c.String() + "#" + d1)
	}
	rec.Count("succeeded", int64(ok))
	if ok == 0 && rec.NShards <= 4 {
		rec.HarnessError("no command line succeeded: the safety clauses were judged on nothing")
	}
}

func c13Digest(r c13Result) string {
	switch {
	case strings.HasPrefix(r.target, "src:"):
		return r.after[strings.TrimPrefix(r.target, "src:")]
	case strings.HasPrefix(r.target, "other:"):
		return r.other[strings.TrimPrefix(r.target, "other:")]
	}
	out := strings.TrimSpace(r.out)
	if i := strings.LastIndex(out, "@"); i >= 0 {
		return out[i+1:]
	}
	return out
}
