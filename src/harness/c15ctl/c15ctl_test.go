package main

// C15, second step — the same reference laws through the `regctl ref` command.
//
// In-package harness (package main of cmd/regctl): every string of the stated universe is passed
// to the real cobra command tree (`regctl ref -- <s>`), once with the default format (CommonName)
// and once with a format that prints every component. The command must accept exactly what
// ref.New accepts in this process, print the same components, and its default output must be
// accepted by the command again and print the same components (round trip through the CLI).

import (
	"bytes"
	"encoding/hex"
	"encoding/json"
	"fmt"
	"hash/fnv"
	"strings"
	"syscall"
	"testing"

	"github.com/regclient/regclient/internal/verif/ev"
	"github.com/regclient/regclient/internal/verif/hc15"
	"github.com/regclient/regclient/types/ref"
)

const c15Format = `{{.Scheme}}|{{.Registry}}|{{.Repository}}|{{.Tag}}|{{.Digest}}|{{.Path}}`

func c15Run(args ...string) (string, error) {
	buf := new(bytes.Buffer)
	cmd, _ := NewRootCmd()
	cmd.SetOut(buf)
	cmd.SetErr(buf)
	cmd.SetArgs(args)
	err := cmd.Execute()
	return buf.String(), err
}

func c15Fields(r ref.Ref) string {
	return strings.Join([]string{r.Scheme, r.Registry, r.Repository, r.Tag, r.Digest, r.Path}, "|")
}

type c15Replay struct {
	S      string `json:"s_quoted"`
	SHex   string `json:"s_hex"`
	Class  string `json:"class"`
	Sub    string `json:"sub"`
	Origin string `json:"origin"`
}

type c15Judge struct {
	rec     *ev.Rec
	verbose bool
	n       map[string]int64
}

func (j *c15Judge) viol(c hc15.Case, key, format string, a ...any) {
	msg := fmt.Sprintf("regctl ref -- %q (origin %s, class %s, %s): ", c.S, c.Origin, c.Class, c.Sub) + fmt.Sprintf(format, a...)
	if j.verbose {
		fmt.Println("VIOLATION", key, "\n  ", msg)
	}
	j.rec.Violation(key, msg, c15Replay{S: fmt.Sprintf("%q", c.S), SHex: hex.EncodeToString([]byte(c.S)), Class: c.Class, Sub: c.Sub, Origin: c.Origin})
}

func (j *c15Judge) judge(c hc15.Case) {
	r, lerr := ref.New(c.S)
	out, err := c15Run("ref", "--format", c15Format, "--", c.S)
	if j.verbose {
		fmt.Printf("regctl ref --format … -- %q: err=%v out=%q; ref.New: err=%v %s\n", c.S, err, out, lerr, c15Fields(r))
	}
	switch {
	case c.Class == hc15.Accept:
		j.n["ctl.by_construction.cases"]++
		want := strings.Join([]string{c.Exp.Scheme, c.Exp.Registry, c.Exp.Repository, c.Exp.Tag, c.Exp.Digest, c.Exp.Path}, "|")
		if err != nil {
			j.viol(c, "ctl/by-construction/rejected "+c.Sub, "assembled from valid components but the command fails: %v", err)
		} else if out != want {
			j.viol(c, "ctl/by-construction/components-differ "+c.Sub, "printed %q, assembled from %q", out, want)
		}
	case strings.HasPrefix(c.Class, "reject/"):
		j.n["ctl."+c.Class+".cases"]++
		if err == nil {
			j.viol(c, "ctl/named-"+c.Class+"/accepted "+c.Sub, "must be rejected, command printed %q", out)
		} else {
			j.n["ctl."+c.Class+".rejected"]++
		}
	}
	if (err == nil) != (lerr == nil) {
		j.viol(c, "ctl/differs-from-library/accept", "command error %v, ref.New error %v", err, lerr)
		return
	}
	if err != nil {
		j.n["ctl.rejected"]++
		return
	}
	j.n["ctl.accepted"]++
	j.rec.Distinct(c.Origin + "\x00" + c.S)
	if out != c15Fields(r) {
		j.viol(c, "ctl/differs-from-library/components scheme="+r.Scheme, "command printed %q, ref.New gives %q", out, c15Fields(r))
		return
	}
	// default format = CommonName; feed it back to the command
	cn, err := c15Run("ref", "--", c.S)
	if err != nil {
		j.viol(c, "ctl/default-format-error scheme="+r.Scheme, "default format failed: %v", err)
		return
	}
	if cn != r.CommonName() {
		j.viol(c, "ctl/differs-from-library/common-name scheme="+r.Scheme, "command printed %q, CommonName() is %q", cn, r.CommonName())
		return
	}
	if cn == "" {
		j.n["ctl.unprintable"]++
		j.viol(c, "ctl/print/empty-output scheme="+r.Scheme, "accepted as %q but the command prints nothing, so the output cannot be parsed again", out)
		return
	}
	j.n["ctl.roundtrip"]++
	out2, err := c15Run("ref", "--format", c15Format, "--", cn)
	if err != nil {
		j.viol(c, "ctl/roundtrip/reparse-error scheme="+r.Scheme, "output %q is rejected by the command: %v", cn, err)
	} else if out2 != out {
		j.viol(c, "ctl/roundtrip/components-differ scheme="+r.Scheme, "output %q re-parses to %q, first parse %q", cn, out2, out)
	}
}

func c15Hash(s string) int {
	h := fnv.New32a()
	h.Write([]byte(s))
	return int(h.Sum32() & 0x7fffffff)
}

func TestVerifC15Ctl(t *testing.T) {
	rec := ev.New()
	defer rec.Flush(t)
	t.Setenv("HOME", rec.Scratch)
	thorough := rec.Thorough()
	stride := 97
	if thorough {
		stride = 8
	}
	rec.Rule(fmt.Sprintf("CLI step (a deterministic sub-universe, because one command execution costs ≈0.7 ms): every grammar-generated case of the quick-tier grammar whose (position within its work item + work item number) mod %d is 0 — the offset rotates through every tag × digest form for every first-element form — plus every seed and every edit-distance-1 neighbour of the seeds (quick tier: of the seeds with path \"repo\" and without digest), each executed through NewRootCmd().Execute() with args `ref [--format …] -- <s>`; distinct_nontrivial = distinct strings the command accepted (so that the component comparison and the CLI round trip ran)", stride))
	j := &c15Judge{rec: rec, n: map[string]int64{}}
	defer func() {
		for k, v := range j.n {
			rec.Count(k, v)
		}
		var ru syscall.Rusage
		if syscall.Getrusage(syscall.RUSAGE_SELF, &ru) == nil {
			rec.Count("cpu_ms", (ru.Utime.Sec+ru.Stime.Sec)*1000+int64(ru.Utime.Usec+ru.Stime.Usec)/1000)
		}
	}()
	if rd := rec.ReplayData(); rd != nil {
		var rp c15Replay
		if err := json.Unmarshal(rd, &rp); err != nil {
			rec.HarnessError("replay: %v", err)
			return
		}
		b, err := hex.DecodeString(rp.SHex)
		if err != nil {
			rec.HarnessError("replay: %v", err)
			return
		}
		j.verbose = true
		j.judge(hc15.Case{S: string(b), Class: hc15.Free, Sub: rp.Sub, Origin: rp.Origin})
		rec.Eval(1)
		fmt.Printf("replay: %d violation(s) reproduced\n", rec.NViolations())
		return
	}
	expired := false
	check := func() bool {
		if !expired && rec.Expired() {
			expired = true
			rec.NotExhaustive(fmt.Sprintf("wall-clock budget reached in shard %d", rec.ShardI))
		}
		return expired
	}
	var n int64
	item, k := 0, 0
	sampled := 0
	hc15.Grammar(false, func(i int) bool { item = i; k = 0; return !check() && rec.Mine(i) }, func(c hc15.Case) {
		k++
		if (k+item)%stride != 0 || expired {
			return
		}
		j.judge(c)
		n++
		if sampled < 2 && c15Hash(c.S)%11 == 0 {
			sampled++
			rec.Sample(map[string]any{"step": "regctl ref", "class": c.Class, "input": fmt.Sprintf("%.90q", c.S)})
		}
	})
	rec.Count("ctl.universe.grammar", n)
	rec.Eval(n)
	n = 0
	seen := map[string]struct{}{}
	for _, s := range hc15.Seeds(false) {
		if check() {
			break
		}
		if rec.Mine(c15Hash(s)) {
			j.judge(hc15.Case{S: s, Class: hc15.Free, Sub: "seed", Origin: "seed"})
			n++
		}
		if !thorough && (strings.Contains(s, "@") || strings.Contains(s, "a/b-c") || strings.Contains(s, "a b")) {
			continue
		}
		hc15.Edits(s, func(m string) {
			if !rec.Mine(c15Hash(m)) {
				return
			}
			if _, dup := seen[m]; dup {
				return
			}
			seen[m] = struct{}{}
			j.judge(hc15.Case{S: m, Class: hc15.Free, Sub: "edit1", Origin: hc15.OriginEdit})
			n++
		})
	}
	rec.Count("ctl.universe.edit1", n)
	rec.Eval(n)
	if j.n["ctl.accepted"] == 0 || j.n["ctl.rejected"] == 0 {
		rec.HarnessError("vacuous: accepted=%d rejected=%d in shard %d", j.n["ctl.accepted"], j.n["ctl.rejected"], rec.ShardI)
	}
}
