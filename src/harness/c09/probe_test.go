package hc09

import (
	"fmt"
	"os"
	"testing"
	"time"
)

// TestProbeC09 is a development aid (not part of the check): VERIF_PROBE=1 prints one line per case.
func TestProbeC09(t *testing.T) {
	if os.Getenv("VERIF_PROBE") == "" {
		t.Skip()
	}
	scratch, _ := os.MkdirTemp("", "c09probe")
	defer os.RemoveAll(scratch)
	os.Chdir(scratch)
	for _, gn := range allGraphs() {
		for _, src := range []string{"reg", "dir"} {
			t0 := time.Now()
			ex := doExport(ExportCase{Graph: gn, Src: src}, scratch)
			fmt.Printf("%-8s src=%s export err=%v findings=%v entries=%d req=%d (%v)\n", gn, src, ex.Err, ex.Findings, len(ex.Ents), ex.Requests, time.Since(t0))
			if ex.Err != nil {
				continue
			}
			for _, tg := range []string{"regv", "regn", "dir"} {
				t0 = time.Now()
				im := doImport(ImportCase{Tgt: tg}, ex.Raw, scratch)
				ok := im.Resolve == ex.G.Top && len(im.Probs) == 0 && sameSet(im.Reach, ex.SrcReach)
				fmt.Printf("    -> %s ok=%v err=%v resolve=%s probs=%v order=%d rej=%v req=%d (%v)\n", tg, ok, im.Err, short(im.Resolve), im.Probs, len(im.OrderObs), im.Rejected, im.Requests, time.Since(t0))
				im.done()
			}
		}
	}
}
