package hc09

// Independent tar handling for C09: parsing of the archive written by ImageExport, the archive
// oracle (valid OCI layout, Docker manifest.json), and the re-serialisation of an archive in another
// shape (entry order, link forms, extra entries, directories omitted). Only archive/tar,
// compress/gzip, encoding/json and crypto hashes (through modelreg.Digest) are used here - nothing
// from regclient.

import (
	"archive/tar"
	"bytes"
	"compress/gzip"
	"encoding/json"
	"fmt"
	"io"
	"path"
	"regexp"
	"sort"
	"strconv"
	"strings"

	"github.com/regclient/regclient/internal/verif/audit"
	"github.com/regclient/regclient/internal/verif/modelreg"
)

type tEntry struct {
	Name string
	Type byte // tar.TypeReg, TypeDir, TypeSymlink, TypeLink
	Link string
	Data []byte
}

func (e tEntry) isDir() bool { return e.Type == tar.TypeDir }

func isGzip(b []byte) bool { return len(b) >= 3 && b[0] == 0x1f && b[1] == 0x8b && b[2] == 8 }

func gunzip(b []byte) ([]byte, error) {
	zr, err := gzip.NewReader(bytes.NewReader(b))
	if err != nil {
		return nil, err
	}
	return io.ReadAll(zr)
}

func gzipBytes(b []byte) []byte {
	var buf bytes.Buffer
	zw := gzip.NewWriter(&buf)
	zw.Write(b)
	zw.Close()
	return buf.Bytes()
}

// parseTar reads a (possibly gzip-compressed) tar stream completely.
func parseTar(b []byte) (ents []tEntry, gz bool, err error) {
	if isGzip(b) {
		gz = true
		if b, err = gunzip(b); err != nil {
			return nil, gz, fmt.Errorf("gunzip: %v", err)
		}
	}
	tr := tar.NewReader(bytes.NewReader(b))
	for {
		h, err := tr.Next()
		if err == io.EOF {
			break
		}
		if err != nil {
			return nil, gz, fmt.Errorf("tar: %v", err)
		}
		e := tEntry{Name: h.Name, Type: h.Typeflag, Link: h.Linkname}
		if h.Typeflag == tar.TypeReg {
			if e.Data, err = io.ReadAll(tr); err != nil {
				return nil, gz, fmt.Errorf("tar entry %s: %v", h.Name, err)
			}
			if int64(len(e.Data)) != h.Size {
				return nil, gz, fmt.Errorf("tar entry %s: %d bytes, header says %d", h.Name, len(e.Data), h.Size)
			}
		}
		ents = append(ents, e)
	}
	return ents, gz, nil
}

func writeTar(ents []tEntry, gz bool) []byte {
	var buf bytes.Buffer
	tw := tar.NewWriter(&buf)
	for _, e := range ents {
		h := tar.Header{Format: tar.FormatPAX, Typeflag: e.Type, Name: e.Name, Linkname: e.Link, Mode: 0o644}
		switch e.Type {
		case tar.TypeDir:
			h.Mode = 0o755
		case tar.TypeReg:
			h.Size = int64(len(e.Data))
		case tar.TypeSymlink:
			h.Mode = 0o777
		}
		if err := tw.WriteHeader(&h); err != nil {
			panic(err)
		}
		if e.Type == tar.TypeReg {
			if _, err := tw.Write(e.Data); err != nil {
				panic(err)
			}
		}
	}
	if err := tw.Close(); err != nil {
		panic(err)
	}
	if gz {
		return gzipBytes(buf.Bytes())
	}
	return buf.Bytes()
}

// ---------------------------------------------------------------------------------------------
// archive oracle

type arcStore struct{ m map[string][]byte }

func (s arcStore) Manifest(d string) ([]byte, bool) { b, ok := s.m[d]; return b, ok }
func (s arcStore) Blob(d string) ([]byte, bool)     { b, ok := s.m[d]; return b, ok }

var reBlobPath = regexp.MustCompile(`^blobs/([a-z0-9]+)/([^/]+)$`)

// docker reference grammar (name:tag), simplified from distribution/reference
var reDockerRef = regexp.MustCompile(`^(?:[a-zA-Z0-9](?:[a-zA-Z0-9-]*[a-zA-Z0-9])?(?:\.[a-zA-Z0-9](?:[a-zA-Z0-9-]*[a-zA-Z0-9])?)*(?::[0-9]+)?/)?[a-z0-9]+(?:(?:[._]|__|[-]+)[a-z0-9]+)*(?:/[a-z0-9]+(?:(?:[._]|__|[-]+)[a-z0-9]+)*)*:[A-Za-z0-9_][A-Za-z0-9_.-]{0,127}$`)

type arcFinding struct {
	Clause string // short clause id (part of the violation key)
	Msg    string
}

type arcExpect struct {
	Top       string // digest the index must name
	TopBody   []byte
	TopMT     string
	Tag       string // "" = no tag is known for the exported image (export by digest without override)
	WantGzip  bool
	IsImage   bool // single image (not an index): manifest.json demanded
	AllowMiss map[string]bool
}

type dockerManifestEntry struct {
	Config   string
	RepoTags []string
	Layers   []string
}

// checkArchive judges the bytes written by ImageExport. It returns the parsed entries too.
func checkArchive(raw []byte, x arcExpect) ([]tEntry, []arcFinding) {
	var fs []arcFinding
	add := func(c, f string, a ...any) { fs = append(fs, arcFinding{c, fmt.Sprintf(f, a...)}) }
	ents, gz, err := parseTar(raw)
	if err != nil {
		add("arc-unreadable", "archive cannot be read: %v", err)
		return nil, fs
	}
	if gz != x.WantGzip {
		add("arc-compression", "archive gzip=%v, option asked gzip=%v", gz, x.WantGzip)
	}
	byName := map[string]*tEntry{}
	for i := range ents {
		e := &ents[i]
		n := path.Clean(e.Name)
		if e.isDir() {
			continue
		}
		if _, dup := byName[n]; dup {
			add("arc-dup-entry", "entry %s occurs more than once", n)
		}
		byName[n] = e
	}
	// marker
	if e := byName["oci-layout"]; e == nil || e.Type != tar.TypeReg {
		add("arc-marker", "no oci-layout file")
	} else {
		var lay struct {
			V string `json:"imageLayoutVersion"`
		}
		if json.Unmarshal(e.Data, &lay) != nil || lay.V != "1.0.0" {
			add("arc-marker", "oci-layout content %q", e.Data)
		}
	}
	// blobs hash to their names, once each
	store := arcStore{m: map[string][]byte{}}
	for n, e := range byName {
		if !strings.HasPrefix(n, "blobs/") {
			continue
		}
		m := reBlobPath.FindStringSubmatch(n)
		if m == nil {
			add("arc-blob-name", "unexpected entry under blobs/: %s", n)
			continue
		}
		if e.Type != tar.TypeReg {
			add("arc-blob-name", "blob entry %s has type %c", n, e.Type)
			continue
		}
		d := m[1] + ":" + m[2]
		if m[1] != "sha256" && m[1] != "sha512" {
			add("arc-blob-name", "blob entry %s: unknown algorithm", n)
			continue
		}
		if modelreg.Digest(m[1], e.Data) != d {
			add("arc-blob-hash", "entry %s does not hash to its name (got %s)", n, modelreg.Digest(m[1], e.Data))
			continue
		}
		store.m[d] = e.Data
	}
	// index
	if e := byName["index.json"]; e == nil || e.Type != tar.TypeReg {
		add("arc-index", "no index.json")
	} else {
		var idx audit.LayoutIndex
		if err := json.Unmarshal(e.Data, &idx); err != nil {
			add("arc-index", "index.json unparsable: %v", err)
		} else {
			if idx.SchemaVersion != 2 {
				add("arc-index", "index.json schemaVersion %d", idx.SchemaVersion)
			}
			if len(idx.Manifests) != 1 {
				add("arc-index", "index.json has %d entries, want 1", len(idx.Manifests))
			}
			for _, m := range idx.Manifests {
				if m.Digest != x.Top {
					add("arc-index", "index.json names %s, exported image is %s", m.Digest, x.Top)
					continue
				}
				if m.Size != int64(len(x.TopBody)) {
					add("arc-index", "index.json entry size %d, manifest has %d bytes", m.Size, len(x.TopBody))
				}
				if m.MediaType != x.TopMT {
					add("arc-index", "index.json entry mediaType %q, manifest is %q", m.MediaType, x.TopMT)
				}
				if x.Tag != "" && m.Annotations["org.opencontainers.image.ref.name"] != x.Tag {
					add("arc-index-tag", "index.json ref.name %q, want tag %q", m.Annotations["org.opencontainers.image.ref.name"], x.Tag)
				}
				// the archive must hold everything reachable (include external layers: the docker
				// manifest.json refers to every layer by path)
				_, probs := audit.Closure(store, m.Digest, audit.ClosureOpts{IncludeExternal: true})
				for _, p := range probs {
					add("arc-incomplete", "archive content: %s", p)
				}
			}
		}
	}
	// docker manifest for single images
	if x.IsImage {
		if e := byName["manifest.json"]; e == nil || e.Type != tar.TypeReg {
			add("arc-docker-manifest", "single image exported without manifest.json")
		} else {
			var dm []dockerManifestEntry
			if err := json.Unmarshal(e.Data, &dm); err != nil || len(dm) != 1 {
				add("arc-docker-manifest", "manifest.json unparsable or not one entry (%v, %d)", err, len(dm))
			} else {
				var doc modelreg.ManDoc
				json.Unmarshal(x.TopBody, &doc)
				pathOf := func(d string) string { return "blobs/" + strings.Replace(d, ":", "/", 1) }
				if f := byName[path.Clean(dm[0].Config)]; f == nil || f.Type != tar.TypeReg {
					add("arc-docker-manifest", "manifest.json Config %q is not in the archive", dm[0].Config)
				} else if doc.Config != nil && path.Clean(dm[0].Config) != pathOf(doc.Config.Digest) {
					add("arc-docker-manifest", "manifest.json Config %q is not the image's config %s", dm[0].Config, doc.Config.Digest)
				}
				if len(dm[0].Layers) != len(doc.Layers) {
					add("arc-docker-manifest", "manifest.json lists %d layers, image has %d", len(dm[0].Layers), len(doc.Layers))
				} else {
					for i, l := range dm[0].Layers {
						if f := byName[path.Clean(l)]; f == nil || f.Type != tar.TypeReg {
							add("arc-docker-manifest", "manifest.json layer %q is not in the archive", l)
						} else if path.Clean(l) != pathOf(doc.Layers[i].Digest) {
							add("arc-docker-manifest", "manifest.json layer %d is %q, image layer is %s", i, l, doc.Layers[i].Digest)
						}
					}
				}
				if len(dm[0].RepoTags) == 0 {
					add("arc-docker-repotags", "manifest.json has no RepoTags")
				}
				for _, rt := range dm[0].RepoTags {
					if !reDockerRef.MatchString(rt) {
						add("arc-docker-repotags", "manifest.json RepoTags entry %q is not a valid name:tag reference", rt)
					} else if x.Tag != "" && !strings.HasSuffix(rt, ":"+x.Tag) {
						add("arc-docker-repotags", "manifest.json RepoTags entry %q does not carry tag %q", rt, x.Tag)
					}
				}
			}
		}
	}
	return ents, fs
}

// ---------------------------------------------------------------------------------------------
// shapes: re-serialisation of a parsed archive

// split returns the directory entries and the others (files, links) of an archive in their order.
func split(ents []tEntry) (dirs, files []tEntry) {
	for _, e := range ents {
		if e.isDir() {
			dirs = append(dirs, e)
		} else {
			files = append(files, e)
		}
	}
	return
}

// blobIdx lists the indexes (into files) of entries under blobs/.
func blobIdx(files []tEntry) []int {
	var out []int
	for i, f := range files {
		if reBlobPath.MatchString(path.Clean(f.Name)) {
			out = append(out, i)
		}
	}
	return out
}

// nthPerm returns the k-th permutation (lexicographic, factoradic decoding) of 0..n-1.
func nthPerm(n int, k int) []int {
	fact := make([]int, n+1)
	fact[0] = 1
	for i := 1; i <= n; i++ {
		fact[i] = fact[i-1] * i
	}
	pool := make([]int, n)
	for i := range pool {
		pool[i] = i
	}
	out := make([]int, 0, n)
	for i := n; i >= 1; i-- {
		f := fact[i-1]
		j := k / f
		k %= f
		out = append(out, pool[j])
		pool = append(pool[:j], pool[j+1:]...)
	}
	return out
}

func factorial(n int) int {
	f := 1
	for i := 2; i <= n; i++ {
		f *= i
	}
	return f
}

// link forms: how a blob entry blobs/<alg>/<hex> is replaced by a link to a second copy.
//
//	sym-up       symlink  blobs/<alg>/<hex> -> ../../data/<n>          (target outside blobs/, relative)
//	sym-sib      symlink  blobs/<alg>/<hex> -> <hex>.data              (target next to the link)
//	sym-sub      symlink  blobs/<alg>/<hex> -> store/<n>               (target below the link's directory)
//	sym-chain    symlink  blobs/<alg>/<hex> -> ../../l/<n> ; l/<n> -> ../data/<n>
//	hard-root    hardlink blobs/<alg>/<hex> => data/<n>                (tar hard links name the target from the archive root)
//	hard-sib     hardlink blobs/<alg>/<hex> => blobs/<alg>/<hex>.data
//
// In every form the regular file holding the bytes is a second name; for hard links the target
// precedes the link (tar semantics), for symlinks both positions are enumerated (after: "+late").
var linkForms = []string{"sym-up", "sym-sib", "sym-sub", "sym-chain", "hard-root", "hard-sib"}

// applyLink replaces files[i] by the given link form. late = the data file comes after the link.
func applyLink(files []tEntry, which []int, form string, late bool) []tEntry {
	sel := map[int]bool{}
	for _, i := range which {
		sel[i] = true
	}
	var out []tEntry
	for i, f := range files {
		if !sel[i] {
			out = append(out, f)
			continue
		}
		name := path.Clean(f.Name)
		dir, base := path.Split(name)
		n := "c" + strconv.Itoa(i)
		var data, link tEntry
		var mid []tEntry
		switch form {
		case "sym-up":
			data = tEntry{Name: "data/" + n, Type: tar.TypeReg, Data: f.Data}
			link = tEntry{Name: name, Type: tar.TypeSymlink, Link: "../../data/" + n}
		case "sym-sib":
			data = tEntry{Name: dir + base + ".data", Type: tar.TypeReg, Data: f.Data}
			link = tEntry{Name: name, Type: tar.TypeSymlink, Link: base + ".data"}
		case "sym-sub":
			data = tEntry{Name: dir + "store/" + n, Type: tar.TypeReg, Data: f.Data}
			link = tEntry{Name: name, Type: tar.TypeSymlink, Link: "store/" + n}
		case "sym-chain":
			data = tEntry{Name: "data/" + n, Type: tar.TypeReg, Data: f.Data}
			mid = []tEntry{{Name: "l/" + n, Type: tar.TypeSymlink, Link: "../data/" + n}}
			link = tEntry{Name: name, Type: tar.TypeSymlink, Link: "../../l/" + n}
		case "hard-root":
			data = tEntry{Name: "data/" + n, Type: tar.TypeReg, Data: f.Data}
			link = tEntry{Name: name, Type: tar.TypeLink, Link: "data/" + n}
		case "hard-sib":
			data = tEntry{Name: dir + base + ".data", Type: tar.TypeReg, Data: f.Data}
			link = tEntry{Name: name, Type: tar.TypeLink, Link: dir + base + ".data"}
		default:
			panic("link form " + form)
		}
		if late {
			out = append(out, link)
			out = append(out, mid...)
			out = append(out, data)
		} else {
			out = append(out, data)
			out = append(out, mid...)
			out = append(out, link)
		}
	}
	return out
}

// resolveLinks gives, for an archive, the bytes reachable under every name following symlinks
// (POSIX: relative to the link's directory) and hard links (tar: from the archive root). Used by the
// harness to prove that a shaped archive still presents the same layout (self-check of the shapes).
func resolveLinks(ents []tEntry) map[string][]byte {
	byName := map[string]tEntry{}
	for _, e := range ents {
		byName[path.Clean(e.Name)] = e
	}
	out := map[string][]byte{}
	for n := range byName {
		cur := n
		for hops := 0; hops < 8; hops++ {
			e, ok := byName[cur]
			if !ok {
				break
			}
			if e.Type == tar.TypeReg {
				out[n] = e.Data
				break
			}
			if e.Type == tar.TypeSymlink {
				if path.IsAbs(e.Link) {
					cur = path.Clean(e.Link)[1:]
				} else {
					cur = path.Join(path.Dir(cur), e.Link)
				}
				continue
			}
			if e.Type == tar.TypeLink {
				cur = path.Clean(e.Link)
				continue
			}
			break
		}
	}
	return out
}

// shapeArchive builds the archive variant named by shape from the parsed export.
// Shapes:
//
//	id                      same entries, same order (re-serialised by the harness)
//	perm:<k>                directory entries first, the other entries in the k-th permutation
//	rot:<k>                 the other entries rotated left by k
//	rev                     the other entries reversed
//	revrot:<k>              reversed then rotated
//	nodirs                  directory entries omitted
//	dirslast                directory entries after everything else
//	dotslash                every name prefixed with "./"
//	gz                      harness output gzip-compressed
//	extra:<pos>             one unrelated file (README.txt) inserted at position pos of the non-directory entries
//	extrablob:<pos>         one unrelated, correctly named blob inserted at position pos
//	link:<form>:<i|all>[+late]   blob i (index among blob entries) or all blobs replaced by a link to a second copy
//	linkperm:<form>:<i>:<k> blob i replaced by a link, then every entry order (hard links that would precede their target are skipped as malformed)
func shapeArchive(ents []tEntry, shape string) ([]byte, error) {
	dirs, files := split(ents)
	arg := ""
	kind := shape
	if i := strings.IndexByte(shape, ':'); i >= 0 {
		kind, arg = shape[:i], shape[i+1:]
	}
	num := func() (int, error) { return strconv.Atoi(arg) }
	rot := func(fs []tEntry, k int) []tEntry {
		k %= len(fs)
		return append(append([]tEntry{}, fs[k:]...), fs[:k]...)
	}
	rev := func(fs []tEntry) []tEntry {
		o := make([]tEntry, len(fs))
		for i, f := range fs {
			o[len(fs)-1-i] = f
		}
		return o
	}
	join := func(a, b []tEntry) []tEntry { return append(append([]tEntry{}, a...), b...) }
	switch kind {
	case "id":
		return writeTar(ents, false), nil
	case "perm":
		k, err := num()
		if err != nil || k < 0 || k >= factorial(len(files)) {
			return nil, fmt.Errorf("bad perm %q", arg)
		}
		p := nthPerm(len(files), k)
		o := make([]tEntry, len(files))
		for i, j := range p {
			o[i] = files[j]
		}
		return writeTar(join(dirs, o), false), nil
	case "rot":
		k, err := num()
		if err != nil {
			return nil, err
		}
		return writeTar(join(dirs, rot(files, k)), false), nil
	case "rev":
		return writeTar(join(dirs, rev(files)), false), nil
	case "revrot":
		k, err := num()
		if err != nil {
			return nil, err
		}
		return writeTar(join(dirs, rot(rev(files), k)), false), nil
	case "nodirs":
		return writeTar(files, false), nil
	case "dirslast":
		return writeTar(join(files, dirs), false), nil
	case "dotslash":
		o := make([]tEntry, len(ents))
		for i, e := range ents {
			e.Name = "./" + e.Name
			o[i] = e
		}
		return writeTar(o, false), nil
	case "gz":
		return writeTar(ents, true), nil
	case "extra", "extrablob":
		k, err := num()
		if err != nil || k < 0 || k > len(files) {
			return nil, fmt.Errorf("bad position %q", arg)
		}
		x := tEntry{Name: "README.txt", Type: tar.TypeReg, Data: []byte("not part of the layout\n")}
		if kind == "extrablob" {
			b := []byte("an unrelated blob")
			x = tEntry{Name: "blobs/" + strings.Replace(modelreg.Digest("sha256", b), ":", "/", 1), Type: tar.TypeReg, Data: b}
		}
		o := append(append(append([]tEntry{}, files[:k]...), x), files[k:]...)
		return writeTar(join(dirs, o), false), nil
	case "link":
		late := strings.HasSuffix(arg, "+late")
		arg = strings.TrimSuffix(arg, "+late")
		sp := strings.SplitN(arg, ":", 2)
		if len(sp) != 2 {
			return nil, fmt.Errorf("bad link shape %q", shape)
		}
		bi := blobIdx(files)
		var which []int
		if sp[1] == "all" {
			which = bi
		} else {
			i, err := strconv.Atoi(sp[1])
			if err != nil || i < 0 || i >= len(bi) {
				return nil, fmt.Errorf("bad blob index in %q", shape)
			}
			which = []int{bi[i]}
		}
		// links carry no directory entries of their own: keep the original ones in front
		return writeTar(join(dirs, applyLink(files, which, sp[0], late)), false), nil
	case "linkperm":
		// linkperm:<form>:<i>:<k>  blob i replaced by a link (copy first), then the k-th permutation of all non-directory entries
		sp := strings.Split(arg, ":")
		if len(sp) != 3 {
			return nil, fmt.Errorf("bad linkperm shape %q", shape)
		}
		bi := blobIdx(files)
		i, err1 := strconv.Atoi(sp[1])
		k, err2 := strconv.Atoi(sp[2])
		if err1 != nil || err2 != nil || i < 0 || i >= len(bi) {
			return nil, fmt.Errorf("bad linkperm shape %q", shape)
		}
		fl := applyLink(files, []int{bi[i]}, sp[0], false)
		if k < 0 || k >= factorial(len(fl)) {
			return nil, fmt.Errorf("bad permutation in %q", shape)
		}
		pm := nthPerm(len(fl), k)
		o := make([]tEntry, len(fl))
		for a, b := range pm {
			o[a] = fl[b]
		}
		if !hardLinksFollow(o) {
			return nil, errMalformedShape
		}
		return writeTar(join(dirs, o), false), nil
	}
	return nil, fmt.Errorf("unknown shape %q", shape)
}

var errMalformedShape = fmt.Errorf("shape puts a hard link before its target")

// hardLinksFollow reports whether every hard link comes after the entry it names.
func hardLinksFollow(ents []tEntry) bool {
	pos := map[string]int{}
	for i, e := range ents {
		pos[path.Clean(e.Name)] = i
	}
	for i, e := range ents {
		if e.Type == tar.TypeLink {
			if j, ok := pos[path.Clean(e.Link)]; !ok || j > i {
				return false
			}
		}
	}
	return true
}

// sameLayout is the self-check of a shaped archive: following links the POSIX/tar way, every name of
// the original archive still yields the original bytes.
func sameLayout(orig []tEntry, shaped []byte) error {
	se, _, err := parseTar(shaped)
	if err != nil {
		return err
	}
	res := resolveLinks(se)
	for _, e := range orig {
		if e.Type != tar.TypeReg {
			continue
		}
		got, ok := res[path.Clean(e.Name)]
		if !ok {
			return fmt.Errorf("shaped archive lost %s", e.Name)
		}
		if !bytes.Equal(got, e.Data) {
			return fmt.Errorf("shaped archive changed %s", e.Name)
		}
	}
	return nil
}

func sortedNames(ents []tEntry) []string {
	var out []string
	for _, e := range ents {
		out = append(out, e.Name)
	}
	sort.Strings(out)
	return out
}
