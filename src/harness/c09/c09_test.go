package hc09

// C09 - Export then import reproduces the image; the archive is a valid OCI layout.
//
// Every case runs the real regclient.ImageExport and/or regclient.ImageImport between model
// registries and OCI layout directories; the archive and the raw post-state of the target are
// judged by an oracle that uses archive/tar, encoding/json and the standard hashes only.
//
// Families (all enumerated exhaustively within the stated bound, see rule()):
//
//	rt      graph x src{reg,dir} x by-tag/by-digest x gzip x export-ref override
//	        -> archive oracle; then x tgt{regv,regn,dir} x selection{none,name,tag,digest} -> import oracle
//	shape   graph (exported from a registry by tag) x archive shape (entry orders, links, extra
//	        entries, no directory entries, ...) x tgt
//	docker  Docker-save archives synthesised by the harness x tgt
//	multi   harness-built OCI layout archives holding two images x selection x tgt

import (
	"encoding/json"
	"errors"
	"fmt"
	"os"
	"sort"
	"strings"
	"testing"

	"github.com/regclient/regclient/internal/verif/ev"
	"github.com/regclient/regclient/internal/verif/graphs"
	"github.com/regclient/regclient/internal/verif/modelreg"
)

type Case struct {
	Fam     string      `json:"fam"`
	Ex      *ExportCase `json:"ex,omitempty"`
	Shape   string      `json:"shape,omitempty"`
	Docker  *DockerSpec `json:"docker,omitempty"`
	Multi   *MultiSpec  `json:"multi,omitempty"`
	Tgt     string      `json:"tgt,omitempty"`
	SelKind string      `json:"sel,omitempty"` // rt: none | name | tag | digest
}

func (c Case) String() string {
	switch c.Fam {
	case "export":
		return "export " + c.Ex.String()
	case "rt":
		return fmt.Sprintf("rt %s -> %s sel=%s", c.Ex, c.Tgt, c.SelKind)
	case "shape":
		return fmt.Sprintf("shape %s %s -> %s", c.Ex.Graph, c.Shape, c.Tgt)
	case "docker":
		return fmt.Sprintf("%s -> %s", c.Docker, c.Tgt)
	case "multi":
		return fmt.Sprintf("%s -> %s", c.Multi, c.Tgt)
	}
	return c.Fam
}

var targets = []string{"regv", "regn", "dir"}

// ---------------------------------------------------------------------------------------------
// input classes (used in violation keys; derived from the input alone, never from the outcome)

func gclass(g *graphs.Graph) string {
	top := g.Manifests[g.Top]
	if top.MediaType == mtDocker1 || top.MediaType == mtOCIArtMan {
		return "no-config-manifest"
	}
	for _, m := range g.Manifests {
		var doc modelreg.ManDoc
		if json.Unmarshal(m.Body, &doc) != nil {
			continue
		}
		for _, e := range doc.Manifests {
			if _, ok := g.Manifests[e.Digest]; !ok {
				return "index-blob-entry"
			}
		}
	}
	if multiParent(g) {
		return "shared-child"
	}
	if len(g.External) > 0 {
		return "foreign-layer"
	}
	if isIndexMT(top.MediaType) {
		return "index"
	}
	return "image"
}

// shapeClass names what a shape changes besides the entry order ("" = order only).
func shapeClass(shape string) string {
	kind := shape
	arg := ""
	if i := strings.IndexByte(shape, ':'); i >= 0 {
		kind, arg = shape[:i], shape[i+1:]
	}
	switch kind {
	case "", "id", "perm", "rot", "rev", "revrot", "dirslast":
		return ""
	case "link", "linkperm":
		form := arg
		if i := strings.IndexByte(arg, ':'); i >= 0 {
			form = arg[:i]
		}
		switch form {
		case "sym-up", "sym-chain", "hard-root":
			return "link-through-root" // the link target is named by climbing to / from the archive root
		default:
			return "link-nearby" // the link target lives in the link's own directory tree
		}
	}
	return kind
}

// inputClass picks the class named in a violation key. cause: "order" (a validating registry
// rejected a manifest), "not-found" (the importer did not find entries), "" (anything else).
func inputClass(g *graphs.Graph, shape string, cause string) string {
	gc := gclass(g)
	sc := shapeClass(shape)
	switch {
	case cause == "order" || sc == "":
		return gc
	case cause == "not-found":
		return sc
	case gc == "index-blob-entry" || gc == "no-config-manifest":
		return gc
	}
	return sc
}

// ---------------------------------------------------------------------------------------------
// judging

type verdict struct {
	Key string
	Msg string
}

func errCause(im *imported) (cause string, class string) {
	if len(im.Rejected) > 0 && im.IC.Tgt == "regv" {
		return "rejected-by-validating-registry", "order"
	}
	if strings.Contains(im.Err.Error(), "unable to read all files") || strings.Contains(im.Err.Error(), "could not find") {
		return "entries-not-found", "not-found"
	}
	return "error", ""
}

// judgeOCI judges the import of an OCI layout archive that holds graph g completely.
func judgeOCI(g *graphs.Graph, srcReach map[string]bool, shape string, im *imported) *verdict {
	if im.Err != nil {
		if strings.HasPrefix(im.Err.Error(), "harness:") {
			return &verdict{"HARNESS", im.Err.Error()}
		}
		cause, ord := errCause(im)
		return &verdict{"import-fails:" + cause + ":" + inputClass(g, shape, ord),
			fmt.Sprintf("import of a well-formed archive failed: %v; rejected=%v order-observations=%v", im.Err, im.Rejected, im.OrderObs)}
	}
	cls := inputClass(g, shape, "")
	if im.Resolve != g.Top {
		return &verdict{"digest-mismatch:" + cls, fmt.Sprintf("import returned nil but the target reference resolves to %q, source digest is %s (tags at the target: %v)", im.Resolve, g.Top, im.TagsAfter)}
	}
	if len(im.Probs) > 0 {
		return &verdict{"closure-incomplete:" + cls, fmt.Sprintf("import returned nil but the target content is incomplete: %v", im.Probs)}
	}
	if !sameSet(im.Reach, srcReach) {
		return &verdict{"closure-differs:" + cls, fmt.Sprintf("closure at the target %v differs from the source's %v", sortedKeys(im.Reach), sortedKeys(srcReach))}
	}
	return nil
}

type runner struct {
	t       *testing.T
	rec     *ev.Rec
	exCache map[ExportCase]*exported
	verbose bool
	// vacuity / spread
	outcomes  map[string]int
	multiScan int
	linkRan   int
	linkOK    int
	nsamples  int
}

func (r *runner) export(ec ExportCase) *exported {
	if ex, ok := r.exCache[ec]; ok {
		return ex
	}
	ex := doExport(ec, r.rec.Scratch)
	r.exCache[ec] = ex
	return ex
}

func (r *runner) violation(c Case, v *verdict) {
	if v.Key == "HARNESS" {
		r.rec.HarnessError("%s: %s", c, v.Msg)
		return
	}
	r.rec.Violation(v.Key, "case: "+c.String()+"\n"+v.Msg, c)
	if r.verbose {
		fmt.Printf("VIOLATION %s\n  %s\n  %s\n", v.Key, c, v.Msg)
	}
}

// judgeExport evaluates the archive clause for one export (once per export case).
func (r *runner) judgeExport(c Case, ex *exported) bool {
	rec := r.rec
	rec.Eval(1)
	rec.Count("exports", 1)
	g := ex.G
	if len(ex.SrcProbs) > 0 {
		rec.HarnessError("source of %s is incomplete: %v", c, ex.SrcProbs)
		return false
	}
	if ex.EC.Damage != "" {
		// a blob of the image is damaged at the source: the export must either report it or still
		// produce a valid layout
		if ex.Err != nil {
			if strings.HasPrefix(ex.Err.Error(), "harness:") {
				rec.HarnessError("%s: %v", c, ex.Err)
				return false
			}
			rec.Count("damaged_source_exports_refused", 1)
			rec.Distinct("export|" + ex.EC.String())
			return false
		}
		rec.Count("damaged_source_exports_succeeding", 1)
		for _, f := range ex.Findings {
			r.violation(c, &verdict{"archive-from-damaged-source:" + f.Clause, fmt.Sprintf("blob %s was damaged at the source, ImageExport returned nil, and the archive is flawed: %s", short(ex.Damaged), f.Msg)})
			break
		}
		if len(ex.Findings) == 0 {
			// the archive is a valid layout although the source blob was damaged (e.g. the content was
			// taken from inline data): nothing to object to
			rec.Count("damaged_source_exports_valid_anyway", 1)
		}
		return false
	}
	if ex.Err != nil {
		if strings.HasPrefix(ex.Err.Error(), "harness:") {
			rec.HarnessError("%s: %v", c, ex.Err)
			return false
		}
		rec.Count("exports_failed", 1)
		r.outcomes["export:error"]++
		r.violation(c, &verdict{"export-fails:" + gclass(g), fmt.Sprintf("ImageExport failed: %v", ex.Err)})
		return false
	}
	rec.Count("archives_checked", 1)
	nb := 0
	for _, e := range ex.Ents {
		if reBlobPath.MatchString(e.Name) {
			nb++
		}
	}
	rec.Count("archive_blob_entries_hashed", int64(nb))
	rec.Count("archive_entries", int64(len(ex.Ents)))
	rec.Count("export_external_url_fetches", int64(ex.ExtFetch))
	if wantsDockerManifest(g) {
		rec.Count("archives_with_docker_manifest_checked", 1)
	}
	if len(ex.Findings) > 0 {
		seen := map[string]bool{}
		for _, f := range ex.Findings {
			if seen[f.Clause] {
				continue
			}
			seen[f.Clause] = true
			r.violation(c, &verdict{"archive:" + f.Clause + ":" + gclass(g), f.Msg})
		}
		rec.Count("archives_flawed", 1)
	}
	rec.Distinct("export|" + ex.EC.String())
	return true
}

func (r *runner) noteImport(c Case, im *imported, v *verdict) {
	rec := r.rec
	rec.Eval(1)
	rec.Count("imports", 1)
	rec.Count("imports_"+c.Fam, 1)
	rec.Count("import_requests", int64(im.Requests))
	rec.Count("import_scans", int64(im.Passes))
	if im.Passes >= 3 {
		rec.Count("imports_rescanned_3plus", 1)
		r.multiScan++
	}
	if im.Err == nil {
		rec.Count("imports_ok", 1)
	} else {
		rec.Count("imports_failed", 1)
	}
	if len(im.OrderObs) > 0 {
		rec.Count("imports_with_parent_before_child_put", 1)
	}
	if im.IC.Tgt == "regv" && im.Err == nil {
		rec.Count("validating_registry_accepted_all_manifests", 1)
	}
	wrote := im.ManPuts > 0 || (im.TgtDir != "" && im.Resolve != "")
	if wrote {
		rec.Distinct(c.String())
	}
	o := "ok"
	if v != nil {
		o = v.Key
	}
	r.outcomes[c.Fam+":"+o]++
	if r.nsamples < 3 && (r.nsamples == 0 || im.Passes >= 3) {
		r.nsamples++
		rec.Sample(map[string]any{"case": c, "outcome": o, "scans": im.Passes, "requests": im.Requests, "resolved": im.Resolve})
	}
	if r.verbose {
		fmt.Printf("%-70s err=%v scans=%d requests=%d resolve=%s verdict=%s\n", c.String(), im.Err, im.Passes, im.Requests, short(im.Resolve), o)
		for _, l := range im.Trace {
			fmt.Println("      " + l)
		}
	}
}

func selFor(kind string, ex *exported) string {
	switch kind {
	case "name":
		return "name:" + ex.Name
	case "tag":
		return "name:" + ex.Tag
	case "digest":
		return "digest:" + ex.G.Top
	}
	return ""
}

// runCase executes one import case (and whatever export it needs).
func (r *runner) runCase(c Case) {
	switch c.Fam {
	case "export":
		r.judgeExport(c, r.export(*c.Ex))
	case "rt":
		ex := r.export(*c.Ex)
		if ex.Err != nil || ex.Raw == nil {
			return // judged by the export case
		}
		im := doImport(ImportCase{Tgt: c.Tgt, Sel: selFor(c.SelKind, ex)}, ex.Raw, r.rec.Scratch)
		v := judgeOCI(ex.G, ex.SrcReach, "", im)
		im.done()
		r.noteImport(c, im, v)
		if v != nil {
			r.violation(c, v)
		}
	case "shape":
		ex := r.export(*c.Ex)
		if ex.Err != nil || ex.Raw == nil {
			return
		}
		raw, err := shapeArchive(ex.Ents, c.Shape)
		if err == errMalformedShape {
			r.rec.Count("shapes_skipped_hardlink_before_target", 1)
			return
		}
		if err != nil {
			r.rec.HarnessError("%s: %v", c, err)
			return
		}
		if err := sameLayout(ex.Ents, raw); err != nil {
			r.rec.HarnessError("%s: shaped archive is not the same layout: %v", c, err)
			return
		}
		im := doImport(ImportCase{Tgt: c.Tgt}, raw, r.rec.Scratch)
		v := judgeOCI(ex.G, ex.SrcReach, c.Shape, im)
		im.done()
		r.noteImport(c, im, v)
		r.rec.Count("shape_"+strings.SplitN(c.Shape, ":", 2)[0], 1)
		if strings.HasPrefix(c.Shape, "link") {
			r.linkRan++
			if v == nil {
				r.linkOK++
				r.rec.Count("link_shapes_imported_ok", 1)
			}
		}
		if v != nil {
			r.violation(c, v)
		}
	case "docker":
		da, err := buildDocker(*c.Docker)
		if err != nil {
			r.rec.HarnessError("%s: %v", c, err)
			return
		}
		sel := ""
		if da.SelName != "" {
			sel = "name:" + da.SelName
		}
		im := doImport(ImportCase{Tgt: c.Tgt, Sel: sel}, da.Raw, r.rec.Scratch)
		v := r.judgeDockerCase(c, da, im)
		im.done()
		r.noteImport(c, im, v)
		if v != nil {
			r.violation(c, v)
		}
	case "multi":
		raw := buildMulti(*c.Multi)
		g0, g1 := getGraph(c.Multi.Graphs[0]), getGraph(c.Multi.Graphs[1])
		ic := ImportCase{Tgt: c.Tgt}
		var want *graphs.Graph
		switch c.Multi.Sel {
		case "name0":
			ic.Sel, want = "name:"+multiNames[0], g0
		case "name1":
			ic.Sel, want = "name:"+multiNames[1], g1
		case "digest0":
			ic.Sel, want = "digest:"+g0.Top, g0
		case "digest1":
			ic.Sel, want = "digest:"+g1.Top, g1
		case "tgt-tag1":
			ic.TgtTag = multiNames[1] // no explicit selection, the target tag equals the ref.name of the second image
		case "none":
		default:
			r.rec.HarnessError("%s: bad selection", c)
			return
		}
		im := doImport(ic, raw, r.rec.Scratch)
		var v *verdict
		if want != nil {
			reach := closureOf(want)
			v = judgeOCI(want, reach, "", im)
		} else if im.Err == nil {
			// nothing selected: either image is acceptable, but it must be one of them and complete
			var vs []*verdict
			for _, g := range []*graphs.Graph{g0, g1} {
				vs = append(vs, judgeOCI(g, closureOf(g), "", im))
			}
			if vs[0] != nil && vs[1] != nil {
				v = &verdict{"multi-image-archive:unselected-import-is-neither-image", vs[0].Msg + " / " + vs[1].Msg}
			}
		} else {
			r.rec.Count("multi_unselected_refused", 1)
		}
		im.done()
		r.noteImport(c, im, v)
		if v != nil {
			r.violation(c, v)
		}
	default:
		r.rec.HarnessError("unknown family %q", c.Fam)
	}
}

var reachCache = map[string]map[string]bool{}

// closureOf computes the reachable set of a graph from its own content (as a source would hold it).
func closureOf(g *graphs.Graph) map[string]bool {
	if r, ok := reachCache[g.Name]; ok {
		return r
	}
	rp := &modelreg.Repo{Blobs: map[string][]byte{}, Manifests: map[string]*modelreg.Manifest{}, Tags: map[string]string{}, Uploads: map[string]*modelreg.Upload{}}
	g.Load(rp, "")
	reach, _ := closureFromRepo(rp, g.Top)
	reachCache[g.Name] = reach
	return reach
}

func (r *runner) judgeDockerCase(c Case, da *dockerArchive, im *imported) *verdict {
	sp := c.Docker
	// input class of the archive (from the spec alone)
	cls := sp.Style
	switch {
	case sp.Dup == "samepath":
		cls = "repeated-layer-path" // manifest.json lists one path for two layers
	case (sp.Dup == "symlink" || sp.Dup == "hardlink") && sp.Style == "blobs":
		cls = "link-nearby" // link target in the link's own directory (same class as the shape family)
	case sp.Dup == "symlink" || sp.Dup == "hardlink":
		cls = "link-through-root"
	case sp.Dup != "":
		cls += ":dup-" + sp.Dup
	}
	if sp.Damage != "" {
		// a layer of the archive cannot be decompressed to the end: there is no "archive's uncompressed
		// layer" an imported image could equal, so the only answer that keeps the statement is an error
		if im.Err != nil {
			r.rec.Count("docker_damaged_layer_refused", 1)
			return nil
		}
		return &verdict{"docker:damaged-layer-imported", fmt.Sprintf("a layer of the archive does not decompress, yet ImageImport returned nil and the target resolves to %s", short(im.Resolve))}
	}
	if sp.Sel == "absent" {
		// the archive holds no such image: an error is the expected answer; success must not leave
		// something under the target reference that is not an image of the archive
		if im.Err != nil {
			r.rec.Count("docker_absent_name_refused", 1)
			return nil
		}
		if im.Resolve == "" {
			r.rec.Count("docker_absent_name_noop", 1)
			return nil
		}
		for _, img := range da.Images {
			if judgeDocker(im, img) == "" {
				return nil
			}
		}
		return &verdict{"docker:absent-name-imports-something-else", fmt.Sprintf("no image named %q is in the archive, yet ImageImport returned nil and the target now resolves to %s: %s", da.SelName, short(im.Resolve), im.TopBody)}
	}
	if im.Err != nil {
		if strings.HasPrefix(im.Err.Error(), "harness:") {
			return &verdict{"HARNESS", im.Err.Error()}
		}
		msg := fmt.Sprintf("import of a well-formed Docker archive failed: %v; rejected=%v", im.Err, im.Rejected)
		switch {
		case cls == "repeated-layer-path":
			return &verdict{"docker:repeated-layer-path", msg}
		case strings.HasPrefix(cls, "link-") && strings.Contains(im.Err.Error(), "unable to read all files"):
			return &verdict{"import-fails:entries-not-found:" + cls, msg}
		}
		return &verdict{"docker:import-fails:" + cls, msg}
	}
	var why []string
	for _, i := range da.Want {
		w := judgeDocker(im, da.Images[i])
		if w == "" {
			if len(im.Probs) > 0 {
				return &verdict{"docker:incomplete:" + cls, fmt.Sprintf("imported image is incomplete: %v", im.Probs)}
			}
			r.rec.Count("docker_layers_compared", int64(len(da.Images[i].Layers)))
			r.rec.Count("docker_configs_compared", 1)
			return nil
		}
		why = append(why, fmt.Sprintf("vs image %d: %s", i, w))
	}
	msg := "ImageImport returned nil but the imported image does not equal the archive's: " + strings.Join(why, "; ")
	if cls == "repeated-layer-path" {
		return &verdict{"docker:repeated-layer-path", msg}
	}
	return &verdict{"docker:wrong-image:" + cls, msg}
}

// ---------------------------------------------------------------------------------------------
// enumeration

type group struct {
	Cases []Case
}

func bools() []bool { return []bool{false, true} }

func enumerate(thorough bool) []group {
	var gs []group
	// rt
	for _, gn := range allGraphs() {
		for _, src := range []string{"reg", "dir"} {
			for _, byD := range bools() {
				for _, gz := range bools() {
					for _, ov := range bools() {
						ec := ExportCase{Graph: gn, Src: src, ByDigest: byD, Gzip: gz, Override: ov}
						g := group{Cases: []Case{{Fam: "export", Ex: &ec}}}
						for _, tg := range targets {
							for _, sel := range []string{"none", "name", "tag", "digest"} {
								e := ec
								g.Cases = append(g.Cases, Case{Fam: "rt", Ex: &e, Tgt: tg, SelKind: sel})
							}
						}
						gs = append(gs, g)
					}
				}
			}
		}
	}
	// damaged sources
	for _, gn := range allGraphs() {
		g := getGraph(gn)
		for _, src := range []string{"reg", "dir"} {
			for n := range hostedBlobs(g) {
				var grp group
				for _, how := range []string{"flip", "short", "long"} {
					for _, gz := range bools() {
						ec := ExportCase{Graph: gn, Src: src, Gzip: gz, Damage: fmt.Sprintf("%d:%s", n, how)}
						grp.Cases = append(grp.Cases, Case{Fam: "export", Ex: &ec})
					}
				}
				gs = append(gs, grp)
			}
		}
	}
	// shape
	permBound := 6
	if thorough {
		permBound = 7
	}
	for _, gn := range allGraphs() {
		ec := ExportCase{Graph: gn, Src: "reg"}
		for _, sh := range shapesFor(gn, permBound, thorough) {
			var g group
			for _, tg := range targets {
				e := ec
				g.Cases = append(g.Cases, Case{Fam: "shape", Ex: &e, Shape: sh, Tgt: tg})
			}
			gs = append(gs, g)
		}
	}
	// docker
	for _, sp := range dockerSpecs(thorough) {
		var g group
		for _, tg := range targets {
			s := sp
			g.Cases = append(g.Cases, Case{Fam: "docker", Docker: &s, Tgt: tg})
		}
		gs = append(gs, g)
	}
	// multi
	for _, pair := range [][2]string{{"G1", "G10"}, {"G3", "G1"}, {"L-SC2", "G7"}, {"G1", "G1-512"}} {
		for _, swap := range bools() {
			for _, sel := range []string{"name0", "name1", "digest0", "digest1", "tgt-tag1", "none"} {
				var g group
				for _, tg := range targets {
					ms := MultiSpec{Graphs: pair, Swap: swap, Sel: sel}
					g.Cases = append(g.Cases, Case{Fam: "multi", Multi: &ms, Tgt: tg})
				}
				gs = append(gs, g)
			}
		}
	}
	return gs
}

var entCountCache = map[string][2]int{}

// entryCounts exports the graph once (in this process) to learn how many non-directory and blob
// entries its archive has; (0,0) when the export fails.
func entryCounts(gn string) (files, blobs int) {
	if c, ok := entCountCache[gn]; ok {
		return c[0], c[1]
	}
	ex := doExport(ExportCase{Graph: gn, Src: "reg"}, os.TempDir())
	if ex.Err == nil {
		_, fs := split(ex.Ents)
		files, blobs = len(fs), len(blobIdx(fs))
	}
	entCountCache[gn] = [2]int{files, blobs}
	return
}

// linkPermGraphs: graphs whose archives are small enough to combine one link with every entry order.
func linkPermForms(gn string, thorough bool) []string {
	switch gn {
	case "L-IDX1":
		if thorough {
			return linkForms
		}
		return []string{"sym-up", "sym-sib", "sym-sub", "hard-root", "hard-sib"}
	case "L-CFG0":
		if thorough {
			return linkForms
		}
	}
	return nil
}

func shapesFor(gn string, permBound int, thorough bool) []string {
	n, nb := entryCounts(gn)
	if n == 0 {
		return nil
	}
	out := []string{"id", "nodirs", "dirslast", "dotslash", "gz"}
	if n <= permBound {
		for k := 1; k < factorial(n); k++ { // k = 0 is "id"
			out = append(out, fmt.Sprintf("perm:%d", k))
		}
	} else {
		for k := 1; k < n; k++ {
			out = append(out, fmt.Sprintf("rot:%d", k))
		}
		out = append(out, "rev")
		for k := 1; k < n; k++ {
			out = append(out, fmt.Sprintf("revrot:%d", k))
		}
	}
	for k := 0; k <= n; k++ {
		out = append(out, fmt.Sprintf("extra:%d", k), fmt.Sprintf("extrablob:%d", k))
	}
	for _, f := range linkForms {
		which := []string{"all"}
		for i := 0; i < nb; i++ {
			which = append(which, fmt.Sprint(i))
		}
		for _, w := range which {
			out = append(out, "link:"+f+":"+w)
			if strings.HasPrefix(f, "sym-") {
				out = append(out, "link:"+f+":"+w+"+late")
			}
		}
	}
	for _, f := range linkPermForms(gn, thorough) {
		m := n + 1
		if f == "sym-chain" {
			m = n + 2
		}
		for i := 0; i < nb; i++ {
			for k := 0; k < factorial(m); k++ {
				out = append(out, fmt.Sprintf("linkperm:%s:%d:%d", f, i, k))
			}
		}
	}
	return out
}

func dockerSpecs(thorough bool) []DockerSpec {
	var out []DockerSpec
	permBound := 6
	if thorough {
		permBound = 8
	}
	// a compressed layer that is damaged inside its stream
	for _, images := range []int{1, 2} {
		for layers := 1; layers <= 2; layers++ {
			for _, style := range []string{"legacy", "flat", "blobs"} {
				for _, sel := range []string{"", "last"} {
					for _, o := range []string{"id", "mlast"} {
						out = append(out, DockerSpec{Images: images, Layers: layers, LayerGz: true, Style: style, Sel: sel, Order: o, Damage: "gz-body"})
					}
				}
			}
		}
	}
	for _, images := range []int{1, 2} {
		for layers := 1; layers <= 3; layers++ {
			for _, style := range []string{"legacy", "flat", "blobs"} {
				for _, lgz := range bools() {
					dups := []string{""}
					if layers >= 2 {
						dups = append(dups, "copy", "symlink", "hardlink", "samepath")
					}
					for _, dup := range dups {
						for _, sources := range bools() {
							if sources && style != "blobs" {
								continue
							}
							for _, ogz := range bools() {
								for _, sel := range []string{"", "first", "last", "absent"} {
									base := DockerSpec{Images: images, Layers: layers, LayerGz: lgz, Style: style, Dup: dup, Sources: sources, OuterGz: ogz, Sel: sel}
									orders := []string{"id", "rev", "mlast"}
									// every entry order for small archives (flat style, nothing else varied)
									if style == "flat" && dup == "" && !ogz && (sel == "" || sel == "last") {
										if n := dockerFileCount(withOrder(base, "id")); n <= permBound {
											orders = nil
											for k := 0; k < factorial(n); k++ {
												orders = append(orders, fmt.Sprintf("perm:%d", k))
											}
										} else {
											for k := 1; k < n; k++ {
												orders = append(orders, fmt.Sprintf("rot:%d", k))
											}
										}
									}
									for _, o := range orders {
										out = append(out, withOrder(base, o))
									}
								}
							}
						}
					}
				}
			}
		}
	}
	return out
}

func withOrder(sp DockerSpec, o string) DockerSpec { sp.Order = o; return sp }

// ---------------------------------------------------------------------------------------------

func rule(thorough bool) string {
	pb, dpb := 6, 6
	lp := "graph L-IDX1 (5 entries), forms without sym-chain"
	if thorough {
		pb, dpb = 7, 8
		lp = "graphs L-IDX1 and L-CFG0 (5 entries), all forms"
	}
	return fmt.Sprintf("exhaustive product, no sampling: [damaged] every graph x source {registry, layout} x every hosted blob of the closure damaged at the source in turn {one byte flipped (same length), last byte missing, one byte appended} x gzip off/on: the export must fail or still write a valid layout; [rt] graphs {%s} x source {model registry, OCI layout dir} x source ref by tag/by digest x gzip off/on x export-ref override off/on -> archive oracle (1 evaluation per export), then x target {validating registry, non-validating registry, layout dir} x import selection {none, ImageWithImportName(full name), ImageWithImportName(tag), target ref by digest} (1 evaluation per import); "+
		"[shape] every graph exported from a registry by tag, its archive re-serialised by the harness as: same order, every permutation of the non-directory entries when there are <= %d of them (otherwise all rotations, the reversal and all rotations of the reversal), directory entries omitted / last, './' name prefix, gzip, an unrelated file or an unrelated blob inserted at every position, and every blob entry (one at a time, and all at once) replaced by a link of each form {%s} to a second copy (symlinks with the copy before and after the link), and one blob entry replaced by a link combined with every order of all entries (%s; orders that put a hard link before its target are skipped as malformed), each x 3 targets; "+
		"[docker] harness-built Docker-save archives: images 1-2 (sharing the base layer file) x layers 1-3 x style {legacy <id>/layer.tar, flat <hex>.tar, blobs/sha256/<hex>} x layer files plain/gzip x duplicate-layer form {none, copy, symlink, hardlink, same path twice} x LayerSources (blobs style) x whole archive gzip x selection {none, first RepoTag of image 0, second RepoTag of the last image, absent name} ; plus 48 archives with gzip layers one of which is damaged inside its compressed stream (the import has to refuse) x order {as written, reversed, manifest.json last; every permutation for flat archives of <= %d entries} x 3 targets; "+
		"[multi] harness-built OCI layout archives with two images x index order x selection {ref.name of either, digest of either, none with the target tag equal to the second ref.name, none} x 3 targets (an explicit selection must yield exactly that image; without one either image, complete, or an error is accepted). "+
		"distinct_nontrivial counts distinct cases (full case description) in which the operation actually did its work: an export that produced an archive, an import that stored at least one manifest at the target.",
		strings.Join(allGraphs(), ","), pb, strings.Join(linkForms, ","), lp, dpb)
}

func TestVerifC09(t *testing.T) {
	rec := ev.New()
	defer rec.Flush(t)
	if err := os.Chdir(rec.Scratch); err != nil {
		rec.HarnessError("chdir %s: %v", rec.Scratch, err)
		return
	}
	rec.Rule(rule(rec.Thorough()))
	rec.Assume("a Docker manifest.json is demanded for single images that have a config descriptor (schema 2 / OCI image manifests, artifacts included); Docker loadability is judged as conformance to the documented docker-save layout (paths exist and are the image's config/layers in order, RepoTags are name:tag references), not by running docker")
	rec.Assume("foreign (urls) layers: the registry source serves the URL from a model host so that export can fetch it; a layout source holds the foreign layer's bytes locally (a layout cannot fetch); closures are compared without requiring external layers")
	rec.Assume("a hard link names its target from the archive root and follows it in the archive; a symbolic link names its target relative to its own directory (POSIX/tar semantics); archives shaped by the harness are self-checked to present the same layout under these semantics before they are imported")
	r := &runner{t: t, rec: rec, exCache: map[ExportCase]*exported{}, outcomes: map[string]int{}, verbose: os.Getenv("VERIF_TRACE") != ""}

	if rd := rec.ReplayData(); rd != nil {
		var c Case
		if err := json.Unmarshal(rd, &c); err != nil {
			rec.HarnessError("replay data: %v", err)
			return
		}
		r.verbose = true
		traceImports = true
		fmt.Printf("replaying: %s\n", c)
		if c.Fam != "export" && c.Ex != nil {
			r.runCase(Case{Fam: "export", Ex: c.Ex})
		}
		r.runCase(c)
		if rec.NViolations() == 0 {
			fmt.Println("replay: no violation")
		}
		return
	}

	groups := enumerate(rec.Thorough())
	ncases := 0
	for _, g := range groups {
		ncases += len(g.Cases)
	}
	rec.Info("space", map[string]any{"groups": len(groups), "cases": ncases, "graphs": len(allGraphs())})
	stopped := false
	for i, g := range groups {
		if !rec.Mine(i) {
			continue
		}
		if rec.Expired() {
			rec.NotExhaustive(fmt.Sprintf("budget used up after %d of %d groups", i, len(groups)))
			stopped = true
			break
		}
		for _, c := range g.Cases {
			r.runCase(c)
		}
		// exports are only shared inside a group
		for k := range r.exCache {
			if k.Src != "reg" || k.ByDigest || k.Gzip || k.Override {
				delete(r.exCache, k)
			}
		}
	}
	if len(rec.ReplayData()) == 0 && !stopped {
		r.vacuity()
	}
	for k, n := range r.outcomes {
		rec.Count("outcome/"+k, int64(n))
	}
	// a few samples of what ran
	var keys []string
	for k := range r.outcomes {
		keys = append(keys, k)
	}
	sort.Strings(keys)
	rec.Sample(map[string]any{"shard": rec.ShardI, "outcomes": r.outcomes})
	_ = keys
}

// vacuity: the run must have exercised the mechanisms it claims to judge (per shard, only demanded
// when the shard ran enough cases of the kind for the demand to be meaningful).
func (r *runner) vacuity() {
	ran := map[string]int{}
	ok := map[string]int{}
	for k, n := range r.outcomes {
		fam := k[:strings.IndexByte(k, ':')]
		ran[fam] += n
		if strings.HasSuffix(k, ":ok") {
			ok[fam] += n
		}
	}
	for _, fam := range []string{"rt", "shape", "docker", "multi"} {
		if ran[fam] >= 30 && ok[fam] == 0 {
			r.rec.HarnessError("vacuity: %d %s cases ran and none imported correctly", ran[fam], fam)
		}
	}
	if ran["shape"] >= 200 && r.multiScan == 0 {
		r.rec.HarnessError("vacuity: %d shaped archives imported and none needed a third scan of the tar stream", ran["shape"])
	}
	if r.linkRan >= 100 && r.linkOK == 0 {
		r.rec.HarnessError("vacuity: %d link-shaped archives imported, none correctly", r.linkRan)
	}
}

var _ = errors.Is
