package hc09

// World construction for C09: a source (model registry or OCI layout directory) holding one image
// graph, the real regclient.ImageExport into memory, and the real regclient.ImageImport of an
// archive into a fresh target (validating model registry, non-validating model registry, or a
// layout directory). Post-states are read from raw storage only.

import (
	"bytes"
	"context"
	"encoding/json"
	"fmt"
	"os"
	"path/filepath"
	"sort"
	"strings"

	"github.com/regclient/regclient"
	"github.com/regclient/regclient/internal/verif/audit"
	"github.com/regclient/regclient/internal/verif/graphs"
	"github.com/regclient/regclient/internal/verif/modelreg"
	"github.com/regclient/regclient/internal/verif/rcenv"
	"github.com/regclient/regclient/types/ref"
)

const (
	srcHost  = "src.example"
	tgtHost  = "tgt.example"
	extHost  = "external.example"
	srcRepo  = "proj/src"
	tgtRepo  = "proj/tgt"
	srcTag   = "v1"
	tgtTag   = "imp"
	overName = "other.example/over/ride"
	overTag  = "ov"

	mtDocker1   = "application/vnd.docker.distribution.manifest.v1+json"
	mtOCIArtMan = "application/vnd.oci.artifact.manifest.v1+json"
)

var hosts = []string{srcHost, tgtHost, extHost}

// ---------------------------------------------------------------------------------------------
// graphs

var graphCache = map[string]*graphs.Graph{}

// localGraphs extend graphs.All with shapes that matter for the archive code: few entries (so that
// every entry order can be enumerated), one blob used under two media types, a child manifest
// shared across nesting levels, manifest kinds without a config, and blob sizes around the tar
// block size.
var localGraphs = []string{"L-IDX1", "L-SC", "L-SC2", "L-NEST", "L-CFG0", "L-SHARED", "L-SIZES", "L-S1", "L-ART"}

func addRawManifest(g *graphs.Graph, mt string, doc any) modelreg.Desc {
	b, err := json.Marshal(doc)
	if err != nil {
		panic(err)
	}
	d := modelreg.Digest(g.Algo, b)
	if _, ok := g.Manifests[d]; !ok {
		g.Manifests[d] = &modelreg.Manifest{Body: b, MediaType: mt}
		g.Order = append(g.Order, d)
	}
	return modelreg.Desc{MediaType: mt, Digest: d, Size: int64(len(b))}
}

// emptyArtifact is the OCI 1.1 artifact guidance shape: config and the only layer are both the
// two-byte blob "{}" (one digest under two roles and two media types).
func emptyArtifact(g *graphs.Graph, atype string) modelreg.Desc {
	cfg := g.Blob(graphs.MTOCIEmpty, "{}")
	l := g.Blob("application/vnd.example.data", "{}")
	return g.Image(false, cfg, []modelreg.Desc{l}, nil, atype, nil)
}

func getGraph(name string) *graphs.Graph {
	if g, ok := graphCache[name]; ok {
		return g
	}
	var g *graphs.Graph
	amd := &graphs.Platform{Architecture: "amd64", OS: "linux"}
	if !strings.HasPrefix(name, "L-") {
		g = graphs.Build(name)
	} else {
		g = graphs.New(name, "sha256")
		switch name {
		case "L-IDX1": // index -> one artifact whose config and layer are the same blob
			a := emptyArtifact(g, "application/vnd.example.a")
			g.Top = g.IndexP(false, []graphs.PlatDesc{{Desc: a}}, nil).Digest
		case "L-SC": // child shared by the top index and a nested index, child listed first
			a := emptyArtifact(g, "application/vnd.example.a")
			inner := g.IndexP(false, []graphs.PlatDesc{{Desc: a}}, nil)
			g.Top = g.IndexP(false, []graphs.PlatDesc{{Desc: a, Platform: amd}, {Desc: inner}}, nil).Digest
		case "L-SC2": // same, nested index listed first
			a := emptyArtifact(g, "application/vnd.example.a")
			inner := g.IndexP(false, []graphs.PlatDesc{{Desc: a}}, nil)
			g.Top = g.IndexP(false, []graphs.PlatDesc{{Desc: inner}, {Desc: a, Platform: amd}}, nil).Digest
		case "L-NEST": // three levels, nothing shared
			a := emptyArtifact(g, "application/vnd.example.a")
			inner := g.IndexP(false, []graphs.PlatDesc{{Desc: a, Platform: amd}}, nil)
			g.Top = g.IndexP(false, []graphs.PlatDesc{{Desc: inner}}, nil).Digest
		case "L-CFG0": // image without layers
			cfg := g.Blob(graphs.MTOCIConfig, `{"architecture":"amd64","os":"linux","rootfs":{"type":"layers","diff_ids":[]}}`)
			g.Top = g.Image(false, cfg, []modelreg.Desc{}, nil, "", nil).Digest
		case "L-SHARED": // image: config {} and first layer {} are one blob, plus another layer
			cfg := g.Blob(graphs.MTOCIEmpty, "{}")
			l0 := g.Blob(graphs.MTOCILayer, "{}")
			l1 := g.Blob(graphs.MTOCILayer, "second-layer")
			g.Top = g.Image(false, cfg, []modelreg.Desc{l0, l1}, nil, "application/vnd.example.shared", nil).Digest
		case "L-SIZES": // blob sizes around the tar block size
			var ls []modelreg.Desc
			var diff []string
			for _, n := range []int{511, 512, 513, 1024} {
				l := g.Blob(graphs.MTOCILayer, strings.Repeat("s", n))
				ls = append(ls, l)
				diff = append(diff, l.Digest)
			}
			cb, _ := json.Marshal(map[string]any{"architecture": "amd64", "os": "linux", "rootfs": map[string]any{"type": "layers", "diff_ids": diff}})
			cfg := g.Blob(graphs.MTOCIConfig, string(cb))
			g.Top = g.Image(false, cfg, ls, nil, "", nil).Digest
		case "L-S1": // Docker schema 1 (unsigned): an image manifest kind without a config descriptor
			l0 := g.Blob(graphs.MTDockerLayerGz, "s1-layer-0")
			l1 := g.Blob(graphs.MTDockerLayerGz, "s1-layer-1")
			doc := map[string]any{"schemaVersion": 1, "name": srcRepo, "tag": srcTag, "architecture": "amd64",
				"fsLayers": []map[string]string{{"blobSum": l0.Digest}, {"blobSum": l1.Digest}},
				"history":  []map[string]string{{"v1Compatibility": `{"id":"a"}`}, {"v1Compatibility": `{"id":"b"}`}}}
			g.Top = addRawManifest(g, mtDocker1, doc).Digest
		case "L-ART": // OCI artifact manifest (blobs, no config)
			b0 := g.Blob("application/vnd.example.data", "art-blob")
			doc := map[string]any{"mediaType": mtOCIArtMan, "artifactType": "application/vnd.example.art", "blobs": []modelreg.Desc{b0}}
			g.Top = addRawManifest(g, mtOCIArtMan, doc).Digest
		default:
			panic("unknown local graph " + name)
		}
	}
	graphCache[name] = g
	return g
}

func allGraphs() []string {
	return append(append([]string{}, graphs.All...), localGraphs...)
}

func isIndexMT(mt string) bool { return mt == graphs.MTOCIIndex || mt == graphs.MTDockerList }

// multiParent reports whether some manifest of the graph is referenced by two different manifests
// (input class used in violation keys, derived from the graph alone).
func multiParent(g *graphs.Graph) bool {
	parents := map[string]map[string]bool{}
	for d, m := range g.Manifests {
		for _, c := range audit.References(m.Body, true) {
			if _, ok := g.Manifests[c]; ok {
				if parents[c] == nil {
					parents[c] = map[string]bool{}
				}
				parents[c][d] = true
			}
		}
	}
	for _, p := range parents {
		if len(p) > 1 {
			return true
		}
	}
	return false
}

func externalContent(g *graphs.Graph, d string) []byte {
	for _, c := range []string{"foreign-content"} {
		if modelreg.Digest(g.Algo, []byte(c)) == d {
			return []byte(c)
		}
	}
	return nil
}

// ---------------------------------------------------------------------------------------------
// export side

type ExportCase struct {
	Graph    string `json:"graph"`
	Src      string `json:"src"`                 // reg | dir
	ByDigest bool   `json:"by_digest,omitempty"` // source ref names the digest instead of the tag
	Gzip     bool   `json:"gzip,omitempty"`
	Override bool   `json:"override,omitempty"` // ImageWithExportRef(other.example/over/ride:ov)
	// Damage: "" or "<n>:<how>": the n-th hosted blob (sorted by digest) of the image is damaged at
	// the source before the export; how = flip (same length, one byte changed), short (last byte
	// missing), long (one byte appended)
	Damage string `json:"damage,omitempty"`
}

func (e ExportCase) String() string {
	s := e.Graph + " src=" + e.Src
	if e.ByDigest {
		s += " by-digest"
	}
	if e.Gzip {
		s += " gzip"
	}
	if e.Override {
		s += " export-ref"
	}
	if e.Damage != "" {
		s += " damaged-source=" + e.Damage
	}
	return s
}

type exported struct {
	EC       ExportCase
	G        *graphs.Graph
	Err      error
	Raw      []byte
	Ents     []tEntry
	Findings []arcFinding
	SrcStore audit.Store
	SrcReach map[string]bool
	SrcProbs []audit.Problem
	Tag      string // tag the archive is expected to name ("" = none known)
	Name     string // full name recorded for the image (export ref common name)
	Requests int
	ExtFetch int // requests served by the external-URL host during the export
	Damaged  string // digest of the blob damaged at the source
}

// hostedBlobs lists the blobs of the image's own closure that the source holds, sorted.
func hostedBlobs(g *graphs.Graph) []string {
	reach := closureOf(g)
	var ds []string
	for d := range g.Blobs {
		if reach[d] && !g.External[d] {
			ds = append(ds, d)
		}
	}
	sort.Strings(ds)
	return ds
}

func damage(b []byte, how string) []byte {
	o := append([]byte{}, b...)
	switch how {
	case "flip":
		if len(o) == 0 {
			return []byte{'x'}
		}
		o[len(o)/2] ^= 0x01
	case "short":
		if len(o) == 0 {
			return []byte{'x'}
		}
		o = o[:len(o)-1]
	case "long":
		o = append(o, 'x')
	}
	return o
}

var dirSeq int

func newDir(root, pfx string) string {
	dirSeq++
	return filepath.Join(root, fmt.Sprintf("%s%d", pfx, dirSeq))
}

// relTo makes dir relative to the working directory (the harness chdirs into its scratch directory),
// so that names derived from layout paths do not depend on where the scratch directory lives.
func relTo(dir string) string {
	wd, err := os.Getwd()
	if err != nil {
		return dir
	}
	r, err := filepath.Rel(wd, dir)
	if err != nil || strings.HasPrefix(r, "..") {
		return dir
	}
	return r
}

func doExport(ec ExportCase, scratch string) *exported {
	g := getGraph(ec.Graph)
	ex := &exported{EC: ec, G: g}
	net := modelreg.NewNet()
	var src ref.Ref
	var err error
	var cleanup func()
	if ec.Src == "dir" {
		dir := newDir(scratch, "s")
		cleanup = func() { os.RemoveAll(dir) }
		gg := g
		if len(g.External) > 0 {
			// a layout has no way to fetch a foreign layer: the directory source holds it locally
			gg = graphs.New(g.Name, g.Algo)
			for d, b := range g.Blobs {
				gg.Blobs[d] = b
			}
			for d := range g.External {
				gg.Blobs[d] = externalContent(g, d)
			}
			gg.Manifests, gg.Top, gg.Tags = g.Manifests, g.Top, g.Tags
		}
		if err := gg.WriteLayout(dir, srcTag); err != nil {
			ex.Err = fmt.Errorf("harness: write layout: %w", err)
			return ex
		}
		ex.SrcStore = audit.DirStore{Dir: dir}
		src, err = ref.New("ocidir://" + relTo(dir) + ":" + srcTag)
	} else {
		h := net.AddHost(srcHost, modelreg.Full())
		r := h.Repo(srcRepo)
		g.Load(r, srcTag)
		ex.SrcStore = audit.RepoStore{R: r}
		src, err = ref.New(srcHost + "/" + srcRepo + ":" + srcTag)
		if len(g.External) > 0 {
			eh := net.AddHost(extHost, modelreg.Features{})
			eh.Static = map[string][]byte{}
			for d := range g.External {
				eh.Static["/"+d] = externalContent(g, d)
			}
		}
	}
	if cleanup != nil {
		defer cleanup()
	}
	if err != nil {
		ex.Err = fmt.Errorf("harness: src ref: %w", err)
		return ex
	}
	ex.Tag = srcTag
	if ec.ByDigest {
		src = src.SetDigest(g.Top)
		src.Tag = ""
		ex.Tag = ""
	}
	ex.Name = src.CommonName()
	var opts []regclient.ImageOpts
	if ec.Gzip {
		opts = append(opts, regclient.ImageWithExportCompress())
	}
	if ec.Override {
		or, err := ref.New(overName + ":" + overTag)
		if err != nil {
			ex.Err = fmt.Errorf("harness: override ref: %w", err)
			return ex
		}
		opts = append(opts, regclient.ImageWithExportRef(or))
		ex.Tag = overTag
		ex.Name = or.CommonName()
	}
	ex.SrcReach, ex.SrcProbs = audit.Closure(ex.SrcStore, g.Top, audit.ClosureOpts{})
	if ec.Damage != "" {
		var n int
		var how string
		fmt.Sscanf(strings.Replace(ec.Damage, ":", " ", 1), "%d %s", &n, &how)
		ds := hostedBlobs(g)
		if n >= len(ds) {
			ex.Err = fmt.Errorf("harness: no blob %d in %s", n, g.Name)
			return ex
		}
		d := ds[n]
		b := damage(g.Blobs[d], how)
		if ec.Src == "dir" {
			sp := strings.SplitN(d, ":", 2)
			fn := filepath.Join(ex.SrcStore.(audit.DirStore).Dir, "blobs", sp[0], sp[1])
			if err := os.WriteFile(fn, b, 0o644); err != nil {
				ex.Err = fmt.Errorf("harness: damage: %w", err)
				return ex
			}
		} else {
			ex.SrcStore.(audit.RepoStore).R.Blobs[d] = b
		}
		ex.Damaged = d
	}
	rc := rcenv.New(net, hosts, rcenv.Opts{})
	ctx := context.Background()
	var buf bytes.Buffer
	ex.Err = rc.ImageExport(ctx, src, &buf, opts...)
	_ = rc.Close(ctx, src)
	ex.Requests = net.LogLen()
	for _, e := range net.LogSince(0) {
		if e.Host == extHost && e.Status == 200 && e.Method == "GET" {
			ex.ExtFetch++
		}
	}
	if ex.Err != nil {
		return ex
	}
	ex.Raw = buf.Bytes()
	top := g.Manifests[g.Top]
	ex.Ents, ex.Findings = checkArchive(ex.Raw, arcExpect{Top: g.Top, TopBody: top.Body, TopMT: top.MediaType, Tag: ex.Tag, WantGzip: ec.Gzip, IsImage: wantsDockerManifest(g)})
	return ex
}

// ---------------------------------------------------------------------------------------------
// import side

type ImportCase struct {
	Tgt    string `json:"tgt"`               // regv (validating registry) | regn (not validating) | dir
	Sel    string `json:"sel,omitempty"`     // "" none | name:<x> ImageWithImportName(x) | digest:<d> target ref by digest
	TgtTag string `json:"tgt_tag,omitempty"` // tag of the target reference (default "imp")
}

// traceImports makes doImport keep the request log (replay / VERIF_TRACE only).
var traceImports bool

type imported struct {
	IC        ImportCase
	Err       error
	Resolve   string // digest the target ref resolves to in raw storage ("" = nothing)
	Store     audit.Store
	Reach     map[string]bool
	Probs     []audit.Problem
	OrderObs  []string // manifest PUTs that named content absent at that moment (observed, any registry)
	Rejected  []string // manifest PUTs answered 4xx
	Requests  int
	ManPuts   int
	BlobPuts  int
	TgtDir    string
	TgtRepo   *modelreg.Repo
	cleanup   func()
	byDigest  string
	TopBody   []byte
	TopMT     string
	TagsAfter map[string]string
	Passes    int // how many times the importer rewound the archive (scans of the tar stream)
	Trace     []string
}

// countRS counts rewinds of the archive reader: one per scan of the tar stream.
type countRS struct {
	*bytes.Reader
	rewinds int
}

func (c *countRS) Seek(off int64, whence int) (int64, error) {
	if off == 0 && whence == 0 {
		c.rewinds++
	}
	return c.Reader.Seek(off, whence)
}

func (im *imported) done() {
	if im.cleanup != nil {
		im.cleanup()
	}
}

func short(d string) string {
	if i := strings.IndexByte(d, ':'); i > 0 && len(d) > i+13 {
		return d[:i+13]
	}
	return d
}

// doImport imports raw into a fresh target and reads the raw post-state. wantTop is only used to
// walk the closure (the caller judges).
func doImport(ic ImportCase, raw []byte, scratch string) *imported {
	im := &imported{IC: ic}
	tag := tgtTag
	if ic.TgtTag != "" {
		tag = ic.TgtTag
	}
	net := modelreg.NewNet()
	var tgt ref.Ref
	var err error
	switch ic.Tgt {
	case "regv", "regn":
		f := modelreg.Full()
		f.ValidateRefs = ic.Tgt == "regv"
		h := net.AddHost(tgtHost, f)
		im.TgtRepo = h.Repo(tgtRepo)
		im.Store = audit.RepoStore{R: im.TgtRepo}
		tgt, err = ref.New(tgtHost + "/" + tgtRepo + ":" + tag)
	case "dir":
		im.TgtDir = newDir(scratch, "t")
		dir := im.TgtDir
		im.cleanup = func() { os.RemoveAll(dir) }
		im.Store = audit.DirStore{Dir: dir}
		tgt, err = ref.New("ocidir://" + relTo(dir) + ":" + tag)
	default:
		err = fmt.Errorf("unknown target %q", ic.Tgt)
	}
	if err != nil {
		im.Err = fmt.Errorf("harness: %w", err)
		return im
	}
	var opts []regclient.ImageOpts
	switch {
	case strings.HasPrefix(ic.Sel, "name:"):
		opts = append(opts, regclient.ImageWithImportName(strings.TrimPrefix(ic.Sel, "name:")))
	case strings.HasPrefix(ic.Sel, "digest:"):
		im.byDigest = strings.TrimPrefix(ic.Sel, "digest:")
		tgt = tgt.SetDigest(im.byDigest)
		tgt.Tag = ""
	}
	net.Decide = func(e *modelreg.Entry) *modelreg.Answer {
		if e.Kind != "manifest-put" {
			return nil
		}
		h := net.Hosts[e.Host]
		if h == nil {
			return nil
		}
		r := h.Repos[e.Repo]
		for _, d := range audit.References(e.Body, false) {
			ok := false
			if r != nil {
				if _, ok = r.Blobs[d]; !ok {
					_, ok = r.Manifests[d]
				}
			}
			if !ok {
				im.OrderObs = append(im.OrderObs, fmt.Sprintf("manifest PUT %s names %s which the repository lacks at that moment", short(e.Ref), short(d)))
			}
		}
		return nil
	}
	rc := rcenv.New(net, hosts, rcenv.Opts{})
	ctx := context.Background()
	rs := &countRS{Reader: bytes.NewReader(raw)}
	im.Err = rc.ImageImport(ctx, tgt, rs, opts...)
	im.Passes = rs.rewinds
	_ = rc.Close(ctx, tgt)
	for _, e := range net.LogSince(0) {
		im.Requests++
		if traceImports {
			im.Trace = append(im.Trace, fmt.Sprintf("%s %s %s -> %d", e.Method, e.Kind, short(e.Ref), e.Status))
		}
		switch {
		case e.Kind == "manifest-put":
			im.ManPuts++
			if e.Status >= 400 {
				im.Rejected = append(im.Rejected, fmt.Sprintf("PUT manifest %s -> %d", short(e.Ref), e.Status))
			}
		case e.Kind == "upload-put" || (e.Kind == "upload-post" && e.Status == 201):
			im.BlobPuts++
		}
	}
	// raw post-state
	if im.TgtRepo != nil {
		net.With(func() {
			im.TagsAfter = map[string]string{}
			for t, d := range im.TgtRepo.Tags {
				im.TagsAfter[t] = d
			}
			if im.byDigest != "" {
				if _, ok := im.TgtRepo.Manifests[im.byDigest]; ok {
					im.Resolve = im.byDigest
				}
			} else {
				im.Resolve = im.TgtRepo.Tags[tag]
			}
			if m, ok := im.TgtRepo.Manifests[im.Resolve]; ok {
				im.TopBody, im.TopMT = m.Body, m.MediaType
			}
		})
	} else {
		_, tags, untagged, _, lerr := audit.ReadLayout(im.TgtDir)
		if lerr == nil {
			im.TagsAfter = tags
			if im.byDigest != "" {
				for _, d := range untagged {
					if d == im.byDigest {
						im.Resolve = d
					}
				}
				for _, d := range tags {
					if d == im.byDigest {
						im.Resolve = d
					}
				}
			} else {
				im.Resolve = tags[tag]
			}
			if b, ok := im.Store.Manifest(im.Resolve); ok {
				im.TopBody = b
				var doc modelreg.ManDoc
				if json.Unmarshal(b, &doc) == nil {
					im.TopMT = doc.MediaType
				}
			}
		}
	}
	if im.Resolve != "" {
		im.Reach, im.Probs = audit.Closure(im.Store, im.Resolve, audit.ClosureOpts{})
	}
	return im
}

func sortedKeys(m map[string]bool) []string {
	var ks []string
	for k := range m {
		ks = append(ks, k)
	}
	sort.Strings(ks)
	return ks
}

func sameSet(a, b map[string]bool) bool {
	if len(a) != len(b) {
		return false
	}
	for k := range a {
		if !b[k] {
			return false
		}
	}
	return true
}

func closureFromRepo(rp *modelreg.Repo, top string) (map[string]bool, []audit.Problem) {
	return audit.Closure(audit.RepoStore{R: rp}, top, audit.ClosureOpts{})
}

// wantsDockerManifest: the exported image is a single image with a config descriptor, the only kind a
// docker manifest.json can describe.
func wantsDockerManifest(g *graphs.Graph) bool {
	top := g.Manifests[g.Top]
	if isIndexMT(top.MediaType) {
		return false
	}
	var doc modelreg.ManDoc
	if json.Unmarshal(top.Body, &doc) != nil {
		return false
	}
	return doc.Config != nil && doc.Config.Digest != ""
}
