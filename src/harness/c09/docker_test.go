package hc09

// Docker-save style archives synthesised by the harness (no regclient code involved), and
// harness-built OCI layout archives that hold two images.

import (
	"archive/tar"
	"bytes"
	"crypto/sha256"
	"encoding/hex"
	"encoding/json"
	"fmt"
	"strings"

	"github.com/regclient/regclient/internal/verif/graphs"
	"github.com/regclient/regclient/internal/verif/modelreg"
)

type DockerSpec struct {
	Images  int    `json:"images"`             // 1..2 (image 1 shares its first layer file with image 0)
	Layers  int    `json:"layers"`             // layers per image, 1..3
	LayerGz bool   `json:"layer_gz,omitempty"` // layer files are gzip-compressed inside the archive
	Style   string `json:"style"`              // legacy (<id>/layer.tar, <hex>.json, VERSION/json/repositories), flat (<hex>.tar, <hex>.json), blobs (blobs/sha256/<hex>)
	Dup     string `json:"dup,omitempty"`      // last layer of every image has the bytes of its first layer: copy | symlink | hardlink | samepath
	Sources bool   `json:"sources,omitempty"`  // manifest.json carries LayerSources descriptors
	OuterGz bool   `json:"outer_gz,omitempty"` // whole archive gzip-compressed
	Order   string `json:"order"`              // id | rev | mlast | perm:<k> | rot:<k>
	Sel     string `json:"sel,omitempty"`      // "" | first (first RepoTag of image 0) | last (second RepoTag of the last image) | absent
	// Damage "gz-body": eight bytes in the middle of the compressed stream of the last layer of every
	// image are overwritten (LayerGz only): the layer cannot be decompressed to the end
	Damage string `json:"damage,omitempty"`
}

func (d DockerSpec) String() string {
	s := fmt.Sprintf("docker images=%d layers=%d style=%s order=%s", d.Images, d.Layers, d.Style, d.Order)
	if d.LayerGz {
		s += " layer-gz"
	}
	if d.Dup != "" {
		s += " dup=" + d.Dup
	}
	if d.Sources {
		s += " layer-sources"
	}
	if d.OuterGz {
		s += " outer-gz"
	}
	if d.Sel != "" {
		s += " sel=" + d.Sel
	}
	if d.Damage != "" {
		s += " damage=" + d.Damage
	}
	return s
}

type dockerImage struct {
	Config   []byte
	Layers   [][]byte // uncompressed layer tars, in order
	RepoTags []string
}

type dockerArchive struct {
	Raw     []byte
	Images  []dockerImage
	SelName string // ImageWithImportName value ("" = none)
	Want    []int  // indexes of the images the import may produce (the selected one; all when nothing is selected)
	NFiles  int
}

func sha256hex(b []byte) string {
	s := sha256.Sum256(b)
	return hex.EncodeToString(s[:])
}

// layerTar is a real, tiny layer: a tar with one file.
func layerTar(name, content string) []byte {
	return writeTar([]tEntry{{Name: name, Type: tar.TypeReg, Data: []byte(content)}}, false)
}

// dockerFiles builds the non-directory entries (manifest.json first) of the archive in canonical order.
func buildDocker(sp DockerSpec) (*dockerArchive, error) {
	if sp.Images < 1 || sp.Images > 2 || sp.Layers < 1 || sp.Layers > 3 {
		return nil, fmt.Errorf("bad docker spec %+v", sp)
	}
	if sp.Dup != "" && sp.Layers < 2 {
		return nil, fmt.Errorf("dup needs two layers")
	}
	da := &dockerArchive{}
	type mentry struct {
		Config       string
		RepoTags     []string
		Layers       []string
		LayerSources map[string]modelreg.Desc `json:",omitempty"`
	}
	var man []mentry
	var files []tEntry
	var dirs []tEntry
	have := map[string]bool{}
	addFile := func(e tEntry) {
		if have[e.Name] {
			return
		}
		have[e.Name] = true
		if i := strings.LastIndexByte(e.Name, '/'); i > 0 {
			parts := strings.Split(e.Name[:i], "/")
			for j := range parts {
				dn := strings.Join(parts[:j+1], "/") + "/"
				if !have[dn] {
					have[dn] = true
					dirs = append(dirs, tEntry{Name: dn, Type: tar.TypeDir})
				}
			}
		}
		files = append(files, e)
	}
	repos := map[string]map[string]string{}
	for j := 0; j < sp.Images; j++ {
		img := dockerImage{RepoTags: []string{fmt.Sprintf("repo/img%d:t%d", j, j), fmt.Sprintf("alt.example/x/img%d:a%d", j, j)}}
		var diff []string
		for i := 0; i < sp.Layers; i++ {
			owner := j
			if i == 0 {
				owner = 0 // shared base layer
			}
			idx := i
			if sp.Dup != "" && i == sp.Layers-1 {
				idx, owner = 0, 0 // same bytes as the first layer
			}
			u := layerTar(fmt.Sprintf("f%d%d", owner, idx), fmt.Sprintf("content of layer %d of image %d", idx, owner))
			img.Layers = append(img.Layers, u)
			diff = append(diff, "sha256:"+sha256hex(u))
		}
		cfg, _ := json.Marshal(map[string]any{"architecture": "amd64", "os": "linux", "config": map[string]any{"Env": []string{fmt.Sprintf("IMG=%d", j)}},
			"rootfs": map[string]any{"type": "layers", "diff_ids": diff}})
		img.Config = cfg
		me := mentry{RepoTags: img.RepoTags}
		// config file
		switch sp.Style {
		case "legacy", "flat":
			me.Config = sha256hex(cfg) + ".json"
		case "blobs":
			me.Config = "blobs/sha256/" + sha256hex(cfg)
		default:
			return nil, fmt.Errorf("bad style %q", sp.Style)
		}
		addFile(tEntry{Name: me.Config, Type: tar.TypeReg, Data: cfg})
		if sp.Sources {
			me.LayerSources = map[string]modelreg.Desc{}
		}
		for i, u := range img.Layers {
			stored := u
			mt := "application/vnd.docker.image.rootfs.diff.tar"
			if sp.LayerGz {
				stored = gzipBytes(u)
				mt = graphs.MTDockerLayerGz
				if sp.Damage == "gz-body" && i == len(img.Layers)-1 {
					stored = append([]byte{}, stored...)
					for k := len(stored) / 2; k < len(stored)/2+8 && k < len(stored)-8; k++ {
						stored[k] = 0xff
					}
					if _, err := gunzip(stored); err == nil {
						return nil, fmt.Errorf("harness: damaged layer still decompresses")
					}
				}
			}
			isDup := sp.Dup != "" && i == sp.Layers-1
			id := sha256hex(u) // content-derived id: the shared base layer gets one path
			if isDup && sp.Dup != "samepath" {
				id = sha256hex(append([]byte("second name of "), u...))
			}
			var p string
			switch sp.Style {
			case "legacy":
				p = id + "/layer.tar"
			case "flat":
				p = id + ".tar"
			case "blobs":
				p = "blobs/sha256/" + id
				if !isDup || sp.Dup == "samepath" {
					p = "blobs/sha256/" + sha256hex(stored)
				}
			}
			first := me.Layers
			me.Layers = append(me.Layers, p)
			if sp.Sources {
				me.LayerSources["sha256:"+sha256hex(stored)] = modelreg.Desc{MediaType: mt, Digest: "sha256:" + sha256hex(stored), Size: int64(len(stored))}
			}
			if sp.Style == "legacy" {
				addFile(tEntry{Name: id + "/VERSION", Type: tar.TypeReg, Data: []byte("1.0")})
				addFile(tEntry{Name: id + "/json", Type: tar.TypeReg, Data: []byte(`{"id":"` + id + `"}`)})
			}
			switch {
			case isDup && sp.Dup == "symlink":
				tgt := first[0]
				link := tgt
				if sp.Style == "legacy" {
					link = "../" + tgt // <id2>/layer.tar -> ../<id1>/layer.tar, as docker wrote it
				} else if sp.Style == "blobs" {
					link = strings.TrimPrefix(tgt, "blobs/sha256/") // next to the link
				}
				addFile(tEntry{Name: p, Type: tar.TypeSymlink, Link: link})
			case isDup && sp.Dup == "hardlink":
				addFile(tEntry{Name: p, Type: tar.TypeLink, Link: first[0]})
			default:
				addFile(tEntry{Name: p, Type: tar.TypeReg, Data: stored})
			}
		}
		man = append(man, me)
		da.Images = append(da.Images, img)
		for _, rt := range img.RepoTags {
			i := strings.LastIndexByte(rt, ':')
			if repos[rt[:i]] == nil {
				repos[rt[:i]] = map[string]string{}
			}
			repos[rt[:i]][rt[i+1:]] = sha256hex(img.Layers[len(img.Layers)-1])
		}
	}
	mb, _ := json.Marshal(man)
	mf := tEntry{Name: "manifest.json", Type: tar.TypeReg, Data: mb}
	if sp.Style == "legacy" {
		rb, _ := json.Marshal(repos)
		files = append(files, tEntry{Name: "repositories", Type: tar.TypeReg, Data: rb})
	}
	files = append([]tEntry{mf}, files...)
	da.NFiles = len(files)
	// order
	kind, arg := sp.Order, ""
	if i := strings.IndexByte(sp.Order, ':'); i >= 0 {
		kind, arg = sp.Order[:i], sp.Order[i+1:]
	}
	switch kind {
	case "id":
	case "rev":
		for i, j := 0, len(files)-1; i < j; i, j = i+1, j-1 {
			files[i], files[j] = files[j], files[i]
		}
	case "mlast":
		files = append(files[1:], files[0])
	case "perm":
		var k int
		if _, err := fmt.Sscanf(arg, "%d", &k); err != nil || k < 0 || k >= factorial(len(files)) {
			return nil, fmt.Errorf("bad perm %q for %d entries", arg, len(files))
		}
		p := nthPerm(len(files), k)
		o := make([]tEntry, len(files))
		for i, j := range p {
			o[i] = files[j]
		}
		files = o
	case "rot":
		var k int
		if _, err := fmt.Sscanf(arg, "%d", &k); err != nil {
			return nil, err
		}
		k %= len(files)
		files = append(append([]tEntry{}, files[k:]...), files[:k]...)
	default:
		return nil, fmt.Errorf("bad order %q", sp.Order)
	}
	// hard links must follow their target to be a well-formed tar
	if sp.Dup == "hardlink" {
		for i := 0; i < len(files); i++ {
			if files[i].Type != tar.TypeLink {
				continue
			}
			for j := i + 1; j < len(files); j++ {
				if files[j].Name == files[i].Link {
					// move the link right behind its target
					l := files[i]
					copy(files[i:j], files[i+1:j+1])
					files[j] = l
					i--
					break
				}
			}
		}
	}
	da.Raw = writeTar(append(append([]tEntry{}, dirs...), files...), sp.OuterGz)
	switch sp.Sel {
	case "":
		for i := range da.Images {
			da.Want = append(da.Want, i)
		}
	case "first":
		da.SelName = da.Images[0].RepoTags[0]
		da.Want = []int{0}
	case "last":
		da.SelName = da.Images[len(da.Images)-1].RepoTags[1]
		da.Want = []int{len(da.Images) - 1}
	case "absent":
		da.SelName = "repo/none:zz"
	default:
		return nil, fmt.Errorf("bad sel %q", sp.Sel)
	}
	return da, nil
}

// dockerFileCount gives the number of non-directory entries of a spec (for the permutation bound).
func dockerFileCount(sp DockerSpec) int {
	sp.Order = "id"
	da, err := buildDocker(sp)
	if err != nil {
		return 0
	}
	return da.NFiles
}

// judgeDocker compares the imported image with image i of the archive; "" = equal.
func judgeDocker(im *imported, img dockerImage) string {
	if im.Resolve == "" || im.TopBody == nil {
		return "the target reference does not resolve to a manifest"
	}
	var doc modelreg.ManDoc
	if err := json.Unmarshal(im.TopBody, &doc); err != nil {
		return "imported manifest unparsable: " + err.Error()
	}
	if doc.Config == nil {
		return "imported manifest has no config"
	}
	cb, ok := im.Store.Blob(doc.Config.Digest)
	if !ok {
		return "config blob " + short(doc.Config.Digest) + " absent at the target"
	}
	if !bytes.Equal(cb, img.Config) {
		return fmt.Sprintf("imported config differs from the archive's config (%d vs %d bytes)", len(cb), len(img.Config))
	}
	if doc.Config.Size != int64(len(cb)) {
		return fmt.Sprintf("config descriptor size %d, blob has %d bytes", doc.Config.Size, len(cb))
	}
	if len(doc.Layers) != len(img.Layers) {
		return fmt.Sprintf("imported manifest has %d layers, archive image has %d", len(doc.Layers), len(img.Layers))
	}
	for i, l := range doc.Layers {
		lb, ok := im.Store.Blob(l.Digest)
		if !ok {
			return fmt.Sprintf("layer %d blob %s absent at the target", i, short(l.Digest))
		}
		if l.Size != int64(len(lb)) {
			return fmt.Sprintf("layer %d descriptor size %d, blob has %d bytes", i, l.Size, len(lb))
		}
		u := lb
		if isGzip(lb) {
			var err error
			if u, err = gunzip(lb); err != nil {
				return fmt.Sprintf("layer %d does not decompress: %v", i, err)
			}
		}
		if strings.Contains(l.MediaType, "gzip") != isGzip(lb) {
			return fmt.Sprintf("layer %d media type %q does not match its bytes (gzip=%v)", i, l.MediaType, isGzip(lb))
		}
		if !bytes.Equal(u, img.Layers[i]) {
			return fmt.Sprintf("layer %d decompresses to %d bytes that differ from the archive's layer (%d bytes)", i, len(u), len(img.Layers[i]))
		}
	}
	return ""
}

// ---------------------------------------------------------------------------------------------
// two images in one OCI layout archive (as other tools write them)

type MultiSpec struct {
	Graphs [2]string `json:"graphs"`
	Swap   bool      `json:"swap,omitempty"` // index.json lists the second graph first
	Sel    string    `json:"sel"`            // name0 | name1 | digest0 | digest1 | tgt-tag1 (target tag equals the ref.name of graph 1) | none
}

func (m MultiSpec) String() string {
	return fmt.Sprintf("multi %s+%s swap=%v sel=%s", m.Graphs[0], m.Graphs[1], m.Swap, m.Sel)
}

var multiNames = [2]string{"first", "second"}

func buildMulti(ms MultiSpec) []byte {
	var ents []tEntry
	ents = append(ents, tEntry{Name: "oci-layout", Type: tar.TypeReg, Data: []byte(`{"imageLayoutVersion":"1.0.0"}`)})
	type ie struct {
		MediaType   string            `json:"mediaType"`
		Digest      string            `json:"digest"`
		Size        int64             `json:"size"`
		Annotations map[string]string `json:"annotations,omitempty"`
	}
	var idx []ie
	seen := map[string]bool{}
	var blobs []tEntry
	dirs := map[string]bool{}
	for i, gn := range ms.Graphs {
		g := getGraph(gn)
		top := g.Manifests[g.Top]
		idx = append(idx, ie{MediaType: top.MediaType, Digest: g.Top, Size: int64(len(top.Body)), Annotations: map[string]string{"org.opencontainers.image.ref.name": multiNames[i]}})
		put := func(d string, b []byte) {
			if seen[d] {
				return
			}
			seen[d] = true
			sp := strings.SplitN(d, ":", 2)
			dirs[sp[0]] = true
			blobs = append(blobs, tEntry{Name: "blobs/" + sp[0] + "/" + sp[1], Type: tar.TypeReg, Data: b})
		}
		for _, d := range g.Order {
			put(d, g.Manifests[d].Body)
		}
		for _, d := range g.AllDigests() {
			if b, ok := g.Blobs[d]; ok {
				put(d, b)
			}
		}
	}
	if ms.Swap {
		idx[0], idx[1] = idx[1], idx[0]
	}
	ib, _ := json.Marshal(map[string]any{"schemaVersion": 2, "mediaType": graphs.MTOCIIndex, "manifests": idx})
	ents = append(ents, tEntry{Name: "index.json", Type: tar.TypeReg, Data: ib})
	ents = append(ents, tEntry{Name: "blobs/", Type: tar.TypeDir})
	for _, a := range []string{"sha256", "sha512"} {
		if dirs[a] {
			ents = append(ents, tEntry{Name: "blobs/" + a + "/", Type: tar.TypeDir})
		}
	}
	ents = append(ents, blobs...)
	return writeTar(ents, false)
}
