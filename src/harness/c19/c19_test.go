package main

// C19 — a dry run of regbot changes nothing.
//
// Scripts are generated from the documented Lua API (see c19_forms_test.go) and executed on the real
// regbot code (rootOpts.process, the function `regbot once` calls per script) three times each:
// dry-run, normal, and normal with the mutating bindings removed. Registries are olareg instances in
// memory behind a logging RoundTripper, layouts are copies of the repository's test layout.

import (
	"bytes"
	"encoding/json"
	"fmt"
	"os"
	"runtime/debug"
	"strings"
	"testing"
	"time"

	"github.com/regclient/regclient/internal/verif/ev"
)

type c19Viol struct {
	Key, Msg string
	Pos      int // position of the form the violation is attributed to (0: none)
}

type c19Judged struct {
	Case        c19Case
	Viols       []c19Viol
	NormMutated bool
	Dry, Norm   *c19Run
	Ref         *c19Run
	Scripts     []c19Script
}

func c19APIAt(c c19Case, pos int) (api string, mut bool) {
	if pos <= 0 || pos > len(c.Forms) {
		return "wrapper:" + c.Wrapper, false
	}
	f := c19FormByName[c.Forms[pos-1]]
	return f.API, f.Mut
}

// c19Groups groups the output lines of a run by (script, position, n-th execution of that position).
func c19Groups(r *c19Run) (map[string][]string, []string, map[string]int) {
	m := map[string][]string{}
	pos := map[string]int{}
	var order []string
	for _, l := range r.Cap.lines {
		g := l.group()
		if _, ok := m[g]; !ok {
			order = append(order, g)
			pos[g] = l.Pos
		}
		m[g] = append(m[g], l.Text)
	}
	return m, order, pos
}

func (w *c19World) execCase(c c19Case) (*c19Judged, error) {
	if c.CLI {
		return w.execCLI(c)
	}
	j := &c19Judged{Case: c}
	j.Scripts = c19Build(c, w.paths, false)
	var err error
	// The layout directory is listed completely (with content hashes) after every run. Listing it at
	// every marker as well, to attribute a change to one binding, is only done when needed: in a second,
	// identical dry run after a first one changed the layout, and in the normal run of single forms.
	if j.Dry, err = w.run(j.Scripts, true, false); err != nil {
		return nil, err
	}
	w.rec.Count("runs.dry", 1)
	if len(j.Dry.Content) > 0 || len(j.Dry.Touched) > 0 {
		d2, err := w.run(j.Scripts, true, true)
		if err != nil {
			return nil, err
		}
		w.rec.Count("runs.dry_repeated_for_attribution", 1)
		if fmt.Sprint(d2.Content) != fmt.Sprint(j.Dry.Content) {
			w.rec.HarnessError("case %s: dry run not deterministic: layout changes %v then %v", c, j.Dry.Content, d2.Content)
		}
		j.Dry = d2
	}
	if j.Norm, err = w.run(j.Scripts, false, len(c.Forms) == 1); err != nil {
		return nil, err
	}
	w.rec.Count("runs.normal", 1)
	j.Ref = j.Norm
	if c.hasMut() {
		if j.Ref, err = w.run(c19Build(c, w.paths, true), false, false); err != nil {
			return nil, err
		}
		w.rec.Count("runs.normal_readonly_reference", 1)
	}
	w.judge(j)
	if c.hasMut() {
		// the dry run once more with a logger that does not emit Info records (regbot -v warn): the
		// script's own markers are lost with them, so only the state clause is judged, on the whole run
		w.quietLog = true
		q, err := w.run(j.Scripts, true, false)
		w.quietLog = false
		if err != nil {
			return nil, err
		}
		w.rec.Count("runs.dry_quiet_logger", 1)
		nm := 0
		for _, rq := range q.Reqs {
			if rq.Mutating() {
				nm++
			}
		}
		if nm > 0 || len(q.Content) > 0 || len(q.Touched) > 0 {
			quiet := false
			for _, v := range j.Viols {
				if strings.HasPrefix(v.Key, "dry-run-") {
					quiet = true // already reported for the ordinary logger
				}
			}
			if !quiet {
				j.Viols = append(j.Viols, c19Viol{"dry-run-mutates logger=warn", w.scrub(fmt.Sprintf("with a logger that does not emit Info records the dry run sent %d state-changing request(s) and changed layout files %v %v\ncase %s", nm, q.Content, q.Touched, c)), 0})
			}
		}
	}
	return j, nil
}

func (w *c19World) judge(j *c19Judged) {
	c := j.Case
	rec := w.rec
	atPos := 0
	add := func(key, format string, a ...any) {
		j.Viols = append(j.Viols, c19Viol{key, w.scrub(fmt.Sprintf(format, a...)), atPos})
		atPos = 0
	}
	describe := func() string {
		var sb strings.Builder
		fmt.Fprintf(&sb, "case %s\n", c)
		for _, s := range j.Scripts {
			fmt.Fprintf(&sb, "--- script %s ---\n%s", s.Name, c19Body(s.Text))
		}
		return sb.String()
	}

	// ---- clause 1+2: dry run ⇒ only GET/HEAD reach a registry, layouts unchanged
	dryMutated := false
	if j.Dry.Cap != nil {
		for _, sp := range j.Dry.Cap.spans {
			mr := sp.mutReqs()
			rec.Count("clause.requests.inspected_dry", int64(len(sp.Reqs)))
			if len(mr) == 0 && len(sp.Content) == 0 && len(sp.Touched) == 0 {
				continue
			}
			api, _ := c19APIAt(c, sp.Pos)
			if dryMutated {
				rec.Count("dry.secondary_mutating_spans", 1)
				continue
			}
			dryMutated = true
			kind := "dry-run-mutates"
			if len(mr) == 0 && len(sp.Content) == 0 {
				kind = "dry-run-rewrites-layout-file"
			}
			atPos = sp.Pos
			add(kind+" binding="+api, "dry run: binding %s (form %q, position %d of the case) changed state\nstate-changing requests: %v\nlayout changes: %v %v\n%s",
				api, c19FormName(c, sp.Pos), sp.Pos, c19Trunc(mr, 8), c19Trunc(sp.Content, 8), c19Trunc(sp.Touched, 4), describe())
		}
	}
	if !dryMutated {
		api := "unattributed"
		if c.CLI && len(c.Forms) == 1 {
			// command-line cases have no per-marker view; they hold a single form
			api, _ = c19APIAt(c, 1)
		}
		if mr := j.Dry.mutReqs(); len(mr) > 0 {
			dryMutated = true
			add("dry-run-mutates binding="+api, "dry run sent state-changing requests %v\n%s", c19Trunc(mr, 8), describe())
		} else if len(j.Dry.Content) > 0 || len(j.Dry.Touched) > 0 {
			dryMutated = true
			add("dry-run-mutates binding="+api, "dry run changed layout files: %v %v\n%s", c19Trunc(j.Dry.Content, 8), c19Trunc(j.Dry.Touched, 4), describe())
		}
	}
	rec.Count("clause.no_state_change.dry_runs_judged", 1)
	rec.Count("clause.layout.files_compared_dry", int64(len(j.Dry.Final)))
	if dryMutated {
		rec.Count("dry.cases_with_state_change", 1)
	}

	// the reference run holds no mutating call; if it changes state, a form is misclassified
	if j.Ref != j.Norm && (len(j.Ref.mutReqs()) > 0 || len(j.Ref.Content) > 0) {
		rec.HarnessError("case %s: the reference run without mutating calls changed state: %v %v", c, c19Trunc(j.Ref.mutReqs(), 4), c19Trunc(j.Ref.Content, 4))
	}

	// ---- non-vacuity: what the same scripts do without the switch
	nm := j.Norm.mutReqs()
	if len(nm) > 0 || len(j.Norm.Content) > 0 {
		j.NormMutated = true
		rec.Count("normal.cases_with_state_change", 1)
	}
	rec.Count("normal.state_changing_requests", int64(len(nm)))
	rec.Count("normal.layout_entries_changed", int64(len(j.Norm.Content)))
	if j.Norm.Cap != nil {
		for _, sp := range j.Norm.Cap.spans {
			if len(sp.mutReqs()) > 0 || len(sp.Content) > 0 {
				api, _ := c19APIAt(c, sp.Pos)
				rec.Count("normal.mutating_executions."+api, 1)
			}
		}
	}

	// ---- clause 3: read-only bindings return what they return in a normal run on the same state
	if !dryMutated {
		dl, order, gpos := c19Groups(j.Dry)
		rl, _, _ := c19Groups(j.Ref)
		for _, g := range order {
			pos := gpos[g]
			api, mut := c19APIAt(c, pos)
			if mut {
				continue
			}
			want, ok := rl[g]
			if !ok {
				rec.Count("clause.readonly.groups_only_in_dry_run", 1)
				continue
			}
			got := dl[g]
			// a script that stopped inside the group in one of the runs yields a prefix
			n := len(got)
			if len(want) < n {
				n = len(want)
			}
			same := true
			for i := 0; i < n; i++ {
				if got[i] != want[i] {
					same = false
				}
			}
			if pos != 0 && len(got) != len(want) {
				same = false
			}
			rec.Count("clause.readonly.output_groups_compared", 1)
			rec.Count("clause.readonly.output_lines_compared", int64(n))
			if !same {
				atPos = pos
				add("readonly-differs binding="+api, "read-only binding %s returned different values in the dry run and in the normal run on the same state (group %s)\ndry:    %v\nnormal: %v\n%s", api, g, c19Trunc(got, 6), c19Trunc(want, 6), describe())
				break
			}
		}
		// the requests a read-only binding sends (method, path, status) are the same as well
		if j.Dry.Cap != nil && j.Ref.Cap != nil && !c.CLI {
			sig := func(sp c19Span) string {
				var l []string
				for _, q := range sp.Reqs {
					l = append(l, q.String())
				}
				return strings.Join(l, " | ")
			}
			refSpans := map[string]c19Span{}
			for _, sp := range j.Ref.Cap.spans {
				if sp.Pos != 0 && sp.Finished {
					refSpans[fmt.Sprintf("%s/%d#%d", sp.Script, sp.Pos, sp.Occ)] = sp
				}
			}
			for _, sp := range j.Dry.Cap.spans {
				api, mut := c19APIAt(c, sp.Pos)
				if sp.Pos == 0 || mut || !sp.Finished {
					continue
				}
				rs, ok := refSpans[fmt.Sprintf("%s/%d#%d", sp.Script, sp.Pos, sp.Occ)]
				if !ok {
					continue
				}
				rec.Count("clause.readonly.request_sequences_compared", 1)
				if sig(sp) != sig(rs) {
					atPos = sp.Pos
					add("readonly-differs binding="+api, "read-only binding %s sent different requests in the dry run and in the normal run on the same state\ndry:    %s\nnormal: %s\n%s", api, sig(sp), sig(rs), describe())
					break
				}
			}
		}
		// exported tar files (image.exportTar is allowed to write them, and must write the same bytes)
		for name, h := range j.Dry.Exports {
			if h2, ok := j.Ref.Exports[name]; ok {
				rec.Count("clause.readonly.exported_tars_compared", 1)
				if h != h2 {
					add("readonly-differs binding=image.exportTar", "image.exportTar wrote different bytes in dry run (%s) and normal run (%s) for %s\n%s", h, h2, name, describe())
				}
			}
		}
	} else {
		rec.Count("clause.readonly.skipped_state_already_changed", 1)
	}

	// ---- clause 4: a raising script stops alone, the next one still runs
	for _, run := range []*c19Run{j.Dry, j.Norm} {
		mode := "normal"
		if run.DryRun {
			mode = "dry-run"
		}
		if run.Panicked != "" {
			add("script-panics-tool mode="+mode, "process() panicked: %s\n%s", run.Panicked, describe())
		}
		for si, s := range j.Scripts {
			if !s.MustFail {
				continue
			}
			rec.Count("clause.error_isolation.failing_scripts_judged", 1)
			kind := c19RaiseKinds[c.Raise].Name
			if run.has(s.Name+" @done") || run.has(s.Name+" @unreachable") {
				add("raising-script-continues kind="+kind+" mode="+mode, "script %s ran past the statement that raises\n%s", s.Name, describe())
			}
			for _, p := range s.AfterRaise {
				if run.has(fmt.Sprintf("%s @b %d", s.Name, p)) {
					add("raising-script-continues kind="+kind+" mode="+mode, "binding at position %d ran although an error was raised before it\n%s", p, describe())
				}
			}
			if si < len(run.Results) && run.Results[si].Err != "" {
				rec.Count("clause.error_isolation.error_reported", 1)
			}
			if si+1 < len(j.Scripts) {
				nx := j.Scripts[si+1]
				started := false
				for _, m := range run.markers() {
					if strings.HasPrefix(m, nx.Name+" ") {
						started = true
					}
				}
				rec.Count("clause.error_isolation.following_scripts_judged", 1)
				if !started {
					add("following-script-not-run kind="+kind+" mode="+mode, "script %s did not run after %s failed (%v)\n%s", nx.Name, s.Name, run.Results, describe())
				} else if !nx.MustFail && !run.has(nx.Name+" @done") && si+1 < len(run.Results) {
					// it started but did not finish: held up by something the failed script left behind
					// (a wait that ends in the script's timeout), as opposed to an error of its own bindings
					if e := run.Results[si+1].Err; strings.Contains(e, "throttle") || strings.Contains(e, "deadline") || strings.Contains(e, "timeout") {
						add("following-script-held-up kind="+kind+" mode="+mode, "script %s started after %s failed but did not finish: %s\n%s", nx.Name, s.Name, e, describe())
					}
				}
			}
		}
	}
}

// c19LongWait multiplies the deadline of scripts that wait (not of scripts that are meant to run into
// their deadline) by ten; set only while a "held up" verdict is re-examined.
var c19LongWait bool

func c19WaitScale(s c19Script) int {
	if c19LongWait && !s.MustFail {
		return 10 * s.TimeoutMs
	}
	return s.TimeoutMs
}

func (r *c19Run) markers() []string {
	if r.Cap != nil {
		return r.Cap.markers
	}
	return nil
}

func (r *c19Run) has(m string) bool {
	for _, x := range r.markers() {
		if x == m {
			return true
		}
	}
	return false
}

func c19FormName(c c19Case, pos int) string {
	if pos <= 0 || pos > len(c.Forms) {
		return "(wrapper code)"
	}
	return c.Forms[pos-1]
}

// c19Body drops the common prelude from a script text for messages.
func c19Body(s string) string {
	if i := strings.Index(s, "X.DEL3 = X.REPO .. \":v3\" end\n"); i >= 0 {
		return "  (prelude omitted)\n" + s[i+len("X.DEL3 = X.REPO .. \":v3\" end\n"):]
	}
	return s
}

// ---- enumeration

func c19Enumerate(thorough bool) ([]c19Case, map[string]any) {
	var forms, muts, reps []string
	for _, f := range c19Forms {
		if f.Tier == 1 && !thorough {
			continue
		}
		forms = append(forms, f.Name)
		if f.Mut {
			muts = append(muts, f.Name)
			if f.Rep {
				reps = append(reps, f.Name)
			}
		}
	}
	var cases []c19Case
	// raise kinds per sequence length
	kinds := func(w string, n int) []int {
		if w != c19WRaise && w != c19WAfter {
			return []int{0}
		}
		var l []int
		for k, rk := range c19RaiseKinds {
			if rk.Timeout && (w != c19WAfter || n != 1) {
				continue
			}
			if n == 1 || k == 0 || (thorough && n == 2 && k == 3) || (w == c19WAfter && n == 2 && k >= 6) {
				l = append(l, k)
			}
		}
		return l
	}
	add := func(fs []string, locs string) {
		for _, w := range c19Wrappers {
			for _, k := range kinds(w, len(fs)) {
				cases = append(cases, c19Case{Wrapper: w, Forms: append([]string{}, fs...), Locs: locs, Raise: k})
			}
		}
	}
	// each binding alone, on a registry and on a layout
	for _, f := range forms {
		add([]string{f}, "R")
		add([]string{f}, "L")
	}
	// the same through the command line: NewRootCmd().Execute() with `once [--dry-run] -c file`
	for _, f := range forms {
		for _, w := range c19Wrappers {
			cases = append(cases, c19Case{Wrapper: w, Forms: []string{f}, Locs: "R", CLI: true})
			cases = append(cases, c19Case{Wrapper: w, Forms: []string{f}, Locs: "L", CLI: true})
		}
	}
	// all ordered pairs
	pairLocs := []string{"RR", "LL"}
	for _, a := range forms {
		for _, b := range forms {
			for _, l := range pairLocs {
				add([]string{a, b}, l)
			}
		}
	}
	if thorough {
		// mixed locations: first binding on the registry and second on the layout, and vice versa
		pairLocs = append(pairLocs, "RL", "LR")
		for _, a := range forms {
			for _, b := range forms {
				for _, l := range []string{"RL", "LR"} {
					for _, w := range []string{c19WStraight, c19WPcall, c19WLoop} {
						cases = append(cases, c19Case{Wrapper: w, Forms: []string{a, b}, Locs: l})
					}
				}
			}
		}
	}
	// triples of the mutating bindings: quick one form per binding, thorough every form
	tri := reps
	if thorough {
		tri = muts
	}
	for _, a := range tri {
		for _, b := range tri {
			for _, c := range tri {
				add([]string{a, b, c}, "RRR")
				add([]string{a, b, c}, "LLL")
			}
		}
	}
	if thorough {
		// quadruples of the representative mutating forms, straight line and loop
		for _, a := range reps {
			for _, b := range reps {
				for _, c := range reps {
					for _, d := range reps {
						for _, l := range []string{"RRRR", "LLLL"} {
							cases = append(cases, c19Case{Wrapper: c19WStraight, Forms: []string{a, b, c, d}, Locs: l})
						}
					}
				}
			}
		}
	}
	info := map[string]any{
		"forms":                  forms,
		"mutating_forms":         muts,
		"triple_forms":           tri,
		"wrappers":               c19Wrappers,
		"pair_location_patterns": pairLocs,
		"cases_total":            len(cases),
		"forms_total":            len(forms),
		"forms_mutating_total":   len(muts),
	}
	return cases, info
}

func TestVerifC19(t *testing.T) {
	rec := ev.New()
	defer rec.Flush(t)
	rec.SampleCap = 3
	debug.SetGCPercent(400)
	rec.Rule("case = wrapper {straight, pcall, loop over tag.ls, raise (error before the single binding / after the first one), after-failing (script A fails, script B follows)} " +
		"× sequence of call forms of the documented Lua API {every form alone; all ordered pairs; all triples of the mutating bindings (quick: one form per binding, thorough: every form; thorough also quadruples)} " +
		"× location pattern (all references on the in-memory registry / all on an OCI layout copy; thorough also mixed pairs) × way of failing; every single form additionally through `regbot once [--dry-run] -c file` (NewRootCmd().Execute(), registry reached over an in-process net.Pipe). " +
		"Every case is executed on the real regbot code in dry-run mode, in normal mode and in normal mode with the mutating calls removed; the space is enumerated completely. " +
		"evaluations = cases judged. distinct_nontrivial = distinct cases whose NORMAL run sent at least one POST/PUT/PATCH/DELETE or changed a layout directory, i.e. cases in which the dry-run switch had something to suppress")
	rec.Assume("olareg (in-memory registry used by regclient's own tests) plus a fixed /v2/_catalog answer stand for 'a registry'; only request methods decide whether a request is state-changing")
	rec.Assume("scripts are run sequentially (defaults.parallel unset or 1 with a single throttle slot), so requests and file changes between two script log() markers belong to the binding between them")
	rec.Assume("a layout file whose inode, size, mode, mtime and ctime equal the recorded ones, with a ctime at least 50 ms older than the start of the run, has unchanged content (its recorded sha256 is reused); all other files are read and hashed")
	rec.Assume("layout directories are listed before/after with names, sizes, modes, mtimes and sha256 content hashes; files written by image.exportTar lie outside and are allowed")
	w, err := c19NewWorld(rec)
	if err != nil {
		rec.HarnessError("fixture: %v", err)
		return
	}
	defer w.close()

	// a violation is believed only if an immediate second execution of the same case shows it again
	confirmed := map[string]bool{}
	report := func(j *c19Judged) {
		for _, v := range j.Viols {
			if !confirmed[v.Key] && v.Pos > 0 && v.Pos <= len(j.Case.Forms) && (len(j.Case.Forms) > 1 || j.Case.Wrapper != c19WStraight || j.Case.CLI) {
				// look for the smallest witness: the offending form alone in a straight-line script
				mc := c19Case{Wrapper: c19WStraight, Forms: []string{j.Case.Forms[v.Pos-1]}, Locs: string(j.Case.Locs[v.Pos-1])}
				if jm, err := w.execCase(mc); err == nil {
					for _, vm := range jm.Viols {
						if vm.Key == v.Key {
							confirmed[v.Key] = true
							rec.Count("violations.reduced_to_single_form_witness", 1)
							rec.Violation(vm.Key, vm.Msg, mc)
						}
					}
				}
			}
			if !confirmed[v.Key] {
				// "held up" is the one verdict that rests on a wall-clock deadline (the waiting script's own
				// timeout): it is re-examined with ten times that deadline. A slot that is really still held
				// blocks the script whatever the deadline; a machine that was merely slow does not.
				heldUp := strings.HasPrefix(v.Key, "following-script-held-up")
				if heldUp {
					c19LongWait = true
				}
				j2, err := w.execCase(j.Case)
				c19LongWait = false
				again := false
				if err == nil {
					for _, v2 := range j2.Viols {
						if v2.Key == v.Key {
							again = true
						}
					}
				}
				if !again && heldUp && err == nil {
					rec.Count("observed_not_judged.script-slow-under-load", 1)
					continue
				}
				if !again {
					rec.HarnessError("violation %q of case %s did not reproduce on an immediate re-run (%v)", v.Key, j.Case, err)
					continue
				}
				confirmed[v.Key] = true
				rec.Count("violations.confirmed_by_rerun", 1)
			}
			rec.Violation(v.Key, v.Msg, j.Case)
		}
	}

	if rd := rec.ReplayData(); rd != nil {
		var c c19Case
		if err := json.Unmarshal(rd, &c); err != nil {
			rec.HarnessError("replay: %v", err)
			return
		}
		for _, f := range c.Forms {
			if c19FormByName[f] == nil {
				rec.HarnessError("replay: unknown form %q", f)
				return
			}
		}
		okW := false
		for _, wn := range c19Wrappers {
			okW = okW || wn == c.Wrapper
		}
		if !okW || len(c.Forms) == 0 || len(c.Locs) != len(c.Forms) || strings.Trim(c.Locs, "RL") != "" || c.Raise < 0 || c.Raise >= len(c19RaiseKinds) {
			rec.HarnessError("replay: malformed case %+v", c)
			return
		}
		j, err := w.execCase(c)
		if err != nil {
			rec.HarnessError("replay: %v", err)
			return
		}
		rec.Eval(1)
		c19Print(w, j)
		report(j)
		return
	}

	cases, info := c19Enumerate(rec.Thorough())
	for k, v := range info {
		rec.Info(k, v)
	}
	only := os.Getenv("VERIF_C19_ONLY")
	var nEval, nNormMut, nReadCompared, nFailJudged int
	for ci, c := range cases {
		if only != "" {
			if !strings.Contains(c.String(), only) {
				continue
			}
		} else if !rec.Mine(ci) {
			continue
		}
		if rec.Expired() {
			rec.NotExhaustive(fmt.Sprintf("wall-clock budget reached in shard %d at case %d of %d", rec.ShardI, ci, len(cases)))
			break
		}
		t0 := time.Now()
		j, err := w.execCase(c)
		if err != nil {
			rec.HarnessError("case %s: %v", c, err)
			break
		}
		if d := time.Since(t0); d > 20*time.Second {
			rec.Count("cases.slower_than_20s", 1)
			rec.Note(fmt.Sprintf("slow case (%.1fs): %s", d.Seconds(), c))
		}
		rec.Eval(1)
		rec.Count("cases."+c.Wrapper, 1)
		rec.Count(fmt.Sprintf("cases.len%d", len(c.Forms)), 1)
		if c.CLI {
			rec.Count("cases.through_command_line", 1)
		}
		nEval++
		if j.NormMutated {
			rec.Distinct(c.String())
			nNormMut++
		}
		if len(j.Viols) == 0 && j.Dry.Cap != nil && len(j.Dry.Cap.lines) > 0 {
			nReadCompared++
		}
		if c.Wrapper == c19WRaise || c.Wrapper == c19WAfter {
			nFailJudged++
		}
		report(j)
		// non-vacuity per form: alone in a straight-line script, a mutating form must change something
		// in the normal run
		if len(c.Forms) == 1 && c.Wrapper == c19WStraight {
			f := c19FormByName[c.Forms[0]]
			if f.Mut && !f.NoMut && !f.NoEffect {
				if !j.NormMutated {
					rec.HarnessError("vacuous: mutating form %s at %s changed nothing in the normal run: %v", f.Name, c.Locs, j.Norm.Results)
				} else {
					rec.Count("nonvacuity.form_alone_changes_state_in_normal_run."+f.Name+"@"+c.Locs, 1)
				}
			}
			if !f.Mut && j.NormMutated {
				rec.Note(fmt.Sprintf("form %s is classified read-only but its normal run changed state", f.Name))
				rec.HarnessError("classification: form %s (read-only) changed state in the normal run", f.Name)
			}
		}
		if (j.NormMutated && len(c.Forms) >= 2 && ci%53 == 0) || (only != "" && os.Getenv("VERIF_C19_PRINT") != "") {
			if only != "" {
				c19Print(w, j)
			}
			var texts []string
			for _, s := range j.Scripts {
				texts = append(texts, c19Body(w.scrub(s.Text)))
			}
			rec.Sample(map[string]any{"case": c.String(), "scripts": texts,
				"dry_run_requests": len(j.Dry.Reqs), "normal_state_changing_requests": len(j.Norm.mutReqs()), "normal_layout_entries_changed": len(j.Norm.Content)})
		}
	}
	// vacuity: a shard that judged a fair number of cases must have seen normal runs that change
	// state, dry runs with compared outputs, and failing scripts
	if only == "" && nEval >= 200 && (nNormMut == 0 || nReadCompared == 0 || nFailJudged == 0) {
		rec.HarnessError("vacuous shard: %d cases, %d with a state-changing normal run, %d with compared outputs, %d with failing scripts", nEval, nNormMut, nReadCompared, nFailJudged)
	}
	rec.Count("fixture.layout_files_hashed", c19HashRead)
	rec.Count("fixture.layout_files_unchanged_by_inode_size_mtime_ctime", c19HashSkipped)
	rec.Info("script_prelude", w.scrub(c19Prelude(w.paths)))
}

func c19Print(w *c19World, j *c19Judged) {
	var sb bytes.Buffer
	fmt.Fprintf(&sb, "=== case %s\n", j.Case)
	for _, s := range j.Scripts {
		fmt.Fprintf(&sb, "--- script %s\n%s", s.Name, c19Body(s.Text))
	}
	for _, r := range []*c19Run{j.Dry, j.Norm, j.Ref} {
		if r == nil {
			continue
		}
		name := "normal"
		if r.DryRun {
			name = "DRY-RUN"
		} else if r == j.Ref && j.Ref != j.Norm {
			name = "normal, mutating calls removed"
		}
		fmt.Fprintf(&sb, "--- run: %s\n  results: %+v\n  requests: %d, state-changing: %v\n  layout changes: %v touched: %v\n  exports: %v\n", name, r.Results, len(r.Reqs), c19Trunc(r.mutReqs(), 12), c19Trunc(r.Content, 12), c19Trunc(r.Touched, 6), r.Exports)
		if r.Cap != nil {
			fmt.Fprintf(&sb, "  markers: %v\n", r.Cap.markers)
			for _, l := range r.Cap.lines {
				t := l.Text
				if len(t) > 160 {
					t = t[:160] + "…"
				}
				fmt.Fprintf(&sb, "  out[%s/%d] %s\n", l.Script, l.Pos, strings.ReplaceAll(t, "\n", " "))
			}
			for _, l := range r.Cap.infos {
				fmt.Fprintf(&sb, "  tool: %s\n", l)
			}
		}
	}
	for _, v := range j.Viols {
		fmt.Fprintf(&sb, "VIOLATION %s\n", v.Key)
	}
	if len(j.Viols) == 0 {
		fmt.Fprintf(&sb, "no violation\n")
	}
	fmt.Print(w.scrub(sb.String()))
}
