package main

// C19 — the same scripts through the command line entry point: NewRootCmd().Execute() with
// `once [--dry-run] --logopt json -c <file>`, so that the flag wiring and runOnce's script loop are
// part of what is checked. The command builds its own regclient from the config file; its transport is
// a clone of http.DefaultTransport, whose DialContext this harness points at an in-memory net.Pipe
// served by an http.Server in this process (no sockets), with the same olareg instance behind it.

import (
	"bufio"
	"context"
	"encoding/json"
	"errors"
	"fmt"
	"io"
	"net"
	"net/http"
	"os"
	"path/filepath"
	"strconv"
	"strings"
	"sync"
	"time"

	"github.com/regclient/regclient/internal/verif/modelreg"
)

// c19PipeNet is a listener fed by DialContext calls: every dial creates a net.Pipe.
type c19PipeNet struct {
	mu    sync.Mutex
	conns chan net.Conn
	log   []modelreg.ReqLog
	dials int
	w     *c19World
}

func (p *c19PipeNet) Accept() (net.Conn, error) {
	c, ok := <-p.conns
	if !ok {
		return nil, errors.New("closed")
	}
	return c, nil
}
func (p *c19PipeNet) Close() error   { return nil }
func (p *c19PipeNet) Addr() net.Addr { return &net.TCPAddr{IP: net.IPv4(192, 0, 2, 1), Port: 80} }

func (p *c19PipeNet) dial(ctx context.Context, network, addr string) (net.Conn, error) {
	host, _, _ := net.SplitHostPort(addr)
	if host != c19Host {
		return nil, fmt.Errorf("c19: dial %s: no such host (only %s exists)", addr, c19Host)
	}
	a, b := net.Pipe()
	p.mu.Lock()
	p.dials++
	p.mu.Unlock()
	p.conns <- b
	return a, nil
}

func (p *c19PipeNet) ServeHTTP(rw http.ResponseWriter, req *http.Request) {
	var body []byte
	if req.Body != nil {
		body, _ = io.ReadAll(req.Body)
		req.Body = io.NopCloser(strings.NewReader(string(body)))
	}
	l := modelreg.ReqLog{Method: req.Method, Host: req.Host, Path: req.URL.Path, Query: req.URL.RawQuery, Header: req.Header.Clone()}
	sr := &c19StatusRec{ResponseWriter: rw, status: 200}
	if resp, _ := c19Catalog(req); resp != nil {
		b, _ := io.ReadAll(resp.Body)
		sr.Header().Set("Content-Type", "application/json")
		sr.WriteHeader(resp.StatusCode)
		sr.Write(b)
	} else {
		p.w.registry().ServeHTTP(sr, req)
	}
	l.Status = sr.status
	p.mu.Lock()
	p.log = append(p.log, l)
	p.mu.Unlock()
}

type c19StatusRec struct {
	http.ResponseWriter
	status int
}

func (s *c19StatusRec) WriteHeader(c int) { s.status = c; s.ResponseWriter.WriteHeader(c) }

func (w *c19World) pipeNet() (*c19PipeNet, error) {
	if w.pipe != nil {
		return w.pipe, nil
	}
	t, ok := http.DefaultTransport.(*http.Transport)
	if !ok {
		return nil, errors.New("http.DefaultTransport is not *http.Transport")
	}
	p := &c19PipeNet{conns: make(chan net.Conn, 64), w: w}
	t.DialContext = p.dial
	t.Proxy = nil
	srv := &http.Server{Handler: p}
	srv.SetKeepAlivesEnabled(false)
	go srv.Serve(p)
	w.pipe = p
	return p, nil
}

func (w *c19World) runCLI(scripts []c19Script, dry bool) (*c19Run, error) {
	started := time.Now()
	os.RemoveAll(w.outDir)
	os.MkdirAll(w.outDir, 0o755)
	dir := filepath.Join(w.work, "cli")
	os.MkdirAll(dir, 0o755)
	pn, err := w.pipeNet()
	if err != nil {
		return nil, err
	}
	w.registry()
	pn.mu.Lock()
	pn.log = nil
	pn.mu.Unlock()
	var sb strings.Builder
	fmt.Fprintf(&sb, "version: 1\ncreds:\n  - registry: %s\n    tls: disabled\n    reqConcurrent: 64\ndefaults:\n  skipDockerConfig: true\n  timeout: 60s\nscripts:\n", c19Host)
	for _, s := range scripts {
		fmt.Fprintf(&sb, "  - name: %s\n", s.Name)
		if s.TimeoutMs > 0 {
			fmt.Fprintf(&sb, "    timeout: %dms\n", c19WaitScale(s))
		}
		fmt.Fprintf(&sb, "    script: %s\n", strconv.Quote(s.Text))
	}
	confFile := filepath.Join(dir, "regbot.yml")
	if err := os.WriteFile(confFile, []byte(sb.String()), 0o644); err != nil {
		return nil, err
	}
	logFile := filepath.Join(dir, "stderr.log")
	lf, err := os.Create(logFile)
	if err != nil {
		return nil, err
	}
	args := []string{"once", "--logopt", "json", "-c", confFile}
	if dry {
		args = append(args, "--dry-run")
	}
	cmd, opts := NewRootCmd()
	cmd.SetArgs(args)
	res := &c19Run{DryRun: dry, Cap: &c19Capture{w: w}}
	oldErr := os.Stderr
	os.Stderr = lf // rootPreRun creates the logger on os.Stderr
	var execErr error
	func() {
		defer func() {
			if p := recover(); p != nil {
				res.Panicked = fmt.Sprint(p)
			}
		}()
		execErr = cmd.Execute()
	}()
	os.Stderr = oldErr
	lf.Close()
	if opts.dryRun == dry {
		w.rec.Count("cli.flag_reflected_in_options", 1)
	}
	// read the JSON log back
	f, err := os.Open(logFile)
	if err != nil {
		return nil, err
	}
	defer f.Close()
	errs := map[string]string{}
	sc := bufio.NewScanner(f)
	sc.Buffer(make([]byte, 1<<20), 1<<26)
	for sc.Scan() {
		var r map[string]any
		if json.Unmarshal(sc.Bytes(), &r) != nil {
			continue
		}
		msg, _ := r["msg"].(string)
		script, _ := r["script"].(string)
		switch msg {
		case "User script message":
			m, _ := r["message"].(string)
			res.Cap.message(script, m)
		case "Error running script":
			e, _ := r["error"].(string)
			errs[script] = c19Addr.ReplaceAllString(c19LineNo.ReplaceAllString(e, "<string>:N:"), "0xADDR")
		default:
			res.Cap.infos = append(res.Cap.infos, fmt.Sprintf("%v %s %v", r["level"], msg, script))
		}
	}
	for _, s := range scripts {
		sr := c19ScriptResult{Name: s.Name, Err: errs[s.Name]}
		sr.Fail = sr.Err != ""
		res.Results = append(res.Results, sr)
	}
	if (execErr != nil) == (len(errs) > 0) {
		w.rec.Count("cli.exit_status_matches_logged_script_failures", 1)
	}
	pn.mu.Lock()
	res.Reqs = append([]modelreg.ReqLog{}, pn.log...)
	pn.mu.Unlock()
	for _, q := range res.Reqs {
		if q.Mutating() {
			w.regDirty = true
			break
		}
	}
	w.rec.Count("cli.requests_served_over_pipe", int64(len(res.Reqs)))
	final, err := c19SnapBase(w.guard, true, w.pristine, started.Add(-50*time.Millisecond).UnixNano())
	if err != nil {
		return nil, err
	}
	res.Final = final
	res.Content, res.Touched = c19Diff(w.pristine, final)
	res.Exports = c19Exports(w.outDir)
	if len(res.Content) > 0 || len(res.Touched) > 0 {
		if err := w.repair(final); err != nil {
			return nil, err
		}
	}
	return res, nil
}

func (w *c19World) execCLI(c c19Case) (*c19Judged, error) {
	j := &c19Judged{Case: c}
	j.Scripts = c19Build(c, w.paths, false)
	var err error
	if j.Dry, err = w.runCLI(j.Scripts, true); err != nil {
		return nil, err
	}
	w.rec.Count("runs.dry", 1)
	if j.Norm, err = w.runCLI(j.Scripts, false); err != nil {
		return nil, err
	}
	w.rec.Count("runs.normal", 1)
	j.Ref = j.Norm
	if c.hasMut() {
		if j.Ref, err = w.runCLI(c19Build(c, w.paths, true), false); err != nil {
			return nil, err
		}
		w.rec.Count("runs.normal_readonly_reference", 1)
	}
	w.judge(j)
	return j, nil
}
