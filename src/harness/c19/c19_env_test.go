package main

// C19 — execution environment: an in-memory registry (olareg behind modelreg.HandlerRT), a copy of the
// repository's test layout inside a guard directory, a capturing slog handler that turns the script's
// own log() calls into markers/outputs, and one function that runs a list of scripts the way regbot does.

import (
	"context"
	"crypto/sha256"
	"encoding/json"
	"encoding/hex"
	"errors"
	"fmt"
	"io"
	"io/fs"
	"log/slog"
	"net/http"
	"os"
	"path/filepath"
	"regexp"
	"sort"
	"strconv"
	"strings"
	"syscall"
	"time"

	"github.com/olareg/olareg"
	oConfig "github.com/olareg/olareg/config"

	"github.com/regclient/regclient"
	"github.com/regclient/regclient/config"
	"github.com/regclient/regclient/internal/pqueue"
	"github.com/regclient/regclient/internal/verif/ev"
	"github.com/regclient/regclient/internal/verif/modelreg"
	"github.com/regclient/regclient/scheme/reg"
	"github.com/regclient/regclient/types/manifest"
	"github.com/regclient/regclient/types/platform"
	"github.com/regclient/regclient/types/ref"
)

const c19Host = "reg.example"

var c19HashSkipped, c19HashRead int64

type c19Ent struct {
	Dir   bool
	Size  int64
	Mode  fs.FileMode
	MTime int64
	CTime int64
	Ino   uint64
	Hash  string
}

// c19Snap lists a directory tree: names, sizes, modes, mtimes and (hash=true) content hashes.
func c19Snap(dir string, hash bool) (map[string]c19Ent, error) {
	return c19SnapBase(dir, hash, nil, 0)
}

// c19SnapBase is c19Snap with a shortcut for content hashes: a regular file whose inode, size, mode,
// mtime and ctime all equal those of the same name in base, and whose ctime is older than
// settledBefore (a time well before the run under judgement started), keeps the hash recorded in base
// without being read again. The kernel sets ctime on every write, truncate, chmod or replacing
// rename; with coarse clocks a change may leave ctime unchanged only within one clock tick of the
// previous change, which the settledBefore margin excludes.
func c19SnapBase(dir string, hash bool, base map[string]c19Ent, settledBefore int64) (map[string]c19Ent, error) {
	m := map[string]c19Ent{}
	err := filepath.WalkDir(dir, func(p string, d fs.DirEntry, err error) error {
		if err != nil {
			return err
		}
		rel, _ := filepath.Rel(dir, p)
		fi, err := d.Info()
		if err != nil {
			return err
		}
		e := c19Ent{Dir: d.IsDir(), Mode: fi.Mode()}
		if !d.IsDir() {
			e.Size = fi.Size()
			e.MTime = fi.ModTime().UnixNano()
			if st, ok := fi.Sys().(*syscall.Stat_t); ok {
				e.CTime = st.Ctim.Nano()
				e.Ino = st.Ino
			}
			if be, ok := base[rel]; ok && hash && be.Hash != "" && e.Ino != 0 && fi.Mode().IsRegular() &&
				be.Ino == e.Ino && be.Size == e.Size && be.Mode == e.Mode && be.MTime == e.MTime && be.CTime == e.CTime && e.CTime < settledBefore {
				e.Hash = be.Hash
				c19HashSkipped++
			} else if hash {
				c19HashRead++
				if fi.Mode().IsRegular() {
					b, err := os.ReadFile(p)
					if err != nil {
						return err
					}
					h := sha256.Sum256(b)
					e.Hash = hex.EncodeToString(h[:])
				} else if fi.Mode()&fs.ModeSymlink != 0 {
					e.Hash, _ = os.Readlink(p)
				}
			}
		}
		m[rel] = e
		return nil
	})
	return m, err
}

// c19Diff describes the differences between two listings. content reports changes of the set of
// names, of sizes, modes or content hashes; touched reports files whose mtime alone differs.
func c19Diff(a, b map[string]c19Ent) (content []string, touched []string) {
	for k, ea := range a {
		eb, ok := b[k]
		if !ok {
			content = append(content, "removed "+k)
			continue
		}
		if ea.Dir != eb.Dir || ea.Size != eb.Size || ea.Mode != eb.Mode || (ea.Hash != "" && eb.Hash != "" && ea.Hash != eb.Hash) {
			content = append(content, "modified "+k)
		} else if ea.MTime != eb.MTime || (ea.Ino != 0 && eb.Ino != 0 && ea.Ino != eb.Ino) {
			touched = append(touched, "rewritten "+k)
		}
	}
	for k := range b {
		if _, ok := a[k]; !ok {
			content = append(content, "created "+k)
		}
	}
	sort.Strings(content)
	sort.Strings(touched)
	return
}

func c19CopyTree(src, dst string) error {
	return filepath.WalkDir(src, func(p string, d fs.DirEntry, err error) error {
		if err != nil {
			return err
		}
		rel, _ := filepath.Rel(src, p)
		t := filepath.Join(dst, rel)
		if d.IsDir() {
			return os.MkdirAll(t, 0o755)
		}
		b, err := os.ReadFile(p)
		if err != nil {
			return err
		}
		return os.WriteFile(t, b, 0o644)
	})
}

// c19World is the per-process fixture: directories under rec.Scratch and the data read from the
// repository's testdata.
type c19World struct {
	rec      *ev.Rec
	tmpl     string // <repo>/testdata/testrepo (never written)
	testdata string
	work     string // <scratch>/w
	guard    string // <scratch>/w/layouts — everything below is compared before/after
	outDir   string // <scratch>/w/out — image.exportTar targets (allowed to change)
	paths    c19Paths
	pristine map[string]c19Ent
	conf     *Config
	// registry instance kept across runs as long as no state-changing request reached it
	regSrv   *olareg.Server
	regDirty bool
	repairs  int
	pipe     *c19PipeNet
	// quietLog: the next run's logger does not emit Info records (regbot -v warn)
	quietLog bool
}

func c19NewWorld(rec *ev.Rec) (*c19World, error) {
	w := &c19World{rec: rec}
	w.testdata = filepath.Join(rec.RepoDir, "testdata")
	w.tmpl = filepath.Join(w.testdata, "testrepo")
	// the layout the scripts work on is the repository's test layout plus one tag whose manifest is
	// not stored (a sparse / partially copied layout): index.json lists c19-dangling, blobs/ lacks it
	{
		t2 := filepath.Join(rec.Scratch, "tmpl")
		os.RemoveAll(t2)
		if err := c19CopyTree(w.tmpl, t2); err != nil {
			return nil, err
		}
		ib, err := os.ReadFile(filepath.Join(t2, "index.json"))
		if err != nil {
			return nil, err
		}
		var idx map[string]json.RawMessage
		var ms []json.RawMessage
		if err := json.Unmarshal(ib, &idx); err != nil {
			return nil, err
		}
		if err := json.Unmarshal(idx["manifests"], &ms); err != nil {
			return nil, err
		}
		ms = append(ms, json.RawMessage(fmt.Sprintf(`{"mediaType":"application/vnd.oci.image.manifest.v1+json","digest":"sha256:%x","size":321,"annotations":{"org.opencontainers.image.ref.name":"c19-dangling"}}`, sha256.Sum256([]byte("c19 dangling")))))
		idx["manifests"], _ = json.Marshal(ms)
		ib, _ = json.Marshal(idx)
		if err := os.WriteFile(filepath.Join(t2, "index.json"), ib, 0o644); err != nil {
			return nil, err
		}
		w.tmpl = t2
	}
	w.work = filepath.Join(rec.Scratch, "w")
	w.guard = filepath.Join(w.work, "layouts")
	w.outDir = filepath.Join(w.work, "out")
	inDir := filepath.Join(w.work, "in")
	os.RemoveAll(w.work)
	for _, d := range []string{w.guard, w.outDir, inDir} {
		if err := os.MkdirAll(d, 0o755); err != nil {
			return nil, err
		}
	}
	lay := filepath.Join(w.guard, "lay")
	w.paths = c19Paths{
		Host:    c19Host,
		RegRepo: c19Host + "/testrepo",
		LayRepo: "ocidir://" + lay,
		RegNew:  c19Host + "/c19new",
		LayNew:  "ocidir://" + filepath.Join(w.guard, "new"),
		RegBlob: c19Host + "/c19blobs",
		LayBlob: "ocidir://" + filepath.Join(w.guard, "blobs"),
		In:      filepath.Join(inDir, "v1.tar"),
		Out:     w.outDir,
	}
	if _, err := ref.New(w.paths.LayRepo + ":v1"); err != nil {
		return nil, fmt.Errorf("scratch path is not usable in an ocidir reference: %v", err)
	}
	if err := w.restore(); err != nil {
		return nil, err
	}
	// fixture data taken from the template layout with the library itself: a layer digest of
	// v1 linux/amd64 and an exported tar of v1 for image.importTar
	ctx := context.Background()
	rc := regclient.New()
	r, err := ref.New("ocidir://" + w.tmpl + ":v1")
	if err != nil {
		return nil, err
	}
	m, err := rc.ManifestGet(ctx, r)
	if err != nil {
		return nil, err
	}
	plat, _ := platform.Parse("linux/amd64")
	desc, err := manifest.GetPlatformDesc(m, &plat)
	if err != nil {
		return nil, err
	}
	pm, err := rc.ManifestGet(ctx, r, regclient.WithManifestDesc(*desc))
	if err != nil {
		return nil, err
	}
	layers, err := pm.(manifest.Imager).GetLayers()
	if err != nil || len(layers) == 0 {
		return nil, fmt.Errorf("no layers in fixture image: %v", err)
	}
	w.paths.Layer = layers[0].Digest.String()
	// digest of the v3 image, for call forms that use digest-pinned references
	r3, err := ref.New("ocidir://" + w.tmpl + ":v3")
	if err != nil {
		return nil, err
	}
	m3, err := rc.ManifestHead(ctx, r3)
	if err != nil {
		return nil, err
	}
	w.paths.Dig3 = m3.GetDescriptor().Digest.String()
	fh, err := os.Create(w.paths.In)
	if err != nil {
		return nil, err
	}
	err = rc.ImageExport(ctx, r, fh)
	fh.Close()
	if err != nil {
		return nil, fmt.Errorf("export fixture tar: %v", err)
	}
	w.conf, err = ConfigLoadReader(strings.NewReader("version: 1\ndefaults:\n  parallel: 1\n  timeout: 60s\n"))
	if err != nil {
		return nil, err
	}
	return w, nil
}

// restore makes the guard directory contain exactly one pristine copy of the test layout.
func (w *c19World) restore() error {
	if err := os.RemoveAll(w.guard); err != nil {
		return err
	}
	if err := c19CopyTree(w.tmpl, filepath.Join(w.guard, "lay")); err != nil {
		return err
	}
	s, err := c19Snap(w.guard, true)
	if err != nil {
		return err
	}
	w.pristine = s
	w.rec.Count("fixture.layout_restored", 1)
	return nil
}

// repair undoes the differences between the pristine listing and the listing `final` of the guard
// directory entry by entry (cheaper than a fresh copy): created entries are removed, removed or
// modified files are written again from the template, and the pristine listing is updated for exactly
// those entries. Every 64th repair is verified by a complete listing.
func (w *c19World) repair(final map[string]c19Ent) error {
	var created []string
	for k := range final {
		if _, ok := w.pristine[k]; !ok {
			created = append(created, k)
		}
	}
	sort.Sort(sort.Reverse(sort.StringSlice(created))) // children before parents
	for _, k := range created {
		if err := os.RemoveAll(filepath.Join(w.guard, k)); err != nil {
			return err
		}
	}
	for k, ep := range w.pristine {
		ef, ok := final[k]
		if ok && ef.Dir == ep.Dir && ef.Size == ep.Size && ef.Mode == ep.Mode && ef.Hash == ep.Hash {
			if ef.MTime != ep.MTime || ef.CTime != ep.CTime || ef.Ino != ep.Ino {
				w.pristine[k] = ef // same bytes, rewritten: accept the new times / inode
			}
			continue
		}
		p := filepath.Join(w.guard, k)
		if ep.Dir {
			if ok && !ef.Dir {
				os.Remove(p)
			}
			if err := os.MkdirAll(p, 0o755); err != nil {
				return err
			}
			continue
		}
		if ok && ef.Dir {
			os.RemoveAll(p)
		}
		rel, _ := filepath.Rel("lay", k)
		b, err := os.ReadFile(filepath.Join(w.tmpl, rel))
		if err != nil {
			return err
		}
		os.MkdirAll(filepath.Dir(p), 0o755)
		os.Remove(p)
		if err := os.WriteFile(p, b, 0o644); err != nil {
			return err
		}
		fi, err := os.Lstat(p)
		if err != nil {
			return err
		}
		h := sha256.Sum256(b)
		ne := c19Ent{Size: fi.Size(), Mode: fi.Mode(), MTime: fi.ModTime().UnixNano(), Hash: hex.EncodeToString(h[:])}
		if st, ok := fi.Sys().(*syscall.Stat_t); ok {
			ne.CTime, ne.Ino = st.Ctim.Nano(), st.Ino
		}
		if ne.Hash != ep.Hash || ne.Mode != ep.Mode {
			return fmt.Errorf("repair of %s does not give the pristine content", k)
		}
		w.pristine[k] = ne
	}
	w.rec.Count("fixture.layout_repaired", 1)
	w.repairs++
	if w.repairs%64 == 1 {
		s, err := c19Snap(w.guard, true)
		if err != nil {
			return err
		}
		if c, t := c19Diff(w.pristine, s); len(c) > 0 || len(t) > 0 {
			return fmt.Errorf("repair left differences: %v %v", c, t)
		}
	}
	return nil
}

func (w *c19World) registry() *olareg.Server {
	if w.regSrv != nil && !w.regDirty {
		return w.regSrv
	}
	if w.regSrv != nil {
		_ = w.regSrv.Close()
	}
	boolT := true
	w.regSrv = olareg.New(oConfig.Config{
		Storage: oConfig.ConfigStorage{StoreType: oConfig.StoreMem, RootDir: w.testdata},
		API:     oConfig.ConfigAPI{DeleteEnabled: &boolT},
	})
	w.regDirty = false
	w.rec.Count("fixture.registry_created", 1)
	return w.regSrv
}

func (w *c19World) close() {
	if w.regSrv != nil {
		_ = w.regSrv.Close()
	}
}

// ---- log capture

type c19Line struct {
	Script string
	Pos    int // form position the line was logged in (0: wrapper code)
	Occ    int // n-th execution of that position in that script (loops)
	Text   string
}

func (l c19Line) group() string { return fmt.Sprintf("%s/%d#%d", l.Script, l.Pos, l.Occ) }

type c19Span struct {
	Script   string
	Pos      int
	Occ      int
	Reqs     []modelreg.ReqLog
	Content  []string // layout changes (names, sizes)
	Touched  []string // layout files rewritten (mtime only)
	Finished bool     // the "@e" marker was reached
}

func (s c19Span) mutReqs() []string {
	var l []string
	for _, r := range s.Reqs {
		if r.Mutating() {
			l = append(l, r.String())
		}
	}
	return l
}

type c19Capture struct {
	w       *c19World
	rt      *modelreg.HandlerRT
	reqSeen int
	lastFP  map[string]c19Ent
	cur     int
	curOcc  int
	occ     map[string]int
	curScr  string
	lines   []c19Line
	spans   []c19Span
	markers []string // script + " " + marker
	infos   []string // the tool's own Info/Warn records (message + attributes)
	watchFS bool
	quiet   bool // enabled from Warn upwards only
}

var c19LineNo = regexp.MustCompile(`<string>:\d+:`)
var c19Addr = regexp.MustCompile(`0x[0-9a-f]{6,}`)

func (c *c19Capture) Enabled(_ context.Context, l slog.Level) bool {
	if c.quiet {
		return l >= slog.LevelWarn
	}
	return l >= slog.LevelInfo
}
func (c *c19Capture) WithAttrs([]slog.Attr) slog.Handler           { return c }
func (c *c19Capture) WithGroup(string) slog.Handler                { return c }

// flush attributes everything that happened since the previous marker to the current span.
func (c *c19Capture) flush() {
	if c.rt == nil {
		return
	}
	log := c.rt.Log()
	sp := c19Span{Script: c.curScr, Pos: c.cur, Occ: c.curOcc}
	if len(log) > c.reqSeen {
		sp.Reqs = log[c.reqSeen:]
		c.reqSeen = len(log)
	}
	if c.watchFS {
		fp, err := c19Snap(c.w.guard, false)
		if err == nil {
			sp.Content, sp.Touched = c19Diff(c.lastFP, fp)
			c.lastFP = fp
		}
	}
	c.spans = append(c.spans, sp)
}

func (c *c19Capture) Handle(_ context.Context, r slog.Record) error {
	if r.Message != "User script message" {
		var sb strings.Builder
		sb.WriteString(r.Level.String() + " " + r.Message)
		r.Attrs(func(a slog.Attr) bool {
			sb.WriteString(" " + a.Key + "=" + a.Value.String())
			return true
		})
		c.infos = append(c.infos, sb.String())
		return nil
	}
	var script, msg string
	r.Attrs(func(a slog.Attr) bool {
		switch a.Key {
		case "script":
			script = a.Value.String()
		case "message":
			msg = a.Value.String()
		}
		return true
	})
	c.message(script, msg)
	return nil
}

// message handles one log() call of a script: "@…" are markers, everything else is output.
func (c *c19Capture) message(script, msg string) {
	if script != c.curScr {
		c.cur, c.curOcc, c.curScr = 0, 0, script
	}
	if strings.HasPrefix(msg, "@") {
		c.flush()
		c.markers = append(c.markers, script+" "+msg)
		f := strings.Fields(msg)
		switch f[0] {
		case "@b":
			c.cur, _ = strconv.Atoi(f[1])
			if c.occ == nil {
				c.occ = map[string]int{}
			}
			k := script + "/" + f[1]
			c.occ[k]++
			c.curOcc = c.occ[k]
		case "@e":
			if n := len(c.spans); n > 0 {
				c.spans[n-1].Finished = true
			}
			c.cur, c.curOcc = 0, 0
		}
		return
	}
	t := c19LineNo.ReplaceAllString(msg, "<string>:N:")
	t = c19Addr.ReplaceAllString(t, "0xADDR")
	c.lines = append(c.lines, c19Line{Script: script, Pos: c.cur, Occ: c.curOcc, Text: t})
}

func (c *c19Capture) has(marker string) bool {
	for _, m := range c.markers {
		if m == marker {
			return true
		}
	}
	return false
}

// ---- one run

type c19ScriptResult struct {
	Name string
	Err  string
	Fail bool // error is ErrScriptFailed
}

type c19Run struct {
	DryRun   bool
	Cap      *c19Capture
	Results  []c19ScriptResult
	Reqs     []modelreg.ReqLog
	Final    map[string]c19Ent
	Content  []string // layout differences against the pristine listing, full content hashes
	Touched  []string
	Exports  map[string]string // exported tar name → content hash
	Panicked string
}

func (r *c19Run) mutReqs() []string {
	var l []string
	for _, q := range r.Reqs {
		if q.Mutating() {
			l = append(l, q.String())
		}
	}
	return l
}

func c19Catalog(req *http.Request) (*http.Response, error) {
	if req.Method == http.MethodGet && req.URL.Path == "/v2/_catalog" {
		// olareg has no catalog API; a fixed answer makes repo.ls usable in scripts
		body := `{"repositories":["external","testrepo"]}`
		return &http.Response{StatusCode: 200, Status: "200 OK", Proto: "HTTP/1.1", ProtoMajor: 1, ProtoMinor: 1,
			Header: http.Header{"Content-Type": []string{"application/json"}, "Content-Length": []string{strconv.Itoa(len(body))}},
			Body:   io.NopCloser(strings.NewReader(body)), ContentLength: int64(len(body)), Request: req}, nil
	}
	return nil, nil
}

// run executes the scripts one after the other with a fresh regclient, as `regbot once` does with
// defaults.parallel unset: rootOpts.process per script, errors collected, never aborting the list.
func (w *c19World) run(scripts []c19Script, dry bool, watchFS bool) (*c19Run, error) {
	// state before: the guard is pristine, out/ empty
	started := time.Now()
	os.RemoveAll(w.outDir)
	os.MkdirAll(w.outDir, 0o755)
	rt := modelreg.NewHandlerRT()
	rt.Hosts[c19Host] = w.registry()
	rt.Before = c19Catalog
	rc := regclient.New(
		// blob.get hands the script an open blob reader that scripts never close; each holds one of the
		// host's request slots (default 3), and a fourth blob.get then waits for the script timeout. The
		// concurrency limit is raised so that no case depends on a timeout.
		regclient.WithConfigHost(config.Host{Name: c19Host, Hostname: c19Host, TLS: config.TLSDisabled, ReqConcurrent: 64}),
		regclient.WithRegOpts(reg.WithHTTPClient(&http.Client{Transport: rt}), reg.WithDelay(time.Millisecond, time.Millisecond)),
	)
	cp := &c19Capture{w: w, rt: rt, watchFS: watchFS, quiet: w.quietLog}
	fp := map[string]c19Ent{}
	for k, v := range w.pristine {
		v.Hash = ""
		fp[k] = v
	}
	cp.lastFP = fp
	opts := rootOpts{
		dryRun:   dry,
		conf:     w.conf,
		log:      slog.New(cp),
		rc:       rc,
		throttle: pqueue.New(pqueue.Opts[struct{}]{Max: 1}),
	}
	res := &c19Run{DryRun: dry, Cap: cp}
	ctx := context.Background()
	for _, s := range scripts {
		cp.flush()
		cp.cur, cp.curOcc, cp.curScr = 0, 0, s.Name
		cs := ConfigScript{Name: s.Name, Script: s.Text, Timeout: 60 * time.Second}
		if s.TimeoutMs > 0 {
			cs.Timeout = time.Duration(c19WaitScale(s)) * time.Millisecond
		}
		var err error
		func() {
			defer func() {
				if p := recover(); p != nil {
					res.Panicked = fmt.Sprint(p)
				}
			}()
			err = opts.process(ctx, cs)
		}()
		sr := c19ScriptResult{Name: s.Name}
		if err != nil {
			sr.Err = c19Addr.ReplaceAllString(c19LineNo.ReplaceAllString(err.Error(), "<string>:N:"), "0xADDR")
			sr.Fail = errors.Is(err, ErrScriptFailed)
		}
		res.Results = append(res.Results, sr)
	}
	cp.flush()
	res.Reqs = rt.Log()
	for _, q := range res.Reqs {
		if q.Mutating() {
			w.regDirty = true
			break
		}
	}
	final, err := c19SnapBase(w.guard, true, w.pristine, started.Add(-50*time.Millisecond).UnixNano())
	if err != nil {
		return nil, err
	}
	res.Final = final
	res.Content, res.Touched = c19Diff(w.pristine, final)
	res.Exports = c19Exports(w.outDir)
	if len(res.Content) > 0 || len(res.Touched) > 0 {
		if err := w.repair(final); err != nil {
			return nil, err
		}
	}
	return res, nil
}

func c19Exports(dir string) map[string]string {
	m := map[string]string{}
	ents, _ := os.ReadDir(dir)
	for _, e := range ents {
		b, _ := os.ReadFile(filepath.Join(dir, e.Name()))
		h := sha256.Sum256(b)
		m[e.Name()] = fmt.Sprintf("%d:%s", len(b), hex.EncodeToString(h[:8]))
	}
	return m
}

// scrub replaces the scratch directory in texts that go into evidence or violation messages.
func (w *c19World) scrub(s string) string {
	return strings.ReplaceAll(s, w.work, "$W")
}

func c19Trunc(l []string, n int) []string {
	if len(l) > n {
		return append(append([]string{}, l[:n]...), fmt.Sprintf("… %d more", len(l)-n))
	}
	return l
}
