package main

// C19 — script generator: the documented Lua API of regbot (docs/regbot.md, cmd/regbot/sandbox/*.go)
// as a table of call forms, and the wrappers that compose them into scripts.

import (
	"fmt"
	"strings"
)

// c19Form is one way of calling one binding. Code is Lua; it may use the context table C
// (C.REPO, C.SRC, C.T, C.DEL, C.DEL3, C.NEWREPO, C.REPO2, C.XREPO), the globals HOST, IN, OUT, LAYER
// and the helpers out(s), show(v), try(f).
type c19Form struct {
	Name string // unique id of the form
	API  string // documented binding the form exercises (violation keys use this)
	Mut  bool   // documented as changing a registry / layout
	Tier int    // 0: quick and thorough, 1: thorough only
	// Rep marks the representative form of a mutating binding (quick triples use one form per binding)
	Rep bool
	// NoMut: the form never reaches the registry in any mode (it raises on its arguments in the
	// current implementation); exempt from the per-form non-vacuity demand
	NoMut bool
	// NoEffect: the form addresses something that is not there (a missing tag, a tag whose manifest is
	// not stored): its normal run may send state-changing requests or edit the layout's index, but need
	// not change anything; exempt from the per-form non-vacuity demand
	NoEffect bool
	Code     string
}

var c19Forms = []c19Form{
	// ---- read-only / neutral bindings
	{Name: "log", API: "log", Code: `out("log plain message " .. C.T)`},
	{Name: "repo.ls", API: "repo.ls", Code: `out("repo.ls " .. show(repo.ls(HOST)))`},
	{Name: "repo.ls/opts", API: "repo.ls", Tier: 1, Code: `out("repo.ls limit " .. show(repo.ls(HOST, {limit = 1})))`},
	{Name: "tag.ls", API: "tag.ls", Code: `out("tag.ls " .. show(tag.ls(C.REPO)))`},
	{Name: "tag.ls/ref", API: "tag.ls", Tier: 1, Code: `out("tag.ls ref " .. show(tag.ls(C.SRC)))`},
	{Name: "manifest.get", API: "manifest.get", Code: `local m = manifest.get(C.SRC); out("manifest.get " .. tostring(m))`},
	{Name: "manifest.get/platform", API: "manifest.get", Code: `local m = manifest.get(C.SRC, "linux/arm64"); out("manifest.get arm64 " .. tostring(m))`},
	{Name: "manifest.getList", API: "manifest.getList", Code: `local m = manifest.getList(C.SRC); out("manifest.getList " .. tostring(m))`},
	{Name: "manifest.head", API: "manifest.head", Code: `local m = manifest.head(C.SRC); out("manifest.head " .. try(function() return tostring(m) end))`},
	{Name: "manifest:get", API: "manifest:get", Code: `local m = manifest.head(C.SRC); out("m:get " .. tostring(m:get()))`},
	{Name: "manifest:head", API: "manifest:head", Tier: 1, Code: `local m = manifest.get(C.SRC); local h = m:head(); out("m:head " .. try(function() return tostring(h) end))`},
	// (an image manifest's own "config" field shadows the documented <manifest>:config method, so the
	// method call raises; image.config(<manifest>) reaches the same binding)
	{Name: "manifest:config", API: "manifest:config", Code: `local m = manifest.get(C.SRC); out("m:config " .. try(function() return tostring(m:config()) end) .. " / " .. tostring(image.config(m)))`},
	{Name: "manifest:export", API: "manifest:export", Code: `local m = manifest.get(C.SRC); out("m:export " .. tostring(m:export()))`},
	{Name: "manifest:ratelimit", API: "manifest:ratelimit", Code: `local m = manifest.head(C.SRC); out("m:ratelimit " .. show(m:ratelimit()))`},
	{Name: "manifest:ratelimitWait", API: "manifest:ratelimitWait", Tier: 1, Code: `local m = manifest.head(C.SRC); out("m:ratelimitWait " .. show(m:ratelimitWait(1, "1ms", "45s")))`},
	{Name: "blob.get", API: "blob.get", Code: `local b = blob.get(C.SRC, LAYER); out("blob.get " .. type(b))`},
	{Name: "blob.get/refdigest", API: "blob.get", Tier: 1, Code: `local r = reference.new(C.SRC); r:digest(LAYER); local b = blob.get(r); out("blob.get refdigest " .. type(b))`},
	{Name: "blob.head", API: "blob.head", Code: `local b = blob.head(C.SRC, LAYER); out("blob.head " .. type(b))`},
	{Name: "blob:get", API: "blob:get", Tier: 1, Code: `local b = blob.head(C.SRC, LAYER); out("b:get " .. try(function() return type(b:get()) end))`},
	{Name: "blob:head", API: "blob:head", Tier: 1, Code: `local b = blob.head(C.SRC, LAYER); out("b:head " .. try(function() return type(b:head()) end))`},
	{Name: "image.config", API: "image.config", Code: `local c = image.config(C.SRC); out("image.config " .. tostring(c) .. " labels=" .. try(function() return c.Config.Labels end))`},
	{Name: "config:export", API: "config:export", Code: `local c = image.config(C.SRC); out("c:export " .. tostring(c:export()))`},
	{Name: "image.manifest", API: "image.manifest", Code: `local m = image.manifest(C.SRC); out("image.manifest " .. tostring(m))`},
	{Name: "image.manifestHead", API: "image.manifestHead", Tier: 1, Code: `local m = image.manifestHead(C.SRC); out("image.manifestHead " .. try(function() return tostring(m) end))`},
	{Name: "image.manifestList", API: "image.manifestList", Tier: 1, Code: `local m = image.manifestList(C.SRC); out("image.manifestList " .. tostring(m))`},
	{Name: "image.ratelimitWait", API: "image.ratelimitWait", Code: `out("image.ratelimitWait " .. show(image.ratelimitWait(C.SRC, 1, "1ms", "45s")))`},
	{Name: "image.exportTar", API: "image.exportTar", Code: `image.exportTar(C.SRC, OUT .. "/export-" .. C.N .. "-" .. C.T .. ".tar"); out("image.exportTar done")`},
	{Name: "reference.new", API: "reference.new", Code: `local r = reference.new(C.SRC); out("reference.new " .. tostring(r))`},
	{Name: "reference:tag", API: "reference:tag", Code: `local r = reference.new(C.SRC); local old = r:tag(); r:tag("v2"); out("r:tag " .. old .. " -> " .. r:tag() .. " " .. tostring(r))`},
	{Name: "reference:digest", API: "reference:digest", Code: `local r = reference.new(C.SRC); r:digest(LAYER); out("r:digest " .. r:digest() .. " " .. tostring(r))`},
	{Name: "reference.close", API: "reference.close", Code: `reference.close(C.SRC); out("reference.close done")`},
	{Name: "reference:close", API: "reference.close", Tier: 1, Code: `local r = reference.new(C.REPO); r:close(); out("r:close done")`},

	// ---- bindings documented as changing a registry or a layout
	{Name: "tag.delete", API: "tag.delete", Mut: true, Rep: true, Code: `tag.delete(C.DEL); out("tag.delete done")`},
	{Name: "tag.delete/missing", API: "tag.delete", Mut: true, NoEffect: true, Code: `out("tag.delete missing " .. try(function() tag.delete(C.REPO .. ":c19-no-such-tag"); return "done" end))`},
	{Name: "tag.delete/unresolvable", API: "tag.delete", Mut: true, NoEffect: true, Code: `out("tag.delete unresolvable " .. try(function() tag.delete(C.REPO .. ":c19-dangling"); return "done" end))`},
	{Name: "image.copy/missing-source", API: "image.copy", Mut: true, NoEffect: true, Code: `out("image.copy missing " .. try(function() image.copy(C.REPO .. ":c19-no-such-tag", C.REPO .. ":c19copym-" .. C.T); return "done" end))`},
	{Name: "manifest:delete/head", API: "manifest.delete", Mut: true, Rep: true, Code: `local m = manifest.head(C.DEL3); m:delete(); out("m:delete done")`},
	{Name: "manifest:delete/list", API: "manifest.delete", Mut: true, Code: `local m = manifest.getList(C.DEL3); m:delete(); out("m:delete list done")`},
	// the same through references that already carry the digest (repo@digest string, and reference.new + r:digest)
	{Name: "manifest:delete/digest-string", API: "manifest.delete", Mut: true, Code: `local m = manifest.head(C.REPO .. "@" .. DIG3); m:delete(); out("m:delete by digest string done")`},
	{Name: "manifest:delete/ref-digest", API: "manifest.delete", Mut: true, Code: `local r = reference.new(C.REPO .. ":v3"); r:digest(DIG3); local m = manifest.getList(r); m:delete(); out("m:delete ref digest done")`},
	{Name: "manifest.put", API: "manifest.put", Mut: true, Rep: true, Code: `local m = manifest.get(C.SRC); manifest.put(m, C.REPO .. ":c19put-" .. C.T); out("manifest.put done")`},
	{Name: "manifest:put", API: "manifest.put", Mut: true, Code: `local m = manifest.getList(C.SRC); m:put(C.REPO .. ":c19mput-" .. C.T); out("m:put done")`},
	{Name: "manifest:put/export", API: "manifest.put", Mut: true, Tier: 1, Code: `local m = manifest.get(C.SRC):export(); m:put(C.NEWREPO .. ":c19eput-" .. C.T); out("m:export():put done")`},
	{Name: "blob.put/string", API: "blob.put", Mut: true, Rep: true, Code: `local d, n = blob.put(C.REPO, "c19 content " .. C.T); out("blob.put " .. tostring(d) .. " " .. tostring(n))`},
	{Name: "blob.put/blob", API: "blob.put", Mut: true, Code: `local b = blob.get(C.SRC, LAYER); local d, n = blob.put(C.REPO2, b); out("blob.put blob " .. tostring(d) .. " " .. tostring(n))`},
	{Name: "blob.put/config", API: "blob.put", Mut: true, Code: `local c = image.config(C.SRC); local d, n = blob.put(C.REPO, c); out("blob.put config " .. tostring(d) .. " " .. tostring(n))`},
	// (the documented "another blob" form with a blob that carries no content: an argument error today)
	{Name: "blob.put/head-blob", API: "blob.put", Mut: true, NoEffect: true, Code: `local b = blob.head(C.SRC, LAYER); out("blob.put head-blob " .. try(function() return blob.put(C.REPO2, b) end) .. " / " .. try(function() return blob.put(C.XREPO, b) end))`},
	{Name: "blob:put", API: "blob.put", Mut: true, Tier: 1, NoMut: true, Code: `local b = blob.get(C.SRC, LAYER); local d, n = b:put("c19 content"); out("b:put " .. tostring(d))`},
	{Name: "image.copy/retag", API: "image.copy", Mut: true, Rep: true, Code: `image.copy(C.SRC, C.REPO .. ":c19copy-" .. C.T); out("image.copy done")`},
	{Name: "image.copy/newrepo", API: "image.copy", Mut: true, Code: `image.copy(C.SRC, C.NEWREPO .. ":" .. C.T); out("image.copy newrepo done")`},
	{Name: "image.copy/cross", API: "image.copy", Mut: true, Code: `image.copy(C.SRC, C.XREPO .. ":c19x-" .. C.T); out("image.copy cross done")`},
	{Name: "image.copy/opts", API: "image.copy", Mut: true, Code: `image.copy(C.SRC, C.REPO .. ":c19copyo-" .. C.T, {digestTags = true, forceRecursive = true}); out("image.copy opts done")`},
	{Name: "image.importTar", API: "image.importTar", Mut: true, Rep: true, Code: `image.importTar(C.REPO .. ":c19imp-" .. C.T, IN); out("image.importTar done")`},
}

var c19FormByName = func() map[string]*c19Form {
	m := map[string]*c19Form{}
	for i := range c19Forms {
		m[c19Forms[i].Name] = &c19Forms[i]
	}
	return m
}()

const (
	c19WStraight = "straight"
	c19WPcall    = "pcall"
	c19WLoop     = "loop"
	c19WRaise    = "raise"
	c19WAfter    = "after-failing"
)

var c19Wrappers = []string{c19WStraight, c19WPcall, c19WLoop, c19WRaise, c19WAfter}

// ways a script fails
var c19RaiseKinds = []struct {
	Name, Code string
	Timeout    bool
}{
	{"error-string", `error("c19 boom")`, false},
	{"error-table", `error({code = 19})`, false},
	{"call-nil", `local c19nil = nil; c19nil()`, false},
	{"binding-raises", `manifest.get(CR.REPO .. ":c19-no-such-tag")`, false},
	{"binding-argerror", `tag.ls(12345, {})`, false},
	{"timeout-loop", `while true do tag.ls(CL.REPO) end`, true},
	// a binding that takes a slot of the shared script throttle and raises while it holds it
	{"throttled-binding-raises-on-index", `image.config(manifest.getList(CR.REPO .. ":v1"))`, false},
	{"throttled-binding-raises-on-head", `image.config(manifest.head(CR.REPO .. ":v1"))`, false},
	// ... and one that raises on the local side (the tar file cannot be created) after taking the slot
	{"throttled-binding-raises-on-local-file", `image.exportTar(CR.REPO .. ":v1", OUT .. "/c19-no-such-dir/x.tar")`, false},
}

// c19Case is one enumerated case; it is also the replay payload.
type c19Case struct {
	Wrapper string   `json:"wrapper"`
	Forms   []string `json:"forms"`
	Locs    string   `json:"locs"` // one letter per form: R registry, L layout
	Raise   int      `json:"raise"`
	CLI     bool     `json:"cli,omitempty"` // through NewRootCmd().Execute() `once [--dry-run] -c file`
}

func (c c19Case) String() string {
	s := fmt.Sprintf("%s[%s]@%s", c.Wrapper, strings.Join(c.Forms, " ; "), c.Locs)
	if c.Wrapper == c19WRaise || c.Wrapper == c19WAfter {
		s += " raise=" + c19RaiseKinds[c.Raise].Name
	}
	if c.CLI {
		s += " cli"
	}
	return s
}

func (c c19Case) hasMut() bool {
	for _, f := range c.Forms {
		if c19FormByName[f].Mut {
			return true
		}
	}
	return false
}

// c19Script is one entry of the config's script list.
type c19Script struct {
	Name       string
	Text       string
	TimeoutMs  int
	MustFail   bool  // contains a raise statement that is reached unless an earlier binding raised
	Positions  []int // form positions (1-based) contained in this script
	AfterRaise []int // positions placed after the raise statement: must never start
}

type c19Paths struct {
	Host    string
	RegRepo string // reg.example/testrepo
	LayRepo string // ocidir://<abs>/layouts/lay
	RegNew  string
	LayNew  string
	RegBlob string
	LayBlob string
	In      string
	Out     string
	Layer   string
	Dig3    string
}

const c19LuaHelpers = `
local function show(v, d)
  d = d or 0
  local tv = type(v)
  if tv == "table" then
    if d > 4 then return "{...}" end
    local items = {}
    for k, x in pairs(v) do items[#items + 1] = tostring(k) .. "=" .. show(x, d + 1) end
    table.sort(items)
    return "{" .. table.concat(items, ",") .. "}"
  elseif tv == "userdata" then
    return "<userdata>"
  end
  return tostring(v)
end
local function out(s) log("=" .. s) end
local function try(f)
  local ok, v = pcall(f)
  if ok then return show(v) end
  return "ERR " .. tostring(v)
end
`

func c19Prelude(p c19Paths) string {
	var sb strings.Builder
	fmt.Fprintf(&sb, "local HOST = %q\nlocal IN = %q\nlocal OUT = %q\nlocal LAYER = %q\nlocal DIG3 = %q\n", p.Host, p.In, p.Out, p.Layer, p.Dig3)
	sb.WriteString(c19LuaHelpers)
	fmt.Fprintf(&sb, "local CR = {REPO = %q, XREPO = %q, NEWREPO = %q, REPO2 = %q, T = \"s\"}\n", p.RegRepo, p.LayRepo, p.RegNew, p.RegBlob)
	fmt.Fprintf(&sb, "local CL = {REPO = %q, XREPO = %q, NEWREPO = %q, REPO2 = %q, T = \"s\"}\n", p.LayRepo, p.RegRepo, p.LayNew, p.LayBlob)
	sb.WriteString(`for _, X in ipairs({CR, CL}) do X.SRC = X.REPO .. ":v1"; X.DEL = X.REPO .. ":v2"; X.DEL3 = X.REPO .. ":v3" end` + "\n")
	return sb.String()
}

func c19Bracket(pos int, f *c19Form, loc byte, strip bool, protect bool) string {
	ctx := "CR"
	if loc == 'L' {
		ctx = "CL"
	}
	code := f.Code
	if strip && f.Mut {
		code = "-- (mutating binding removed for the read-only reference run)"
	}
	var sb strings.Builder
	if protect {
		fmt.Fprintf(&sb, "do local ok, err = pcall(function()\n  log(\"@b %d\")\n  local C = %s; C.N = %d\n  %s\n  log(\"@e %d\")\nend)\nif not ok then out(\"caught \" .. show(err)); log(\"@e %d\") end end\n", pos, ctx, pos, code, pos, pos)
	} else {
		fmt.Fprintf(&sb, "do\n  log(\"@b %d\")\n  local C = %s; C.N = %d\n  %s\n  log(\"@e %d\")\nend\n", pos, ctx, pos, code, pos)
	}
	return sb.String()
}

// c19Build turns a case into the list of scripts that regbot is given. strip replaces the code of
// every mutating form by a comment (reference for what the read-only bindings return on the
// unchanged state).
func c19Build(c c19Case, p c19Paths, strip bool) []c19Script {
	pre := c19Prelude(p)
	forms := make([]*c19Form, len(c.Forms))
	for i, n := range c.Forms {
		forms[i] = c19FormByName[n]
	}
	br := func(i int, protect bool) string { return c19Bracket(i+1, forms[i], c.Locs[i], strip, protect) }
	all := func() []int {
		var l []int
		for i := range forms {
			l = append(l, i+1)
		}
		return l
	}
	switch c.Wrapper {
	case c19WStraight, c19WPcall:
		var sb strings.Builder
		sb.WriteString(pre)
		for i := range forms {
			sb.WriteString(br(i, c.Wrapper == c19WPcall))
		}
		sb.WriteString("log(\"@done\")\n")
		return []c19Script{{Name: "c19-main", Text: sb.String(), Positions: all()}}
	case c19WLoop:
		var sb strings.Builder
		sb.WriteString(pre)
		first := "CR"
		if c.Locs[0] == 'L' {
			first = "CL"
		}
		// the usual regbot idiom: list the tags of a repository, filter, act on each tag
		fmt.Fprintf(&sb, "local tags = tag.ls(%s.REPO)\ntable.sort(tags)\nfor _, t in ipairs(tags) do\n if string.match(t, \"^v[12]$\") then\n  out(\"iteration \" .. t)\n", first)
		sb.WriteString("  for _, X in ipairs({CR, CL}) do local r = reference.new(X.REPO); r:tag(t); X.SRC = r; X.DEL = r; X.DEL3 = r; X.T = t end\n")
		for i := range forms {
			sb.WriteString(br(i, false))
		}
		sb.WriteString(" end\nend\nlog(\"@done\")\n")
		return []c19Script{{Name: "c19-main", Text: sb.String(), Positions: all()}}
	case c19WRaise:
		// error raised before the only binding (single) or after the first binding (longer sequences)
		rk := c19RaiseKinds[c.Raise]
		var sb strings.Builder
		sb.WriteString(pre)
		k := 1
		if len(forms) == 1 {
			k = 0
		}
		var after []int
		for i := range forms {
			if i == k {
				sb.WriteString("log(\"@raise\")\n" + rk.Code + "\n")
			}
			if i >= k {
				after = append(after, i+1)
			}
			sb.WriteString(br(i, false))
		}
		sb.WriteString("log(\"@done\")\n")
		return []c19Script{{Name: "c19-main", Text: sb.String(), MustFail: true, Positions: all(), AfterRaise: after}}
	case c19WAfter:
		// script A fails; script B must still run
		rk := c19RaiseKinds[c.Raise]
		var a, b strings.Builder
		a.WriteString(pre)
		b.WriteString(pre)
		var pa, pb []int
		k := 1
		if len(forms) == 1 || rk.Timeout {
			k = 0 // a timing-out script contains nothing else, so that no compared output depends on timing
		}
		for i := range forms {
			if i < k {
				a.WriteString(br(i, false))
				pa = append(pa, i+1)
			} else {
				b.WriteString(br(i, false))
				pb = append(pb, i+1)
			}
		}
		a.WriteString("log(\"@raise\")\n" + rk.Code + "\nlog(\"@unreachable\")\n")
		b.WriteString("log(\"@done\")\n")
		sa := c19Script{Name: "c19-A", Text: a.String(), MustFail: true, Positions: pa}
		if rk.Timeout {
			sa.TimeoutMs = 40
		}
		// script B normally takes milliseconds; should a resource of script A still be held (a throttle
		// slot), B would wait for it until its timeout, which is therefore kept short
		return []c19Script{sa, {Name: "c19-B", Text: b.String(), Positions: pb, TimeoutMs: 4000}}
	}
	return nil
}
