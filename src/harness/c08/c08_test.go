package hc08

// C08 — layout GC never removes reachable content and never runs under a copy.
//
// Part 1 (histories): every sequence (no deduplication: the client's modified/locked bookkeeping is
// hidden state) of copies, sparse copies, tag / manifest deletions, referrer pushes and removals,
// stray temp files and Close on one layout through the real client. Around every Close: nothing
// reachable from index.json is lost and the sweep is all-or-nothing.
// Part 2 (schedules): two concurrent ImageCopy into one layout plus Close calls, every interleaving
// within the bound; no file may disappear while a copy is in progress and every copied tag ends up
// with a complete closure.

import (
	"context"
	"encoding/json"
	"fmt"
	"os"
	"path/filepath"
	"sort"
	"strings"
	"testing"

	"github.com/regclient/regclient"
	"github.com/regclient/regclient/internal/verif/audit"
	"github.com/regclient/regclient/internal/verif/ev"
	"github.com/regclient/regclient/internal/verif/explore"
	"github.com/regclient/regclient/internal/verif/graphs"
	"github.com/regclient/regclient/internal/verif/modelreg"
	"github.com/regclient/regclient/internal/verif/qsched"
	"github.com/regclient/regclient/internal/verif/rcenv"
	"github.com/regclient/regclient/scheme/ocidir"
	"github.com/regclient/regclient/types/manifest"
	"github.com/regclient/regclient/types/ref"
)

const (
	host = "src.example"
)

var tags = []string{"a", "b"}

type Op struct {
	K string `json:"k"` // copy, copyd (to the bare digest, no tag), sparse, refcopy, tagdel, mandel, putref, delref, tmp, close
	G string `json:"g,omitempty"`
	T int    `json:"t"`
}

func (o Op) String() string {
	switch o.K {
	case "copy", "sparse", "refcopy":
		return fmt.Sprintf("%s(%s->%s)", o.K, o.G, tags[o.T])
	case "copyd":
		return "copy(" + o.G + "->digest only)"
	case "tagdel":
		return "tagDelete(" + tags[o.T] + ")"
	case "mandel":
		return "manifestDelete(" + o.G + ")"
	case "putref":
		return "putReferrer(of " + tags[o.T] + ")"
	case "delref":
		return "deleteReferrer(of " + tags[o.T] + ")"
	}
	return o.K
}

func alphabet(thorough bool) []Op {
	ops := []Op{
		{"copy", "G1", 0}, {"copy", "G3", 0}, {"copy", "G4", 1}, {"copy", "G15", 1}, {"copy", "G11", 1}, {"copy", "G10", 0},
		{"refcopy", "G13", 0}, {"sparse", "G3", 1}, {"copyd", "G1", 0}, {"copyd", "G10", 0},
		{"tagdel", "", 0}, {"tagdel", "", 1}, {"mandel", "G3", 0},
		{"putref", "", 0}, {"delref", "", 0}, {"tmp", "", 0}, {"close", "", 0},
	}
	if thorough {
		ops = append(ops, Op{"copy", "G1", 1}, Op{"copy", "G8", 0}, Op{"copy", "G20", 1}, Op{"mandel", "G1", 0})
	}
	return ops
}

var gcache = map[string]*graphs.Graph{}

func graph(n string) *graphs.Graph {
	if g, ok := gcache[n]; ok {
		return g
	}
	g := graphs.Build(n)
	gcache[n] = g
	return g
}

type World struct {
	dir  string
	net  *modelreg.Net
	rc   *regclient.RegClient
	base ref.Ref
	nref int
}

func newWorld(t *testing.T, scratch string) *World {
	w := &World{dir: filepath.Join(scratch, "lay")}
	w.net = modelreg.NewNet()
	h := w.net.AddHost(host, modelreg.Full())
	for _, n := range []string{"G1", "G3", "G4", "G15", "G11", "G10", "G13", "G8", "G20", "G18"} {
		graph(n).Load(h.Repo("src/"+strings.ToLower(n)), "v1")
	}
	var err error
	w.base, err = ref.New("ocidir://" + w.dir)
	if err != nil {
		t.Fatal(err)
	}
	w.rc = rcenv.New(w.net, []string{host}, rcenv.Opts{})
	return w
}

func (w *World) src(g string) ref.Ref {
	r, _ := ref.New(host + "/src/" + strings.ToLower(g) + ":v1")
	return r
}

// referrer artifact for whatever the tag points to (built on the fly, content depends on the subject)
func (w *World) refArtifact(subject string, body []byte, n int) *graphs.Graph {
	g := graphs.New("ref", "sha256")
	var doc modelreg.ManDoc
	json.Unmarshal(body, &doc)
	sd := modelreg.Desc{MediaType: doc.MediaType, Digest: subject, Size: int64(len(body))}
	g.Top = g.Artifact("application/vnd.example.sig", fmt.Sprintf("sig-%d", n), &sd, nil).Digest
	return g
}

func (w *World) tagDigest(t string) (string, []byte) {
	_, tg, _, _, err := audit.ReadLayout(w.dir)
	if err != nil {
		return "", nil
	}
	d := tg[t]
	if d == "" {
		return "", nil
	}
	b, _ := (audit.DirStore{Dir: w.dir}).Manifest(d)
	return d, b
}

func (w *World) do(ctx context.Context, o Op) error {
	tgt := w.base.SetTag(tags[o.T])
	switch o.K {
	case "copy":
		return w.rc.ImageCopy(ctx, w.src(o.G), tgt)
	case "copyd":
		// addressed by digest only: the layout keeps an untagged index entry as the image's only root
		return w.rc.ImageCopy(ctx, w.src(o.G), w.base.SetDigest(graph(o.G).Top))
	case "refcopy":
		return w.rc.ImageCopy(ctx, w.src(o.G), tgt, regclient.ImageWithReferrers())
	case "sparse":
		return w.rc.ImageCopy(ctx, w.src(o.G), tgt, regclient.ImageWithPlatforms([]string{"linux/amd64"}))
	case "tagdel":
		return w.rc.TagDelete(ctx, tgt)
	case "mandel":
		return w.rc.ManifestDelete(ctx, w.base.SetDigest(graph(o.G).Top))
	case "putref":
		d, body := w.tagDigest(tags[o.T])
		if d == "" || body == nil {
			return fmt.Errorf("no subject")
		}
		g := w.refArtifact(d, body, 0)
		for bd, b := range g.Blobs {
			if _, err := w.rc.BlobPut(ctx, w.base, descOf(bd, len(b)), strings.NewReader(string(b))); err != nil {
				return err
			}
		}
		m, err := manifest.New(manifest.WithRaw(g.Manifests[g.Top].Body))
		if err != nil {
			return err
		}
		return w.rc.ManifestPut(ctx, w.base.SetDigest(g.Top), m)
	case "delref":
		d, body := w.tagDigest(tags[o.T])
		if d == "" || body == nil {
			return fmt.Errorf("no subject")
		}
		g := w.refArtifact(d, body, 0)
		return w.rc.ManifestDelete(ctx, w.base.SetDigest(g.Top))
	case "tmp":
		p := filepath.Join(w.dir, "blobs", "sha256")
		if err := os.MkdirAll(p, 0o755); err != nil {
			return err
		}
		return os.WriteFile(filepath.Join(p, "12345.tmp"), []byte("stray"), 0o644)
	case "close":
		return w.rc.Close(ctx, w.base)
	}
	return fmt.Errorf("unknown op")
}

// reachable computes, independently, every digest reachable from index.json (entries at any depth,
// config, layers, blobs; fallback-referrer tags are index entries like any other). Missing content
// is tolerated (sparse copies): the walk continues over what is there.
func reachable(dir string) (map[string]bool, error) {
	idx, _, _, _, err := audit.ReadLayout(dir)
	if err != nil {
		return nil, err
	}
	seen := map[string]bool{}
	st := audit.DirStore{Dir: dir}
	var walk func(d string)
	walk = func(d string) {
		if seen[d] {
			return
		}
		seen[d] = true
		body, ok := st.Manifest(d)
		if !ok {
			return
		}
		var doc modelreg.ManDoc
		if json.Unmarshal(body, &doc) != nil || doc.SchemaVersion == 0 {
			return
		}
		for _, r := range audit.References(body, true) {
			// references of a manifest: children may be manifests themselves
			walk(r)
		}
	}
	for _, m := range idx.Manifests {
		walk(m.Digest)
	}
	return seen, nil
}

func files(dir string) map[string]bool {
	out := map[string]bool{}
	for _, f := range audit.BlobFiles(dir) {
		out[f] = true
	}
	return out
}

func setStr(m map[string]bool) string {
	var ks []string
	for k := range m {
		ks = append(ks, short(k))
	}
	sort.Strings(ks)
	return strings.Join(ks, ",")
}

func short(d string) string {
	if i := strings.IndexByte(d, ':'); i > 0 && len(d) > i+9 {
		return d[i+1 : i+9]
	}
	return d
}

// judgeClose evaluates the oracle for one Close: before/after file sets and the reachable set before.
func judgeClose(before, after, reach map[string]bool) (string, string) {
	for f := range before {
		if reach[f] && !after[f] {
			return "gc-removed-reachable", fmt.Sprintf("Close removed %s which index.json still reaches", short(f))
		}
	}
	for f := range after {
		if !before[f] {
			return "close-added-file", fmt.Sprintf("Close added %s", f)
		}
	}
	unchanged := len(before) == len(after)
	if unchanged {
		return "", ""
	}
	// a collection ran: it must have removed everything unreachable, temp files included
	for f := range after {
		if !reach[f] {
			return "gc-partial-sweep", fmt.Sprintf("a collection ran but left unreachable %s behind", f)
		}
	}
	return "", ""
}

type replay struct {
	Part    string `json:"part"`
	Hist    []Op   `json:"history,omitempty"`
	Scen    int    `json:"scenario,omitempty"`
	Choices []int  `json:"choices,omitempty"`
	Stall   bool   `json:"stall,omitempty"` // explored with persistent delays (qsched.Demote)
}

type histResult struct {
	vk, vm    string
	collected int
	closes    int
	failed    int
}

func runHist(t *testing.T, hist []Op, scratch string) histResult {
	var r histResult
	dir, _ := os.MkdirTemp(scratch, "h")
	defer os.RemoveAll(dir)
	_, other := qsched.Bubble(t, func() {
		w := newWorld(t, dir)
		ctx := context.Background()
		for i, o := range hist {
			if o.K == "close" {
				before := files(w.dir)
				reach, rerr := reachable(w.dir)
				err := w.do(ctx, o)
				after := files(w.dir)
				r.closes++
				if rerr != nil {
					continue // not a layout yet
				}
				if err != nil {
					r.failed++
				}
				if len(after) < len(before) {
					r.collected++
				}
				if k, m := judgeClose(before, after, reach); k != "" {
					r.vk, r.vm = k, fmt.Sprintf("%s (step %d of %s)", m, i+1, histStr(hist))
					return
				}
				// every tag still resolves to content that was there before
				continue
			}
			_, tagsB, untB, _, errB := audit.ReadLayout(w.dir)
			if err := w.do(ctx, o); err != nil {
				r.failed++
			}
			// a push or copy adds roots or moves tags; it never takes away the root of other content: an
			// untagged index entry is the only thing that keeps a digest-addressed image from the next
			// collection, so it may only go by becoming a tagged entry of the same digest
			if errB == nil && (o.K == "copy" || o.K == "copyd" || o.K == "sparse" || o.K == "refcopy" || o.K == "putref") {
				_, tagsA, untA, _, errA := audit.ReadLayout(w.dir)
				if errA == nil {
					roots := map[string]bool{}
					for _, d := range untA {
						roots[d] = true
					}
					for _, d := range tagsA {
						roots[d] = true
					}
					for _, d := range untB {
						if !roots[d] {
							r.vk, r.vm = "push-dropped-untagged-root", fmt.Sprintf("%s removed the index entry of %s, which was pushed by digest and never deleted: the next collection deletes it (step %d of %s)", o, short(d), i+1, histStr(hist))
							return
						}
					}
					for tg, d := range tagsB {
						if _, still := tagsA[tg]; !still {
							r.vk, r.vm = "push-dropped-tag", fmt.Sprintf("%s removed tag %s (%s) from the index (step %d of %s)", o, tg, short(d), i+1, histStr(hist))
							return
						}
					}
				}
			}
		}
	})
	if other != nil {
		r.vk, r.vm = "panic", fmt.Sprint(other)
	}
	return r
}

func histStr(h []Op) string {
	var s []string
	for _, o := range h {
		s = append(s, o.String())
	}
	return strings.Join(s, " ; ")
}

func lastKinds(h []Op) string {
	// key: the kinds of the operations since the previous close
	var ks []string
	for i := len(h) - 2; i >= 0 && h[i].K != "close"; i-- {
		ks = append([]string{h[i].K}, ks...)
	}
	return strings.Join(ks, "+")
}

// ---- part 2 -----------------------------------------------------------------------------------

type concScen struct {
	Name    string
	Copies  [][2]string // graph, tag
	Closers int
	// Pre: "" the layout holds collectable content and has NOT been closed since (modified);
	// "closed:<graph>:<tag>" that image was copied in and the layout closed (unmodified, the tag
	// is up to date, so a copy of the same image onto it writes nothing)
	Pre string
}

var concScens = []concScen{
	{"disjoint", [][2]string{{"G1", "a"}, {"G10", "b"}}, 1, ""},
	{"overlap", [][2]string{{"G3", "a"}, {"G18", "b"}}, 1, ""},
	{"same-image", [][2]string{{"G3", "a"}, {"G3", "b"}}, 1, ""},
	{"nested", [][2]string{{"G4", "a"}, {"G15", "b"}}, 1, ""},
	{"disjoint-two-closers", [][2]string{{"G1", "a"}, {"G10", "b"}}, 2, ""},
	{"noop-copy-and-writer", [][2]string{{"G1", "a"}, {"G10", "b"}}, 1, "closed:G1:a"},
	{"noop-copy-and-writer-no-closer", [][2]string{{"G1", "a"}, {"G3", "b"}}, 0, "closed:G1:a"},
	{"two-writers-after-close", [][2]string{{"G10", "b"}, {"G4", "c"}}, 1, "closed:G1:a"},
	// a copy whose source tag does not exist fails by itself; its failure must not end the protection
	// of the other copy
	{"failing-copy-and-writer", [][2]string{{"MISSING", "a"}, {"G10", "b"}}, 1, ""},
	{"failing-copy-and-writer-after-close", [][2]string{{"G3", "b"}, {"MISSING", "c"}}, 0, "closed:G1:a"},
}

func runConc(t *testing.T, c *explore.Ctx, sc concScen, scratch string, trace bool, stall bool) explore.Result {
	dir, _ := os.MkdirTemp(scratch, "c")
	defer os.RemoveAll(dir)
	var res explore.Result
	_, other := qsched.Bubble(t, func() {
		w := newWorld(t, dir)
		ctx := context.Background()
		if pre, ok := strings.CutPrefix(sc.Pre, "closed:"); ok {
			gt := strings.SplitN(pre, ":", 2)
			if err := w.rc.ImageCopy(ctx, w.src(gt[0]), w.base.SetTag(gt[1])); err != nil {
				res = explore.Result{VKey: "harness", Violation: err.Error()}
				return
			}
			if err := w.rc.Close(ctx, w.base); err != nil {
				res = explore.Result{VKey: "harness", Violation: err.Error()}
				return
			}
		} else {
			// the layout exists and holds something collectable, so that a Close has work to do
			if err := w.do(ctx, Op{"copy", "G11", 0}); err != nil {
				res = explore.Result{VKey: "harness", Violation: err.Error()}
				return
			}
			w.do(ctx, Op{"tagdel", "", 0})
		}
		active := 0
		var viol []string
		var errs []string
		var sched *qsched.Sched
		w.net.OnArrive = func(e *modelreg.Entry) {
			if sched != nil {
				sched.Point(qsched.KHTTP, "")
			}
		}
		threads := map[string]func(*qsched.Sched){}
		var names []string
		closeOnce := func(who string) {
			before := files(w.dir)
			act := active
			err := w.rc.Close(ctx, w.base)
			after := files(w.dir)
			if err != nil {
				errs = append(errs, who+": close: "+err.Error())
			}
			if len(after) < len(before) && act > 0 && active > 0 {
				viol = append(viol, fmt.Sprintf("%s: Close removed %d file(s) while %d copy(ies) into the layout were in progress", who, len(before)-len(after), act))
			}
		}
		for i, cp := range sc.Copies {
			n := fmt.Sprintf("copy%d", i)
			names = append(names, n)
			threads[n] = func(s *qsched.Sched) {
				sched = s
				s.Yield("start")
				active++
				err := w.rc.ImageCopy(ctx, w.src(cp[0]), w.base.SetTag(cp[1]))
				active--
				if cp[0] == "MISSING" {
					if err == nil {
						errs = append(errs, n+": copy of a source tag that does not exist reported success")
					}
				} else if err != nil {
					errs = append(errs, n+": "+err.Error())
				}
				// as regctl does: close the target after the copy
				closeOnce(n)
			}
		}
		for i := 0; i < sc.Closers; i++ {
			n := fmt.Sprintf("closer%d", i)
			names = append(names, n)
			threads[n] = func(s *qsched.Sched) {
				sched = s
				s.Yield("start")
				closeOnce(n)
			}
		}
		mode := qsched.Delay
		if stall {
			mode = qsched.Demote
		}
		out := qsched.Run(c, qsched.Config{Mode: mode, Horizon: 20000, Trace: trace, Branch: map[qsched.Kind]bool{qsched.KHTTP: true, qsched.KYield: true, qsched.KStart: true}}, threads, names)
		sched = nil
		w.net.OnArrive = nil
		if out.Deadlock {
			res = explore.Result{Outcome: "deadlock", VKey: "observed:deadlock", Violation: out.DeadlockAt}
			return
		}
		if out.Panic != nil {
			res = explore.Result{Outcome: "panic", VKey: "panic", Violation: fmt.Sprint(out.Panic)}
			return
		}
		res.Outcome = fmt.Sprintf("files=%d errs=%d", len(files(w.dir)), len(errs))
		c.Logf("%s %s", res.Outcome, strings.ReplaceAll(fmt.Sprint(errs), w.dir, "$DIR"))
		if len(viol) > 0 {
			res.VKey, res.Violation = "gc-under-copy", strings.Join(viol, "; ")
			return
		}
		if len(errs) > 0 {
			res.VKey, res.Violation = "observed:copy-or-close-failed", strings.Join(errs, "; ")
			return
		}
		for _, cp := range sc.Copies {
			if cp[0] == "MISSING" {
				continue
			}
			_, tg, _, _, err := audit.ReadLayout(w.dir)
			if err != nil {
				res.VKey, res.Violation = "layout-invalid", err.Error()
				return
			}
			top := graph(cp[0]).Top
			if tg[cp[1]] != top {
				res.VKey, res.Violation = "tag-wrong", fmt.Sprintf("tag %s = %s after concurrent copies, expected %s", cp[1], short(tg[cp[1]]), short(top))
				return
			}
			if _, probs := audit.Closure(audit.DirStore{Dir: w.dir}, top, audit.ClosureOpts{}); len(probs) > 0 {
				res.VKey, res.Violation = "concurrent-copy-lost-content", fmt.Sprintf("after concurrent copies and closes tag %s is incomplete: %s", cp[1], probs[0])
				return
			}
		}
	})
	if other != nil {
		res.VKey, res.Violation = "panic", fmt.Sprint(other)
	}
	return res
}

func descOf(d string, n int) (x descriptorT) { return mkDesc(d, n) }

func TestVerifC08(t *testing.T) {
	rec := ev.New()
	defer rec.Flush(t)
	rec.Rule("part 1: every sequence of length 1..3 (thorough 1..4) over {copy of G1/G3/G4/G15/G11/G10 into tag a or b, copy with referrers of G13, sparse copy (one platform) of G3, tag delete a/b, manifest delete, push / delete of a referrer of whatever tag a points to, a stray *.tmp file under blobs/, Close} followed by Close, on one layout through the real client, without state deduplication; around every Close an independent reachability walk from index.json decides: nothing reachable removed, nothing added, and either no file removed or exactly the unreachable files (temp files included) removed. " +
		"part 2: two concurrent ImageCopy into one layout (disjoint, overlapping, identical, nested graphs) each followed by Close, plus 1-2 extra Close goroutines; every schedule with at most k departures from the default at request arrivals and operation boundaries (k=2 quick, 3 thorough), and every schedule with at most k-1 persistent delays (a goroutine stalled until all others have blocked or finished); oracle: no file disappears while a copy is in progress, all copied tags complete afterwards. distinct_nontrivial = histories in which a collection actually removed files / distinct concurrent outcomes")
	rec.Assume("layout GC with the client's default setting (on); GC off is covered by a direct scheme-level sequence")
	if rd := rec.ReplayData(); rd != nil {
		var rp replay
		if err := json.Unmarshal(rd, &rp); err != nil {
			rec.HarnessError("replay: %v", err)
			return
		}
		if rp.Part == "conc" {
			c := explore.NewCtx(rp.Choices)
			r := runConc(t, c, concScens[rp.Scen], rec.Scratch, true, rp.Stall)
			fmt.Printf("replay %s choices=%v\n%s\nverdict: %s %s\n", concScens[rp.Scen].Name, rp.Choices, strings.Join(c.Log(), "\n"), r.VKey, r.Violation)
			rec.Eval(1)
			if r.VKey != "" {
				rec.Violation(r.VKey+" conc "+concScens[rp.Scen].Name, r.Violation, rp)
			}
			return
		}
		r := runHist(t, rp.Hist, rec.Scratch)
		fmt.Printf("replay %s\nverdict: %s %s\n", histStr(rp.Hist), r.vk, r.vm)
		rec.Eval(1)
		if r.vk != "" {
			rec.Violation(r.vk+" after="+lastKinds(rp.Hist), r.vm, rp)
		}
		return
	}
	depth := 3
	if rec.Thorough() {
		depth = 4
	}
	if os.Getenv("VERIF_C08_SKIP_HIST") != "" {
		depth = 0 // debugging aid: only the concurrent part
	}
	ops := alphabet(rec.Thorough())
	i := 0
	var collected, closes int64
	var recur func(h []Op)
	recur = func(h []Op) {
		if len(h) >= 1 {
			i++
			if rec.Mine(i-1) && !rec.Expired() {
				hh := append(append([]Op{}, h...), Op{K: "close"})
				r := runHist(t, hh, rec.Scratch)
				rec.Eval(1)
				rec.Transitions(int64(len(hh)))
				closes += int64(r.closes)
				if r.collected > 0 {
					collected++
					rec.Distinct(histStr(hh))
				}
				if r.vk != "" {
					rec.Violation(r.vk+" after="+lastKinds(hh), r.vm, replay{Part: "hist", Hist: hh})
				}
			} else if rec.Expired() {
				rec.NotExhaustive("budget reached in histories")
			}
		}
		if len(h) == depth {
			return
		}
		for _, o := range ops {
			recur(append(append([]Op{}, h...), o))
		}
	}
	recur(nil)
	rec.Count("histories_in_which_a_collection_removed_files", collected)
	rec.Count("closes_judged", closes)
	if rec.ShardI == 0 {
		gcOff(t, rec)
	}
	rec.Sample(map[string]any{"history": histStr([]Op{{"copy", "G3", 0}, {"tagdel", "", 0}, {"tmp", "", 0}, {"close", "", 0}}), "part": "histories"})
	// part 2
	bound := 2
	if rec.Thorough() {
		bound = 3
	}
	type concItem struct {
		si    int
		stall bool
	}
	var items []concItem
	for si := range concScens {
		// departures from the default schedule, then persistent delays (a goroutine stalled while all
		// others run on), one bound lower
		items = append(items, concItem{si, false}, concItem{si, true})
	}
	for _, it := range items {
		si, sc, stall := it.si, concScens[it.si], it.stall
		bound := bound
		tagS := ""
		if stall {
			bound--
			tagS = " stalls"
		}
		// every shard explores its share of the level-1 subtrees of every scenario
		if rec.Expired() {
			rec.NotExhaustive("budget reached in concurrent scenarios")
			break
		}
		run := func(c *explore.Ctx) explore.Result { return runConc(t, c, sc, rec.Scratch, false, stall) }
		ex := &explore.Explorer{Bound: bound, Run: run, Stop: rec.Expired, DetCheckEvery: 199,
			Mine: func(k int) bool { return k%rec.NShards == rec.ShardI }, Root: rec.ShardI == 0}
		ex.OnExec = func(c *explore.Ctx, r explore.Result) {
			if r.VKey == "harness" {
				rec.HarnessError("%s: %s", sc.Name, r.Violation)
				return
			}
			if r.Violation != "" && strings.HasPrefix(r.VKey, "observed:") {
				// an outcome that is counted, not judged, needs no confirmation (it is not a verdict)
				rec.Violation(r.VKey+" conc "+sc.Name+tagS, r.Violation+"\nschedule: "+c.Describe(), replay{Part: "conc", Scen: si, Choices: explore.Trim(c.Choices()), Stall: stall})
			} else if r.Violation != "" {
				for k := 0; k < 3; k++ {
					if r2 := run(explore.NewCtx(c.Choices())); r2.VKey != r.VKey {
						rec.HarnessError("violation %q of %s not reproduced", r.VKey, sc.Name)
						return
					}
				}
				rec.Violation(r.VKey+" conc "+sc.Name+tagS, r.Violation+"\nschedule: "+c.Describe(), replay{Part: "conc", Scen: si, Choices: explore.Trim(c.Choices()), Stall: stall})
			}
			rec.Distinct(sc.Name + tagS + "#" + r.Outcome + "#" + fmt.Sprint(c.Cost))
		}
		func() {
			defer func() {
				if p := recover(); p != nil {
					rec.HarnessError("scenario %s: %v", sc.Name, p)
				}
			}()
			ex.Explore()
		}()
		rec.Eval(ex.Stats.Executions)
		rec.States(int64(len(ex.Stats.Outcomes)))
		rec.Count("concurrent.executions", ex.Stats.Executions)
		if rec.ShardI == 0 {
			rec.Count("concurrent.scenarios", 1)
			rec.Sample(map[string]any{"scenario": sc.Name + tagS, "part": "schedules", "bound": bound})
		}
		if ex.Stats.Capped {
			rec.NotExhaustive("budget reached inside " + sc.Name)
		}
	}
	rec.States(1)
	rec.Validated(0)
}

// gcOff: with garbage collection disabled Close must not touch the directory.
func gcOff(t *testing.T, rec *ev.Rec) {
	dir, _ := os.MkdirTemp(rec.Scratch, "off")
	defer os.RemoveAll(dir)
	g := graph("G1")
	lay := filepath.Join(dir, "lay")
	if err := g.WriteLayout(lay, "a"); err != nil {
		rec.HarnessError("gc-off setup: %v", err)
		return
	}
	os.WriteFile(filepath.Join(lay, "blobs", "sha256", "999.tmp"), []byte("x"), 0o644)
	o := ocidir.New(ocidir.WithGC(false))
	r, _ := ref.New("ocidir://" + lay + ":a")
	ctx := context.Background()
	_ = o.TagDelete(ctx, r)
	before := files(lay)
	if err := o.Close(ctx, r); err != nil {
		rec.HarnessError("gc-off close: %v", err)
	}
	after := files(lay)
	rec.Eval(1)
	if len(before) != len(after) {
		rec.Violation("gc-disabled-but-collected", fmt.Sprintf("Close with GC disabled changed blobs/: %d -> %d files", len(before), len(after)), replay{Part: "gcoff"})
	}
}
