package hc08

import (
	"github.com/opencontainers/go-digest"

	"github.com/regclient/regclient/types/descriptor"
)

type descriptorT = descriptor.Descriptor

func mkDesc(d string, n int) descriptor.Descriptor {
	return descriptor.Descriptor{Digest: digest.Digest(d), Size: int64(n)}
}
