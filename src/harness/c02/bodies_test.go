package hc02

// Manifest body generator for C02 part A: a small ordered JSON tree, a renderer with explicit
// encoding styles, and the content variants of the eight manifest kinds. Everything is
// deterministic; nothing here touches regclient.

import (
	"bytes"
	"encoding/base64"
	"fmt"
	"sort"
	"strings"
)

// ---------------------------------------------------------------------------------------------
// ordered JSON tree

type jnode struct {
	kind byte // 'o' object, 'a' array, 's' string, 'l' literal (number, true, false, null)
	mem  []jmem
	arr  []*jnode
	str  string
}

type jmem struct {
	k string
	v *jnode
}

func jo(m ...jmem) *jnode        { return &jnode{kind: 'o', mem: m} }
func ja(a ...*jnode) *jnode      { return &jnode{kind: 'a', arr: a} }
func js(s string) *jnode         { return &jnode{kind: 's', str: s} }
func jl(s string) *jnode         { return &jnode{kind: 'l', str: s} }
func jm(k string, v *jnode) jmem { return jmem{k, v} }
func (n *jnode) add(m ...jmem)   { n.mem = append(n.mem, m...) }
func (n *jnode) keys() (k []string) {
	for _, m := range n.mem {
		k = append(k, m.k)
	}
	return
}

func (n *jnode) clone() *jnode {
	c := &jnode{kind: n.kind, str: n.str}
	for _, m := range n.mem {
		c.mem = append(c.mem, jmem{m.k, m.v.clone()})
	}
	for _, a := range n.arr {
		c.arr = append(c.arr, a.clone())
	}
	return c
}

// jstyle is one encoding of a tree. All styles denote the same JSON value.
type jstyle struct {
	Name      string
	Indent    string // "" = single line
	Sep       bool   // single-line mode: ", " and ": " instead of "," and ":"
	Lead      string
	Trail     string
	CRLF      bool
	Esc       bool // \uXXXX for non-ASCII and <>&, \/ for the solidus
	RevNested bool // members of every nested object in reverse order
}

func (st jstyle) String() string {
	s := st.Name
	if st.Esc {
		s += "+esc"
	}
	if st.RevNested {
		s += "+rev"
	}
	return s
}

func jstr(b *bytes.Buffer, s string, esc bool) {
	b.WriteByte('"')
	for _, r := range s {
		switch {
		case r == '"':
			b.WriteString(`\"`)
		case r == '\\':
			b.WriteString(`\\`)
		case r == '\n':
			b.WriteString(`\n`)
		case r == '\t':
			b.WriteString(`\t`)
		case r < 0x20:
			fmt.Fprintf(b, `\u%04x`, r)
		case esc && r == '/':
			b.WriteString(`\/`)
		case esc && (r == '<' || r == '>' || r == '&' || r > 0x7e) && r < 0x10000:
			fmt.Fprintf(b, `\u%04X`, r)
		default:
			b.WriteRune(r)
		}
	}
	b.WriteByte('"')
}

func (n *jnode) render(b *bytes.Buffer, st jstyle, depth int) {
	nl := func(d int) {
		if st.Indent == "" {
			return
		}
		if st.CRLF {
			b.WriteByte('\r')
		}
		b.WriteByte('\n')
		for i := 0; i < d; i++ {
			b.WriteString(st.Indent)
		}
	}
	comma := func() {
		b.WriteByte(',')
		if st.Indent == "" && st.Sep {
			b.WriteByte(' ')
		}
	}
	switch n.kind {
	case 's':
		jstr(b, n.str, st.Esc)
	case 'l':
		b.WriteString(n.str)
	case 'a':
		b.WriteByte('[')
		for i, a := range n.arr {
			if i > 0 {
				comma()
			}
			nl(depth + 1)
			a.render(b, st, depth+1)
		}
		if len(n.arr) > 0 {
			nl(depth)
		}
		b.WriteByte(']')
	case 'o':
		mem := n.mem
		if st.RevNested && depth > 0 {
			mem = make([]jmem, len(n.mem))
			for i, m := range n.mem {
				mem[len(n.mem)-1-i] = m
			}
		}
		b.WriteByte('{')
		for i, m := range mem {
			if i > 0 {
				comma()
			}
			nl(depth + 1)
			jstr(b, m.k, st.Esc)
			b.WriteByte(':')
			if st.Indent != "" || st.Sep {
				b.WriteByte(' ')
			}
			m.v.render(b, st, depth+1)
		}
		if len(mem) > 0 {
			nl(depth)
		}
		b.WriteByte('}')
	}
}

func (n *jnode) bytes(st jstyle) []byte {
	var b bytes.Buffer
	b.WriteString(st.Lead)
	n.render(&b, st, 0)
	b.WriteString(st.Trail)
	return b.Bytes()
}

var c02Styles = []jstyle{
	{Name: "compact"},
	{Name: "indent2", Indent: "  "},
	{Name: "tab+nl", Indent: "\t", Trail: "\n"},
	{Name: "indent3+lead+trail", Indent: "   ", Lead: "\n", Trail: " \n"},
	{Name: "spaced", Sep: true},
	{Name: "indent2+crlf", Indent: "  ", CRLF: true, Trail: "\r\n"},
	{Name: "compact+nl", Trail: "\n"},
}

// ---------------------------------------------------------------------------------------------
// media types (spelled out here so that the oracle does not depend on regclient's constants)

const (
	mtOCIImage   = "application/vnd.oci.image.manifest.v1+json"
	mtOCIIndex   = "application/vnd.oci.image.index.v1+json"
	mtOCIArt     = "application/vnd.oci.artifact.manifest.v1+json"
	mtOCIConfig  = "application/vnd.oci.image.config.v1+json"
	mtOCILayer   = "application/vnd.oci.image.layer.v1.tar+gzip"
	mtOCIEmpty   = "application/vnd.oci.empty.v1+json"
	mtD2Image    = "application/vnd.docker.distribution.manifest.v2+json"
	mtD2List     = "application/vnd.docker.distribution.manifest.list.v2+json"
	mtD2Config   = "application/vnd.docker.container.image.v1+json"
	mtD2Layer    = "application/vnd.docker.image.rootfs.diff.tar.gzip"
	mtD1         = "application/vnd.docker.distribution.manifest.v1+json"
	mtD1Signed   = "application/vnd.docker.distribution.manifest.v1+prettyjws"
	mtArtifactTy = "application/vnd.example.sbom.v1+json"
)

const (
	kOCIImage = iota
	kOCIIndex
	kOCIArtifact
	kD2Image
	kD2List
	kSchema1
	kSignedFixture
	kSignedSynth
	kDegenerate
	nKinds
)

var c02KindName = [nKinds]string{"oci-image", "oci-index", "oci-artifact", "docker2-image", "docker2-list", "schema1", "schema1-signed-fixture", "schema1-signed-synth", "degenerate"}

// nominal media type of a kind and the one used for "contradicting" sources
var c02KindMT = [nKinds]string{mtOCIImage, mtOCIIndex, mtOCIArt, mtD2Image, mtD2List, mtD1, mtD1Signed, mtD1Signed, mtOCIImage}
var c02KindContraMT = [nKinds]string{mtD2Image, mtD2List, mtOCIImage, mtOCIImage, mtOCIIndex, mtD2Image, mtD1, mtD1, mtOCIIndex}

func hexN(seed string, n int) string {
	// deterministic hex filler derived from a label (not a hash of anything meaningful)
	var sb strings.Builder
	for sb.Len() < n {
		for _, c := range []byte(seed) {
			fmt.Fprintf(&sb, "%02x", c^byte(sb.Len()))
			if sb.Len() >= n {
				break
			}
		}
	}
	return sb.String()[:n]
}

func descNode(mt, seed string, size int) *jnode {
	return jo(jm("mediaType", js(mt)), jm("digest", js("sha256:"+hexN(seed, 64))), jm("size", jl(fmt.Sprint(size))))
}

// feat selects the content of a body (what the JSON value is); the encoding is chosen separately.
type feat struct {
	Name    string
	Ann     int // 0 none, 1 present, 2 {}, 3 null
	Subject bool
	Data    bool // embedded data in a descriptor
	ArtType bool
	MT      int // 0 declared, 1 absent, 2 contradicting, 3 contradicting under a differently-cased key
	Unknown int // 0 none, 1 top level, 2 inside a descriptor, 3 two levels down, 4 all of them
	Float   bool
	Empty   bool // empty layer / manifest list
}

var c02Feats = []feat{
	{Name: "base"},
	{Name: "ann", Ann: 1},
	{Name: "subject", Subject: true},
	{Name: "data", Data: true},
	{Name: "full", Ann: 1, Subject: true, Data: true, ArtType: true},
	{Name: "nomt", MT: 1},
	{Name: "full-nomt", Ann: 1, Subject: true, Data: true, ArtType: true, MT: 1},
	{Name: "contramt", MT: 2},
	{Name: "full-contramt", Ann: 1, Subject: true, Data: true, ArtType: true, MT: 2},
	{Name: "unk-top", Ann: 1, Unknown: 1},
	{Name: "unk-desc", Unknown: 2},
	{Name: "unk-deep", Unknown: 3},
	{Name: "full-unk-all", Ann: 1, Subject: true, Data: true, ArtType: true, Unknown: 4},
	{Name: "ann-empty", Ann: 2},
	{Name: "ann-null", Ann: 3},
	{Name: "float-size", Float: true},
	{Name: "case-mt", MT: 3},
	{Name: "empty-list", Empty: true},
	{Name: "ann-subject", Ann: 1, Subject: true},
}

const c02AnnVal = "héllo <w&rld>   \"q\" \\ / 世"

func annNode(f feat) *jnode {
	switch f.Ann {
	case 1:
		return jo(jm("org.example/kéy", js(c02AnnVal)), jm("a.b", js("1")))
	case 2:
		return jo()
	case 3:
		return jl("null")
	}
	return nil
}

func unknownNode() *jnode {
	return jo(jm("a", ja(jl("1"), jl("2.5e3"), jo(jm("b", jl("null")), jm("mediaType", js("x/y"))))), jm("t", jl("true")))
}

func platformNode(arch string, f feat) *jnode {
	p := jo(jm("architecture", js(arch)), jm("os", js("linux")))
	if arch == "arm64" {
		p.add(jm("variant", js("v8")))
	}
	if f.Unknown == 3 || f.Unknown == 4 {
		p.add(jm("x-unknown-platform", ja(js("p"))))
	}
	return p
}

// buildContent returns the JSON value of a manifest of the given kind with the given features, or
// nil when the feature set does not apply to the kind (e.g. subject on a Docker manifest is still
// emitted as an unknown field – Docker types have no subject – so nothing is skipped for that; only
// kinds generated elsewhere return nil).
func buildContent(kind int, f feat) *jnode {
	mt := c02KindMT[kind]
	size := func(n int) *jnode {
		if f.Float {
			return jl(fmt.Sprintf("%d.0", n))
		}
		return jl(fmt.Sprint(n))
	}
	desc := func(dmt, seed string, n int, first bool) *jnode {
		d := jo(jm("mediaType", js(dmt)), jm("digest", js("sha256:"+hexN(seed, 64))), jm("size", size(n)))
		if first && f.Data {
			d.mem[2].v = size(2)
			d.mem[1].v = js("sha256:44136fa355b3678a1146ad16f7e8649e94fb4fc21fe77e8310c060f61caaff8a")
			d.add(jm("data", js(base64.StdEncoding.EncodeToString([]byte("{}")))))
		}
		if first && (f.Unknown == 2 || f.Unknown == 4) {
			d.add(jm("x-unknown-desc", jl("true")))
		}
		return d
	}
	root := jo()
	addMT := func(key string) {
		switch f.MT {
		case 0:
			root.add(jm(key, js(mt)))
		case 2:
			root.add(jm(key, js(c02KindContraMT[kind])))
		case 3:
			root.add(jm("MediaType", js(c02KindContraMT[kind])))
		}
	}
	tail := func(subjectMT string) {
		if f.ArtType && kind != kOCIArtifact {
			root.add(jm("artifactType", js(mtArtifactTy)))
		}
		if a := annNode(f); a != nil {
			root.add(jm("annotations", a))
		}
		if f.Subject {
			root.add(jm("subject", descNode(subjectMT, "subject", 1234)))
		}
		if f.Unknown == 1 || f.Unknown == 4 {
			root.add(jm("x-unknown-top", unknownNode()))
		}
	}
	switch kind {
	case kOCIImage, kD2Image:
		cmt, lmt := mtOCIConfig, mtOCILayer
		if kind == kD2Image {
			cmt, lmt = mtD2Config, mtD2Layer
		}
		root.add(jm("schemaVersion", jl("2")))
		addMT("mediaType")
		root.add(jm("config", desc(cmt, "config", 1469, true)))
		if f.Empty {
			root.add(jm("layers", ja()))
		} else {
			root.add(jm("layers", ja(desc(lmt, "layer-one", 2479, false), desc(lmt, "layer-two", 127, false))))
		}
		tail(mtOCIImage)
	case kOCIIndex, kD2List:
		imt := mtOCIImage
		if kind == kD2List {
			imt = mtD2Image
		}
		root.add(jm("schemaVersion", jl("2")))
		addMT("mediaType")
		if f.Empty {
			root.add(jm("manifests", ja()))
		} else {
			d1 := desc(imt, "child-amd64", 659, true)
			d1.add(jm("platform", platformNode("amd64", f)))
			d2 := desc(imt, "child-arm64", 660, false)
			d2.add(jm("platform", platformNode("arm64", f)))
			root.add(jm("manifests", ja(d1, d2)))
		}
		tail(mtOCIImage)
	case kOCIArtifact:
		addMT("mediaType")
		root.add(jm("artifactType", js(mtArtifactTy)))
		if f.Empty {
			root.add(jm("blobs", ja()))
		} else {
			root.add(jm("blobs", ja(desc("application/octet-stream", "blob-one", 657696, true), desc("text/plain", "blob-two", 127, false))))
		}
		tail(mtOCIImage)
	case kSchema1, kSignedSynth:
		root.add(jm("schemaVersion", jl("1")))
		// schema1 bodies normally carry no mediaType; "declared" is the uncommon variant here
		switch f.MT {
		case 0:
			if f.ArtType { // reuse the flag: declare the media type only in the "full" variants
				root.add(jm("mediaType", js(mt)))
			}
		case 2:
			root.add(jm("mediaType", js(c02KindContraMT[kind])))
		case 3:
			root.add(jm("MediaType", js(c02KindContraMT[kind])))
		}
		root.add(jm("name", js("library/débian")))
		root.add(jm("tag", js("6")))
		root.add(jm("architecture", js("amd64")))
		if f.Empty {
			root.add(jm("fsLayers", ja()))
			root.add(jm("history", ja()))
		} else {
			l1 := jo(jm("blobSum", js("sha256:"+hexN("fs-one", 64))))
			if f.Unknown == 2 || f.Unknown == 4 {
				l1.add(jm("x-unknown-fslayer", jl("1")))
			}
			root.add(jm("fsLayers", ja(l1, jo(jm("blobSum", js("sha256:"+hexN("fs-two", 64)))))))
			root.add(jm("history", ja(
				jo(jm("v1Compatibility", js(`{"id":"ff11","parent":"4e50","created":"2016-02-16T21:25:21Z","config":{"Cmd":["/bin/bash"],"Labels":{"k":"<v&>"}}}`))),
				jo(jm("v1Compatibility", js(`{"id":"4e50","created":"2016-02-16T21:25:20Z"}`))))))
		}
		if f.Ann == 1 || f.Subject || f.Unknown == 1 || f.Unknown == 4 {
			// schema1 has neither annotations nor subject: they are unknown fields there
			tail(mtOCIImage)
		}
	default:
		return nil
	}
	return root
}

// signEnvelope wraps a rendered schema1 payload in a pretty-JWS envelope exactly as the schema1
// specification describes it: the payload minus its closing brace (and the whitespace before it),
// then a "signatures" member, then the cut-off tail; "protected" records where the cut was made.
// The signature value itself is a dummy: regclient does not verify signatures, only unwraps them.
func signEnvelope(payload []byte, compactSig bool, nsig int) []byte {
	end := bytes.LastIndexByte(payload, '}')
	if end < 0 {
		return nil
	}
	fl := end
	for fl > 0 && strings.IndexByte(" \t\r\n", payload[fl-1]) >= 0 {
		fl--
	}
	tail := payload[fl:]
	prot := fmt.Sprintf(`{"formatLength":%d,"formatTail":"%s","time":"2021-12-13T13:49:34Z"}`, fl, base64.RawURLEncoding.EncodeToString(tail))
	protB64 := base64.RawURLEncoding.EncodeToString([]byte(prot))
	var sigs []*jnode
	for i := 0; i < nsig; i++ {
		sigs = append(sigs, jo(
			jm("header", jo(jm("alg", js("ES256")))),
			jm("signature", js(fmt.Sprintf("mtuG3ORjrX8o7lqyx78tX_JIX-JuiBAWX2sEvf60t4zXzLB61gNecwasp56Mn3LT7fxmJzC3-IcHW-UryDm6u%d", i))),
			jm("protected", js(protB64))))
	}
	var b bytes.Buffer
	b.Write(payload[:fl])
	if compactSig {
		b.WriteString(`,"signatures":`)
		ja(sigs...).render(&b, jstyle{}, 0)
	} else {
		b.WriteString(",\n   \"signatures\": ")
		ja(sigs...).render(&b, jstyle{Indent: "   "}, 1)
	}
	b.Write(tail)
	return b.Bytes()
}

// ---------------------------------------------------------------------------------------------
// body list

type c02Body struct {
	Kind  int
	Label string // content/encoding description (stable)
	B     []byte
	Core  bool // member of the reduced set that is crossed with the full source matrix in the quick tier
}

func permutations(n int) [][]int {
	var out [][]int
	p := make([]int, n)
	for i := range p {
		p[i] = i
	}
	var rec func(k int)
	rec = func(k int) {
		if k == n {
			out = append(out, append([]int{}, p...))
			return
		}
		for i := k; i < n; i++ {
			p[k], p[i] = p[i], p[k]
			rec(k + 1)
			p[k], p[i] = p[i], p[k]
		}
	}
	rec(0)
	sort.Slice(out, func(a, b int) bool {
		for i := range out[a] {
			if out[a][i] != out[b][i] {
				return out[a][i] < out[b][i]
			}
		}
		return false
	})
	return out
}

// c02Bodies enumerates the body space of part A. maxPerm is the number of top-level keys that are
// permuted exhaustively (keys beyond that stay in front, in canonical order).
func c02Bodies(maxPerm int) []c02Body {
	var out []c02Body
	seen := map[string]bool{}
	add := func(kind int, label string, b []byte, core bool) {
		if b == nil {
			return
		}
		k := fmt.Sprint(kind) + string(b)
		if seen[k] {
			return
		}
		seen[k] = true
		out = append(out, c02Body{Kind: kind, Label: label, B: b, Core: core})
	}
	wrap := func(kind int, b []byte, variant int) []byte {
		if kind != kSignedSynth {
			return b
		}
		switch variant {
		case 0:
			return signEnvelope(b, false, 1)
		case 1:
			return signEnvelope(b, true, 2)
		}
		return signEnvelope(b, false, 2)
	}
	for _, kind := range []int{kOCIImage, kOCIIndex, kOCIArtifact, kD2Image, kD2List, kSchema1, kSignedSynth} {
		// set 2: content variants × whitespace × escaping × nested member order
		for fi, f := range c02Feats {
			root := buildContent(kind, f)
			for si, st := range c02Styles {
				for _, esc := range []bool{false, true} {
					for _, rev := range []bool{false, true} {
						s := st
						s.Esc, s.RevNested = esc, rev
						core := (si == 0 && !esc && !rev) || (si == 3 && esc && rev)
						add(kind, fmt.Sprintf("%s/%s", f.Name, s), wrap(kind, root.bytes(s), (fi+si)%3), core)
					}
				}
			}
		}
		// set 1: every permutation of the top-level keys of a five-key (or larger) body
		var pf feat
		switch kind {
		case kOCIImage, kD2Image:
			pf = feat{Name: "ann", Ann: 1}
		case kOCIIndex, kOCIArtifact:
			pf = feat{Name: "ann-subject", Ann: 1, Subject: true}
		case kD2List:
			pf = feat{Name: "ann", Ann: 1}
		default:
			pf = feat{Name: "base"}
		}
		root := buildContent(kind, pf)
		n := len(root.mem)
		fixed := 0
		if n > maxPerm {
			fixed = n - maxPerm
		}
		for pi, p := range permutations(n - fixed) {
			r2 := &jnode{kind: 'o'}
			r2.mem = append(r2.mem, root.mem[:fixed]...)
			var ord []string
			for _, i := range p {
				r2.mem = append(r2.mem, root.mem[fixed+i])
				ord = append(ord, root.mem[fixed+i].k)
			}
			for _, si := range []int{0, 1} {
				add(kind, fmt.Sprintf("%s/perm[%s]/%s", pf.Name, strings.Join(ord, ","), c02Styles[si]), wrap(kind, r2.bytes(c02Styles[si]), pi%3), false)
			}
		}
	}
	// the real signed fixture and whitespace variations of its envelope
	fx := []byte(c02SignedFixture)
	add(kSignedFixture, "fixture/as-in-repo-test(leading-newline,trailing-space-newline)", fx, true)
	add(kSignedFixture, "fixture/lead-only", bytes.TrimRight(fx, " \n"), true)
	add(kSignedFixture, "fixture/extra-trailing-newline", append(append([]byte{}, fx...), '\n'), true)
	add(kSignedFixture, "fixture/trail-only(no-leading-newline)", bytes.TrimLeft(fx, "\n"), true)
	add(kSignedFixture, "fixture/document-only", bytes.Trim(fx, " \n"), true)
	add(kSignedFixture, "fixture/crlf(shifts formatLength)", bytes.ReplaceAll(fx, []byte("\n"), []byte("\r\n")), true)
	// degenerate bodies: nothing but errors (or an empty manifest) can come out of these
	base := buildContent(kOCIImage, c02Feats[0]).bytes(c02Styles[0])
	add(kDegenerate, "empty-object", []byte("{}"), true)
	add(kDegenerate, "null", []byte("null"), true)
	add(kDegenerate, "array", []byte("[]"), true)
	add(kDegenerate, "truncated", base[:len(base)-1], true)
	add(kDegenerate, "two-values", append(append([]byte{}, base...), base...), true)
	add(kDegenerate, "bom", append([]byte("\xef\xbb\xbf"), base...), true)
	add(kDegenerate, "only-mediatype", []byte(`{"mediaType":"`+mtOCIImage+`"}`), true)
	add(kDegenerate, "dup-key-same-mediatype", []byte(`{"schemaVersion":2,"mediaType":"`+mtOCIImage+`","mediaType":"`+mtOCIImage+`","config":{"mediaType":"`+mtOCIConfig+`","digest":"sha256:`+hexN("c", 64)+`","size":2},"layers":[]}`), true)
	add(kDegenerate, "dup-key-annotations", []byte(`{"schemaVersion":2,"mediaType":"`+mtOCIImage+`","annotations":{"a":"1"},"config":{"mediaType":"`+mtOCIConfig+`","digest":"sha256:`+hexN("c", 64)+`","size":2},"layers":[],"annotations":{"a":"2"}}`), true)
	return out
}
