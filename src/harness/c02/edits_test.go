package hc02

// C02 part B — after any sequence of edits through the manifest API the descriptor is again the
// hash and length of the serialisation that will be pushed, and that serialisation parses back to
// the values the getters return.
//
// For every manifest type and every constructor, every program of setter calls up to the depth
// bound is executed on a fresh manifest (no pruning); the equations are evaluated after the last
// call of every program (every prefix is itself one of the programs).

import (
	"bytes"
	"context"
	"encoding/json"
	"fmt"
	"net/http"
	"sort"
	"strings"
	"testing"

	digest "github.com/opencontainers/go-digest"

	"github.com/regclient/regclient/internal/verif/ev"
	"github.com/regclient/regclient/types/descriptor"
	"github.com/regclient/regclient/types/docker/schema1"
	"github.com/regclient/regclient/types/docker/schema2"
	"github.com/regclient/regclient/types/manifest"
	v1 "github.com/regclient/regclient/types/oci/v1"
	"github.com/regclient/regclient/types/platform"
	"github.com/regclient/regclient/types/ref"
)

// ---------------------------------------------------------------------------------------------
// value pools (every call returns fresh values: the manifest keeps what it is given by reference)

func bDesc(mt, seed string, size int64) descriptor.Descriptor {
	return descriptor.Descriptor{MediaType: mt, Digest: digest.Digest("sha256:" + hexN(seed, 64)), Size: size}
}

func bCfgA(docker bool) descriptor.Descriptor {
	if docker {
		return bDesc(mtD2Config, "cfg-a", 1469)
	}
	return bDesc(mtOCIConfig, "cfg-a", 1469)
}

func bCfgB(docker bool) descriptor.Descriptor {
	d := descriptor.Descriptor{MediaType: mtOCIEmpty, Digest: digest.Digest(dig("sha256", []byte("{}"))), Size: 2, Data: []byte("{}")}
	if docker {
		d.MediaType = mtD2Config
	}
	return d
}

func bLayer(docker bool, i int) descriptor.Descriptor {
	mt := mtOCILayer
	if docker {
		mt = mtD2Layer
	}
	d := bDesc(mt, fmt.Sprintf("layer-%d", i), int64(1000+i))
	if i == 3 {
		d.URLs = []string{"https://example.com/l3?a=1&b=<2>"}
		d.Annotations = map[string]string{"org.example.layer": "thrée"}
	}
	return d
}

func bChild(docker bool, i int) descriptor.Descriptor {
	mt := mtOCIImage
	if docker {
		mt = mtD2Image
	}
	d := bDesc(mt, fmt.Sprintf("child-%d", i), int64(600+i))
	switch i {
	case 1:
		d.Platform = &platform.Platform{OS: "linux", Architecture: "amd64"}
	case 2:
		d.Platform = &platform.Platform{OS: "linux", Architecture: "arm64", Variant: "v8"}
	case 3:
		d.Platform = &platform.Platform{OS: "windows", Architecture: "amd64", OSVersion: "10.0.1", OSFeatures: []string{"win32k"}}
		d.Annotations = map[string]string{"k": "v"}
		if !docker {
			d.ArtifactType = mtArtifactTy
		}
	}
	return d
}

func bSubject(i int) *descriptor.Descriptor {
	d := bDesc(mtOCIImage, "subject-1", 1234)
	if i == 2 {
		d = descriptor.Descriptor{MediaType: mtOCIIndex, Digest: digest.Digest("sha512:" + hexN("subject-2", 128)), Size: 4321}
	}
	return &d
}

// bOrig returns a whole manifest struct of the kind; variant 1 is the canonical content, variant 2
// a different content whose own mediaType field is empty (SetOrig documents that it fills it in).
func bOrig(kind, variant int) any {
	ann := func() map[string]string {
		if variant == 2 {
			return nil
		}
		return map[string]string{"org.example.orig": "v1"}
	}
	switch kind {
	case kOCIImage:
		m := v1.Manifest{Versioned: v1.ManifestSchemaVersion, MediaType: mtOCIImage, Config: bCfgA(false), Layers: []descriptor.Descriptor{bLayer(false, 1), bLayer(false, 2)}, Annotations: ann()}
		if variant == 2 {
			m.MediaType = ""
			m.ArtifactType = mtArtifactTy
			m.Config = bCfgB(false)
			m.Layers = []descriptor.Descriptor{bLayer(false, 3)}
			m.Subject = bSubject(1)
		}
		return m
	case kOCIIndex:
		m := v1.Index{Versioned: v1.IndexSchemaVersion, MediaType: mtOCIIndex, Manifests: []descriptor.Descriptor{bChild(false, 1), bChild(false, 2)}, Annotations: ann()}
		if variant == 2 {
			m.MediaType = ""
			m.Manifests = []descriptor.Descriptor{bChild(false, 3)}
			m.Subject = bSubject(2)
		}
		return m
	case kOCIArtifact:
		m := v1.ArtifactManifest{MediaType: mtOCIArt, ArtifactType: mtArtifactTy, Blobs: []descriptor.Descriptor{bLayer(false, 1), bLayer(false, 2)}, Annotations: ann()}
		if variant == 2 {
			m.MediaType = ""
			m.Blobs = []descriptor.Descriptor{bLayer(false, 3)}
			m.Subject = bSubject(1)
		}
		return m
	case kD2Image:
		m := schema2.Manifest{Versioned: schema2.ManifestSchemaVersion, Config: bCfgA(true), Layers: []descriptor.Descriptor{bLayer(true, 1), bLayer(true, 2)}, Annotations: ann()}
		if variant == 2 {
			m.MediaType = ""
			m.Layers = []descriptor.Descriptor{bLayer(true, 3)}
		}
		return m
	case kD2List:
		m := schema2.ManifestList{Versioned: schema2.ManifestListSchemaVersion, Manifests: []descriptor.Descriptor{bChild(true, 1), bChild(true, 2)}, Annotations: ann()}
		if variant == 2 {
			m.MediaType = ""
			m.Manifests = []descriptor.Descriptor{bChild(true, 3)}
		}
		return m
	case kSchema1:
		m := schema1.Manifest{Versioned: schema1.ManifestSchemaVersion, Name: "library/débian", Tag: "6", Architecture: "amd64",
			FSLayers: []schema1.FSLayer{{BlobSum: digest.Digest("sha256:" + hexN("fs-1", 64))}, {BlobSum: digest.Digest("sha256:" + hexN("fs-2", 64))}},
			History:  []schema1.History{{V1Compatibility: `{"id":"a"}`}, {V1Compatibility: `{"id":"b","k":"<&>"}`}}}
		if variant == 2 {
			m.MediaType = ""
			m.Tag = "7"
			m.FSLayers = m.FSLayers[:1]
			m.History = m.History[:1]
		}
		return m
	case kSignedFixture:
		// a signed manifest struct can only come from parsing a signed document
		doc := bytes.Trim([]byte(c02SignedFixture), " \n")
		if variant == 2 {
			payload := buildContent(kSignedSynth, c02Feats[0]).bytes(jstyle{Indent: "   "})
			doc = signEnvelope(payload, false, 1)
		}
		var sm schema1.SignedManifest
		if err := json.Unmarshal(doc, &sm); err != nil {
			panic(err)
		}
		if variant == 2 {
			sm.MediaType = ""
		}
		return sm
	}
	panic("no struct for kind")
}

// bOrigForeign is variant 1 of the kind with the mediaType field of a DIFFERENT manifest type in it,
// as a struct has that was filled by unmarshalling a document of the sibling format.
func bOrigForeign(kind int) any {
	switch kind {
	case kOCIImage:
		m := bOrig(kind, 1).(v1.Manifest)
		m.MediaType = mtD2Image
		return m
	case kOCIIndex:
		m := bOrig(kind, 1).(v1.Index)
		m.MediaType = mtD2List
		return m
	case kOCIArtifact:
		m := bOrig(kind, 1).(v1.ArtifactManifest)
		m.MediaType = mtOCIImage
		return m
	case kD2Image:
		m := bOrig(kind, 1).(schema2.Manifest)
		m.MediaType = mtOCIImage
		return m
	case kD2List:
		m := bOrig(kind, 1).(schema2.ManifestList)
		m.MediaType = mtOCIIndex
		return m
	case kSchema1:
		m := bOrig(kind, 1).(schema1.Manifest)
		m.MediaType = mtD2Image
		return m
	}
	return nil
}

var c02EditKinds = []int{kOCIImage, kOCIIndex, kOCIArtifact, kD2Image, kD2List, kSchema1, kSignedFixture}

func isDockerKind(kind int) bool { return kind == kD2Image || kind == kD2List }

// ---------------------------------------------------------------------------------------------
// constructors

type c02Ctor struct {
	Name string
	New  func(kind int) (manifest.Manifest, error)
}

// canonical and non-canonical serialisations of the variant-1 struct of a kind
func bRawCanon(kind int) []byte {
	if kind == kSignedFixture {
		return bytes.Trim([]byte(c02SignedFixture), " \n")
	}
	b, err := json.Marshal(bOrig(kind, 1))
	if err != nil {
		panic(err)
	}
	return b
}

// bRawNonCanon is the same JSON value as bRawCanon in another encoding (indented; with extra: plus
// an unknown member). For the signed kind the document is the fixture with the surrounding white
// space it has in the repository's own test.
func bRawNonCanon(kind int, extra bool) []byte {
	if kind == kSignedFixture {
		return []byte(c02SignedFixture)
	}
	var out bytes.Buffer
	if err := json.Indent(&out, bRawCanon(kind), "", "\t"); err != nil {
		panic(err)
	}
	b := out.Bytes()
	if extra {
		i := bytes.LastIndexByte(b, '}')
		b = append(append(append([]byte{}, b[:i]...), []byte(",\t\"x-unknown\": [1, {\"a\": null}]\n}")...), '\n')
	}
	return b
}

var c02Ctors = []c02Ctor{
	{"raw-canonical", func(k int) (manifest.Manifest, error) {
		return manifest.New(manifest.WithRaw(bRawCanon(k)), manifest.WithDesc(descriptor.Descriptor{MediaType: c02KindMT[k]}))
	}},
	{"raw-noncanonical", func(k int) (manifest.Manifest, error) {
		return manifest.New(manifest.WithRaw(bRawNonCanon(k, true)), manifest.WithDesc(descriptor.Descriptor{MediaType: c02KindMT[k]}))
	}},
	{"orig", func(k int) (manifest.Manifest, error) { return manifest.New(manifest.WithOrig(bOrig(k, 1))) }},
	{"raw-canonical+orig", func(k int) (manifest.Manifest, error) {
		return manifest.New(manifest.WithRaw(bRawCanon(k)), manifest.WithOrig(bOrig(k, 1)))
	}},
	{"raw-noncanonical+orig", func(k int) (manifest.Manifest, error) {
		return manifest.New(manifest.WithRaw(bRawNonCanon(k, false)), manifest.WithOrig(bOrig(k, 1)))
	}},
	{"orig+desc-prefers-sha512", func(k int) (manifest.Manifest, error) {
		d := descriptor.Descriptor{MediaType: c02KindMT[k]}
		if err := d.DigestAlgoPrefer(digest.SHA512); err != nil {
			return nil, err
		}
		return manifest.New(manifest.WithOrig(bOrig(k, 1)), manifest.WithDesc(d))
	}},
	{"orig+desc-of-previous-encoding", func(k int) (manifest.Manifest, error) {
		// what mod.WithDigestAlgo does: the descriptor of the manifest as it was fetched (here: in its
		// non-canonical encoding) with the digest cleared and an algorithm preference, plus GetOrig()
		prev, err := manifest.New(manifest.WithRaw(bRawNonCanon(k, false)), manifest.WithDesc(descriptor.Descriptor{MediaType: c02KindMT[k]}))
		if err != nil {
			return nil, err
		}
		d := prev.GetDescriptor()
		d.Digest = ""
		if err := d.DigestAlgoPrefer(digest.SHA512); err != nil {
			return nil, err
		}
		return manifest.New(manifest.WithDesc(d), manifest.WithOrig(prev.GetOrig()))
	}},
	{"raw-noncanonical+desc-sha512", func(k int) (manifest.Manifest, error) {
		raw := bRawNonCanon(k, true)
		t := raw
		if k == kSignedFixture {
			t = nominalTarget(k, raw)
		}
		return manifest.New(manifest.WithRaw(raw), manifest.WithDesc(descriptor.Descriptor{MediaType: c02KindMT[k], Digest: digest.Digest(dig("sha512", t))}))
	}},
	{"descriptor-only(head)", func(k int) (manifest.Manifest, error) {
		raw := bRawCanon(k)
		return manifest.New(manifest.WithDesc(descriptor.Descriptor{MediaType: c02KindMT[k], Digest: digest.Digest(dig("sha512", raw)), Size: int64(len(raw))}))
	}},
}

// ---------------------------------------------------------------------------------------------
// setter alphabet

type c02Op struct {
	Name   string // stable name of the call including its argument
	Method string // the API method it exercises (used in violation keys)
	Do     func(kind int, m manifest.Manifest) error
}

var errNA = fmt.Errorf("interface not implemented")

const bK3 = "org.example/kéy <3>"
const bV3 = "v \"q\" \\ / <&>   世"

func opAnn(k, v string) c02Op {
	n := fmt.Sprintf("SetAnnotation(%q,%q)", k, v)
	return c02Op{n, "SetAnnotation", func(_ int, m manifest.Manifest) error {
		a, ok := m.(manifest.Annotator)
		if !ok {
			return errNA
		}
		return a.SetAnnotation(k, v)
	}}
}

func opLayers(name string, f func(kind int, cur []descriptor.Descriptor) []descriptor.Descriptor) c02Op {
	return c02Op{"SetLayers(" + name + ")", "SetLayers", func(kind int, m manifest.Manifest) error {
		im, ok := m.(manifest.Imager)
		if !ok {
			return errNA
		}
		cur, _ := im.GetLayers()
		return im.SetLayers(f(kind, append([]descriptor.Descriptor{}, cur...)))
	}}
}

func opList(name string, f func(kind int, cur []descriptor.Descriptor) []descriptor.Descriptor) c02Op {
	return c02Op{"SetManifestList(" + name + ")", "SetManifestList", func(kind int, m manifest.Manifest) error {
		im, ok := m.(manifest.Indexer)
		if !ok {
			return errNA
		}
		cur, _ := im.GetManifestList()
		return im.SetManifestList(f(kind, append([]descriptor.Descriptor{}, cur...)))
	}}
}

func revDescs(l []descriptor.Descriptor) []descriptor.Descriptor {
	for i, j := 0, len(l)-1; i < j; i, j = i+1, j-1 {
		l[i], l[j] = l[j], l[i]
	}
	return l
}

var c02Ops = []c02Op{
	opAnn("k1", "v1"), opAnn("k1", "v2"), opAnn("k2", "v1"), opAnn("k1", ""), opAnn("k2", ""), opAnn(bK3, bV3),
	{"SetConfig(A)", "SetConfig", func(kind int, m manifest.Manifest) error {
		im, ok := m.(manifest.Imager)
		if !ok {
			return errNA
		}
		return im.SetConfig(bCfgA(isDockerKind(kind)))
	}},
	{"SetConfig(B+data)", "SetConfig", func(kind int, m manifest.Manifest) error {
		im, ok := m.(manifest.Imager)
		if !ok {
			return errNA
		}
		return im.SetConfig(bCfgB(isDockerKind(kind)))
	}},
	opLayers("append", func(kind int, cur []descriptor.Descriptor) []descriptor.Descriptor {
		return append(cur, bLayer(isDockerKind(kind), 3))
	}),
	opLayers("drop-last", func(kind int, cur []descriptor.Descriptor) []descriptor.Descriptor {
		if len(cur) > 0 {
			cur = cur[:len(cur)-1]
		}
		return cur
	}),
	opLayers("reverse", func(kind int, cur []descriptor.Descriptor) []descriptor.Descriptor { return revDescs(cur) }),
	opLayers("nil", func(kind int, cur []descriptor.Descriptor) []descriptor.Descriptor { return nil }),
	opList("append", func(kind int, cur []descriptor.Descriptor) []descriptor.Descriptor {
		return append(cur, bChild(isDockerKind(kind), 3))
	}),
	opList("drop-last", func(kind int, cur []descriptor.Descriptor) []descriptor.Descriptor {
		if len(cur) > 0 {
			cur = cur[:len(cur)-1]
		}
		return cur
	}),
	opList("reverse", func(kind int, cur []descriptor.Descriptor) []descriptor.Descriptor { return revDescs(cur) }),
	opList("empty", func(kind int, cur []descriptor.Descriptor) []descriptor.Descriptor { return []descriptor.Descriptor{} }),
	{"SetSubject(sha256)", "SetSubject", func(kind int, m manifest.Manifest) error {
		s, ok := m.(manifest.Subjecter)
		if !ok {
			return errNA
		}
		return s.SetSubject(bSubject(1))
	}},
	{"SetSubject(sha512)", "SetSubject", func(kind int, m manifest.Manifest) error {
		s, ok := m.(manifest.Subjecter)
		if !ok {
			return errNA
		}
		return s.SetSubject(bSubject(2))
	}},
	{"SetSubject(nil)", "SetSubject", func(kind int, m manifest.Manifest) error {
		s, ok := m.(manifest.Subjecter)
		if !ok {
			return errNA
		}
		return s.SetSubject(nil)
	}},
	{"SetOrig(struct-1)", "SetOrig", func(kind int, m manifest.Manifest) error { return m.SetOrig(bOrig(kind, 1)) }},
	{"SetOrig(struct-2,empty-mediaType)", "SetOrig", func(kind int, m manifest.Manifest) error { return m.SetOrig(bOrig(kind, 2)) }},
	{"SetOrig(struct-1,foreign-mediaType)", "SetOrig", func(kind int, m manifest.Manifest) error {
		o := bOrigForeign(kind)
		if o == nil {
			return fmt.Errorf("harness: no such struct for this kind")
		}
		return m.SetOrig(o)
	}},
	{"SetOrig(wrong-type)", "SetOrig", func(kind int, m manifest.Manifest) error {
		if kind == kOCIImage {
			return m.SetOrig(bOrig(kOCIIndex, 1))
		}
		return m.SetOrig(bOrig(kOCIImage, 1))
	}},
}

// alphabet of a kind: the calls the manifest type offers (an interface it does not implement
// contributes nothing)
func c02Alphabet(kind int) []int {
	var out []int
	for i, op := range c02Ops {
		m, err := c02Ctors[0].New(kind)
		if err != nil {
			panic(fmt.Sprintf("kind %s: %v", c02KindName[kind], err))
		}
		if err := op.Do(kind, m); err == errNA {
			continue
		}
		out = append(out, i)
	}
	return out
}

// ---------------------------------------------------------------------------------------------
// equations

const (
	clDesc = 1 << iota
	clMarshal
	clMediaType
	clReparse
	clGetters
	clPush
)

var c02ClauseName = map[int]string{clDesc: "descriptor-not-of-raw", clMarshal: "marshal-differs-from-raw", clMediaType: "mediatype-changed",
	clReparse: "serialisation-does-not-parse", clGetters: "getters-differ-from-reparse", clPush: "pushed-bytes-differ"}

func normJSON(v any) string {
	b, err := json.Marshal(v)
	if err != nil {
		return "marshal-error:" + err.Error()
	}
	return string(b)
}

func descsKey(l []descriptor.Descriptor, err error) string {
	if err != nil {
		return "error"
	}
	if len(l) == 0 {
		return "[]"
	}
	return normJSON(l)
}

// getterDump renders everything the getters of a manifest return, with nil and empty collections
// identified (JSON cannot tell them apart where the field is omitted when empty).
func getterDump(m manifest.Manifest) map[string]string {
	out := map[string]string{}
	d := m.GetDescriptor()
	out["descriptor"] = fmt.Sprintf("%s %s %d", d.MediaType, d.Digest, d.Size)
	out["isList"] = fmt.Sprint(m.IsList())
	out["isSet"] = fmt.Sprint(m.IsSet())
	out["orig"] = normJSON(m.GetOrig())
	if a, ok := m.(manifest.Annotator); ok {
		an, err := a.GetAnnotations()
		if err != nil {
			out["annotations"] = "error"
		} else if len(an) == 0 {
			out["annotations"] = "{}"
		} else {
			out["annotations"] = normJSON(an)
		}
	}
	if im, ok := m.(manifest.Imager); ok {
		c, err := im.GetConfig()
		if err != nil {
			out["config"] = "error"
		} else {
			out["config"] = normJSON(c)
		}
		l, err := im.GetLayers()
		out["layers"] = descsKey(l, err)
		s, err := im.GetSize()
		out["size"] = fmt.Sprint(s, err != nil)
	}
	if ix, ok := m.(manifest.Indexer); ok {
		l, err := ix.GetManifestList()
		out["manifests"] = descsKey(l, err)
	}
	if sj, ok := m.(manifest.Subjecter); ok {
		s, err := sj.GetSubject()
		if err != nil {
			out["subject"] = "error"
		} else if s == nil {
			out["subject"] = "null"
		} else {
			out["subject"] = normJSON(*s)
		}
	}
	return out
}

type c02Edit struct {
	rec                                       *ev.Rec
	push                                      *c02Fetch
	verbose                                   bool
	states                                    map[string]bool
	trans                                     map[string]bool
	pushedS                                   map[string]bool
	nChecked, nUnset, nOpErr, nOpOK, nChanged int64
}

// check evaluates the equations on m and returns the set of violated clauses with explanations.
func (h *c02Edit) check(kind int, m manifest.Manifest, stateKey string) (int, map[int]string) {
	rec := h.rec
	bad := 0
	why := map[int]string{}
	fail := func(cl int, format string, a ...any) {
		if bad&cl == 0 {
			bad |= cl
			why[cl] = fmt.Sprintf(format, a...)
		}
	}
	d := m.GetDescriptor()
	rec.Count("B.clause.mediatype_unchanged", 1)
	if d.MediaType != c02KindMT[kind] {
		fail(clMediaType, "media type is %q, the manifest was created as %q", d.MediaType, c02KindMT[kind])
	}
	raw, rerr := m.RawBody()
	if !m.IsSet() {
		// a manifest without a body (HEAD result): nothing to hash; it must not pretend to have bytes
		h.nUnset++
		if rerr == nil && len(raw) > 0 {
			fail(clDesc, "IsSet()==false but RawBody returns %d bytes", len(raw))
		}
		return bad, why
	}
	if rerr != nil {
		fail(clDesc, "IsSet()==true but RawBody fails: %v", rerr)
		return bad, why
	}
	h.nChecked++
	target := raw
	if d.MediaType == mtD1Signed {
		if cands := jwsPayloads(raw); len(cands) > 0 {
			target = cands[0]
			for _, p := range cands {
				if digestNames(string(d.Digest), p) {
					target = p
				}
			}
		}
	}
	rec.Count("B.clause.descriptor_of_raw", 1)
	if !digestNames(string(d.Digest), target) || d.Size != int64(len(target)) {
		alg, _, _ := splitDigest(string(d.Digest))
		exp := "sha256 would be " + dig("sha256", target)
		if _, ok := hashHex(alg, target); ok {
			exp = dig(alg, target)
		}
		fail(clDesc, "GetDescriptor() = (%s, %d) but RawBody() has (%s, %d)", d.Digest, d.Size, exp, len(target))
	}
	rec.Count("B.clause.marshal_equals_raw", 1)
	mj, merr := m.MarshalJSON()
	if merr != nil || !bytes.Equal(mj, raw) {
		fail(clMarshal, "MarshalJSON() (err=%v) differs from RawBody(): %s", merr, firstDiff(mj, raw))
	}
	// the serialisation parses back to what the getters return
	rec.Count("B.clause.reparse_equals_getters", 1)
	m2, perr := manifest.New(manifest.WithRaw(append([]byte{}, raw...)), manifest.WithHeader(http.Header{"Content-Type": []string{d.MediaType}}))
	if perr != nil {
		fail(clReparse, "RawBody() does not parse as %s: %v", d.MediaType, perr)
	} else {
		g1, g2 := getterDump(m), getterDump(m2)
		var diff []string
		for k, v := range g1 {
			if k == "descriptor" && bad&clDesc != 0 {
				continue // already reported by the descriptor clause
			}
			if k == "descriptor" {
				// algorithms may differ (the re-parse has no preference); compare what they name
				d2 := m2.GetDescriptor()
				if d2.MediaType != d.MediaType || d2.Size != d.Size {
					diff = append(diff, fmt.Sprintf("descriptor: %s vs re-parsed %s", v, g2[k]))
				}
				continue
			}
			if g2[k] != v {
				diff = append(diff, fmt.Sprintf("%s: %s vs re-parsed %s", k, short([]byte(v), 300), short([]byte(g2[k]), 300)))
			}
		}
		if len(diff) > 0 {
			sort.Strings(diff)
			fail(clGetters, "%s", strings.Join(diff, "; "))
		}
	}
	// the serialisation that is pushed: once per distinct state really push it
	if bad == 0 && !h.pushedS[stateKey] {
		h.pushedS[stateKey] = true
		rt := h.push.rt
		rt.puts, rt.putBody, rt.other = 0, nil, nil
		r, _ := ref.New("push.example/repo:edit")
		err := h.push.rc.ManifestPut(context.Background(), r, m)
		rec.Count("B.pushes", 1)
		if err != nil {
			rec.Count("B.push_errors", 1)
		} else {
			rec.Count("B.clause.pushed_bytes_named_by_descriptor", 1)
			pt := rt.putBody
			if d.MediaType == mtD1Signed {
				for _, p := range jwsPayloads(rt.putBody) {
					if digestNames(string(d.Digest), p) {
						pt = p
					}
				}
			}
			if rt.puts != 1 || !digestNames(string(d.Digest), pt) || d.Size != int64(len(pt)) || rt.putCT != d.MediaType {
				fail(clPush, "registry received %d PUTs, %d bytes with Content-Type %q that descriptor (%s, %d, %s) does not name: %s", rt.puts, len(rt.putBody), rt.putCT, d.Digest, d.Size, d.MediaType, firstDiff(rt.putBody, raw))
			}
		}
	}
	return bad, why
}

type c02Prog struct {
	Part string   `json:"part"`
	Kind string   `json:"kind"`
	Ctor string   `json:"ctor"`
	Ops  []string `json:"ops"`
}

func (h *c02Edit) stateKey(kind int, ctor string, m manifest.Manifest) string {
	raw, _ := m.RawBody()
	d := m.GetDescriptor()
	return fmt.Sprintf("%d|%s|%v|%s|%s", kind, ctor, m.IsSet(), d.Digest.Algorithm(), dig("sha256", raw))
}

// exec runs one program on a fresh manifest. It returns the manifest, the state key before the
// last call and whether the last call returned an error.
func (h *c02Edit) exec(kind int, ctor c02Ctor, prog []int) (m manifest.Manifest, preKey string, lastErr error, cerr error) {
	m, cerr = ctor.New(kind)
	if cerr != nil {
		return nil, "", nil, cerr
	}
	for i, oi := range prog {
		if i == len(prog)-1 {
			preKey = h.stateKey(kind, ctor.Name, m)
		}
		lastErr = c02Ops[oi].Do(kind, m)
	}
	return m, preKey, lastErr, nil
}

func (h *c02Edit) report(kind int, ctor c02Ctor, prog []int, newBad int, why map[int]string) {
	var names []string
	for _, oi := range prog {
		names = append(names, c02Ops[oi].Name)
	}
	// origin names the defect class: the constructor when the fresh manifest is already inconsistent,
	// otherwise type.Method of the call that broke a clause. Signed schema1 manifests can only be
	// rebuilt wholesale, so for them the origin is just how the current content got in: from a
	// document (raw bytes) or from a struct (WithOrig / SetOrig).
	origin := "ctor:" + ctor.Name
	if len(prog) > 0 {
		origin = c02KindName[kind] + "." + c02Ops[prog[len(prog)-1]].Method
	}
	if kind == kSignedFixture {
		origin = "schema1-signed:from-document"
		if len(prog) > 0 || strings.Contains(ctor.Name, "orig") {
			origin = "schema1-signed:from-struct"
		}
	}
	for cl := 1; cl <= clPush; cl <<= 1 {
		if newBad&cl == 0 {
			continue
		}
		key := fmt.Sprintf("B/%s/%s", c02ClauseName[cl], origin)
		msg := fmt.Sprintf("%s: kind=%s constructor=%s program=[%s]: %s", key, c02KindName[kind], ctor.Name, strings.Join(names, "; "), why[cl])
		if h.verbose {
			fmt.Println("VIOLATION", msg)
		}
		h.rec.Violation(key, msg, c02Prog{Part: "B", Kind: c02KindName[kind], Ctor: ctor.Name, Ops: names})
	}
}

// explore enumerates every program over alpha of length ≤ depth, breadth first (all programs of
// length n before any of length n+1, so the first counterexample of a class is a shortest one);
// each program is executed from scratch on a fresh manifest. For every program the clause set
// violated before its last call is looked up (it is the result of the program without that call):
// only clauses that a call newly breaks are attributed to it.
func (h *c02Edit) explore(kind int, ctor c02Ctor, alpha []int, depth int) {
	rec := h.rec
	prev := map[string]int{} // program (one byte per call) → violated clauses
	level := []string{""}
	for n := 0; n <= depth; n++ {
		cur := make(map[string]int, len(level))
		var next []string
		for _, ps := range level {
			if rec.Expired() {
				rec.NotExhaustive(fmt.Sprintf("part B: wall-clock budget reached in shard %d (%s, %s, length %d)", rec.ShardI, c02KindName[kind], ctor.Name, n))
				return
			}
			prog := make([]int, len(ps))
			for i := range ps {
				prog[i] = int(ps[i])
			}
			parentBad := 0
			if n > 0 {
				parentBad = prev[ps[:n-1]]
			}
			bad, ok := h.one(kind, ctor, prog, parentBad, n == depth)
			if !ok {
				return // the constructor refused its input
			}
			cur[ps] = bad
			if n < depth {
				for _, oi := range alpha {
					next = append(next, ps+string(rune(oi)))
				}
			}
		}
		prev, level = cur, next
	}
}

// one executes and judges a single program.
func (h *c02Edit) one(kind int, ctor c02Ctor, prog []int, parentBad int, leaf bool) (int, bool) {
	rec := h.rec
	m, preKey, lastErr, cerr := h.exec(kind, ctor, prog)
	rec.Eval(1)
	rec.Count(fmt.Sprintf("B.programs_len%d", len(prog)), 1)
	if cerr != nil {
		// a constructor may refuse its input (errors are allowed); nothing to edit then
		rec.Count("B.constructor_errors", 1)
		if h.verbose {
			fmt.Println("constructor error:", cerr)
		}
		return 0, false
	}
	names := func() []string {
		var l []string
		for _, oi := range prog {
			l = append(l, c02Ops[oi].Name)
		}
		return l
	}
	key := h.stateKey(kind, ctor.Name, m)
	if !h.states[key] {
		h.states[key] = true
		rec.States(1)
	}
	if len(prog) > 0 {
		tk := preKey + ">" + c02Ops[prog[len(prog)-1]].Name
		if !h.trans[tk] {
			h.trans[tk] = true
			rec.Transitions(1)
		}
		if lastErr != nil {
			h.nOpErr++
			rec.Count("B.calls_returning_error", 1)
		} else {
			h.nOpOK++
			if key != preKey {
				h.nChanged++
				rec.Count("B.calls_changing_the_serialisation", 1)
				// non-trivial: the last call really changed the bytes that will be pushed
				rec.Distinct(fmt.Sprintf("B|%d|%s|%s", kind, ctor.Name, strings.Join(names(), ";")))
			}
		}
	}
	bad, why := h.check(kind, m, key)
	if newBad := bad &^ parentBad; newBad != 0 {
		h.report(kind, ctor, prog, newBad, why)
	}
	if leaf && len(prog) > 0 && h.nChecked%4099 == 7 {
		raw, _ := m.RawBody()
		rec.Sample(map[string]any{"kind": c02KindName[kind], "ctor": ctor.Name, "program": names(), "descriptor": fmt.Sprint(m.GetDescriptor().Digest), "raw": short(raw, 200)})
	}
	return bad, true
}

func TestVerifC02Edits(t *testing.T) {
	rec := ev.New()
	defer rec.Flush(t)
	rec.SampleCap = 2
	depth := 3
	if rec.Thorough() {
		depth = 4
	}
	rec.Info("B.depth", depth)
	rec.Rule(fmt.Sprintf("part B: program = manifest type (7) × constructor (%d: raw canonical / raw non-canonical with unknown member / struct / raw+struct same bytes / raw+struct other encoding / struct+descriptor preferring sha512 / struct+descriptor of the previous encoding as mod.WithDigestAlgo builds it / raw+sha512 descriptor / descriptor only) × every sequence of ≤%d calls from the type's alphabet of %d calls (SetAnnotation set/overwrite/delete/special characters, SetConfig ×2, SetLayers append/drop/reverse/nil, SetManifestList append/drop/reverse/empty, SetSubject sha256/sha512/nil, SetOrig struct-1/struct-2 without mediaType/struct-1 carrying the mediaType of the sibling format/wrong type), no pruning; equations judged after the last call of every program. ", len(c02Ctors), depth, len(c02Ops)) +
		"states = distinct (type, constructor, IsSet, digest algorithm, RawBody) reached, transitions = distinct (state, call) pairs executed. " +
		"distinct_nontrivial = distinct programs whose last call returned nil and changed the serialisation")
	h := &c02Edit{rec: rec, push: newC02Fetch(rec), states: map[string]bool{}, trans: map[string]bool{}, pushedS: map[string]bool{}}
	ctorByName := map[string]c02Ctor{}
	for _, c := range c02Ctors {
		ctorByName[c.Name] = c
	}
	if rd := rec.ReplayData(); rd != nil {
		var p c02Prog
		if err := json.Unmarshal(rd, &p); err != nil {
			rec.HarnessError("replay: %v", err)
			return
		}
		if p.Part != "B" {
			return
		}
		kind := kindByName(p.Kind)
		ctor, ok := ctorByName[p.Ctor]
		if kind < 0 || !ok {
			rec.HarnessError("replay: unknown kind %q or constructor %q", p.Kind, p.Ctor)
			return
		}
		var prog []int
		for _, n := range p.Ops {
			found := false
			for i, op := range c02Ops {
				if op.Name == n {
					prog = append(prog, i)
					found = true
				}
			}
			if !found {
				rec.HarnessError("replay: unknown call %q", n)
				return
			}
		}
		h.verbose = true
		fmt.Printf("replay part B: kind=%s constructor=%s program=%v\n", p.Kind, p.Ctor, p.Ops)
		// run every prefix so that the attribution to the last call is the same as in the enumeration
		parentBad := 0
		for n := 0; n <= len(prog); n++ {
			m, _, _, cerr := h.exec(kind, ctor, prog[:n])
			rec.Eval(1)
			if cerr != nil {
				fmt.Println("constructor error:", cerr)
				return
			}
			bad, why := h.check(kind, m, h.stateKey(kind, ctor.Name, m))
			raw, _ := m.RawBody()
			named := map[string]string{}
			for cl, w := range why {
				named[c02ClauseName[cl]] = w
			}
			fmt.Printf("after %d calls: descriptor=%+v\nRawBody=%s\nviolated clauses: %v\n", n, m.GetDescriptor(), short(raw, 800), named)
			if n == len(prog) {
				if newBad := bad &^ parentBad; newBad != 0 {
					h.report(kind, ctor, prog, newBad, why)
				}
			}
			parentBad = bad
		}
		return
	}
	item := 0
	for _, kind := range c02EditKinds {
		alpha := c02Alphabet(kind)
		rec.Info("B.alphabet."+c02KindName[kind], len(alpha))
		for _, ctor := range c02Ctors {
			mine := rec.Mine(item)
			item++
			if !mine {
				continue
			}
			rec.Count("B.kind_constructor_pairs", 1)
			h.explore(kind, ctor, alpha, depth)
		}
	}
	// vacuity guards (only meaningful for a shard that had work)
	if h.nChecked > 0 && (h.nOpOK == 0 || h.nChanged == 0) {
		rec.HarnessError("part B vacuous: %d states checked, %d successful calls, %d changed the serialisation", h.nChecked, h.nOpOK, h.nChanged)
	}
	if rec.ShardI == 0 && h.nChecked == 0 {
		rec.HarnessError("part B vacuous: shard 0 checked nothing")
	}
}
