package hc02

// C02 part A — a manifest obtained for a digest is exactly the bytes that digest names.
//
// Every body of the enumerated body space is offered to the three ways regclient obtains a manifest
// with bytes (manifest.New, RegClient.ManifestGet over the registry scheme, RegClient.ManifestGet over
// an OCI layout) together with every enumerated combination of expected-digest and media-type
// sources; every result is judged against hashes the harness computes itself.

import (
	"bytes"
	"context"
	"encoding/base64"
	"encoding/json"
	"errors"
	"fmt"
	"io"
	"net/http"
	"os"
	"path/filepath"
	"strings"
	"sync"
	"testing"
	"time"

	digest "github.com/opencontainers/go-digest"

	"github.com/regclient/regclient"
	"github.com/regclient/regclient/config"
	"github.com/regclient/regclient/internal/verif/ev"
	"github.com/regclient/regclient/scheme/reg"
	"github.com/regclient/regclient/types/descriptor"
	"github.com/regclient/regclient/types/errs"
	"github.com/regclient/regclient/types/manifest"
	"github.com/regclient/regclient/types/ref"
)

// ---------------------------------------------------------------------------------------------
// in-memory registry: serves exactly the configured bytes and headers, records what is pushed

type c02RT struct {
	mu      sync.Mutex
	body    []byte
	hdr     http.Header
	gets    int
	puts    int
	putBody []byte
	putCT   string
	putPath string
	other   []string
}

func (t *c02RT) RoundTrip(req *http.Request) (*http.Response, error) {
	t.mu.Lock()
	defer t.mu.Unlock()
	var in []byte
	if req.Body != nil {
		in, _ = io.ReadAll(req.Body)
		req.Body.Close()
	}
	resp := &http.Response{Proto: "HTTP/1.1", ProtoMajor: 1, ProtoMinor: 1, Header: http.Header{}, Request: req, Body: http.NoBody}
	status := func(c int) *http.Response {
		resp.StatusCode = c
		resp.Status = fmt.Sprintf("%d %s", c, http.StatusText(c))
		return resp
	}
	p := req.URL.Path
	isMan := strings.HasPrefix(p, "/v2/") && strings.Contains(p, "/manifests/")
	switch {
	case p == "/v2/" || p == "/v2":
		return status(200), nil
	case isMan && (req.Method == http.MethodGet || req.Method == http.MethodHead):
		t.gets++
		for k, v := range t.hdr {
			resp.Header[k] = append([]string{}, v...)
		}
		resp.Header.Set("Content-Length", fmt.Sprint(len(t.body)))
		resp.ContentLength = int64(len(t.body))
		if req.Method == http.MethodGet {
			// hand out a private copy: the transport owns its bytes
			resp.Body = io.NopCloser(bytes.NewReader(append([]byte{}, t.body...)))
		}
		return status(200), nil
	case isMan && req.Method == http.MethodPut:
		t.puts++
		t.putBody = in
		t.putCT = req.Header.Get("Content-Type")
		t.putPath = p
		var s struct {
			Subject *struct {
				Digest string `json:"digest"`
			} `json:"subject"`
		}
		if json.Unmarshal(in, &s) == nil && s.Subject != nil {
			resp.Header.Set("OCI-Subject", s.Subject.Digest)
		}
		resp.Header.Set("Location", p)
		return status(201), nil
	}
	t.other = append(t.other, req.Method+" "+req.URL.String())
	return status(404), nil
}

// ---------------------------------------------------------------------------------------------
// cases

// c02Case is one evaluation of part A; it is also the replay record.
type c02Case struct {
	Part      string `json:"part"`
	Entry     string `json:"entry"` // new | reg | ocidir
	Kind      string `json:"kind"`
	Label     string `json:"label"`
	BodyB64   string `json:"body_b64"`
	Desc      string `json:"desc"`           // digest label of the descriptor source ("-" = none)
	Ref       string `json:"ref"`            // digest label of the reference ("-" = by tag)
	Hdr       string `json:"hdr"`            // digest label of Docker-Content-Digest
	DescMT    int    `json:"desc_mt"`        // media type in the descriptor: 0 none, 1 agreeing, 2 contradicting
	CT        int    `json:"ct"`             // Content-Type: 0 none, 1 agreeing, 2 contradicting, 3 agreeing with a parameter
	DescSize  int    `json:"desc_size"`      // descriptor size: 0 zero, 1 right, 2 wrong
	Data      bool   `json:"data"`           // descriptor embeds the body as data (RegClient.ManifestGet only)
	Entryless bool   `json:"no_index_entry"` // ocidir, reference by digest: no index.json entry for it
}

func (c c02Case) combo() string {
	return fmt.Sprintf("d=%s r=%s h=%s dmt=%d ct=%d ds=%d data=%v ne=%v", c.Desc, c.Ref, c.Hdr, c.DescMT, c.CT, c.DescSize, c.Data, c.Entryless)
}

var c02DigLabels = []string{"-", "R256", "W256", "R512", "W512", "ALT256", "INV"}
var c02DigLabelsThorough = []string{"-", "R256", "W256", "R512", "W512", "ALT256", "INV", "INVALG", "UPPER", "R384"}

// nominalTarget is the byte string a right digest of this body names: the JWS payload for signed
// schema1 bodies, the body itself otherwise.
func nominalTarget(kind int, b []byte) []byte {
	if kind == kSignedFixture || kind == kSignedSynth {
		if ps := jwsPayloads(b); len(ps) > 0 {
			return ps[len(ps)-1]
		}
	}
	return b
}

func altBytes(kind int, b []byte) []byte {
	if kind == kSignedFixture || kind == kSignedSynth {
		return b // the whole envelope instead of the payload
	}
	var out bytes.Buffer
	if json.Compact(&out, b) == nil && !bytes.Equal(out.Bytes(), b) {
		return out.Bytes()
	}
	out.Reset()
	if json.Indent(&out, b, "", " ") == nil && !bytes.Equal(out.Bytes(), b) {
		return out.Bytes()
	}
	return append(append([]byte{}, b...), ' ')
}

func digestFor(label string, kind int, b []byte) string {
	t := nominalTarget(kind, b)
	wrong := append(append([]byte{}, t...), 'x')
	switch label {
	case "-":
		return ""
	case "R256":
		return dig("sha256", t)
	case "W256":
		return dig("sha256", wrong)
	case "R512":
		return dig("sha512", t)
	case "W512":
		return dig("sha512", wrong)
	case "R384":
		return dig("sha384", t)
	case "ALT256":
		return dig("sha256", altBytes(kind, b))
	case "INV":
		d := dig("sha256", t)
		return d[:len(d)-1] + "g"
	case "INVALG":
		return "md5:d41d8cd98f00b204e9800998ecf8427e"
	case "UPPER":
		d := dig("sha256", t)
		return "sha256:" + strings.ToUpper(d[7:])
	}
	panic("unknown digest label " + label)
}

// ---------------------------------------------------------------------------------------------
// harness state of one shard

type c02Fetch struct {
	rec     *ev.Rec
	rt      *c02RT
	rc      *regclient.RegClient
	ociDir  string
	pushDir string
	verbose bool
	curType string // short name of the media type the current result reports
	pushed  map[string]bool
	// vacuity counters (per shard)
	nSucc, nErr, nWrongConsulted, nWrongRejected, nMismatchErr, nSucc512, nSuccSigned, nPushOK int64
	nSuccEntry                                                                                 map[string]int64
}

func newC02Fetch(rec *ev.Rec) *c02Fetch {
	h := &c02Fetch{rec: rec, rt: &c02RT{}, pushed: map[string]bool{}, nSuccEntry: map[string]int64{}}
	hosts := []config.Host{
		{Name: "reg.example", Hostname: "reg.example", TLS: config.TLSDisabled},
		{Name: "push.example", Hostname: "push.example", TLS: config.TLSDisabled},
	}
	h.rc = regclient.New(regclient.WithConfigHost(hosts...),
		regclient.WithRegOpts(reg.WithHTTPClient(&http.Client{Transport: h.rt}), reg.WithDelay(time.Millisecond, time.Millisecond)))
	h.ociDir = filepath.Join(rec.Scratch, "oci-src")
	h.pushDir = filepath.Join(rec.Scratch, "oci-push")
	return h
}

// viol records a violation. The key names the defect class, not the input: clauses about the
// manifest object itself (bytes, descriptor, marshalling) are keyed by clause and manifest type,
// clauses about the acceptance decision additionally by entry point.
func (h *c02Fetch) viol(clause string, c c02Case, format string, a ...any) {
	key := fmt.Sprintf("A/%s/%s", clause, h.curType)
	switch clause {
	case "wrong-digest-accepted", "mediatype-contradicts-body", "nil-manifest", "no-body":
		key = fmt.Sprintf("A/%s/%s/%s", clause, c.Entry, h.curType)
	}
	msg := fmt.Sprintf("%s [%s %s; %s]: ", key, c.Kind, c.Label, c.combo()) + fmt.Sprintf(format, a...)
	if h.verbose {
		fmt.Println("VIOLATION", msg)
	}
	h.rec.Violation(key, msg, c)
}

// run executes one case and judges it. It returns a short outcome string.
func (h *c02Fetch) run(kind int, b []byte, c c02Case) string {
	ctx := context.Background()
	rec := h.rec
	rec.Eval(1)
	rec.Count("A."+c.Entry+".cases", 1)
	dDesc, dRef, dHdr := digestFor(c.Desc, kind, b), digestFor(c.Ref, kind, b), digestFor(c.Hdr, kind, b)
	mtOf := func(sel int) string {
		switch sel {
		case 1:
			return c02KindMT[kind]
		case 2:
			return c02KindContraMT[kind]
		case 3:
			return c02KindMT[kind] + "; charset=utf-8"
		}
		return ""
	}
	var m manifest.Manifest
	var err error
	var consulted string             // the expected digest that the documented precedence selects
	served := append([]byte{}, b...) // the code under test gets its own copy; b stays the reference
	switch c.Entry {
	case "new":
		r, _ := ref.New("reg.example/repo:tag")
		r.Digest = dRef
		opts := []manifest.Opts{manifest.WithRaw(served), manifest.WithRef(r)}
		if c.Desc != "-" || c.DescMT != 0 || c.DescSize != 0 {
			d := descriptor.Descriptor{MediaType: mtOf(c.DescMT), Digest: digest.Digest(dDesc)}
			switch c.DescSize {
			case 1:
				d.Size = int64(len(nominalTarget(kind, b)))
			case 2:
				d.Size = int64(len(b) + 7)
			}
			opts = append(opts, manifest.WithDesc(d))
		}
		if c.Hdr != "-" || c.CT != 0 {
			hd := http.Header{}
			if c.CT != 0 {
				hd.Set("Content-Type", mtOf(c.CT))
			}
			if c.Hdr != "-" {
				hd.Set("Docker-Content-Digest", dHdr)
			}
			hd.Set("Content-Length", fmt.Sprint(len(b)))
			opts = append(opts, manifest.WithHeader(hd))
		}
		m, err = manifest.New(opts...)
		consulted = firstDigest(dDesc, dRef, validOrNone(dHdr))
	case "reg":
		r, _ := ref.New("reg.example/repo:tag")
		if dRef != "" {
			r.Digest = dRef
		}
		hd := http.Header{}
		if c.CT != 0 {
			hd.Set("Content-Type", mtOf(c.CT))
		}
		if c.Hdr != "-" {
			hd.Set("Docker-Content-Digest", dHdr)
		}
		h.rt.body, h.rt.hdr, h.rt.gets = served, hd, 0
		var opts []regclient.ManifestOpts
		if c.Desc != "-" {
			d := descriptor.Descriptor{MediaType: c02KindMT[kind], Digest: digest.Digest(dDesc), Size: int64(len(b))}
			if c.Data {
				d.Data = append([]byte{}, b...)
			}
			opts = append(opts, regclient.WithManifestDesc(d))
		}
		m, err = h.rc.ManifestGet(ctx, r, opts...)
		consulted = firstDigest(dDesc, dRef, validOrNone(dHdr))
		if err == nil && h.rt.gets > 1 {
			rec.HarnessError("reg: %d GETs for one ManifestGet (%s)", h.rt.gets, c.combo())
		}
	case "regc":
		// the same fetch through a client with the manifest cache switched on, followed by fetches
		// (get and head) by every digest that took part: whatever the first answer left in the
		// cache, a manifest handed out for a digest has to be the bytes that digest names
		rc := regclient.New(regclient.WithConfigHost(config.Host{Name: "reg.example", Hostname: "reg.example", TLS: config.TLSDisabled}),
			regclient.WithRegOpts(reg.WithHTTPClient(&http.Client{Transport: h.rt}), reg.WithDelay(time.Millisecond, time.Millisecond), reg.WithCache(time.Hour, 50)))
		r, _ := ref.New("reg.example/repo:tag")
		if dRef != "" {
			r.Digest = dRef
		}
		hd := http.Header{}
		if c.CT != 0 {
			hd.Set("Content-Type", mtOf(c.CT))
		}
		if c.Hdr != "-" {
			hd.Set("Docker-Content-Digest", dHdr)
		}
		h.rt.body, h.rt.hdr, h.rt.gets = served, hd, 0
		var opts []regclient.ManifestOpts
		if c.Desc != "-" {
			opts = append(opts, regclient.WithManifestDesc(descriptor.Descriptor{MediaType: c02KindMT[kind], Digest: digest.Digest(dDesc), Size: int64(len(b))}))
		}
		m, err = rc.ManifestGet(ctx, r, opts...)
		consulted = firstDigest(dDesc, dRef, validOrNone(dHdr))
		out := h.judge(kind, b, c, m, err, consulted)
		seen := map[string]bool{}
		for _, l := range []string{c.Hdr, c.Ref, c.Desc, "W256", "R256", "R512"} {
			d2 := validOrNone(digestFor(l, kind, b))
			if d2 == "" || seen[d2] {
				continue
			}
			seen[d2] = true
			r2, _ := ref.New("reg.example/repo:tag")
			r2.Tag, r2.Digest = "", d2
			for _, how := range []string{"get", "head"} {
				var m2 manifest.Manifest
				var err2 error
				if how == "get" {
					m2, err2 = rc.ManifestGet(ctx, r2)
				} else {
					m2, err2 = rc.ManifestHead(ctx, r2)
				}
				rec.Count("A.regc.followups", 1)
				if err2 != nil || m2 == nil {
					continue
				}
				raw2, e := m2.RawBody()
				if e != nil || len(raw2) == 0 {
					continue // a head answer without a body claims nothing about bytes
				}
				rec.Count("A.regc.followups_with_body", 1)
				ok := digestNames(d2, raw2)
				for _, p := range jwsPayloads(raw2) {
					ok = ok || digestNames(d2, p)
				}
				if !ok {
					h.curType = mtShort(m2.GetDescriptor().MediaType)
					h.viol("wrong-digest-accepted", c, "after the first fetch, %s by digest %s (label %s) through the same client returned bytes whose digest is %s", how, d2, l, m2.GetDescriptor().Digest)
					out = "violation"
				}
			}
		}
		return out
	case "ocidir":
		r, _ := ref.New("ocidir://" + h.ociDir + ":tag")
		if dRef != "" {
			r.Tag = ""
			r.Digest = dRef
		}
		// index entry
		entryDig := dDesc
		if dRef != "" {
			entryDig = dRef
		}
		idx := map[string]any{"schemaVersion": 2, "mediaType": mtOCIIndex, "manifests": []any{}}
		if !c.Entryless {
			e := map[string]any{"digest": entryDig}
			if c.DescMT != 0 {
				e["mediaType"] = mtOf(c.DescMT)
			}
			switch c.DescSize {
			case 1:
				e["size"] = len(b)
			case 2:
				e["size"] = len(b) + 7
			}
			if dRef == "" {
				e["annotations"] = map[string]string{"org.opencontainers.image.ref.name": "tag"}
			}
			idx["manifests"] = []any{e}
		}
		ib, _ := json.Marshal(idx)
		blob := ""
		if alg, enc, ok := splitDigest(entryDig); ok {
			blob = filepath.Join(h.ociDir, "blobs", alg, enc)
		}
		if e := h.writeLayout(h.ociDir, ib, blob, served); e != nil {
			rec.HarnessError("ocidir setup: %v", e)
			return "harness-error"
		}
		m, err = h.rc.ManifestGet(ctx, r)
		if blob != "" {
			os.Remove(blob)
		}
		consulted = entryDig
	}
	return h.judge(kind, b, c, m, err, consulted)
}

func firstDigest(ds ...string) string {
	for _, d := range ds {
		if d != "" {
			return d
		}
	}
	return ""
}

// validOrNone: a Docker-Content-Digest header that is not a digest announces nothing.
func validOrNone(d string) string {
	if _, _, ok := splitDigest(d); ok {
		return d
	}
	return ""
}

func (h *c02Fetch) writeLayout(dir string, index []byte, blob string, body []byte) error {
	if err := os.MkdirAll(dir, 0o755); err != nil {
		return err
	}
	if _, err := os.Stat(filepath.Join(dir, "oci-layout")); err != nil {
		if err := os.WriteFile(filepath.Join(dir, "oci-layout"), []byte(`{"imageLayoutVersion":"1.0.0"}`), 0o644); err != nil {
			return err
		}
	}
	if err := os.WriteFile(filepath.Join(dir, "index.json"), index, 0o644); err != nil {
		return err
	}
	if blob != "" {
		if err := os.MkdirAll(filepath.Dir(blob), 0o755); err != nil {
			return err
		}
		return os.WriteFile(blob, body, 0o644)
	}
	return nil
}

func (h *c02Fetch) judge(kind int, b []byte, c c02Case, m manifest.Manifest, err error, consulted string) string {
	rec := h.rec
	consultedWrong := consulted != "" && !digestNames(consulted, nominalTarget(kind, b)) && !digestNames(consulted, b)
	if consultedWrong {
		h.nWrongConsulted++
		rec.Count("A."+c.Entry+".consulted_digest_names_other_bytes", 1)
	}
	if err != nil {
		h.nErr++
		rec.Count("A."+c.Entry+".errors", 1)
		if errors.Is(err, errs.ErrDigestMismatch) {
			h.nMismatchErr++
			rec.Count("A."+c.Entry+".errors_digest_mismatch", 1)
		}
		if consultedWrong {
			h.nWrongRejected++
		}
		if h.verbose {
			fmt.Println("error:", err)
		}
		return "error"
	}
	h.nSucc++
	h.nSuccEntry[c.Entry]++
	rec.Count("A."+c.Entry+".successes", 1)
	outcome := "ok"
	h.curType = "-"
	if m == nil {
		h.viol("nil-manifest", c, "nil manifest returned without an error")
		return "violation"
	}
	d := m.GetDescriptor()
	h.curType = mtShort(d.MediaType)
	raw, rerr := m.RawBody()
	if rerr != nil {
		h.viol("no-body", c, "manifest built from %d bytes reports RawBody error %v", len(b), rerr)
		return "violation"
	}
	// clause 1: raw bytes preserved byte-for-byte
	rec.Count("A.clause.rawbody_identical", 1)
	if !bytes.Equal(raw, b) {
		h.viol("rawbody-differs", c, "RawBody differs from the bytes supplied: %s", firstDiff(raw, b))
		outcome = "violation"
	}
	// clause 2: reported digest and size are those of the raw bytes (signed schema1: of the JWS payload)
	target := raw
	if d.MediaType == mtD1Signed {
		cands := jwsPayloads(raw)
		if len(cands) == 0 {
			h.viol("signed-without-payload", c, "manifest reported as %s but no JWS payload can be derived from its body", d.MediaType)
			return "violation"
		}
		target = cands[0]
		for _, p := range cands {
			if digestNames(string(d.Digest), p) {
				target = p
			}
		}
		h.nSuccSigned++
		rec.Count("A.successes_signed_payload_checked", 1)
	}
	rec.Count("A.clause.descriptor_of_raw", 1)
	if !digestNames(string(d.Digest), target) || d.Size != int64(len(target)) {
		want, _, _ := splitDigest(string(d.Digest))
		exp := "sha256 would be " + dig("sha256", target)
		if _, ok := hashHex(want, target); ok {
			exp = dig(want, target)
		}
		h.viol("descriptor-not-of-raw", c, "descriptor (digest %s, size %d) is not (hash, length) of the raw bytes (expected %s, %d)", d.Digest, d.Size, exp, len(target))
		outcome = "violation"
	}
	// clause 3: returned only if the raw bytes hash to the digest it was obtained for
	if consulted != "" {
		rec.Count("A.clause.expected_digest_names_raw", 1)
		if !digestNames(consulted, target) {
			h.viol("wrong-digest-accepted", c, "obtained for digest %s but returned bytes whose digest is %s", consulted, d.Digest)
			outcome = "violation"
		} else if a, _, _ := splitDigest(consulted); a == "sha512" {
			h.nSucc512++
		}
	}
	// clause 4: media type does not contradict the one the body declares
	if dm, amb := declaredMT(target); dm != "" && !amb {
		rec.Count("A.clause.mediatype_vs_declared", 1)
		if d.MediaType != dm {
			h.viol("mediatype-contradicts-body", c, "reported media type %q, body declares %q", d.MediaType, dm)
			outcome = "violation"
		}
	}
	// clause 5: what would be pushed is the same bytes
	mj, merr := m.MarshalJSON()
	rec.Count("A.clause.marshal_identical", 1)
	if merr != nil || !bytes.Equal(mj, b) {
		h.viol("marshal-differs", c, "MarshalJSON (err=%v) differs from the bytes supplied: %s", merr, firstDiff(mj, b))
		outcome = "violation"
	}
	if outcome == "ok" {
		outcome = h.repush(kind, b, c, m, d)
	}
	// non-trivial: a digest was actually expected, or byte fidelity was really at stake (the body is
	// not what regclient's own marshaller would produce for the parsed value)
	nontrivial := c.Desc != "-" || c.Ref != "-" || c.Hdr != "-"
	if !nontrivial {
		if cj, e := json.Marshal(m.GetOrig()); e == nil && !bytes.Equal(cj, b) {
			nontrivial = true
		}
	}
	if nontrivial {
		rec.Distinct(fmt.Sprintf("%s|%s|%s|%s", c.Entry, c.Kind, dig("sha256", b)[:23], c.combo()))
	}
	return outcome
}

// repush pushes the fetched manifest to the recording registry (and, once per body and digest
// algorithm, by digest and into an OCI layout) and compares what arrives with the original bytes.
func (h *c02Fetch) repush(kind int, b []byte, c c02Case, m manifest.Manifest, d descriptor.Descriptor) string {
	ctx := context.Background()
	rec := h.rec
	outcome := "ok"
	put := func(r ref.Ref, what string) {
		h.rt.puts, h.rt.putBody, h.rt.other = 0, nil, nil
		err := h.rc.ManifestPut(ctx, r, m)
		rec.Count("A.repush."+what, 1)
		if err != nil {
			rec.Count("A.repush."+what+"_errors", 1)
			if h.verbose {
				fmt.Println("repush", what, "error:", err)
			}
			return
		}
		if len(h.rt.other) > 0 {
			rec.Count("A.repush.unexpected_requests", int64(len(h.rt.other)))
			rec.Note("unexpected request during re-push: " + h.rt.other[0])
		}
		rec.Count("A.clause.repush_bytes_identical", 1)
		if h.rt.puts != 1 || !bytes.Equal(h.rt.putBody, b) {
			h.viol("repush-bytes-differ", c, "%s: registry received %d PUTs; body vs original: %s", what, h.rt.puts, firstDiff(h.rt.putBody, b))
			outcome = "violation"
			return
		}
		if h.rt.putCT != d.MediaType {
			h.viol("repush-content-type", c, "%s: pushed with Content-Type %q, manifest reports %q", what, h.rt.putCT, d.MediaType)
			outcome = "violation"
			return
		}
		h.nPushOK++
	}
	rTag, _ := ref.New("push.example/repo:copy")
	put(rTag, "reg_by_tag")
	once := fmt.Sprintf("%s|%s|%s", c.Entry, dig("sha256", b), d.Digest.Algorithm())
	if h.pushed[once] || outcome != "ok" {
		return outcome
	}
	h.pushed[once] = true
	put(rTag.SetDigest(d.Digest.String()), "reg_by_digest")
	onceOCI := fmt.Sprintf("oci|%s|%s", dig("sha256", b), d.Digest.Algorithm())
	if h.pushed[onceOCI] || outcome != "ok" {
		return outcome
	}
	h.pushed[onceOCI] = true
	// OCI layout: by tag, by its own digest, by the digest of the other algorithm
	target := b
	if d.MediaType == mtD1Signed {
		for _, p := range jwsPayloads(b) {
			if digestNames(d.Digest.String(), p) {
				target = p
			}
		}
	}
	other := "sha512"
	if d.Digest.Algorithm().String() != "sha256" {
		other = "sha256"
	}
	for _, how := range []string{"tag", "digest", "other-algorithm-digest"} {
		os.RemoveAll(h.pushDir)
		r, _ := ref.New("ocidir://" + h.pushDir + ":copy")
		switch how {
		case "digest":
			r = r.SetDigest(d.Digest.String())
		case "other-algorithm-digest":
			r = r.SetDigest(dig(other, target))
		}
		rec.Count("A.repush.ocidir_by_"+how, 1)
		if err := h.rc.ManifestPut(ctx, r, m); err != nil {
			rec.Count("A.repush.ocidir_by_"+how+"_errors", 1)
			if h.verbose {
				fmt.Println("repush ocidir", how, "error:", err)
			}
			continue
		}
		// every manifest file the push created that is named by the manifest's digest (of either
		// algorithm) must hold the original bytes, and at least one such file must exist
		found := 0
		for _, alg := range []string{"sha256", "sha384", "sha512"} {
			hx, _ := hashHex(alg, target)
			fb, err := os.ReadFile(filepath.Join(h.pushDir, "blobs", alg, hx))
			if err != nil {
				continue
			}
			found++
			rec.Count("A.clause.repush_ocidir_bytes_identical", 1)
			if !bytes.Equal(fb, b) {
				h.viol("repush-ocidir-bytes-differ", c, "by %s: blobs/%s/%s differs from the original: %s", how, alg, hx[:12], firstDiff(fb, b))
				outcome = "violation"
			}
		}
		if found == 0 {
			h.viol("repush-ocidir-not-stored", c, "by %s: ManifestPut succeeded but no blob named by the manifest's digest exists in the layout", how)
			outcome = "violation"
		}
		// reading it back through the same reference: an error is not a C02 matter (counted only),
		// but a success must again return the same bytes under the same digest
		m2, err := h.rc.ManifestGet(ctx, r)
		if err != nil {
			rec.Count("A.repush.ocidir_by_"+how+"_then_get_failed", 1)
			if how == "other-algorithm-digest" {
				rec.Note("observation (not a C02 clause): ocidir ManifestPut with a reference digest of the other algorithm succeeds but files the manifest under the manifest's own algorithm; ManifestGet by the pushed reference then fails")
			}
			continue
		}
		rb, _ := m2.RawBody()
		if !bytes.Equal(rb, b) {
			h.viol("repush-ocidir-readback-differs", c, "by %s: read back %s", how, firstDiff(rb, b))
			outcome = "violation"
		}
		if r.Digest != "" && m2.GetDescriptor().Digest.String() != r.Digest {
			h.viol("repush-ocidir-readback-digest", c, "by %s: pushed as %s, read back with digest %s", how, r.Digest, m2.GetDescriptor().Digest)
			outcome = "violation"
		}
	}
	return outcome
}

// ---------------------------------------------------------------------------------------------
// source matrices

func c02NewCombos(full bool, labels []string) []c02Case {
	var out []c02Case
	type mts struct{ dmt, ct int }
	if full {
		for _, d := range labels {
			for _, r := range labels {
				for _, hd := range labels {
					for _, mt := range []mts{{0, 0}, {1, 0}, {2, 0}, {0, 1}, {0, 2}, {0, 3}} {
						out = append(out, c02Case{Entry: "new", Desc: d, Ref: r, Hdr: hd, DescMT: mt.dmt, CT: mt.ct})
					}
				}
			}
			if d != "-" {
				out = append(out, c02Case{Entry: "new", Desc: d, Ref: "-", Hdr: "-", DescSize: 1}, c02Case{Entry: "new", Desc: d, Ref: "-", Hdr: "-", DescSize: 2})
			}
		}
		out = append(out, c02Case{Entry: "new", Desc: "-", Ref: "-", Hdr: "-", DescSize: 2}, c02Case{Entry: "new", Desc: "-", Ref: "-", Hdr: "-", DescMT: 1, CT: 2}, c02Case{Entry: "new", Desc: "-", Ref: "-", Hdr: "-", DescMT: 2, CT: 1})
		return out
	}
	for _, ct := range []int{0, 1} {
		out = append(out, c02Case{Entry: "new", Desc: "-", Ref: "-", Hdr: "-", CT: ct})
		for _, l := range labels[1:] {
			out = append(out, c02Case{Entry: "new", Desc: l, Ref: "-", Hdr: "-", CT: ct},
				c02Case{Entry: "new", Desc: "-", Ref: l, Hdr: "-", CT: ct},
				c02Case{Entry: "new", Desc: "-", Ref: "-", Hdr: l, CT: ct})
		}
	}
	return out
}

func c02RegCombos(full bool, labels []string, descFull bool) []c02Case {
	var out []c02Case
	if full {
		type ds struct {
			l    string
			data bool
		}
		descs := []ds{{"-", false}, {"R256", false}, {"W256", false}, {"R512", false}, {"R256", true}, {"W256", true}, {"R512", true}}
		if !descFull {
			descs = []ds{{"-", false}, {"R256", true}, {"W256", true}}
		}
		for _, d := range descs {
			for _, r := range labels {
				for _, hd := range labels {
					for _, ct := range []int{0, 1, 2, 3} {
						out = append(out, c02Case{Entry: "reg", Desc: d.l, Data: d.data, Ref: r, Hdr: hd, CT: ct})
					}
				}
			}
		}
		return out
	}
	for _, ct := range []int{1, 0} {
		for _, r := range []string{"-", "R256", "W256", "R512"} {
			for _, hd := range []string{"-", "R256", "W256", "R512", "INV"} {
				out = append(out, c02Case{Entry: "reg", Desc: "-", Ref: r, Hdr: hd, CT: ct})
			}
		}
	}
	out = append(out, c02Case{Entry: "reg", Desc: "R256", Data: true, Ref: "-", Hdr: "-", CT: 1}, c02Case{Entry: "reg", Desc: "W256", Data: true, Ref: "-", Hdr: "-", CT: 1})
	return out
}

// c02RegCacheCombos: entry "regc" (cached client with follow-up fetches), core bodies only.
func c02RegCacheCombos() []c02Case {
	var out []c02Case
	for _, d := range []string{"-", "R256"} {
		for _, r := range []string{"-", "R256", "W256", "R512"} {
			for _, hd := range []string{"-", "R256", "W256", "R512", "ALT256"} {
				out = append(out, c02Case{Entry: "regc", Desc: d, Ref: r, Hdr: hd, CT: 1})
			}
		}
	}
	return out
}

func c02OCIDirCombos(full bool, labels []string) []c02Case {
	var out []c02Case
	if full {
		for _, l := range labels[1:] {
			for dmt := 0; dmt < 3; dmt++ {
				for ds := 0; ds < 3; ds++ {
					out = append(out, c02Case{Entry: "ocidir", Desc: l, Ref: "-", Hdr: "-", DescMT: dmt, DescSize: ds})
					out = append(out, c02Case{Entry: "ocidir", Desc: "-", Ref: l, Hdr: "-", DescMT: dmt, DescSize: ds})
				}
			}
			out = append(out, c02Case{Entry: "ocidir", Desc: "-", Ref: l, Hdr: "-", Entryless: true})
		}
		return out
	}
	for _, l := range []string{"R256", "W256", "R512", "ALT256"} {
		out = append(out, c02Case{Entry: "ocidir", Desc: l, Ref: "-", Hdr: "-", DescMT: 1, DescSize: 1})
	}
	for _, l := range []string{"R256", "W256", "R512"} {
		out = append(out, c02Case{Entry: "ocidir", Desc: "-", Ref: l, Hdr: "-", Entryless: true})
	}
	out = append(out, c02Case{Entry: "ocidir", Desc: "R256", Ref: "-", Hdr: "-", DescMT: 0, DescSize: 2},
		c02Case{Entry: "ocidir", Desc: "R256", Ref: "-", Hdr: "-", DescMT: 2, DescSize: 0},
		c02Case{Entry: "ocidir", Desc: "R256", Ref: "-", Hdr: "-", DescMT: 0, DescSize: 0},
		c02Case{Entry: "ocidir", Desc: "R512", Ref: "-", Hdr: "-", DescMT: 2, DescSize: 2})
	return out
}

// ---------------------------------------------------------------------------------------------

func kindByName(n string) int {
	for i, k := range c02KindName {
		if k == n {
			return i
		}
	}
	return -1
}

func TestVerifC02Fetch(t *testing.T) {
	rec := ev.New()
	defer rec.Flush(t)
	rec.SampleCap = 3
	maxPerm := 5
	labels := c02DigLabels
	if rec.Thorough() {
		maxPerm = 6
		labels = c02DigLabelsThorough
	}
	rec.Rule("part A: case = (entry point ∈ {manifest.New, RegClient.ManifestGet over reg, RegClient.ManifestGet over ocidir, RegClient.ManifestGet over reg through a client with the manifest cache on followed by get and head by every digest that took part (core bodies)}) × manifest body × source combination. " +
		"Bodies: 7 generated kinds (OCI image/index/artifact, Docker image/list, schema1, synthetic signed schema1) × [19 content variants (annotations present/{}/null, subject, embedded data, artifactType, mediaType declared/absent/contradicting/wrong-case key, unknown member at top/descriptor/platform level, float size, empty list) × 7 whitespace styles × escaped/raw strings × nested member order] ∪ [every permutation of the top-level keys (≤5 permuted keys quick, ≤6 thorough) × 2 styles], plus the real signed fixture in 5 envelope variants and 9 degenerate bodies. " +
		"Sources: digest label ∈ {none, right sha256, wrong sha256, right sha512, wrong sha512, sha256 of a different encoding of the same value (signed: of the whole envelope), syntactically invalid; thorough adds unknown algorithm, upper-case hex, right sha384} for each of descriptor / reference / Docker-Content-Digest (new, reg) or index entry / reference (ocidir), × media-type source (descriptor or Content-Type: none/agreeing/contradicting/with parameter) × descriptor size right/wrong/zero × descriptor with embedded data. " +
		"quick: full source matrix × the core bodies (content variants in 2 encodings, fixture, degenerate) and single-source matrix × all other bodies; thorough: full 10-label matrix × core bodies, full 7-label matrix × all other bodies (counts in A.combos_per_*_body). " +
		"distinct_nontrivial = distinct (entry, body, source combination) among cases that returned a manifest and in which at least one expected digest was supplied or the body differs from regclient's own marshalling of the parsed value")
	rec.Assume("when several expected digests are supplied only the first in the documented precedence descriptor > reference > Docker-Content-Digest is demanded to name the bytes (manifest.New documents that later digests are ignored); a Docker-Content-Digest value that is not a digest announces nothing")
	rec.Assume("crypto/sha256, crypto/sha512 and encoding/json of the Go standard library are trusted; schema1 signatures are not verified (regclient does not verify them either), only the JWS payload framing is re-derived")
	bodies := c02Bodies(maxPerm)
	rec.Info("A.bodies_total", len(bodies))
	h := newC02Fetch(rec)

	if rd := rec.ReplayData(); rd != nil {
		var c c02Case
		if err := json.Unmarshal(rd, &c); err != nil {
			rec.HarnessError("replay: %v", err)
			return
		}
		if c.Part != "A" {
			return
		}
		b, err := base64.StdEncoding.DecodeString(c.BodyB64)
		if err != nil || kindByName(c.Kind) < 0 {
			rec.HarnessError("replay: bad body or kind: %v", err)
			return
		}
		h.verbose = true
		fmt.Printf("replay part A: entry=%s kind=%s label=%s %s\nbody (%d bytes): %s\n", c.Entry, c.Kind, c.Label, c.combo(), len(b), short(b, 600))
		out := h.run(kindByName(c.Kind), b, c)
		fmt.Println("outcome:", out)
		return
	}

	// quick:    core bodies × full matrix (7 labels);  other bodies × single-source matrix (7 labels)
	// thorough: core bodies × full matrix (10 labels); other bodies × full matrix (7 labels, descriptor
	//           option of RegClient.ManifestGet reduced to none / right+data / wrong+data) plus the
	//           single-source matrix of the 3 extra labels
	var coreSets, restSets [][]c02Case
	if rec.Thorough() {
		coreSets = [][]c02Case{c02NewCombos(true, labels), c02RegCombos(true, labels, true), c02OCIDirCombos(true, labels), c02RegCacheCombos()}
		extra := append([]string{"-"}, labels[len(c02DigLabels):]...)
		restSets = [][]c02Case{c02NewCombos(true, c02DigLabels), c02RegCombos(true, c02DigLabels, false), c02OCIDirCombos(true, c02DigLabels),
			c02NewCombos(false, extra)}
	} else {
		coreSets = [][]c02Case{c02NewCombos(true, labels), c02RegCombos(true, labels, true), c02OCIDirCombos(true, labels), c02RegCacheCombos()}
		restSets = [][]c02Case{c02NewCombos(false, labels), c02RegCombos(false, labels, true), c02OCIDirCombos(false, labels)}
	}
	count := func(sets [][]c02Case) map[string]int {
		m := map[string]int{}
		for _, set := range sets {
			for _, c := range set {
				m[c.Entry]++
			}
		}
		return m
	}
	rec.Info("A.combos_per_core_body", count(coreSets))
	rec.Info("A.combos_per_other_body", count(restSets))
	outcomes := map[string]int64{}
	expired := false
	sampled := 0
	for bi, body := range bodies {
		if !rec.Mine(bi) {
			continue
		}
		if rec.Expired() {
			rec.NotExhaustive(fmt.Sprintf("part A: wall-clock budget reached in shard %d at body %d of %d", rec.ShardI, bi, len(bodies)))
			expired = true
			break
		}
		rec.Count("A.bodies", 1)
		rec.Count("A.bodies."+c02KindName[body.Kind], 1)
		sets := restSets
		if body.Core {
			sets = coreSets
			rec.Count("A.bodies_core", 1)
		}
		b64 := base64.StdEncoding.EncodeToString(body.B)
		for _, set := range sets {
			for ci, c := range set {
				c.Part, c.Kind, c.Label, c.BodyB64 = "A", c02KindName[body.Kind], body.Label, b64
				o := h.run(body.Kind, body.B, c)
				outcomes[o]++
				if (o == "ok" && c.Ref == "R512" && c.Hdr == "W256" && sampled&1 == 0) || (o == "error" && c.Desc == "ALT256" && sampled&2 == 0) || (o == "ok" && c.Entry == "ocidir" && sampled&4 == 0) {
					switch {
					case o == "error":
						sampled |= 2
					case c.Entry == "ocidir":
						sampled |= 4
					default:
						sampled |= 1
					}
					s := c
					s.BodyB64 = ""
					rec.Sample(map[string]any{"case": s, "body": short(body.B, 160), "outcome": o})
				}
				_ = ci
			}
		}
	}
	// vacuity guards (a shard that ran out of budget has already been reported as not exhaustive)
	if expired {
		return
	}
	if h.nSucc == 0 || h.nErr == 0 {
		rec.HarnessError("part A vacuous: successes=%d errors=%d", h.nSucc, h.nErr)
	}
	for _, e := range []string{"new", "reg", "ocidir"} {
		if h.nSuccEntry[e] == 0 {
			rec.HarnessError("part A vacuous: no successful fetch through %s", e)
		}
	}
	if h.nWrongConsulted == 0 || h.nMismatchErr == 0 {
		rec.HarnessError("part A vacuous: wrong-digest cases=%d, digest-mismatch errors=%d", h.nWrongConsulted, h.nMismatchErr)
	}
	if h.nSucc512 == 0 || h.nSuccSigned == 0 || h.nPushOK == 0 {
		rec.HarnessError("part A vacuous: sha512 successes=%d signed successes=%d pushes=%d", h.nSucc512, h.nSuccSigned, h.nPushOK)
	}
	rec.Count("A.wrong_digest_cases", h.nWrongConsulted)
	rec.Count("A.wrong_digest_cases_rejected", h.nWrongRejected)
}
