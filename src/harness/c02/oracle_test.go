package hc02

// Oracle helpers for C02. Nothing in this file calls regclient or go-digest: hashes come straight
// from crypto/sha256 and crypto/sha512, digests are parsed by hand, the schema1 JWS payload is
// unwrapped from the "protected" header as the schema1 specification describes.

import (
	"bytes"
	"crypto/sha256"
	"crypto/sha512"
	"encoding/base64"
	"encoding/hex"
	"encoding/json"
	"fmt"
	"strings"
)

func hashHex(alg string, b []byte) (string, bool) {
	switch alg {
	case "sha256":
		h := sha256.Sum256(b)
		return hex.EncodeToString(h[:]), true
	case "sha384":
		h := sha512.Sum384(b)
		return hex.EncodeToString(h[:]), true
	case "sha512":
		h := sha512.Sum512(b)
		return hex.EncodeToString(h[:]), true
	}
	return "", false
}

func dig(alg string, b []byte) string {
	h, _ := hashHex(alg, b)
	return alg + ":" + h
}

// splitDigest parses "alg:hex" by the rules of the OCI image spec for the registered algorithms.
func splitDigest(s string) (alg, enc string, ok bool) {
	i := strings.IndexByte(s, ':')
	if i < 0 {
		return "", "", false
	}
	alg, enc = s[:i], s[i+1:]
	want := map[string]int{"sha256": 64, "sha384": 96, "sha512": 128}[alg]
	if want == 0 || len(enc) != want {
		return alg, enc, false
	}
	for _, c := range []byte(enc) {
		if !(c >= '0' && c <= '9' || c >= 'a' && c <= 'f') {
			return alg, enc, false
		}
	}
	return alg, enc, true
}

// digestNames reports whether the syntactically valid digest d is the hash of b.
func digestNames(d string, b []byte) bool {
	alg, enc, ok := splitDigest(d)
	if !ok {
		return false
	}
	h, ok := hashHex(alg, b)
	return ok && h == enc
}

func b64url(s string) ([]byte, error) {
	s = strings.TrimRight(s, "=")
	return base64.RawURLEncoding.DecodeString(s)
}

// jwsPayload re-derives the signed payload of a schema1 pretty-JWS body: the first formatLength
// bytes of the body followed by the decoded formatTail, both taken from the "protected" header of
// the signature block(s).
func jwsPayload(body []byte) ([]byte, error) {
	var env struct {
		Signatures []struct {
			Protected string `json:"protected"`
		} `json:"signatures"`
	}
	if err := json.Unmarshal(body, &env); err != nil {
		return nil, err
	}
	if len(env.Signatures) == 0 {
		return nil, fmt.Errorf("no signatures")
	}
	var payload []byte
	for i, s := range env.Signatures {
		pb, err := b64url(s.Protected)
		if err != nil {
			return nil, err
		}
		var prot struct {
			FormatLength *int    `json:"formatLength"`
			FormatTail   *string `json:"formatTail"`
		}
		if err := json.Unmarshal(pb, &prot); err != nil {
			return nil, err
		}
		if prot.FormatLength == nil || prot.FormatTail == nil {
			return nil, fmt.Errorf("protected header lacks formatLength/formatTail")
		}
		tail, err := b64url(*prot.FormatTail)
		if err != nil {
			return nil, err
		}
		if *prot.FormatLength < 0 || *prot.FormatLength > len(body) {
			return nil, fmt.Errorf("formatLength out of range")
		}
		p := append(append([]byte{}, body[:*prot.FormatLength]...), tail...)
		if i > 0 && !bytes.Equal(p, payload) {
			return nil, fmt.Errorf("signature blocks disagree about the payload")
		}
		payload = p
	}
	return payload, nil
}

// declaredMT returns the value of the top-level member spelled exactly "mediaType" of a JSON
// object, "" when there is none; ambiguous is set when the member occurs more than once with
// different values or is not a string.
func declaredMT(body []byte) (mt string, ambiguous bool) {
	dec := json.NewDecoder(bytes.NewReader(body))
	tok, err := dec.Token()
	if err != nil || tok != json.Delim('{') {
		return "", false
	}
	n := 0
	for dec.More() {
		kt, err := dec.Token()
		if err != nil {
			return mt, true
		}
		k, _ := kt.(string)
		var raw json.RawMessage
		if err := dec.Decode(&raw); err != nil {
			return mt, true
		}
		if k == "mediaType" {
			var s string
			if err := json.Unmarshal(raw, &s); err != nil {
				return mt, true
			}
			if n > 0 && s != mt {
				ambiguous = true
			}
			mt = s
			n++
		}
	}
	return mt, ambiguous
}

func short(b []byte, n int) string {
	if len(b) <= n {
		return string(b)
	}
	return string(b[:n]) + fmt.Sprintf("…(+%d bytes)", len(b)-n)
}

// firstDiff describes where two byte strings start to differ.
func firstDiff(a, b []byte) string {
	n := len(a)
	if len(b) < n {
		n = len(b)
	}
	i := 0
	for i < n && a[i] == b[i] {
		i++
	}
	lo := i - 20
	if lo < 0 {
		lo = 0
	}
	ha, hb := i+30, i+30
	if ha > len(a) {
		ha = len(a)
	}
	if hb > len(b) {
		hb = len(b)
	}
	return fmt.Sprintf("len %d vs %d, first difference at byte %d: %q vs %q", len(a), len(b), i, a[lo:ha], b[lo:hb])
}

// jwsPayloads returns the candidate payloads of a signed schema1 body. formatLength counts bytes of
// the signed JSON document; whether white space in front of the document belongs to it is not
// settled by the schema1 description (the reference implementation applies it to whatever bytes it
// is handed), so both readings are candidates: the body as it is, and the body without surrounding
// JSON white space. For bodies that start with "{" the two coincide.
func jwsPayloads(body []byte) [][]byte {
	var out [][]byte
	if p, err := jwsPayload(body); err == nil && json.Valid(p) {
		out = append(out, p)
	}
	if t := bytes.Trim(body, " \t\r\n"); len(t) != len(body) {
		if p, err := jwsPayload(t); err == nil && json.Valid(p) {
			out = append(out, p)
		}
	}
	return out
}

func mtShort(mt string) string {
	switch mt {
	case mtOCIImage:
		return "oci-image"
	case mtOCIIndex:
		return "oci-index"
	case mtOCIArt:
		return "oci-artifact"
	case mtD2Image:
		return "docker2-image"
	case mtD2List:
		return "docker2-list"
	case mtD1:
		return "schema1"
	case mtD1Signed:
		return "schema1-signed"
	}
	return "other"
}
