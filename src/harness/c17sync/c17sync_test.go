package main

// C17 (regsync use site) — regsync limits the number of sync steps that run at once with a throttle
// and gives its slot back while it waits for the source's pull rate limit to recover. Entries run
// exactly as runOnce starts them (one goroutine per entry, real rootOpts.process) against a model
// source that reports a rate limit; the explorer decides at every manifest HEAD/GET of the source
// whether the remaining quota is reported above or below the configured minimum, whether the
// request fails, and whether the run is cancelled there. Afterwards every slot must be free again
// and, unless cancelled, every entry must have finished.

import (
	"context"
	"encoding/json"
	"errors"
	"fmt"
	"io"
	"log/slog"
	"net/http"
	"strings"
	"testing"

	"github.com/regclient/regclient/internal/pqueue"
	"github.com/regclient/regclient/internal/verif/ev"
	"github.com/regclient/regclient/internal/verif/explore"
	"github.com/regclient/regclient/internal/verif/graphs"
	"github.com/regclient/regclient/internal/verif/modelreg"
	"github.com/regclient/regclient/internal/verif/qsched"
	"github.com/regclient/regclient/internal/verif/rcenv"
)

const (
	c17Src, c17Tgt = "src.example", "tgt.example"
)

type c17Cfg struct {
	Entries  int `json:"entries"`
	Parallel int `json:"parallel"`
}

func (c c17Cfg) String() string { return fmt.Sprintf("entries=%d parallel=%d", c.Entries, c.Parallel) }

var c17Answers = []string{"quota-ok", "quota-low", "404", "500", "cancel"}

type c17Res struct {
	over     string // first moment at which more steps were admitted than the limit allows
	out      qsched.Outcome
	errs     []string
	devs     []string
	done     int
	phase    string
	panic    any
	canceled bool
	nreq     int
}

// three small single-layer images: the subject is the step throttle, not the copy
var c17g = func() []*graphs.Graph {
	var out []*graphs.Graph
	for _, n := range []string{"a", "b", "c"} {
		g := graphs.New("tiny-"+n, "sha256")
		g.Top = g.SimpleImage(false, "amd64", "layer-"+n).Digest
		out = append(out, g)
	}
	return out
}()

func c17YAML(c c17Cfg) string {
	var sb strings.Builder
	fmt.Fprintf(&sb, "version: 1\ndefaults:\n  parallel: %d\n  ratelimit:\n    min: 10\n    retry: 5m\nsync:\n", c.Parallel)
	for i := 0; i < c.Entries; i++ {
		fmt.Fprintf(&sb, "  - source: %s/proj/app%d:v1\n    target: %s/mirror/app%d:v1\n    type: image\n", c17Src, i, c17Tgt, i)
	}
	return sb.String()
}

func c17Run(t *testing.T, c *explore.Ctx, cfg c17Cfg) *c17Res {
	res := &c17Res{phase: "setup"}
	_, other := qsched.Bubble(t, func() {
		net := modelreg.NewNet()
		f := modelreg.Full()
		s := net.AddHost(c17Src, f)
		for i := 0; i < cfg.Entries; i++ {
			c17g[i%len(c17g)].Load(s.Repo(fmt.Sprintf("proj/app%d", i)), "v1")
		}
		net.AddHost(c17Tgt, f)
		ctx, cancel := context.WithCancel(context.Background())
		defer func() {
			if !res.out.Deadlock && !res.out.Horizon {
				cancel()
			}
		}()
		var sched *qsched.Sched
		var opts *rootOpts
		inCopy := map[string]bool{} // target repositories of the steps that are writing (they hold a slot until they return)
		net.OnArrive = func(e *modelreg.Entry) {
			if sched != nil && opts != nil && res.phase == "run" {
				if e.Host == c17Tgt && e.Mutating() {
					inCopy[e.Repo] = true
				}
				// the slots that can still be taken plus the steps that are writing may never exceed the limit
				if res.over == "" {
					free := 0
					var dones []func()
					for free <= cfg.Parallel {
						d, err := opts.throttle.TryAcquire(context.Background(), throttle{})
						if err != nil || d == nil {
							break
						}
						dones = append(dones, d)
						free++
					}
					for _, d := range dones {
						d()
					}
					if free+len(inCopy) > cfg.Parallel {
						res.over = fmt.Sprintf("at request %d (%s) %d step(s) are writing and %d further slot(s) can be taken, limit %d", e.Seq, e, len(inCopy), free, cfg.Parallel)
					}
				}
				sched.Point(qsched.KHTTP, "")
			} else if sched != nil {
				sched.Point(qsched.KHTTP, "")
			}
		}
		net.Decide = func(e *modelreg.Entry) *modelreg.Answer {
			res.nreq++
			if res.nreq > 2000 {
				return &modelreg.Answer{Err: errors.New("harness: request horizon")}
			}
			if e.Host != c17Src || !strings.HasPrefix(e.Kind, "manifest-") || (e.Method != "HEAD" && e.Method != "GET") || res.phase != "run" {
				return nil
			}
			var def *modelreg.Answer
			net.With(func() { def = net.Peek(e) })
			if def == nil || def.Status != 200 {
				return nil
			}
			ch := c.Choose("src", len(c17Answers), nil)
			a := c17Answers[ch]
			if ch > 0 {
				res.devs = append(res.devs, fmt.Sprintf("%s@%d", a, e.Seq))
			}
			quota := func(remain int) *modelreg.Answer {
				h := def.Header.Clone()
				h.Set("RateLimit-Limit", "100;w=21600")
				h.Set("RateLimit-Remaining", fmt.Sprintf("%d;w=21600", remain))
				return &modelreg.Answer{Status: def.Status, Header: h, Body: def.Body, Note: a}
			}
			switch a {
			case "quota-ok":
				return quota(50)
			case "quota-low":
				return quota(3)
			case "404":
				return &modelreg.Answer{Status: 404, Header: http.Header{}, Body: []byte("{}"), Note: "fault-404"}
			case "500":
				return &modelreg.Answer{Status: 500, Header: http.Header{}, Body: []byte("{}"), Note: "fault-500"}
			case "cancel":
				res.canceled = true
				cancel()
				return &modelreg.Answer{Err: context.Canceled, Note: "fault-cancel"}
			}
			return nil
		}
		conf, err := ConfigLoadReader(strings.NewReader(c17YAML(cfg)))
		if err != nil {
			panic(explore.HarnessError{Msg: "config does not load: " + err.Error()})
		}
		opts = &rootOpts{
			conf:     conf,
			rc:       rcenv.New(net, []string{c17Src, c17Tgt}, rcenv.Opts{RetryLimit: 2}),
			throttle: pqueue.New(pqueue.Opts[throttle]{Max: cfg.Parallel}),
			log:      slog.New(slog.NewTextHandler(io.Discard, nil)),
		}
		threads := map[string]func(*qsched.Sched){}
		var names []string
		errCh := make([]error, cfg.Entries)
		finished := make([]bool, cfg.Entries)
		for i, s := range opts.conf.Sync {
			n := fmt.Sprintf("entry%d", i)
			names = append(names, n)
			threads[n] = func(sc *qsched.Sched) {
				sched = sc
				errCh[i] = opts.process(ctx, s, actionCopy)
				finished[i] = true
				delete(inCopy, fmt.Sprintf("mirror/app%d", i))
			}
		}
		res.phase = "run"
		// request arrivals are scheduling points: a step can be overtaken in the middle of its copy
		res.out = qsched.Run(c, qsched.Config{Mode: qsched.Preemption, Branch: map[qsched.Kind]bool{qsched.KHTTP: true}}, threads, names)
		sched = nil
		for i := range finished {
			if finished[i] {
				res.done++
			}
			if errCh[i] != nil {
				res.errs = append(res.errs, errCh[i].Error())
			}
		}
		if res.out.Deadlock || res.out.Horizon {
			return
		}
		// everybody has returned: all slots must be free
		res.phase = "probe"
		for k := 0; k < cfg.Parallel; k++ {
			done, err := opts.throttle.TryAcquire(context.Background(), throttle{})
			if err != nil || done == nil {
				res.phase = fmt.Sprintf("slot-missing:%d-of-%d-free", k, cfg.Parallel)
				return
			}
			defer done()
		}
		res.phase = "done"
	})
	res.panic = other
	return res
}

func c17Judge(cfg c17Cfg, r *c17Res) (string, string) {
	if r.panic != nil {
		return "panic", fmt.Sprint(r.panic)
	}
	if r.out.Panic != nil {
		return "panic", fmt.Sprint(r.out.Panic)
	}
	if r.nreq > 2000 {
		return "no-termination", "more than 2000 requests"
	}
	kinds := map[string]bool{}
	for _, d := range r.devs {
		kinds[strings.SplitN(d, "@", 2)[0]] = true
	}
	var ks []string
	for _, a := range c17Answers {
		if kinds[a] {
			ks = append(ks, a)
		}
	}
	k := strings.Join(ks, "+")
	if k == "" {
		k = "none"
	}
	if r.over != "" {
		return "regsync-over-limit answers=" + k, fmt.Sprintf("more sync steps admitted than defaults.parallel allows: %s; answers %v", r.over, r.devs)
	}
	if r.out.Deadlock || r.out.Horizon {
		return "regsync-steps-blocked answers=" + k, fmt.Sprintf("%d of %d sync steps returned, the others wait for ever (%s); answers %v", r.done, cfg.Entries, r.out.DeadlockAt, r.devs)
	}
	if strings.HasPrefix(r.phase, "slot-missing") {
		return "regsync-slot-lost answers=" + k, fmt.Sprintf("all %d sync steps returned but the throttle is not free again (%s); answers %v errors %v", cfg.Entries, r.phase, r.devs, r.errs)
	}
	if r.phase != "done" {
		return "harness", "ended in phase " + r.phase
	}
	return "", ""
}

type c17Replay struct {
	Cfg     c17Cfg `json:"cfg"`
	Choices []int  `json:"choices"`
}

func TestVerifC17Sync(t *testing.T) {
	rec := ev.New()
	defer rec.Flush(t)
	rec.Rule("regsync use site: 1-3 image entries with a source rate-limit minimum, defaults.parallel 1-2 (quick: at most two entries when parallel is 2; thorough up to 4 entries / parallel 3), started as runOnce starts them on the real rootOpts.process; at every manifest HEAD/GET of the source the model answers {quota above the minimum, quota below the minimum (the step gives its slot back, sleeps in virtual time, asks for a slot again), 404, 500, cancellation of the run}; request arrivals are scheduling points; every execution with at most k deviations in total (a non-default answer or a pre-emption of a running step; k=2 quick, 3 thorough). Oracle: at every request arrival the number of steps that are writing to the target plus the slots that can still be taken does not exceed defaults.parallel; every step returns (no step waits for ever); afterwards all slots of the throttle can be taken again. distinct_nontrivial = distinct (configuration, answers, outcome)")
	if rd := rec.ReplayData(); rd != nil {
		var rp c17Replay
		if err := json.Unmarshal(rd, &rp); err != nil {
			rec.HarnessError("replay: %v", err)
			return
		}
		r := c17Run(t, explore.NewCtx(rp.Choices), rp.Cfg)
		k, m := c17Judge(rp.Cfg, r)
		fmt.Printf("replay %s choices=%v answers=%v done=%d errs=%v phase=%s\nverdict: %s %s\n", rp.Cfg, rp.Choices, r.devs, r.done, r.errs, r.phase, k, m)
		rec.Eval(1)
		if k != "" {
			rec.Violation(k, m, rp)
		}
		return
	}
	var items []c17Cfg
	maxE, maxP := 3, 2
	if rec.Thorough() {
		maxE, maxP = 4, 3
	}
	for e := 1; e <= maxE; e++ {
		for p := 1; p <= maxP && p <= e+1; p++ {
			if !rec.Thorough() && e >= 3 && p >= 2 {
				continue // three overlapping steps: thorough tier
			}
			items = append(items, c17Cfg{Entries: e, Parallel: p})
		}
	}
	bound := 2
	if rec.Thorough() {
		bound = 3
	}
	for _, cfg := range items {
		if rec.Expired() {
			rec.NotExhaustive("budget reached")
			break
		}
		runOne := func(c *explore.Ctx) explore.Result {
			r := c17Run(t, c, cfg)
			k, m := c17Judge(cfg, r)
			c.Logf("%v done=%d errs=%d %s", r.devs, r.done, len(r.errs), r.phase)
			return explore.Result{Outcome: fmt.Sprintf("%s done=%d errs=%d", strings.Join(r.devs, ","), r.done, len(r.errs)), VKey: k, Violation: m}
		}
		ex := &explore.Explorer{Bound: bound, Run: runOne, Stop: rec.Expired, DetCheckEvery: 211,
			Mine: func(k int) bool { return k%rec.NShards == rec.ShardI }, Root: rec.ShardI == 0}
		ex.OnExec = func(c *explore.Ctx, r explore.Result) {
			if r.VKey == "harness" {
				rec.HarnessError("%s: %s (%s)", cfg, r.Violation, c.Describe())
				return
			}
			if r.Violation != "" {
				r2 := runOne(explore.NewCtx(c.Choices()))
				if r2.VKey != r.VKey {
					rec.HarnessError("violation %q of %s not reproduced (%q)", r.VKey, cfg, r2.VKey)
					return
				}
				rec.Violation(r.VKey, r.Violation+"\nconfiguration: "+cfg.String()+"\nanswers: "+c.Describe(), c17Replay{cfg, explore.Trim(c.Choices())})
			}
			rec.Distinct(cfg.String() + "#" + r.Outcome)
		}
		func() {
			defer func() {
				if p := recover(); p != nil {
					rec.HarnessError("configuration %s: %v", cfg, p)
				}
			}()
			ex.Explore()
		}()
		rec.Eval(ex.Stats.Executions)
		rec.Count("executions", ex.Stats.Executions)
		if ex.Stats.Capped {
			rec.NotExhaustive("budget reached inside " + cfg.String())
		}
		if rec.ShardI == 0 {
			rec.Count("configurations", 1)
			rec.Sample(map[string]any{"configuration": cfg.String(), "answer_bound": bound})
		}
	}
}
