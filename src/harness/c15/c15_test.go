package hc15

// C15 — image references parse canonically, round-trip, and reject malformed names.
//
// Exhaustive enumeration of (1) the grammar-generated universe of gen.go, (2) every string at edit
// distance one (thorough: also two, for a short seed list) from the seeds over a 20-symbol
// alphabet, (3) every byte string over that alphabet up to a length bound; every string is passed
// to the real ref.New / ref.NewHost / CommonName / SetTag / SetDigest / AddDigest and
// config.HostNewName, and judged by three clauses of decreasing opinion (see DESIGN.md, C15).

import (
	"encoding/hex"
	"encoding/json"
	"fmt"
	"hash/fnv"
	"strings"
	"syscall"
	"testing"

	"github.com/regclient/regclient/config"
	"github.com/regclient/regclient/internal/verif/ev"
	"github.com/regclient/regclient/types/ref"
)

type replayCase struct {
	S      string `json:"s_quoted"` // %q form, for the reader
	SHex   string `json:"s_hex"`    // exact bytes
	Class  string `json:"class"`
	Sub    string `json:"sub"`
	Origin string `json:"origin"`
	Exp    *Exp   `json:"expected,omitempty"`
	HostN1 bool   `json:"host_law,omitempty"` // the string was judged as a host name (NewHost law)
}

func mkReplay(c Case) replayCase {
	rp := replayCase{S: fmt.Sprintf("%q", c.S), SHex: hex.EncodeToString([]byte(c.S)), Class: c.Class, Sub: c.Sub, Origin: c.Origin}
	if c.Class == Accept {
		e := c.Exp
		rp.Exp = &e
	}
	return rp
}

func fieldsOf(r ref.Ref) Exp {
	return Exp{Scheme: r.Scheme, Registry: r.Registry, Repository: r.Repository, Tag: r.Tag, Digest: r.Digest, Path: r.Path}
}

func diffField(a, b Exp) string {
	switch {
	case a.Scheme != b.Scheme:
		return "Scheme"
	case a.Registry != b.Registry:
		return "Registry"
	case a.Repository != b.Repository:
		return "Repository"
	case a.Tag != b.Tag:
		return "Tag"
	case a.Digest != b.Digest:
		return "Digest"
	case a.Path != b.Path:
		return "Path"
	}
	return ""
}

const (
	lawTag    = "v2.0_x"
	lawDigest = "sha256:00112233445566778899aabbccddeeff00112233445566778899aabbccddeeff"
)

type judge struct {
	rec     *ev.Rec
	verbose bool
	// vacuity bookkeeping (per shard; summed through counters)
	n map[string]int64
}

func (j *judge) count(name string) { j.n[name]++ }

func (j *judge) flushCounts() {
	for k, v := range j.n {
		j.rec.Count(k, v)
	}
	var ru syscall.Rusage
	if syscall.Getrusage(syscall.RUSAGE_SELF, &ru) == nil {
		j.rec.Count("cpu_ms", (ru.Utime.Sec+ru.Stime.Sec)*1000+int64(ru.Utime.Usec+ru.Stime.Usec)/1000)
	}
}

func (j *judge) viol(c Case, key, format string, a ...any) {
	msg := fmt.Sprintf("input %q (origin %s, class %s, %s): ", c.S, c.Origin, c.Class, c.Sub) + fmt.Sprintf(format, a...)
	if j.verbose {
		fmt.Println("VIOLATION", key, "\n  ", msg)
	}
	j.rec.Violation(key, msg, mkReplay(c))
}

// spelled reports whether s is one of the documented spellings of the parsed reference: every
// character of an accepted string must be accounted for by the components it parsed to.
func spelled(s string, r ref.Ref) bool {
	switch r.Scheme {
	case "reg":
		regs := []string{r.Registry + "/"}
		if r.Registry == hubName {
			regs = []string{"docker.io/", "", "index.docker.io/", "registry-1.docker.io/"}
		}
		repos := []string{r.Repository}
		if r.Registry == hubName && strings.HasPrefix(r.Repository, "library/") && !strings.Contains(r.Repository[len("library/"):], "/") {
			repos = append(repos, r.Repository[len("library/"):])
		}
		tags := []string{""}
		if r.Tag != "" {
			tags[0] = ":" + r.Tag
			if r.Tag == "latest" && r.Digest == "" {
				tags = append(tags, "")
			}
		}
		dig := ""
		if r.Digest != "" {
			dig = "@" + r.Digest
		}
		for _, rg := range regs {
			if !strings.HasPrefix(s, rg) {
				continue
			}
			for _, rp := range repos {
				for _, tg := range tags {
					if s == rg+rp+tg+dig {
						return true
					}
				}
			}
		}
		return false
	default:
		want := r.Scheme + "://" + r.Path
		if r.Tag != "" {
			want += ":" + r.Tag
		}
		if r.Digest != "" {
			want += "@" + r.Digest
		}
		return s == want
	}
}

// Judge runs one string through the real parser and evaluates the three clauses.
func (j *judge) Judge(c Case) (bool, Exp) {
	rec := j.rec
	r, err := ref.New(c.S)
	accepted := err == nil
	if j.verbose {
		fmt.Printf("ref.New(%q): err=%v parsed=%+v\n", c.S, err, fieldsOf(r))
	}
	// clause (i)
	switch {
	case c.Class == Accept:
		j.count("clause1.by_construction.cases")
		if !accepted {
			j.viol(c, "by-construction/rejected "+c.Sub, "assembled from valid components %+v but rejected: %v", c.Exp, err)
		} else if f := diffField(fieldsOf(r), c.Exp); f != "" {
			j.viol(c, "by-construction/field-"+f+" "+c.Sub, "parsed to %+v, assembled from %+v", fieldsOf(r), c.Exp)
		} else if r.Reference != c.S {
			j.viol(c, "by-construction/reference-field "+c.Sub, "Reference field is %q", r.Reference)
		}
	case strings.HasPrefix(c.Class, "reject/"):
		// clause (ii)
		j.count("clause2." + c.Class + ".cases")
		if accepted {
			j.viol(c, "named-"+c.Class+"/accepted "+c.Sub, "must be rejected, was accepted as %+v", fieldsOf(r))
		} else {
			j.count("clause2." + c.Class + ".rejected")
		}
	default:
		if accepted {
			j.count("free." + c.Origin + ".accepted")
		} else {
			j.count("free." + c.Origin + ".rejected")
		}
	}
	if c.Class != Free || accepted {
		rec.Distinct(c.Origin + "\x00" + c.S)
	}
	if !accepted {
		// an error must come with the zero value (nothing half-parsed leaks out)
		if !r.IsZero() || r.Reference != "" {
			j.viol(c, "error-with-nonzero-ref", "error %v returned together with %+v", err, r)
		}
		return false, Exp{}
	}
	j.laws(c, r)
	return true, fieldsOf(r)
}

func (j *judge) laws(c Case, r ref.Ref) {
	j.count("clause3.laws.accepted_strings")
	sch := "scheme=" + r.Scheme
	f := fieldsOf(r)
	// accounting: nothing of the input was dropped or invented
	j.count("clause3.accounting")
	if !spelled(c.S, r) {
		j.viol(c, "laws/accepted-but-not-accounted "+sch, "accepted as %+v, but the input is not a spelling of these components (part of it was dropped or reinterpreted)", f)
	}
	// print and re-parse
	cn := r.CommonName()
	printable := cn != ""
	if !printable {
		j.viol(c, "laws/print/empty-common-name "+sch, "accepted as %+v, but CommonName() returns the empty string, so the reference cannot be printed and parsed again", f)
		j.count("clause3.unprintable")
	} else {
		j.count("clause3.roundtrip")
		r2, err := ref.New(cn)
		if err != nil {
			j.viol(c, "laws/roundtrip/reparse-error "+sch, "parsed %+v, CommonName %q does not parse: %v", f, cn, err)
		} else if d := diffField(fieldsOf(r2), f); d != "" {
			j.viol(c, "laws/roundtrip/field-"+d+" "+sch, "parsed %+v, CommonName %q re-parses to %+v", f, cn, fieldsOf(r2))
		} else if cn2 := r2.CommonName(); cn2 != cn {
			j.viol(c, "laws/roundtrip/print-not-idempotent "+sch, "CommonName %q, printed again %q", cn, cn2)
		}
	}
	// replace tag / digest
	type setCase struct {
		name string
		got  ref.Ref
		want Exp
	}
	wantTag, wantDig, wantAdd := f, f, f
	wantTag.Tag, wantTag.Digest = lawTag, ""
	wantDig.Tag, wantDig.Digest = "", lawDigest
	wantAdd.Digest = lawDigest
	cases := []setCase{
		{"SetTag", r.SetTag(lawTag), wantTag},
		{"SetDigest", r.SetDigest(lawDigest), wantDig},
		{"AddDigest", r.AddDigest(lawDigest), wantAdd},
	}
	// replacing a component by the value it already has must do the rest of the setter's job too:
	// SetTag unsets the digest, SetDigest unsets the tag; and setters applied one after the other
	{
		wSameTag, wSameDig, wEmptyTag := f, f, f
		wSameTag.Digest = ""
		wSameDig.Tag = ""
		wEmptyTag.Tag, wEmptyTag.Digest = "", ""
		cases = append(cases,
			setCase{"SetTag(same)", r.SetTag(r.Tag), wSameTag},
			setCase{"SetTag(empty)", r.SetTag(""), wEmptyTag},
			setCase{"AddDigest.SetDigest(same)", r.AddDigest(lawDigest).SetDigest(lawDigest), wantDig},
			setCase{"AddDigest.SetTag(same)", r.AddDigest(lawDigest).SetTag(r.Tag), wSameTag},
			setCase{"SetTag.AddDigest.SetDigest(same)", r.SetTag(lawTag).AddDigest(lawDigest).SetDigest(lawDigest), wantDig},
		)
		if r.Digest != "" {
			cases = append(cases, setCase{"SetDigest(same)", r.SetDigest(r.Digest), wSameDig})
		}
	}
	for _, sc := range cases {
		j.count("clause3.set." + sc.name)
		if d := diffField(fieldsOf(sc.got), sc.want); d != "" {
			j.viol(c, "laws/"+sc.name+"/changed-"+d+" "+sch, "%s on %+v gave %+v, want %+v", sc.name, f, fieldsOf(sc.got), sc.want)
			continue
		}
		if fieldsOf(r) != f {
			j.viol(c, "laws/"+sc.name+"/mutated-receiver "+sch, "receiver changed to %+v", fieldsOf(r))
		}
		if !printable {
			continue
		}
		if sc.got.Reference != sc.got.CommonName() {
			j.viol(c, "laws/"+sc.name+"/reference-not-reset "+sch, "Reference %q, CommonName %q", sc.got.Reference, sc.got.CommonName())
			continue
		}
		r3, err := ref.New(sc.got.Reference)
		if err == nil && sc.want.Tag == "" && sc.want.Digest == "" && r3.Scheme == "reg" && r3.Tag == "latest" {
			// a registry reference without tag and digest prints as the bare repository, which parses
			// with the default tag: documented, not a round-trip failure
			r3.Tag = ""
		}
		if err != nil {
			j.viol(c, "laws/"+sc.name+"/reparse-error "+sch, "%s gave %q which does not parse: %v", sc.name, sc.got.Reference, err)
		} else if d := diffField(fieldsOf(r3), sc.want); d != "" {
			j.viol(c, "laws/"+sc.name+"/roundtrip-field-"+d+" "+sch, "%s gave %q which re-parses to %+v, want %+v", sc.name, sc.got.Reference, fieldsOf(r3), sc.want)
		}
	}
	// the same components through NewHost and the host configuration
	switch r.Scheme {
	case "reg":
		j.count("clause3.newhost.registry")
		h, err := ref.NewHost(r.Registry)
		if err != nil {
			j.viol(c, "laws/newhost/registry-rejected", "registry %q of an accepted reference is rejected by NewHost: %v", r.Registry, err)
		} else if h.Scheme != "reg" || h.Registry != r.Registry || h.Repository != "" || h.Tag != "" || h.Digest != "" || h.Path != "" {
			j.viol(c, "laws/newhost/registry-differs", "NewHost(%q) = %+v", r.Registry, fieldsOf(h))
		}
		ch := config.HostNewName(r.Registry)
		if ch == nil || ch.Name != r.Registry || !config.HostValidate(r.Registry) {
			j.viol(c, "laws/config-host/name-differs", "config.HostNewName(%q).Name = %q, HostValidate = %v", r.Registry, ch.Name, config.HostValidate(r.Registry))
		} else if r.Registry == hubName && ch.Hostname != "registry-1.docker.io" {
			j.viol(c, "laws/config-host/hub-hostname", "Docker Hub host entry connects to %q", ch.Hostname)
		}
	default:
		j.count("clause3.newhost.path")
		for _, hs := range []string{r.Scheme + "://" + r.Path, c.S} {
			h, err := ref.NewHost(hs)
			if err != nil {
				j.viol(c, "laws/newhost/path-rejected "+sch, "NewHost(%q): %v", hs, err)
			} else if h.Scheme != r.Scheme || h.Path != r.Path || h.Registry != "" || h.Repository != "" {
				j.viol(c, "laws/newhost/path-differs "+sch, "NewHost(%q) = %+v, reference path %q", hs, fieldsOf(h), r.Path)
			}
		}
	}
}

// JudgeHost evaluates the host/first-component consistency law on an arbitrary string: whatever
// NewHost accepts as a registry must be the registry of "<x>/repo".
func (j *judge) JudgeHost(x string, origin string) {
	c := Case{S: x, Class: Free, Sub: "host-law", Origin: origin}
	h, err := ref.NewHost(x)
	if j.verbose {
		fmt.Printf("ref.NewHost(%q): err=%v parsed=%+v\n", x, err, fieldsOf(h))
	}
	if err != nil {
		j.count("hostlaw." + origin + ".rejected")
		if !h.IsZero() {
			j.viol(c, "hostlaw/error-with-nonzero-ref", "error %v with %+v", err, h)
		}
		return
	}
	j.count("hostlaw." + origin + ".accepted")
	j.rec.Distinct("host\x00" + x)
	switch h.Scheme {
	case "reg":
		if h.Registry != x {
			j.viol(c, "hostlaw/registry-not-verbatim", "NewHost accepted it with registry %q", h.Registry)
			return
		}
		r, err := ref.New(x + "/repo")
		if j.verbose {
			fmt.Printf("ref.New(%q): err=%v parsed=%+v\n", x+"/repo", err, fieldsOf(r))
		}
		wantReg, wantRepo := x, "repo"
		switch x {
		case "docker.io", "index.docker.io", "registry-1.docker.io":
			wantReg, wantRepo = hubName, "library/repo"
		}
		if err != nil {
			j.viol(c, "hostlaw/host-not-usable-in-ref", "NewHost accepts %q but ref.New(%q) fails: %v", x, x+"/repo", err)
		} else if r.Registry != wantReg || r.Repository != wantRepo {
			j.viol(c, "hostlaw/host-reinterpreted-in-ref", "NewHost accepts %q as a registry but ref.New(%q) = %+v", x, x+"/repo", fieldsOf(r))
		}
	default:
		if !strings.HasPrefix(x, h.Scheme+"://"+h.Path) {
			j.viol(c, "hostlaw/path-not-verbatim", "NewHost = %+v", fieldsOf(h))
		}
	}
}

func strHash(s string) int {
	h := fnv.New32a()
	h.Write([]byte(s))
	return int(h.Sum32() & 0x7fffffff)
}

func TestVerifC15(t *testing.T) {
	rec := ev.New()
	defer rec.Flush(t)
	thorough := rec.Thorough()
	rawLen := 4
	if thorough {
		rawLen = 5
	}
	rec.Rule(fmt.Sprintf("universe = (1) grammar: every first-element form (%d) × every path of 1–3 components over a %d-component alphabet × every tag form (%d) × every digest form (%d) with at most one malformed part, plus one malformed repository component (upper case / empty) at every position, layout references for %d paths × 2 schemes, %d unknown schemes × all seeds; "+
		"(2) every string at edit distance 1 (insert/delete/replace over a 20-symbol alphabet at every position) of %d seeds%s; (3) every byte string of length ≤ %d over that alphabet. "+
		"Every string is executed on the real ref.New and judged; distinct_nontrivial = distinct (origin, string) pairs for which the oracle had an opinion (by-construction accept or named reject class) or which the real parser accepted so that the law clause ran (raw/edited strings that are rejected without the oracle having an opinion are not counted), plus distinct strings accepted by NewHost in the host-law pass",
		len(Hosts(thorough)), len(Comps(thorough)), len(Tags(thorough)), len(Digests(thorough)), len(OciPaths(thorough)), len(UnknownSchemes), len(Seeds(thorough)),
		map[bool]string{false: "", true: fmt.Sprintf(" and at edit distance 2 of %d short seeds", len(ShortSeeds()))}[thorough], rawLen))
	rec.Assume("the generator's component lists are themselves inside the documented grammar (they are short literal lists in harness/c15/gen.go, reviewed by hand)")
	rec.Assume("documented normalisation: first element of a multi-element name is a registry iff it contains '.' or ':', is 'localhost' or has an upper-case letter; Docker Hub names expand to docker.io/library/…; default tag latest; SetTag clears the digest, SetDigest clears the tag, AddDigest keeps the tag (doc comments of types/ref)")
	j := &judge{rec: rec, n: map[string]int64{}}
	defer j.flushCounts()

	if rd := rec.ReplayData(); rd != nil {
		var rp replayCase
		if err := json.Unmarshal(rd, &rp); err != nil {
			rec.HarnessError("replay: %v", err)
			return
		}
		b, err := hex.DecodeString(rp.SHex)
		if err != nil {
			rec.HarnessError("replay: s_hex: %v", err)
			return
		}
		c := Case{S: string(b), Class: rp.Class, Sub: rp.Sub, Origin: rp.Origin}
		if rp.Exp != nil {
			c.Exp = *rp.Exp
		}
		j.verbose = true
		fmt.Printf("replay: %q class=%s sub=%s origin=%s\n", c.S, c.Class, c.Sub, c.Origin)
		if rp.HostN1 || rp.Sub == "host-law" {
			j.JudgeHost(c.S, c.Origin)
		} else {
			j.Judge(c)
		}
		rec.Eval(1)
		fmt.Printf("replay: %d violation(s) reproduced\n", rec.NViolations())
		return
	}

	// one sample per shard; the category rotates with the shard number so that the merged evidence
	// shows different kinds of cases
	cats := []func(c Case, acc bool) bool{
		func(c Case, acc bool) bool { return c.Origin == OriginGram && c.Class == Accept && c.Exp.Scheme == "reg" },
		func(c Case, acc bool) bool { return c.Origin == OriginEdit && acc },
		func(c Case, acc bool) bool { return c.Class == RejUpper },
		func(c Case, acc bool) bool { return c.Origin == OriginRaw && acc },
		func(c Case, acc bool) bool { return c.Class == RejTag },
		func(c Case, acc bool) bool { return c.Class == Accept && c.Exp.Scheme != "reg" },
		func(c Case, acc bool) bool { return c.Class == RejDigest },
		func(c Case, acc bool) bool { return c.Origin == OriginEdit && !acc },
	}
	sampled := false
	sample := func(c Case, acc bool, got Exp) {
		if sampled || !cats[rec.ShardI%len(cats)](c, acc) || strHash(c.S)%5 != 0 {
			return
		}
		sampled = true
		s := c.S
		if len(s) > 90 {
			s = s[:90] + "…"
		}
		m := map[string]any{"origin": c.Origin, "class": c.Class, "sub": c.Sub, "input": fmt.Sprintf("%q", s), "accepted": acc}
		if acc {
			m["parsed"] = got
		}
		rec.Sample(m)
	}
	expired := false
	check := func() bool {
		if expired {
			return true
		}
		if rec.Expired() {
			expired = true
			rec.NotExhaustive(fmt.Sprintf("wall-clock budget reached in shard %d", rec.ShardI))
		}
		return expired
	}

	// (1) grammar
	var n int64
	Grammar(thorough, func(i int) bool { return !check() && rec.Mine(i) }, func(c Case) {
		acc, got := j.Judge(c)
		sample(c, acc, got)
		n++
	})
	rec.Eval(n)
	rec.Count("universe.grammar", n)

	// (2) edits: sharded by hash of the edited string, so that equal strings produced from
	// different seeds are judged (and counted) in one shard only
	n = 0
	seen := map[string]struct{}{}
	for _, s := range Seeds(thorough) {
		if check() {
			break
		}
		Edits(s, func(m string) {
			if !rec.Mine(strHash(m)) {
				return
			}
			if _, dup := seen[m]; dup {
				rec.Count("universe.edit1.duplicates_skipped", 1)
				return
			}
			seen[m] = struct{}{}
			c := Case{S: m, Class: Free, Sub: "edit1", Origin: OriginEdit}
			acc, got := j.Judge(c)
			sample(c, acc, got)
			n++
		})
	}
	rec.Eval(n)
	rec.Count("universe.edit1", n)
	if thorough {
		n = 0
		for _, s := range ShortSeeds() {
			seen2 := map[string]struct{}{}
			Edits(s, func(m1 string) {
				if check() {
					return
				}
				Edits(m1, func(m string) {
					if !rec.Mine(strHash(m)) {
						return
					}
					if _, dup := seen2[m]; dup {
						return
					}
					seen2[m] = struct{}{}
					j.Judge(Case{S: m, Class: Free, Sub: "edit2", Origin: OriginEdit2})
					n++
				})
			})
		}
		rec.Eval(n)
		rec.Count("universe.edit2", n)
	}

	// (3) raw strings, as references and as host names
	n = 0
	var nh int64
	idx := 0
	Raw(rawLen, func(s string) {
		idx++
		if !rec.Mine(idx) || check() {
			return
		}
		c := Case{S: s, Class: Free, Sub: "raw", Origin: OriginRaw}
		acc, got := j.Judge(c)
		sample(c, acc, got)
		n++
		j.JudgeHost(s, OriginRaw)
		nh++
	})
	nraw := n
	rec.Eval(n)
	rec.Count("universe.raw", n)
	// host law on every first-element form and its single edits
	for _, h := range Hosts(thorough) {
		if h.Text == "" {
			continue
		}
		if rec.Mine(strHash(h.Text)) {
			j.JudgeHost(h.Text, "host")
			nh++
			if h.Reg {
				if hr, err := ref.NewHost(h.Text); err != nil || hr.Registry != h.Text {
					j.viol(Case{S: h.Text, Class: Accept, Sub: "host-law", Origin: "host"}, "by-construction/host-rejected kind="+h.Kind, "well-formed registry name rejected by NewHost: %v", err)
				}
			}
		}
		Edits(h.Text, func(m string) {
			if !rec.Mine(strHash(m)) {
				return
			}
			j.JudgeHost(m, "host-edit")
			nh++
		})
	}
	rec.Eval(nh)
	rec.Count("universe.hostlaw", nh)

	// vacuity: the shard must have seen accepts and rejects where it had cases at all
	if j.n["clause1.by_construction.cases"] > 0 && j.n["clause3.laws.accepted_strings"] == 0 {
		rec.HarnessError("vacuous: no string was accepted in shard %d", rec.ShardI)
	}
	if nraw > 1000 && j.n["free.raw.rejected"] == 0 {
		rec.HarnessError("vacuous: no raw string was rejected in shard %d", rec.ShardI)
	}
}
