// Package hc15 holds the input generator and the oracle of check C15 (image references parse
// canonically, round-trip, and reject malformed names).
//
// Everything in this file is written from the reference grammar as documented (Docker's
// distribution/reference grammar plus regclient's ocidir:// extension), NOT from the regular
// expressions in types/ref/ref.go. The generator assembles strings from named components and keeps
// book of what it assembled; the oracle never re-parses a string to form an opinion.
//
// The file is a non-test file on purpose: the in-package harness for cmd/regctl (harness/c15ctl)
// imports it to drive `regctl ref` with the same universe.
package hc15

import (
	"strings"
)

// Exp is the component tuple a string was assembled from, after the documented normalisation.
type Exp struct {
	Scheme, Registry, Repository, Tag, Digest, Path string
}

// Classes of a generated case.
const (
	Accept      = "accept"                 // clause (i): assembled from known-good components, must parse to Exp
	RejUpper    = "reject/upper-case-repo" // clause (ii) ...
	RejEmpty    = "reject/empty-component"
	RejTag      = "reject/tag"
	RejDigest   = "reject/digest"
	RejScheme   = "reject/unknown-scheme"
	Free        = "free" // no accept/reject opinion: laws only
	OriginGram  = "grammar"
	OriginEdit  = "edit"
	OriginEdit2 = "edit2"
	OriginRaw   = "raw"
)

type Case struct {
	S      string
	Class  string
	Sub    string // finer bookkeeping (host kind, which bad component), used in violation keys
	Exp    Exp
	Origin string
}

const hexLower = "0123456789abcdef"

// HexN returns n hex digits (a fixed pattern that uses every digit).
func HexN(n int, upper bool) string {
	var sb strings.Builder
	for i := 0; i < n; i++ {
		sb.WriteByte(hexLower[(i*7+3)%16])
	}
	if upper {
		return strings.ToUpper(sb.String())
	}
	return sb.String()
}

func tagN(n int) string {
	const al = "abcXYZ019_.-"
	var sb strings.Builder
	sb.WriteByte('t')
	for i := 1; i < n; i++ {
		sb.WriteByte(al[(i*5)%len(al)])
	}
	return sb.String()
}

// Host is a first element offered by the generator.
type Host struct {
	Text string
	Kind string // bookkeeping only
	Reg  bool   // true: a registry by the documented rule (has '.' or ':', is localhost, or has upper case)
}

const (
	hubName = "docker.io"
)

// Hosts returns the first-element forms. Every entry with Reg==true is a well-formed host name
// (labels of letters, digits and inner hyphens; optional trailing dot; optional :port).
func Hosts(thorough bool) []Host {
	h := []Host{
		{"", "none", false},
		{"registry", "single-label", false},
		{"example.com", "dotted", true},
		{"a.b.c", "dotted", true},
		{"reg-1.example.io", "dotted", true},
		{"example.com:5000", "port", true},
		{"registry:5000", "port", true},
		{"a:1", "port", true},
		{"127.0.0.1", "ipv4", true},
		{"10.0.0.1:5000", "ipv4-port", true},
		{"localhost", "localhost", true},
		{"localhost:5000", "localhost-port", true},
		{"Registry", "upper", true},
		{"EXAMPLE", "upper", true},
		{"Example.com", "upper-dotted", true},
		{"myReg", "upper", true},
		{"my-Reg:5000", "upper-port", true},
		{"example.com.", "trailing-dot", true},
		{"example.", "trailing-dot", true},
		{"example.com.:5000", "trailing-dot-port", true},
		{"docker.io", "hub", true},
		{"index.docker.io", "hub-legacy", true},
		{"registry-1.docker.io", "hub-dns", true},
	}
	if thorough {
		h = append(h,
			Host{"myorg", "single-label", false},
			Host{"0", "single-label", false},
			Host{"1.2", "dotted", true},
			Host{"x-y.z-w", "dotted", true},
			Host{"a.b.c.d.e", "dotted", true},
			Host{"192.168.1.1:80", "ipv4-port", true},
			Host{"localhost:1", "localhost-port", true},
			Host{"Example.COM:5000", "upper-port", true},
			Host{"R2", "upper", true},
			Host{"my-Reg", "upper", true},
			Host{"A.b", "upper-dotted", true},
			Host{"example.io.", "trailing-dot", true},
			Host{"docker.io:443", "hub-with-port", true},
		)
	}
	return h
}

// Comps returns the repository path component alphabet (all valid: lower-case alphanumerics joined
// by one of the separators . _ __ - -- ---).
func Comps(thorough bool) []string {
	c := []string{"a", "repo", "r2", "0", "a.b", "a_b", "a__b", "a-b", "a--b"}
	if thorough {
		c = append(c, "a---b", "x1.y2-z3", "library", "a.b_c")
	}
	return c
}

type part struct {
	Text  string
	Class string // Accept or a reject class
	Sub   string
}

func Tags(thorough bool) []part {
	t := []part{
		{"", Accept, "none"},
		{"t", Accept, "1-char"},
		{"latest", Accept, "latest"},
		{"v1.2.3", Accept, "dots"},
		{"_x", Accept, "leading-underscore"},
		{"A-B_c.d", Accept, "mixed"},
		{"5000", Accept, "numeric"},
		{tagN(128), Accept, "128-chars"},
		{tagN(129), RejTag, "129-chars"},
		{"-x", RejTag, "leading-dash"},
		{".x", RejTag, "leading-dot"},
		{"a$b", RejTag, "illegal-char-dollar"},
		{"a b", RejTag, "illegal-char-space"},
		{"a!b", RejTag, "illegal-char-bang"},
	}
	if thorough {
		t = append(t,
			part{"0", Accept, "1-char"},
			part{"T", Accept, "1-char"},
			part{tagN(127), Accept, "127-chars"},
			part{strings.Repeat("1", 128), Accept, "128-digits"},
			part{strings.Repeat("1", 129), RejTag, "129-digits"},
			part{tagN(200), RejTag, "200-chars"},
			part{"a*b", RejTag, "illegal-char-star"},
			part{"a=b", RejTag, "illegal-char-equals"},
			part{"a+b", RejTag, "illegal-char-plus"},
			part{"a~b", RejTag, "illegal-char-tilde"},
			part{"a#b", RejTag, "illegal-char-hash"},
			part{"x-", Accept, "trailing-dash"},
		)
	}
	return t
}

func Digests(thorough bool) []part {
	d := []part{
		{"", Accept, "none"},
		{"sha256:" + HexN(64, false), Accept, "sha256"},
		{"sha512:" + HexN(128, false), Accept, "sha512"},
		{"md5:" + HexN(32, false), Accept, "other-algo-32-hex"},
		{"sha256:" + HexN(64, true), Accept, "upper-hex"},
		{"sha256:" + HexN(31, false), RejDigest, "31-hex"},
		{"sha256:" + HexN(1, false), RejDigest, "1-hex"},
		{"sha256:", RejDigest, "0-hex"},
		{"sha256:" + strings.Repeat("g", 64), RejDigest, "non-hex"},
		// the algorithm: letter-led alphanumeric components joined by exactly one of + . _ -
		{"sha256+b64:" + HexN(64, false), Accept, "algo-two-components"},
		{"a-b_c.d:" + HexN(32, false), Accept, "algo-every-separator"},
		{"sha256@sha512:" + HexN(64, false), RejDigest, "algo-sep-at"},
		{"sha256:extra:" + HexN(64, false), RejDigest, "algo-sep-colon"},
		{"sha256=b64:" + HexN(64, false), RejDigest, "algo-sep-equals"},
		{"sha256/b64:" + HexN(64, false), RejDigest, "algo-sep-slash"},
	}
	if thorough {
		d = append(d,
			part{"sha256,b64:" + HexN(64, false), RejDigest, "algo-sep-comma"},
			part{"sha256;b64:" + HexN(64, false), RejDigest, "algo-sep-semicolon"},
			part{"sha256^b64:" + HexN(64, false), RejDigest, "algo-sep-caret"},
			part{"sha256[b64:" + HexN(64, false), RejDigest, "algo-sep-bracket"},
			part{"sha256?b64:" + HexN(64, false), RejDigest, "algo-sep-question"},
			part{"sha256<b64:" + HexN(64, false), RejDigest, "algo-sep-less"},
			part{"sha256++b64:" + HexN(64, false), RejDigest, "algo-sep-doubled"},
			part{"sha256+:" + HexN(64, false), RejDigest, "algo-sep-trailing"},
			part{"256sha:" + HexN(64, false), RejDigest, "algo-leading-digit"},
			part{"sha256+1b:" + HexN(64, false), RejDigest, "algo-component-leading-digit"},
			part{"blake3:" + HexN(64, false), Accept, "other-algo"},
			part{"sha256:" + HexN(32, false), Accept, "32-hex"},
			part{"sha512:" + HexN(31, false), RejDigest, "31-hex"},
			part{"md5:" + HexN(31, true), RejDigest, "31-hex-upper"},
			part{"sha256:" + strings.Repeat("z", 31), RejDigest, "non-hex"},
		)
	}
	return d
}

// OciPaths returns layout directory paths (clause (i): accepted verbatim as Path).
func OciPaths(thorough bool) []string {
	p := []string{"dir", "./dir", "../dir", "/abs/path", "a/b/c", "dir with space", "dir.v1", "..", ".", "~/oci", "a+b", "UPPER/Case"}
	if thorough {
		p = append(p, "dir/", "-dash", "_u", "a/../b", "x y/z+w/~t", "0")
	}
	return p
}

var UnknownSchemes = []string{"foo", "http", "https", "docker", "oci", "file"}

// registryLike is the documented rule for "the first element of a name with at least one slash is
// a registry": it contains '.' or ':', is "localhost", or contains an upper-case letter.
func registryLike(s string) bool {
	if s == "localhost" || strings.ContainsAny(s, ".:") {
		return true
	}
	return strings.ToLower(s) != s
}

// wellFormedHost is a hand-written recogniser for host[:port] (letters, digits, inner hyphens per
// label, dot separated, optional trailing dot, optional decimal port). Single-label names need two
// characters or more when they are a registry only by virtue of an upper-case letter: shorter
// forms are left to the "free" class.
func wellFormedHost(s string) bool {
	host := s
	if i := strings.IndexByte(s, ':'); i >= 0 {
		host = s[:i]
		port := s[i+1:]
		if port == "" {
			return false
		}
		for _, c := range port {
			if c < '0' || c > '9' {
				return false
			}
		}
	}
	host = strings.TrimSuffix(host, ".")
	if host == "" {
		return false
	}
	for _, l := range strings.Split(host, ".") {
		if l == "" || l[0] == '-' || l[len(l)-1] == '-' {
			return false
		}
		for _, c := range l {
			if !(c >= 'a' && c <= 'z' || c >= 'A' && c <= 'Z' || c >= '0' && c <= '9' || c == '-') {
				return false
			}
		}
	}
	if !strings.ContainsAny(s, ".:") && s != "localhost" && len(s) < 2 {
		return false
	}
	return true
}

// expectReg computes the documented normalisation for a name assembled from elements (all of
// which are valid by construction), an optional tag and an optional digest.
// ok=false: the first element is registry-like by the rule but not a well-formed host; the
// generator has no opinion on such a string.
func expectReg(elems []string, tag, digest string) (Exp, bool) {
	e := Exp{Scheme: "reg", Tag: tag, Digest: digest}
	repo := elems
	if len(elems) >= 2 && registryLike(elems[0]) {
		if !wellFormedHost(elems[0]) {
			return e, false
		}
		e.Registry = elems[0]
		repo = elems[1:]
	}
	switch e.Registry {
	case "", "index.docker.io", "registry-1.docker.io":
		e.Registry = hubName
	}
	e.Repository = strings.Join(repo, "/")
	if e.Registry == hubName && len(repo) == 1 {
		e.Repository = "library/" + e.Repository
	}
	if tag == "" && digest == "" {
		e.Tag = "latest"
	}
	return e, true
}

func suffix(tag, digest part, tagSep, digSep bool) string {
	s := ""
	if tag.Text != "" || tagSep {
		s += ":" + tag.Text
	}
	if digest.Text != "" || digSep {
		s += "@" + digest.Text
	}
	return s
}

// Grammar enumerates the grammar-generated universe. item(i) is called for every outermost work
// item (a first-element × path combination, or a scheme × path combination) and tells whether the
// caller wants it (sharding); yield is called for every case of a wanted item.
func Grammar(thorough bool, item func(i int) bool, yield func(c Case)) {
	hosts := Hosts(thorough)
	comps := Comps(thorough)
	tags := Tags(thorough)
	digs := Digests(thorough)
	maxDepth := 3
	n := 0

	// all tag × digest suffixes, classified; at most one bad part per string
	type sfx struct {
		text        string
		class, sub  string
		tag, digest string
	}
	var sfxs []sfx
	for _, t := range tags {
		for _, d := range digs {
			switch {
			case t.Class == Accept && d.Class == Accept:
				sfxs = append(sfxs, sfx{suffix(t, d, false, false), Accept, "tag=" + t.Sub + ",digest=" + d.Sub, t.Text, d.Text})
			case t.Class != Accept && d.Class == Accept:
				sfxs = append(sfxs, sfx{suffix(t, d, false, false), t.Class, t.Sub, "", ""})
			case t.Class == Accept && d.Class != Accept:
				sfxs = append(sfxs, sfx{suffix(t, d, false, true), d.Class, d.Sub, "", ""})
			}
		}
	}
	// empty tag / empty digest after the separator
	sfxs = append(sfxs,
		sfx{":", RejEmpty, "empty-tag", "", ""},
		sfx{"@", RejEmpty, "empty-digest", "", ""},
		sfx{":@" + digs[1].Text, RejEmpty, "empty-tag-before-digest", "", ""},
		sfx{":v1@", RejEmpty, "empty-digest-after-tag", "", ""},
	)

	badUpper := []string{"Repo", "rePo", "repO", "a-B", "a_B"}

	var paths [][]string
	var rec func(cur []string)
	rec = func(cur []string) {
		if len(cur) > 0 {
			paths = append(paths, append([]string{}, cur...))
		}
		if len(cur) == maxDepth {
			return
		}
		for _, c := range comps {
			rec(append(cur, c))
		}
	}
	rec(nil)

	for _, h := range hosts {
		for _, p := range paths {
			mine := item(n)
			n++
			if !mine {
				continue
			}
			var elems []string
			if h.Text != "" {
				elems = append(elems, h.Text)
			}
			elems = append(elems, p...)
			base := strings.Join(elems, "/")
			// good name × every suffix
			for _, s := range sfxs {
				c := Case{S: base + s.text, Origin: OriginGram, Class: s.class, Sub: "host=" + h.Kind + "," + s.sub}
				if s.class == Accept {
					e, ok := expectReg(elems, s.tag, s.digest)
					if !ok {
						c.Class = Free
						c.Sub = "ambiguous-first-element"
					}
					c.Exp = e
				} else if len(elems) >= 2 && registryLike(elems[0]) && !wellFormedHost(elems[0]) {
					c.Class, c.Sub = Free, "ambiguous-first-element"
				}
				yield(c)
			}
			// one bad repository component, good suffixes (none, tag, digest)
			hostIsReg := len(elems) >= 2 && registryLike(elems[0])
			if hostIsReg && !wellFormedHost(elems[0]) {
				continue
			}
			for i := range elems {
				if h.Text != "" && i == 0 {
					continue // the host element stays
				}
				for _, sx := range []string{"", ":v1", "@" + digs[1].Text} {
					// upper case in the repository part: position 0 of a multi-element name is the
					// host position (an upper-case first element is a registry), so skip it there
					if !(i == 0 && len(elems) >= 2) {
						for _, b := range badUpper {
							el := append([]string{}, elems...)
							el[i] = b
							yield(Case{S: strings.Join(el, "/") + sx, Origin: OriginGram, Class: RejUpper, Sub: "host=" + h.Kind + ",comp=" + b})
						}
					}
					// empty component
					el := append([]string{}, elems...)
					el[i] = ""
					yield(Case{S: strings.Join(el, "/") + sx, Origin: OriginGram, Class: RejEmpty, Sub: "host=" + h.Kind + ",empty-path-component"})
				}
			}
			// trailing slash
			yield(Case{S: base + "/", Origin: OriginGram, Class: RejEmpty, Sub: "host=" + h.Kind + ",trailing-slash"})
			yield(Case{S: base + "/:v1", Origin: OriginGram, Class: RejEmpty, Sub: "host=" + h.Kind + ",trailing-slash"})
		}
	}
	// no name at all
	if item(n) {
		for _, s := range []string{"", ":v1", "@" + digs[1].Text, "/", "//"} {
			yield(Case{S: s, Origin: OriginGram, Class: RejEmpty, Sub: "no-name"})
		}
	}
	n++

	// layout schemes
	for _, scheme := range []string{"ocidir", "ocifile"} {
		for _, p := range OciPaths(thorough) {
			mine := item(n)
			n++
			if !mine {
				continue
			}
			for _, s := range sfxs {
				c := Case{S: scheme + "://" + p + s.text, Origin: OriginGram, Class: s.class, Sub: "scheme=" + scheme + "," + s.sub}
				if s.class == Accept {
					c.Exp = Exp{Scheme: scheme, Path: p, Tag: s.tag, Digest: s.digest}
				}
				yield(c)
			}
		}
	}

	// unknown schemes in front of otherwise good strings
	tails := Seeds(thorough)
	for _, scheme := range UnknownSchemes {
		mine := item(n)
		n++
		if !mine {
			continue
		}
		for _, t := range tails {
			tail := t
			if i := strings.Index(tail, "://"); i >= 0 {
				tail = tail[i+3:]
			}
			yield(Case{S: scheme + "://" + tail, Origin: OriginGram, Class: RejScheme, Sub: "scheme=" + scheme})
		}
	}
}

// Seeds returns the well-formed strings whose single-edit neighbourhoods are enumerated
// (every first-element form × two paths × four suffixes, plus layout references).
func Seeds(thorough bool) []string {
	var out []string
	d256 := "sha256:" + HexN(64, false)
	dmd5 := "md5:" + HexN(32, false)
	for _, h := range Hosts(false) {
		for _, p := range []string{"repo", "a/b-c"} {
			for _, s := range []string{"", ":v1.2", "@" + d256, ":t@" + dmd5} {
				base := p
				if h.Text != "" {
					base = h.Text + "/" + p
				}
				out = append(out, base+s)
			}
		}
	}
	for _, scheme := range []string{"ocidir", "ocifile"} {
		for _, p := range []string{"dir", "../a b/c.d", "/abs/~x+y"} {
			for _, s := range []string{"", ":v1.2", "@" + d256, ":t@" + dmd5} {
				out = append(out, scheme+"://"+p+s)
			}
		}
	}
	return out
}

// ShortSeeds are the seeds whose double-edit neighbourhoods are enumerated in the thorough tier.
func ShortSeeds() []string {
	d := "md5:" + HexN(32, false)
	return []string{
		"repo", "a/b:t", "a.b/c", "a:1/b", "localhost/a", "Ab/c:t", "docker.io/a", "a.b./c",
		"ocidir://d:t", "ocifile://d", "a/b@" + d,
	}
}

// Alphabet is the 20-symbol alphabet used for edits and raw strings.
var Alphabet = []byte{'a', 'b', 'A', '0', '9', 'f', 'F', '.', ':', '/', '@', '-', '_', '+', ' ', '~', '$', '\n', 0xff, 'g'}

// Edits calls yield for every string at edit distance one from s over Alphabet
// (insert at every position, delete every position, replace every position).
func Edits(s string, yield func(string)) {
	b := []byte(s)
	buf := make([]byte, 0, len(b)+1)
	for i := 0; i <= len(b); i++ {
		for _, a := range Alphabet {
			buf = append(buf[:0], b[:i]...)
			buf = append(buf, a)
			buf = append(buf, b[i:]...)
			yield(string(buf))
		}
	}
	for i := 0; i < len(b); i++ {
		buf = append(buf[:0], b[:i]...)
		buf = append(buf, b[i+1:]...)
		yield(string(buf))
		for _, a := range Alphabet {
			if a == b[i] {
				continue
			}
			buf = append(buf[:0], b...)
			buf[i] = a
			yield(string(buf))
		}
	}
}

// Raw calls yield for every byte string over Alphabet with length <= maxLen.
func Raw(maxLen int, yield func(string)) {
	var rec func(cur []byte)
	rec = func(cur []byte) {
		yield(string(cur))
		if len(cur) == maxLen {
			return
		}
		for _, a := range Alphabet {
			rec(append(cur, a))
		}
	}
	rec(make([]byte, 0, maxLen))
}
